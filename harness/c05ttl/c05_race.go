package c05ttl

import (
	"context"
	"errors"
	"fmt"
	"runtime"
	"strings"
	"sync"
	"sync/atomic"

	"github.com/pinealctx/neptune/cache"
	"pgregory.net/rapid"

	"verifharness/vkit"
)

// ---------------------------------------------------------------------------
// part "race-oneshot": k goroutines Get(RemoveAfterGet) the same key at once.
// At most one of them may succeed; exactly one if the key is unexpired.

type OneShotCase struct {
	Impl    string `json:"impl"` // mem | rds
	Size    int    `json:"size"` // mem only; size-1 other keys are set first
	SetTTL  int64  `json:"set_ttl"`
	Dt      int64  `json:"dt"`      // clock advance between the Set and the race
	Getters int    `json:"getters"` // goroutines doing Get(RemoveAfterGet)
	Plain   int    `json:"plain"`   // goroutines doing a plain Get in the middle of it
	Procs   int    `json:"procs"`   // GOMAXPROCS
}

func GenOneShot(t *rapid.T) OneShotCase {
	c := OneShotCase{
		Impl:    rapid.SampledFrom([]string{"mem", "mem", "mem", "rds"}).Draw(t, "impl"),
		Size:    rapid.IntRange(1, 3).Draw(t, "size"),
		Getters: rapid.IntRange(2, 8).Draw(t, "getters"),
		Plain:   rapid.IntRange(0, 2).Draw(t, "plain"),
		Procs:   rapid.SampledFrom([]int{1, 2, 4, 8}).Draw(t, "procs"),
	}
	if c.Impl == "rds" {
		c.SetTTL = rapid.SampledFrom([]int64{1, 2, 5}).Draw(t, "set_ttl")
	} else {
		c.SetTTL = rapid.SampledFrom([]int64{-1, 0, 1, 2, 5}).Draw(t, "set_ttl")
	}
	switch rapid.IntRange(0, 5).Draw(t, "dtkind") {
	case 0: // expired
		c.Dt = c.SetTTL + 1
		if c.SetTTL <= 0 {
			c.Dt = 100
		}
	case 1: // exactly on the deadline (in-memory only)
		c.Dt = c.SetTTL
		if c.SetTTL <= 0 || c.Impl == "rds" {
			c.Dt = 0
		}
	default: // live
		c.Dt = 0
		if c.SetTTL > 1 {
			c.Dt = int64(rapid.IntRange(0, int(c.SetTTL-1)).Draw(t, "dt"))
		}
	}
	return c
}

func ExecOneShot(c OneShotCase) *vkit.Result {
	res := &vkit.Result{}
	if c.Getters < 1 || c.Getters > 64 || c.Plain < 0 || c.Plain > 64 || c.Size < 1 || c.Size > 64 || c.Procs < 1 || c.Procs > 64 || c.Dt < 0 || c.Dt > 1<<40 {
		res.Skip("malformed-case")
		return res
	}
	if c.Impl != "mem" && c.Impl != "rds" {
		res.Skip("unknown-impl")
		return res
	}
	if c.Impl == "rds" && (c.SetTTL <= 0 || c.Dt == c.SetTTL) {
		res.Skip("outside-the-differential-domain")
		return res
	}
	var clk int64 = t0
	clock := func() int64 { return atomic.LoadInt64(&clk) }
	restore := cache.VerifSetNow(clock)
	defer restore()
	defer runtime.GOMAXPROCS(runtime.GOMAXPROCS(c.Procs))
	ctx := context.Background()
	var tc cache.TTLCache
	if c.Impl == "mem" {
		tc = cache.NewTTLMemCache(c.Size, 10)
	} else {
		tc = cache.NewTTLRdsCache(newFakeRedis(clock, ScanCfg{}), rdsPrefix, 10)
	}
	for i := 1; i < c.Size; i++ {
		_ = tc.Set(ctx, fmt.Sprintf("other%d", i), []byte("x"))
	}
	const key, val = "k", "the-value"
	if err := tc.Set(ctx, key, []byte(val), cache.WithTTL(c.SetTTL)); err != nil {
		return res.Failf("race/oneshot/set", "Set returned %v", err)
	}
	atomic.AddInt64(&clk, c.Dt)
	state := "live"
	if c.SetTTL > 0 && c.Dt == c.SetTTL {
		state = "on-deadline"
	} else if c.SetTTL > 0 && c.Dt > c.SetTTL {
		state = "expired"
	}
	res.Class(state)
	res.Class(c.Impl)
	res.Class(fmt.Sprintf("procs=%d", c.Procs))

	n := c.Getters + c.Plain
	type out struct {
		v   []byte
		err error
	}
	outs := make([]out, n)
	start := make(chan struct{})
	var wg sync.WaitGroup
	for g := 0; g < n; g++ {
		wg.Add(1)
		go func(g int) {
			defer wg.Done()
			<-start
			if g < c.Getters {
				outs[g].v, outs[g].err = tc.Get(ctx, key, cache.WithRemoveAfterGet())
			} else {
				outs[g].v, outs[g].err = tc.Get(ctx, key)
			}
		}(g)
	}
	close(start)
	wg.Wait()

	succ := 0
	var desc []string
	for g, o := range outs {
		kind := "consume"
		if g >= c.Getters {
			kind = "plain"
		}
		desc = append(desc, fmt.Sprintf("%s:%s", kind, errName(o.err)))
		if o.err != nil && !errors.Is(o.err, cache.ErrTTLKeyNotFound) {
			return res.Failf("race/oneshot/error", "Get returned %v", o.err)
		}
		if o.err == nil {
			if string(o.v) != val {
				return res.Failf("race/oneshot/value", "a Get returned %q, the key holds %q", o.v, val)
			}
			if state == "expired" {
				return res.Failf("race/oneshot/expired-served", "%s Get hit although the ttl %d elapsed %d s ago", kind, c.SetTTL, c.Dt-c.SetTTL)
			}
			if g < c.Getters {
				succ++
			}
		}
	}
	if succ > 1 {
		return res.Failf("race/oneshot/double-consume", "%d of %d concurrent Get(RemoveAfterGet) succeeded on one key: %v", succ, c.Getters, desc)
	}
	if state == "live" && succ != 1 {
		return res.Failf("race/oneshot/lost", "no Get(RemoveAfterGet) of %d succeeded although the key is unexpired (ttl %d, %d s elapsed): %v", c.Getters, c.SetTTL, c.Dt, desc)
	}
	if v, err := tc.Get(ctx, key); err == nil {
		return res.Failf("race/oneshot/still-there", "after the race (%v) the key is still retrievable (%q)", desc, v)
	}
	res.NonTrivial = state == "live" && c.Getters >= 2
	return res
}

var PartOneShot = &vkit.Part[OneShotCase]{
	Property: Property, Name: "race-oneshot",
	Rule:  "rapid: implementation (mem 3/4, redis-backed over the mutex-guarded fake 1/4), size 1..3 (size-1 other keys set first), Set(k, ttl in {-1,0,1,2,5}), clock advanced to a live instant (2/3), exactly the deadline (mem only) or past it, then 2..8 goroutines Get(k, RemoveAfterGet) plus 0..2 plain Gets released together by one barrier, GOMAXPROCS in {1,2,4,8}, run in a -race binary. Oracle: at most one consuming Get succeeds, exactly one if unexpired, none (consuming or plain) if expired, every hit returns the value, the key is gone afterwards; the race detector is part of the oracle. Non-trivial: unexpired key and >= 2 consumers",
	Quick: 4000, Thorough: 30000,
	Gen: GenOneShot, Exec: ExecOneShot,
}

// ---------------------------------------------------------------------------
// part "race-stress": free-running goroutines execute generated programs on a
// shared in-memory cache. Oracle: race detector + invariants that hold under
// every interleaving.

type StressCase struct {
	Size  int    `json:"size"`
	TTL   int64  `json:"ttl"`
	Keys  int    `json:"keys"`
	Procs int    `json:"procs"`
	Progs [][]Op `json:"progs"`
	// Epi selects the sequential epilogue (see stressEpilogue)
	Epi int `json:"epi,omitempty"`
	// Yield: the clock function gives way to other goroutines before it answers.
	// Every implementation reads the clock inside the section it protects, so the
	// calls of the other goroutines arrive while that section is open (it moves
	// the schedule, it decides nothing)
	Yield bool `json:"yield,omitempty"`
}

func GenStress(t *rapid.T) StressCase {
	c := StressCase{
		Size:  rapid.IntRange(0, 3).Draw(t, "size"),
		TTL:   rapid.SampledFrom([]int64{0, 2, 10}).Draw(t, "ttl"),
		Keys:  rapid.IntRange(1, 3).Draw(t, "keys"),
		Procs: rapid.SampledFrom([]int{2, 4, 8}).Draw(t, "procs"),
	}
	// hot: few keys, longer programs made mostly of Remove / Set / consuming Get,
	// so that calls which unlink an entry and calls which re-create it overlap often
	// clear-hot: few keys; one goroutine alternates Set and Clear (a Clear every
	// 4th to 7th operation, 15..25 %), the others run longer loops of plain Gets
	// with a few Sets, so that calls which read or touch an entry overlap with
	// the call that drops all of them - also with the last such call of the case,
	// after which nothing tidies the recency list up before the epilogue looks
	variant := rapid.IntRange(0, 7).Draw(t, "hot")
	hot, clearHot := variant == 3 || variant == 7, variant == 2 || variant == 6
	g := rapid.IntRange(2, 4).Draw(t, "goroutines")
	lo, hi := 3, 16
	wSet, wGet, wRemove, wClear := 40, 80, 88, 91
	ragFrom := 3 // of 6 Gets: two plain, one update-ttl, three remove-after-get
	if hot {
		c.Size = rapid.IntRange(1, 3).Draw(t, "hot_size")
		c.Keys = rapid.IntRange(1, 2).Draw(t, "hot_keys")
		g = rapid.IntRange(3, 4).Draw(t, "hot_goroutines")
		lo, hi = 10, 24
		wSet, wGet, wRemove, wClear = 38, 55, 95, 97
	}
	if clearHot {
		c.Size = rapid.IntRange(1, 3).Draw(t, "hot_size")
		c.Keys = rapid.IntRange(1, 2).Draw(t, "hot_keys")
		c.TTL = rapid.SampledFrom([]int64{0, 0, 10}).Draw(t, "hot_ttl")
		g = rapid.IntRange(3, 5).Draw(t, "hot_goroutines")
		ragFrom = 6 // five plain, one update-ttl
	}
	c.Epi = rapid.SampledFrom([]int{0, 1, 1, 2}).Draw(t, "epi")
	c.Yield = rapid.IntRange(0, 3).Draw(t, "yield") >= 2 || clearHot && rapid.Bool().Draw(t, "hot_yield")
	for i := 0; i < g; i++ {
		if clearHot && i == 0 { // the goroutine that sets and clears
			lo, hi = 8, 28
			wClear = 100 - rapid.IntRange(0, 1).Draw(t, "hot_adv")
			wRemove = wClear - rapid.IntRange(15, 25).Draw(t, "hot_clear")
			wGet = wRemove - rapid.IntRange(0, 4).Draw(t, "hot_remove")
			wSet = wGet * rapid.IntRange(60, 90).Draw(t, "hot_set") / 100
		} else if clearHot { // the readers
			lo, hi = 30, 80
			wSet, wGet, wRemove, wClear = 12, 98, 99, 100
		}
		n := rapid.IntRange(lo, hi).Draw(t, "n")
		var prog []Op
		for j := 0; j < n; j++ {
			var o Op
			w := rapid.IntRange(0, 99).Draw(t, "kind")
			switch {
			case w < wSet:
				o = Op{Kind: "set", Key: rapid.IntRange(0, c.Keys-1).Draw(t, "key")}
				if rapid.IntRange(0, 2).Draw(t, "has_ttl") == 2 {
					o.HasTTL, o.TTL = true, rapid.SampledFrom([]int64{0, 1, 3}).Draw(t, "sttl")
				}
				o.MNE = rapid.IntRange(0, 3).Draw(t, "mne") == 3
				o.Keep = rapid.IntRange(0, 4).Draw(t, "keep") == 4
			case w < wGet:
				o = Op{Kind: "get", Key: rapid.IntRange(0, c.Keys-1).Draw(t, "key")}
				switch gopt := rapid.IntRange(0, 5).Draw(t, "gopt"); {
				case gopt >= ragFrom:
					o.RAG = true
				case gopt == 2:
					o.Upd, o.TTL = true, rapid.SampledFrom([]int64{0, 2}).Draw(t, "uttl")
				}
			case w < wRemove:
				o = Op{Kind: "remove", Key: rapid.IntRange(0, c.Keys-1).Draw(t, "key")}
			case w < wClear:
				o = Op{Kind: "clear"}
			default:
				o = Op{Kind: "advance", Dt: int64(rapid.IntRange(0, 2).Draw(t, "dt"))}
			}
			prog = append(prog, o)
		}
		c.Progs = append(c.Progs, prog)
	}
	return c
}

func stressValue(g, i int) string { return fmt.Sprintf("g%d.%d", g, i) }

func ExecStress(c StressCase) *vkit.Result {
	res := &vkit.Result{}
	if c.Size < 0 || c.Size > 64 || c.Keys < 1 || c.Keys > maxKeys || c.Procs < 1 || c.Procs > 64 || len(c.Progs) > 16 || c.Epi < 0 || c.Epi > 2 {
		res.Skip("malformed-case")
		return res
	}
	var clk int64 = t0
	var yield int32
	restore := cache.VerifSetNow(func() int64 {
		if atomic.LoadInt32(&yield) != 0 {
			runtime.Gosched()
		}
		return atomic.LoadInt64(&clk)
	})
	defer restore()
	defer runtime.GOMAXPROCS(runtime.GOMAXPROCS(c.Procs))
	ctx := context.Background()
	tc := cache.NewTTLMemCache(c.Size, c.TTL)
	if c.Yield {
		atomic.StoreInt32(&yield, 1)
		res.Class("clock-yields")
	}

	// which key each value was stored under
	owner := map[string]int{}
	for g, prog := range c.Progs {
		for i, o := range prog {
			if o.Kind == "set" && o.Key >= 0 && o.Key < c.Keys {
				owner[stressValue(g, i)] = o.Key
			}
		}
	}
	type rec struct {
		ran bool
		v   []byte
		err error
	}
	recs := make([][]rec, len(c.Progs))
	// a call that panics is reported as such (with the programs) instead of
	// taking the process down
	panics := make([]string, len(c.Progs))
	start := make(chan struct{})
	var wg sync.WaitGroup
	for g := range c.Progs {
		recs[g] = make([]rec, len(c.Progs[g]))
		wg.Add(1)
		go func(g int) {
			defer wg.Done()
			at := -1
			defer func() {
				if p := recover(); p != nil && at >= 0 {
					panics[g] = fmt.Sprintf("g%d [%d] %s panicked: %v", g, at, c.Progs[g][at], p)
				} else if p != nil {
					panics[g] = fmt.Sprintf("g%d panicked: %v", g, p)
				}
			}()
			<-start
			for i, o := range c.Progs[g] {
				at = i
				r := &recs[g][i]
				if (o.Kind == "set" || o.Kind == "get" || o.Kind == "remove") && (o.Key < 0 || o.Key >= c.Keys) {
					continue
				}
				r.ran = true
				switch o.Kind {
				case "set":
					r.err = tc.Set(ctx, keyName(o.Key), []byte(stressValue(g, i)), setOpts(o)...)
				case "get":
					r.v, r.err = tc.Get(ctx, keyName(o.Key), getOpts(o)...)
				case "remove":
					r.err = tc.Remove(ctx, keyName(o.Key))
				case "clear":
					tc.Clear(ctx)
				case "advance":
					if o.Dt >= 0 && o.Dt <= 1000 {
						atomic.AddInt64(&clk, o.Dt)
					}
				default:
					r.ran = false
				}
			}
		}(g)
	}
	close(start)
	wg.Wait()
	atomic.StoreInt32(&yield, 0)

	consumed := map[string]int{}
	hits, consumes := 0, 0
	show := func() string {
		var sb strings.Builder
		for g, prog := range c.Progs {
			fmt.Fprintf(&sb, "\n g%d:", g)
			for i, o := range prog {
				r := recs[g][i]
				switch {
				case !r.ran:
					fmt.Fprintf(&sb, " %s=skipped", o)
				case o.Kind == "get" && r.err == nil:
					fmt.Fprintf(&sb, " %s=%q", o, r.v)
				default:
					fmt.Fprintf(&sb, " %s=%s", o, errName(r.err))
				}
			}
		}
		return sb.String()
	}
	for _, p := range panics {
		if p != "" {
			return res.Failf("race/stress/panic", "%s - no call may fail otherwise than with AlreadyExists / NotFound%s", p, show())
		}
	}
	for g, prog := range c.Progs {
		for i, o := range prog {
			r := recs[g][i]
			if !r.ran {
				res.Skip("op-not-run")
				continue
			}
			switch o.Kind {
			case "set":
				if r.err != nil && !(o.MNE && errors.Is(r.err, cache.ErrTTLKeyExists)) {
					return res.Failf("race/stress/set-error", "g%d %s returned %v%s", g, o, r.err, show())
				}
			case "remove":
				if r.err != nil {
					return res.Failf("race/stress/remove-error", "g%d %s returned %v%s", g, o, r.err, show())
				}
			case "get":
				if r.err != nil {
					if !errors.Is(r.err, cache.ErrTTLKeyNotFound) {
						return res.Failf("race/stress/get-error", "g%d %s returned %v%s", g, o, r.err, show())
					}
					continue
				}
				hits++
				k, known := owner[string(r.v)]
				if !known || k != o.Key {
					return res.Failf("race/stress/value", "g%d %s returned %q, which no Set ever stored under that key%s", g, o, r.v, show())
				}
				if c.Size == 0 {
					return res.Failf("race/stress/bound", "g%d %s hit although size is 0%s", g, o, show())
				}
				if o.RAG {
					consumes++
					consumed[string(r.v)]++
					if consumed[string(r.v)] > 1 {
						return res.Failf("race/stress/double-consume", "the value %q (stored by one Set) was handed out by two successful Get(RemoveAfterGet)%s", r.v, show())
					}
				}
			}
		}
	}
	// quiescent end state
	live := 0
	for k := 0; k < c.Keys; k++ {
		v, err := tc.Get(ctx, keyName(k))
		if err == nil {
			live++
			if kk, known := owner[string(v)]; !known || kk != k {
				return res.Failf("race/stress/value", "final probe of k%d returned %q, which no Set stored under that key%s", k, v, show())
			}
		} else if !errors.Is(err, cache.ErrTTLKeyNotFound) {
			return res.Failf("race/stress/get-error", "final probe of k%d returned %v", k, err)
		}
	}
	if live > c.Size {
		return res.Failf("race/stress/bound", "%d keys retrievable at the end, size is %d%s", live, c.Size, show())
	}
	// sequential epilogue on the very same cache: whatever the concurrent phase
	// left behind, from here on the cache must follow the sequential model
	// (damage to the recency list or the index shows as a lost or surplus key)
	if c.Size <= 64 {
		post := stressEpilogue(c)
		universe := c.Keys + c.Size + 1
		start := atomic.LoadInt64(&clk)
		m := newModel(c.Size, c.TTL, universe, len(post)+universe, start, res)
		r := &memRun{ctx: ctx, tc: tc, m: m, res: res, keys: universe,
			now: func() int64 { return atomic.LoadInt64(&clk) }, advance: func(dt int64) { atomic.AddInt64(&clk, dt) }, vr: newValuer()}
		func() {
			at := 0
			defer func() {
				if p := recover(); p != nil && res.Fail == nil {
					m.failf("panic", "sequential call [%d] panicked: %v", at, p)
				}
			}()
			for i, o := range post {
				at = i
				r.step(i, o)
				if res.Fail != nil {
					return
				}
			}
			at = len(post)
			all := make([]int, universe)
			for k := range all {
				all[k] = k
			}
			r.probe(len(post), all)
		}()
		if res.Fail == nil {
			m.boundCheck()
		}
		res.Class(fmt.Sprintf("epilogue=%d", c.Epi))
		if res.Fail != nil {
			res.Fail.Site = "race/stress/epilogue:" + res.Fail.Site
			res.Fail.Msg += "\nconcurrent phase before it:" + show()
			return res
		}
	}
	tc.Clear(ctx)
	for k := 0; k < c.Keys; k++ {
		if v, err := tc.Get(ctx, keyName(k)); err == nil {
			return res.Failf("race/stress/clear", "k%d still retrievable (%q) after Clear%s", k, v, show())
		}
	}
	if hits > 0 {
		res.Class("hits")
	}
	if consumes > 0 {
		res.Class("consumes")
	}
	if c.Size == 0 {
		res.Class("size-0")
	}
	res.Class(fmt.Sprintf("procs=%d", c.Procs))
	res.NonTrivial = len(c.Progs) >= 2 && hits > 0
	return res
}

// stressEpilogue is the sequential history run after the concurrent phase has
// ended (all goroutines joined): every stressed key is removed (so the model
// knows its state), set again, fresh keys fill the cache exactly up to its size,
// every key is read, then one more fresh key overflows it and everything is read
// again. All Sets carry ttl 0 (no expiry), the clock stands still.
//
// Epi 1: the stressed keys are removed and NOT set again - only fresh keys fill
// the cache and overflow it (an entry of a stressed key that the concurrent
// phase left in the recency list without an index entry then takes the place of
// the key that had to leave: size+1 keys are retrievable). Epi 2: as Epi 0, but
// the stressed keys are read once more before the overflow, so that they are the
// most recently touched keys when an entry has to leave (they must stay).
func stressEpilogue(c StressCase) []Op {
	var ops []Op
	for k := 0; k < c.Keys; k++ {
		ops = append(ops, Op{Kind: "remove", Key: k})
	}
	fresh, filled := c.Keys, 0
	if c.Epi != 1 {
		for k := 0; k < c.Keys; k++ {
			ops = append(ops, Op{Kind: "set", Key: k, HasTTL: true, TTL: 0})
		}
		filled = c.Keys
	}
	for n := filled; n < c.Size; n++ {
		ops = append(ops, Op{Kind: "set", Key: fresh, HasTTL: true, TTL: 0})
		fresh++
	}
	for k := 0; k < fresh; k++ {
		ops = append(ops, Op{Kind: "get", Key: k})
	}
	if c.Epi == 2 {
		for k := 0; k < c.Keys; k++ {
			ops = append(ops, Op{Kind: "get", Key: k})
		}
	}
	ops = append(ops, Op{Kind: "set", Key: fresh, HasTTL: true, TTL: 0})
	for k := 0; k <= fresh; k++ {
		ops = append(ops, Op{Kind: "get", Key: k})
	}
	return ops
}

var PartStress = &vkit.Part[StressCase]{
	Property: Property, Name: "race-stress",
	Rule:  "rapid: in-memory cache of size 0..3, default ttl in {0,2,10}, 1..3 keys, 2..4 free-running goroutines x 3..16 ops (Set with every option 40%, Get 40% half of them remove-after-get, Remove, Clear, clock advance 0..2 through an atomic); a quarter of the cases hot: size 1..3, 1..2 keys, 3..4 goroutines x 10..24 ops with Remove 40%, Set 38%, Get 17%; another quarter clear-hot: size 1..3, 1..2 keys, one goroutine x 8..28 ops of Set and Clear (Clear 15..25%) and 2..4 goroutines x 30..80 ops of plain Gets (86%) with a few Sets; in more than half of the cases the clock function yields the processor before it answers (every implementation reads the clock inside the section it protects); GOMAXPROCS in {2,4,8}, released by one barrier, run in a -race binary. Oracle (valid under every interleaving): race detector; only allowed errors and no panic (site race/stress/panic); every hit returns a value some Set stored under that very key; a stored value is consumed by at most one successful remove-after-get; no hit at size 0; at quiescence at most size keys are retrievable and none after Clear; between the two, a sequential epilogue on the same cache (one of three, drawn: Remove and Set every stressed key, fill up to size with fresh keys, read all, overflow by one, read all / the same with the stressed keys only removed, so that fresh keys alone fill and overflow the cache - a leftover entry of the concurrent phase then shows as size+1 retrievable keys / the first one with the stressed keys read once more before the overflow, so that they must survive it) is judged by the three-valued model of part mem (sites race/stress/epilogue:...). Non-trivial: >= 2 goroutines and at least one hit",
	Quick: 1500, Thorough: 12000,
	Gen: GenStress, Exec: ExecStress,
}

// ---------------------------------------------------------------------------
// part "race-mne": goroutines Set(k, must-not-exist) the same absent key at
// once. The statement makes set-if-absent succeed on an absent key and report
// AlreadyExists on a live one: of the concurrent calls exactly one can have
// found the key absent.

type MNECase struct {
	Impl    string `json:"impl"`    // mem | rds
	Rounds  int    `json:"rounds"`  // distinct keys; all goroutines meet at a barrier before each
	Setters int    `json:"setters"` // goroutines
	Prior   string `json:"prior"`   // state of every key before the race: never-set | removed | consumed | expired | cleared | live
	TTL     int64  `json:"ttl"`     // ttl of the racing Sets (mem: <= 0 allowed)
	Procs   int    `json:"procs"`   // GOMAXPROCS
}

func GenMNE(t *rapid.T) MNECase {
	c := MNECase{
		Impl:    rapid.SampledFrom([]string{"mem", "mem", "rds"}).Draw(t, "impl"),
		Rounds:  rapid.IntRange(1, 16).Draw(t, "rounds"),
		Setters: rapid.IntRange(2, 8).Draw(t, "setters"),
		Prior:   rapid.SampledFrom([]string{"never-set", "never-set", "removed", "consumed", "expired", "cleared", "live"}).Draw(t, "prior"),
		Procs:   rapid.SampledFrom([]int{1, 2, 4, 8}).Draw(t, "procs"),
	}
	if c.Impl == "rds" {
		c.TTL = rapid.SampledFrom([]int64{1, 5, 100}).Draw(t, "ttl")
	} else {
		c.TTL = rapid.SampledFrom([]int64{-1, 0, 1, 5, 100}).Draw(t, "ttl")
	}
	return c
}

func mneValue(g, r int) string { return fmt.Sprintf("s%d.%d", g, r) }

func ExecMNE(c MNECase) *vkit.Result {
	res := &vkit.Result{}
	if c.Rounds < 1 || c.Rounds > 64 || c.Setters < 1 || c.Setters > 64 || c.Procs < 1 || c.Procs > 64 {
		res.Skip("malformed-case")
		return res
	}
	if c.Impl != "mem" && c.Impl != "rds" {
		res.Skip("unknown-impl")
		return res
	}
	if c.Impl == "rds" && c.TTL <= 0 {
		res.Skip("outside-the-differential-domain")
		return res
	}
	var clk int64 = t0
	clock := func() int64 { return atomic.LoadInt64(&clk) }
	restore := cache.VerifSetNow(clock)
	defer restore()
	defer runtime.GOMAXPROCS(runtime.GOMAXPROCS(c.Procs))
	ctx := context.Background()
	var tc cache.TTLCache
	if c.Impl == "mem" {
		// room for every key: nothing is evicted
		tc = cache.NewTTLMemCache(c.Rounds+2, 10)
	} else {
		fake := newFakeRedis(clock, ScanCfg{})
		fake.yield = true
		tc = cache.NewTTLRdsCache(fake, rdsPrefix, 10)
	}
	key := func(r int) string { return fmt.Sprintf("m%d", r) }
	const priorVal = "prior"
	for r := 0; r < c.Rounds; r++ {
		if c.Prior == "never-set" {
			break
		}
		if err := tc.Set(ctx, key(r), []byte(priorVal), cache.WithTTL(3)); err != nil {
			return res.Failf("race/mne/setup", "Set returned %v", err)
		}
	}
	switch c.Prior {
	case "never-set", "live":
	case "removed":
		for r := 0; r < c.Rounds; r++ {
			_ = tc.Remove(ctx, key(r))
		}
	case "consumed":
		for r := 0; r < c.Rounds; r++ {
			if _, err := tc.Get(ctx, key(r), cache.WithRemoveAfterGet()); err != nil {
				return res.Failf("race/mne/setup", "Get(remove-after-get) of a key just set returned %v", err)
			}
		}
	case "expired":
		atomic.AddInt64(&clk, 4)
	case "cleared":
		tc.Clear(ctx)
	default:
		res.Skip("unknown-prior-state")
		return res
	}
	res.Class(c.Impl)
	res.Class("prior:" + c.Prior)
	res.Class(fmt.Sprintf("procs=%d", c.Procs))

	errs := make([][]error, c.Setters)
	// one barrier per round: the last goroutine to arrive releases all of them
	arrived := make([]int64, c.Rounds)
	gates := make([]chan struct{}, c.Rounds)
	for r := range gates {
		gates[r] = make(chan struct{})
	}
	var wg sync.WaitGroup
	for g := 0; g < c.Setters; g++ {
		errs[g] = make([]error, c.Rounds)
		wg.Add(1)
		go func(g int) {
			defer wg.Done()
			for r := 0; r < c.Rounds; r++ {
				if atomic.AddInt64(&arrived[r], 1) == int64(c.Setters) {
					close(gates[r])
				}
				<-gates[r]
				errs[g][r] = tc.Set(ctx, key(r), []byte(mneValue(g, r)), cache.WithMustNotExist(), cache.WithTTL(c.TTL))
			}
		}(g)
	}
	wg.Wait()

	for r := 0; r < c.Rounds; r++ {
		winner, succ := -1, 0
		var desc []string
		for g := 0; g < c.Setters; g++ {
			err := errs[g][r]
			desc = append(desc, errName(err))
			switch {
			case err == nil:
				succ++
				winner = g
			case !errors.Is(err, cache.ErrTTLKeyExists):
				return res.Failf("race/mne/error", "Set(%s, must-not-exist) returned %v", key(r), err)
			}
		}
		want := priorVal
		if c.Prior == "live" {
			if succ != 0 {
				return res.Failf("race/mne/live-overwritten", "%d of %d concurrent Set(%s, must-not-exist) succeeded although the key is live (set with ttl 3, clock unchanged): %v", succ, c.Setters, key(r), desc)
			}
		} else {
			if succ > 1 {
				return res.Failf("race/mne/several-winners", "%d of %d concurrent Set(%s, must-not-exist) succeeded on one absent key (%s): exactly one of them can have found it absent: %v", succ, c.Setters, key(r), c.Prior, desc)
			}
			if succ == 0 {
				return res.Failf("race/mne/no-winner", "none of %d concurrent Set(%s, must-not-exist) succeeded although the key was absent (%s): %v", c.Setters, key(r), c.Prior, desc)
			}
			want = mneValue(winner, r)
		}
		v, err := tc.Get(ctx, key(r))
		if err != nil {
			return res.Failf("race/mne/lost", "after the race (%v) Get(%s) returned %v; the key holds %q and cannot have expired or been evicted", desc, key(r), err, want)
		}
		if string(v) != want {
			return res.Failf("race/mne/value", "after the race (%v) Get(%s) returned %q; the only successful Set stored %q", desc, key(r), v, want)
		}
	}
	res.NonTrivial = c.Prior != "live" && c.Setters >= 2
	return res
}

var PartMNE = &vkit.Part[MNECase]{
	Property: Property, Name: "race-mne",
	Rule:  "rapid: implementation (mem 2/3 with room for every key, redis-backed over the mutex-guarded fake 1/3 - each fake command is atomic, as a Redis command is, and a caller gives way before each command), 1..16 keys all brought into one prior state (never set 2/7, removed, consumed by remove-after-get, ttl elapsed, cleared - absent; or live), then 2..8 goroutines that meet at a barrier before each key and all Set(key, must-not-exist, ttl in {-1,0,1,5,100}; positive for redis) it with a value of their own, GOMAXPROCS in {1,2,4,8}, run in a -race binary. Oracle: on an absent key exactly one Set succeeds and the others report AlreadyExists, on a live key none succeeds; the key then reads the winner's (or the prior) value; only AlreadyExists as an error; the race detector is part of the oracle. Non-trivial: absent keys and >= 2 setters",
	Quick: 1200, Thorough: 12000,
	Gen: GenMNE, Exec: ExecMNE,
}
