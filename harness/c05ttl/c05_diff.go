package c05ttl

import (
	"context"
	"errors"
	"fmt"
	"sort"
	"strings"

	"github.com/pinealctx/neptune/cache"
	"pgregory.net/rapid"

	"verifharness/vkit"
)

// ---------------------------------------------------------------------------
// part "diff": redis-backed implementation vs in-memory implementation
//
// The property restricts the comparison to positive ttls, keep-ttl on live keys
// only, and clock readings that never fall exactly on a deadline. ref is the
// exact reference of the statement under these restrictions (no eviction, no
// "either"): it decides which operations are admissible, both in the generator
// and - because shrinking and hand-written replays can produce anything - again
// in the executor. The oracle itself is the agreement of the two back-ends.

type DiffCase struct {
	TTL  int64   `json:"ttl"` // default ttl of both caches (positive)
	Keys int     `json:"keys"`
	Scan ScanCfg `json:"scan"` // how the fake Redis pages its SCAN replies
	Ops  []Op    `json:"ops"`
}

const diffMaxKeys = 16

type refEntry struct {
	dl       int64
	extended bool  // deadline moved by update-ttl
	oldDl    int64 // deadline before the first update-ttl
	kept     bool
}

type ref struct {
	now  int64
	ttl  int64
	ent  map[int]refEntry
	gone map[int]string // why a key is absent (classes only)
}

func newRef(ttl int64) *ref {
	return &ref{now: t0, ttl: ttl, ent: map[int]refEntry{}, gone: map[int]string{}}
}

func (r *ref) live(k int) bool {
	e, ok := r.ent[k]
	return ok && r.now < e.dl
}

func (r *ref) onDeadline(t int64) bool {
	for _, e := range r.ent {
		if e.dl == t {
			return true
		}
	}
	return false
}

// nearest pending deadline
func (r *ref) nearest() (int64, bool) {
	best, ok := int64(0), false
	for _, e := range r.ent {
		if e.dl > r.now && (!ok || e.dl < best) {
			best, ok = e.dl, true
		}
	}
	return best, ok
}

// admissible reports whether the property's quantifier covers the operation in
// the current state ("" = yes, otherwise the reason).
func (r *ref) admissible(o Op, keys int) string {
	switch o.Kind {
	case "set", "get", "remove":
		if o.Key < 0 || o.Key >= keys {
			return "op-on-unknown-key"
		}
	}
	switch o.Kind {
	case "set":
		ttl := r.ttl
		if o.HasTTL {
			ttl = o.TTL
		}
		if ttl <= 0 {
			return "nonpositive-ttl"
		}
		if o.Keep && !r.live(o.Key) {
			return "keepttl-on-dead-key"
		}
	case "get":
		if o.Upd {
			ttl := o.TTL
			if ttl == 0 {
				ttl = r.ttl
			}
			if ttl <= 0 {
				return "nonpositive-ttl"
			}
		}
	case "remove", "clear":
	case "advance":
		if o.Dt < 0 || o.Dt > 1<<40 {
			return "advance-out-of-range"
		}
		if r.onDeadline(r.now + o.Dt) {
			return "advance-onto-deadline"
		}
	default:
		return "unknown-op"
	}
	return ""
}

// apply advances the reference by an admissible operation and returns what the
// statement expects of it ("ok", "exists", "hit", "miss", "") plus class labels.
func (r *ref) apply(o Op) (expect string, classes []string) {
	k := o.Key
	switch o.Kind {
	case "set":
		ttl := r.ttl
		if o.HasTTL {
			ttl = o.TTL
		}
		live := r.live(k)
		_, had := r.ent[k]
		if !live && had {
			classes = append(classes, "set-after-expiry")
		}
		if o.MNE {
			if live {
				return "exists", append(classes, "mne-on-live")
			}
			if had {
				classes = append(classes, "mne-after-expiry", "nt")
			}
			if r.gone[k] == "consumed" {
				classes = append(classes, "mne-after-consume")
			}
			r.ent[k] = refEntry{dl: r.now + ttl}
			return "ok", classes
		}
		if o.Keep { // admissible only on a live key
			e := r.ent[k]
			e.kept = true
			r.ent[k] = e
			return "ok", append(classes, "keepttl-on-live")
		}
		r.ent[k] = refEntry{dl: r.now + ttl}
		return "ok", classes
	case "get":
		e, had := r.ent[k]
		if !r.live(k) {
			if had {
				classes = append(classes, "get-after-expiry", "nt")
				if e.kept {
					classes = append(classes, "keepttl-kept-deadline")
				}
				delete(r.ent, k)
				r.gone[k] = "expired"
			} else if r.gone[k] == "consumed" {
				classes = append(classes, "consume-then-get")
			}
			return "miss", classes
		}
		if e.extended && r.now > e.oldDl {
			classes = append(classes, "update-ttl-extended-life", "nt")
		}
		if o.RAG {
			delete(r.ent, k)
			r.gone[k] = "consumed"
			return "hit", append(classes, "consumed")
		}
		if o.Upd {
			ttl := o.TTL
			if ttl == 0 {
				ttl = r.ttl
			}
			if !e.extended {
				e.extended, e.oldDl = true, e.dl
			}
			if r.now+ttl < e.dl {
				classes = append(classes, "update-ttl-shortens")
			}
			e.dl = r.now + ttl
			e.kept = false
			r.ent[k] = e
			classes = append(classes, "update-ttl-hit")
		}
		return "hit", classes
	case "remove":
		delete(r.ent, k)
		r.gone[k] = "removed"
	case "clear":
		n := 0
		for j := range r.ent {
			if r.live(j) {
				n++
			}
			r.gone[j] = "cleared"
		}
		r.ent = map[int]refEntry{}
		if n > 0 {
			classes = append(classes, "clear-with-live-keys")
		}
	case "advance":
		r.now += o.Dt
	}
	return "", classes
}

func GenDiff(t *rapid.T) DiffCase {
	c := DiffCase{
		TTL:  rapid.SampledFrom([]int64{1, 3, 10}).Draw(t, "ttl"),
		Keys: rapid.SampledFrom([]int{1, 2, 2, 3, 3, 4, 4, 5, 6, 8, 11, 12}).Draw(t, "keys"),
		Scan: ScanCfg{
			Page:    rapid.SampledFrom([]int{10, 1, 2, 3}).Draw(t, "page"),
			Foreign: rapid.SampledFrom([]int{0, 1, 2, 4}).Draw(t, "foreign"),
			Gap:     rapid.SampledFrom([]int{0, 0, 1, 2, 3}).Draw(t, "gap"),
			Reuse:   rapid.Bool().Draw(t, "reuse"),
		},
	}
	r := newRef(c.TTL)
	for _, p := range genProtos(t, c.Keys, true) {
		for _, o := range p.Ops {
			switch o.Kind {
			case "set":
				// keep-ttl on live keys only (the property's restriction)
				o.Keep = o.Keep && r.live(o.Key)
			case "advance":
				if p.Rel != 0 {
					near, ok := r.nearest()
					rel := p.Rel
					if rel == 1 { // "exactly onto" is excluded here: aim just before instead
						rel = 3
					}
					o.Dt = relAdvance(rel, o.Dt, r.now, near, ok)
				}
				// never exactly on a deadline (the property's restriction)
				for r.onDeadline(r.now + o.Dt) {
					o.Dt++
				}
			}
			if r.admissible(o, c.Keys) == "" {
				r.apply(o)
			}
			c.Ops = append(c.Ops, o)
		}
	}
	return c
}

const rdsPrefix = "c05:"

func outcome(err error) string {
	switch {
	case err == nil:
		return "ok"
	case errors.Is(err, cache.ErrTTLKeyExists):
		return "exists"
	case errors.Is(err, cache.ErrTTLKeyNotFound):
		return "miss"
	}
	return "error(" + err.Error() + ")"
}

func ExecDiff(c DiffCase) *vkit.Result {
	res := &vkit.Result{}
	if c.TTL <= 0 || c.Keys < 1 || c.Keys > diffMaxKeys {
		res.Skip("malformed-case")
		return res
	}
	clk := t0
	clock := func() int64 { return clk }
	restore := cache.VerifSetNow(clock)
	defer restore()
	ctx := context.Background()
	mem := cache.NewTTLMemCache(1<<20, c.TTL)
	fake := newFakeRedis(clock, c.Scan)
	rds := cache.NewTTLRdsCache(fake, rdsPrefix, c.TTL)
	r := newRef(c.TTL)
	var log []string
	fail := func(site string, step int, format string, a ...any) *vkit.Result {
		l := log
		if len(l) > 60 {
			l = l[len(l)-60:]
		}
		return res.Failf(site, "step [%d]: %s\ndefault-ttl=%d history (mem | rds): %s\nlast redis commands: %s",
			step, fmt.Sprintf(format, a...), c.TTL, strings.Join(l, "; "), strings.Join(fake.Tail(8), "; "))
	}
	nt := false
	doGet := func(step int, o Op, site string) bool {
		want, classes := r.apply(o)
		for _, cl := range classes {
			if cl == "nt" {
				nt = true
			} else {
				res.Class(cl)
			}
		}
		mv, merr := mem.Get(ctx, keyName(o.Key), getOpts(o)...)
		rv, rerr := rds.Get(ctx, keyName(o.Key), getOpts(o)...)
		mo, ro := outcome(merr), outcome(rerr)
		if merr == nil {
			mo = fmt.Sprintf("%q", mv)
		}
		if rerr == nil {
			ro = fmt.Sprintf("%q", rv)
		}
		log = append(log, fmt.Sprintf("[%d] %s -> %s | %s", step, o, mo, ro))
		if (merr == nil) != (rerr == nil) || outcome(merr) != outcome(rerr) {
			fail(site, step, "%s: in-memory says %s, redis-backed says %s (the statement expects a %s)", o, mo, ro, want)
			return false
		}
		if merr == nil && string(mv) != string(rv) {
			fail(site+"-value", step, "%s: in-memory returned %q, redis-backed returned %q", o, mv, rv)
			return false
		}
		return true
	}
	for i, o := range c.Ops {
		if why := r.admissible(o, c.Keys); why != "" {
			res.Skip(why)
			continue
		}
		switch o.Kind {
		case "set":
			want, classes := r.apply(o)
			for _, cl := range classes {
				if cl == "nt" {
					nt = true
				} else {
					res.Class(cl)
				}
			}
			v := []byte(valueOf(i))
			merr := mem.Set(ctx, keyName(o.Key), v, setOpts(o)...)
			rerr := rds.Set(ctx, keyName(o.Key), v, setOpts(o)...)
			log = append(log, fmt.Sprintf("[%d] %s -> %s | %s", i, o, outcome(merr), outcome(rerr)))
			if outcome(merr) != outcome(rerr) {
				return fail("diff/set", i, "%s: in-memory says %s, redis-backed says %s (the statement expects %s)", o, outcome(merr), outcome(rerr), want)
			}
		case "get":
			if !doGet(i, o, "diff/get") {
				return res
			}
		case "remove":
			r.apply(o)
			merr := mem.Remove(ctx, keyName(o.Key))
			rerr := rds.Remove(ctx, keyName(o.Key))
			log = append(log, fmt.Sprintf("[%d] %s -> %s | %s", i, o, outcome(merr), outcome(rerr)))
			if outcome(merr) != outcome(rerr) {
				return fail("diff/remove", i, "%s: in-memory says %s, redis-backed says %s", o, outcome(merr), outcome(rerr))
			}
		case "clear":
			_, classes := r.apply(o)
			for _, cl := range classes {
				res.Class(cl)
			}
			// how a complete SCAN of the prefix is paged right now (labels only)
			layout := fake.ScanLayout(rdsPrefix + "*")
			withKeys, total := 0, 0
			for _, n := range layout {
				total += n
				if n > 0 {
					withKeys++
				}
			}
			if len(layout) > 1 {
				res.Class("clear-scan-has-several-pages")
			}
			if withKeys > 1 {
				res.Class("clear-spans-several-scan-pages")
				res.Class(fmt.Sprintf("clear-spans-several-scan-pages:page=%d", c.Scan.normal().Page))
			}
			if len(layout) > 1 && layout[0] == 0 && total > 0 {
				res.Class("clear-first-scan-page-empty")
			}
			for p := 1; p+1 < len(layout); p++ {
				if layout[p] == 0 && total > 0 {
					res.Class("clear-empty-scan-page-in-the-middle")
				}
			}
			mem.Clear(ctx)
			rds.Clear(ctx)
			log = append(log, fmt.Sprintf("[%d] Clear() scan pages %v", i, layout))
		case "advance":
			r.apply(o)
			clk += o.Dt
			log = append(log, fmt.Sprintf("[%d] Advance(%d) now=t0+%d", i, o.Dt, clk-t0))
		}
	}
	// final probe of every key on both back-ends
	keys := make([]int, 0, c.Keys)
	for k := 0; k < c.Keys; k++ {
		keys = append(keys, k)
	}
	sort.Ints(keys)
	for _, k := range keys {
		if !doGet(len(c.Ops)+k, Op{Kind: "get", Key: k}, "diff/final-probe") {
			return res
		}
	}
	res.NonTrivial = nt
	return res
}

const ruleDiff = "rapid: default ttl in {1,3,10}, 1..12 keys (small counts weighted), the fake's SCAN shape (page size in {1,2,3,10} slots per call, 0..4 keys of a foreign prefix up front, optionally another foreign key after every 1st..3rd new key, holes reused or not), 1..40 independently drawn elements with the same mix and scripted shapes as part mem but restricted as the property says - positive ttls only (WithTTL in {1,2,3,5,10}, update-ttl in {0=default,1,2,5,10}), keep-ttl only on keys the reference knows to be live, Advance amounts bumped so that the clock never equals a pending deadline (just before / just past the nearest deadline are drawn on purpose); inadmissible ops produced by shrinking are skipped and counted. The same history is applied to NewTTLMemCache(2^20) and NewTTLRdsCache(fake redis.Cmdable with Redis semantics on the same virtual clock); Clear is drawn at 3% plus a scripted shape (Set many keys with ttl 10, Clear, Get the last and the first, Set must-not-exist the last) at 1% per element, so that the prefix regularly spans several SCAN pages when Clear runs (classes clear-spans-several-scan-pages, clear-first-scan-page-empty, clear-empty-scan-page-in-the-middle); oracle: identical ok / AlreadyExists / hit / miss outcome and identical value at every step and in a final probe of every key. Non-trivial: some Get or must-not-exist Set happens on a key whose ttl has elapsed, or a hit happens after the original deadline thanks to update-ttl; distinct = distinct case JSON"

var PartDiff = &vkit.Part[DiffCase]{
	Property: Property, Name: "diff",
	Rule:  ruleDiff,
	Quick: 12000, Thorough: 60000,
	Gen: GenDiff, Exec: ExecDiff,
}
