package c05ttl

import (
	"context"
	"errors"
	"fmt"
	"strings"

	"github.com/pinealctx/neptune/cache"
	"pgregory.net/rapid"

	"verifharness/vkit"
)

// ---------------------------------------------------------------------------
// part "diff": redis-backed implementation vs in-memory implementation
//
// The property restricts the comparison to positive ttls, keep-ttl on live keys
// only, and clock readings that never fall exactly on a deadline. ref is the
// exact reference of the statement under these restrictions (no eviction, no
// "either"): it decides which operations are admissible, both in the generator
// and - because shrinking and hand-written replays can produce anything - again
// in the executor. The oracle itself is the agreement of the two back-ends.

type DiffCase struct {
	TTL  int64   `json:"ttl"` // default ttl of both caches (positive)
	Keys int     `json:"keys"`
	Scan ScanCfg `json:"scan"` // how the fake Redis pages its SCAN replies
	// Second, if not empty, is the prefix of a second redis-backed cache on the
	// same server (Op.Inst 1), compared with an in-memory cache of its own.
	Second string `json:"second,omitempty"`
	Ops    []Op   `json:"ops"`
	// TTL2: default ttl of the second pair of caches (0 = the same as TTL)
	TTL2 int64 `json:"ttl2,omitempty"`
	// Names: the kind of name each key carries in every cache of the case (see specialNames)
	Names []int `json:"names,omitempty"`
	// Decoy: bystander instances (a redis-backed one on the same server under the
	// prefix "zz:" and an in-memory one) built before and after the caches under
	// test, with a default ttl and a size of their own
	Decoy *Decoy `json:"decoy,omitempty"`
}

func (c DiffCase) ttls() []int64 {
	if c.Second == "" {
		return []int64{c.TTL}
	}
	if c.TTL2 == 0 {
		return []int64{c.TTL, c.TTL}
	}
	return []int64{c.TTL, c.TTL2}
}

const decoyPrefix = "zz:"

const diffMaxKeys = 16

// A ttl of more than maxDurS seconds reaches Redis as maxDurS seconds (a
// time.Duration holds no more): from that instant up to the in-memory deadline
// the two back-ends differ by construction, exactly as they do on a deadline.
// gapLo is the first instant of that stretch (== dl when there is none).
type refEntry struct {
	dl       int64
	gapLo    int64
	extended bool  // deadline moved by update-ttl
	oldDl    int64 // deadline before the first update-ttl
	kept     bool
}

type ref struct {
	now  int64
	ttl  int64
	ent  map[int]refEntry
	gone map[int]string // why a key is absent (classes only)
}

func newRef(ttl int64) *ref {
	return &ref{now: t0, ttl: ttl, ent: map[int]refEntry{}, gone: map[int]string{}}
}

func (r *ref) live(k int) bool {
	e, ok := r.ent[k]
	return ok && r.now < e.gapLo
}

// entry builds the reference entry of a key stored now with a positive ttl.
func (r *ref) entry(ttl int64) refEntry {
	e := refEntry{dl: deadlineOf(r.now, ttl)}
	e.gapLo = e.dl
	if ttl > maxDurS {
		e.gapLo = deadlineOf(r.now, maxDurS)
	}
	return e
}

func (r *ref) onDeadline(t int64) bool {
	for _, e := range r.ent {
		if e.gapLo <= t && t <= e.dl {
			return true
		}
	}
	return false
}

// refs are the references of the cache instances of a case (one clock).
type refs []*ref

func (rs refs) onDeadline(t int64) bool {
	for _, r := range rs {
		if r.onDeadline(t) {
			return true
		}
	}
	return false
}

// admissibleAt returns the first instant >= t that is neither a deadline nor
// inside a stretch where the back-ends differ by construction.
func (rs refs) admissibleAt(t int64) (int64, bool) {
	for again := true; again; {
		again = false
		for _, r := range rs {
			for _, e := range r.ent {
				if e.gapLo <= t && t <= e.dl {
					if e.dl == inf {
						return 0, false
					}
					t, again = e.dl+1, true
				}
			}
		}
	}
	return t, true
}

func (rs refs) nearest() (int64, bool) {
	best, ok := int64(0), false
	for _, r := range rs {
		if d, has := r.nearest(); has && (!ok || d < best) {
			best, ok = d, true
		}
	}
	return best, ok
}

func (rs refs) advance(dt int64) {
	for _, r := range rs {
		r.now += dt
	}
}

// nearest pending deadline
func (r *ref) nearest() (int64, bool) {
	best, ok := int64(0), false
	for _, e := range r.ent {
		if e.dl > r.now && e.dl != inf && (!ok || e.dl < best) {
			best, ok = e.dl, true
		}
	}
	return best, ok
}

// admissible reports whether the property's quantifier covers the operation in
// the current state ("" = yes, otherwise the reason).
func (rs refs) admissible(o Op, keys int) string {
	if o.Inst < 0 || o.Inst >= len(rs) {
		return "op-on-unknown-instance"
	}
	r := rs[o.Inst]
	switch o.Kind {
	case "set", "get", "remove":
		if o.Key < 0 || o.Key >= keys {
			return "op-on-unknown-key"
		}
	}
	switch o.Kind {
	case "set":
		ttl := r.ttl
		if o.HasTTL {
			ttl = o.TTL
		}
		if ttl <= 0 {
			return "nonpositive-ttl"
		}
		if o.Keep && !r.live(o.Key) {
			return "keepttl-on-dead-key"
		}
	case "get":
		if o.Upd {
			ttl := o.TTL
			if ttl == 0 {
				ttl = r.ttl
			}
			if ttl <= 0 {
				return "nonpositive-ttl"
			}
		}
	case "remove", "clear":
	case "advance":
		if o.Dt < 0 || o.Dt > inf-r.now {
			return "advance-out-of-range"
		}
		if rs.onDeadline(r.now + o.Dt) {
			return "advance-onto-deadline"
		}
	default:
		return "unknown-op"
	}
	return ""
}

// apply advances the reference by an admissible operation and returns what the
// statement expects of it ("ok", "exists", "hit", "miss", "") plus class labels.
func (r *ref) apply(o Op) (expect string, classes []string) {
	k := o.Key
	switch o.Kind {
	case "set":
		ttl := r.ttl
		if o.HasTTL {
			ttl = o.TTL
		}
		live := r.live(k)
		_, had := r.ent[k]
		if !live && had {
			classes = append(classes, "set-after-expiry")
		}
		if o.MNE {
			if live {
				return "exists", append(classes, "mne-on-live")
			}
			if had {
				classes = append(classes, "mne-after-expiry", "nt")
			}
			if r.gone[k] == "consumed" {
				classes = append(classes, "mne-after-consume")
			}
			r.ent[k] = r.entry(ttl)
			return "ok", classes
		}
		if o.Keep { // admissible only on a live key
			e := r.ent[k]
			e.kept = true
			r.ent[k] = e
			return "ok", append(classes, "keepttl-on-live")
		}
		r.ent[k] = r.entry(ttl)
		return "ok", classes
	case "get":
		e, had := r.ent[k]
		if !r.live(k) {
			if had {
				classes = append(classes, "get-after-expiry", "nt")
				if e.kept {
					classes = append(classes, "keepttl-kept-deadline")
				}
				delete(r.ent, k)
				r.gone[k] = "expired"
			} else if r.gone[k] == "consumed" {
				classes = append(classes, "consume-then-get")
			}
			return "miss", classes
		}
		if e.extended && r.now > e.oldDl {
			classes = append(classes, "update-ttl-extended-life", "nt")
		}
		if o.RAG {
			delete(r.ent, k)
			r.gone[k] = "consumed"
			return "hit", append(classes, "consumed")
		}
		if o.Upd {
			ttl := o.TTL
			if ttl == 0 {
				ttl = r.ttl
			}
			if !e.extended {
				e.extended, e.oldDl = true, e.dl
			}
			ne := r.entry(ttl)
			if ne.dl < e.dl {
				classes = append(classes, "update-ttl-shortens")
			}
			e.dl, e.gapLo = ne.dl, ne.gapLo
			e.kept = false
			r.ent[k] = e
			classes = append(classes, "update-ttl-hit")
		}
		return "hit", classes
	case "remove":
		delete(r.ent, k)
		r.gone[k] = "removed"
	case "clear":
		n := 0
		for j := range r.ent {
			if r.live(j) {
				n++
			}
			r.gone[j] = "cleared"
		}
		r.ent = map[int]refEntry{}
		if n > 0 {
			classes = append(classes, "clear-with-live-keys")
		}
	case "advance":
		r.now += o.Dt
	}
	return "", classes
}

// secondPrefixes: no second cache (most cases), an unrelated prefix, a prefix
// that extends the first cache's prefix (the first cache's Clear legitimately
// covers those keys, the second's must leave the first cache alone) and a prefix
// that the first cache's prefix extends (the other way round).
//
// A prefix is a string, not a pattern: prefixes with the characters redis' key patterns give a meaning to ('*', '?',
// '[', ']', '\\') are prefixes like any other - "g[a]:" owns the keys that start with those five characters, "c0?:"
// does not own the keys of "c05:".
var secondPrefixes = []string{"", "", "", "", "", "", "d05:", "c05:sub:", "c0", "g[a]:", "c0?:", "c*", "q\\:", "[c]05:", "c05:[", "c05:*"}

func GenDiff(t *rapid.T) DiffCase {
	c := DiffCase{
		TTL:  rapid.SampledFrom([]int64{1, 3, 10}).Draw(t, "ttl"),
		Keys: rapid.SampledFrom([]int{1, 2, 2, 3, 3, 4, 4, 5, 6, 8, 11, 12}).Draw(t, "keys"),
		Scan: ScanCfg{
			Page:    rapid.SampledFrom([]int{10, 1, 2, 3}).Draw(t, "page"),
			Foreign: rapid.SampledFrom([]int{0, 1, 2, 4}).Draw(t, "foreign"),
			Gap:     rapid.SampledFrom([]int{0, 0, 1, 2, 3}).Draw(t, "gap"),
			Reuse:   rapid.Bool().Draw(t, "reuse"),
		},
		Second: rapid.SampledFrom(secondPrefixes).Draw(t, "second"),
	}
	if c.Second != "" {
		// the two pairs differ in their default ttl two times out of three
		c.TTL2 = rapid.SampledFrom([]int64{0, 1, 2, 3, 7, 10, 100}).Draw(t, "ttl2")
		if c.TTL2 == c.TTL {
			c.TTL2 = 0
		}
	}
	c.Names = genNames(t, c.Keys)
	c.Decoy = genDecoy(t, []int64{1, 2, 5, 7, 100, 86400})
	var rs refs
	for _, ttl := range c.ttls() {
		rs = append(rs, newRef(ttl))
	}
	for _, p := range genProtos(t, genCfg{keys: c.Keys, diff: true, insts: len(rs)}) {
		for _, o := range p.Ops {
			r := rs[o.Inst]
			switch o.Kind {
			case "set":
				// keep-ttl on live keys only (the property's restriction)
				o.Keep = o.Keep && r.live(o.Key)
			case "advance":
				if p.Rel != 0 {
					near, ok := rs.nearest()
					rel := p.Rel
					if rel == 1 { // "exactly onto" is excluded here: aim just before instead
						rel = 3
					}
					o.Dt = relAdvance(rel, o.Dt, r.now, near, ok)
				}
				// never exactly on a deadline, never where the back-ends differ by
				// construction (the property's restriction)
				if o.Dt < 0 || o.Dt > inf-r.now {
					o.Dt = 0
				}
				if at, ok := rs.admissibleAt(r.now + o.Dt); ok {
					o.Dt = at - r.now
				} else {
					o.Dt = 0
				}
			}
			if rs.admissible(o, c.Keys) == "" {
				rs.apply(o, c.prefixes())
			}
			c.Ops = append(c.Ops, o)
		}
	}
	return c
}

const rdsPrefix = "c05:"

func (c DiffCase) prefixes() []string {
	if c.Second == "" {
		return []string{rdsPrefix}
	}
	return []string{rdsPrefix, c.Second}
}

// covered lists the instances whose keys a Clear of instance i removes: i
// itself and every instance whose prefix starts with i's prefix (its keys are
// keys of i's key space too).
// literalPattern writes s as a redis key pattern that matches exactly s.
func literalPattern(s string) string {
	var b []byte
	for i := 0; i < len(s); i++ {
		if strings.IndexByte("*?[]\\", s[i]) >= 0 {
			b = append(b, '\\')
		}
		b = append(b, s[i])
	}
	return string(b)
}

func covered(prefixes []string, i int) []int {
	var out []int
	for j, p := range prefixes {
		if j == i || strings.HasPrefix(p, prefixes[i]) {
			out = append(out, j)
		}
	}
	return out
}

// apply advances the references by an admissible operation.
func (rs refs) apply(o Op, prefixes []string) (expect string, classes []string) {
	switch o.Kind {
	case "advance":
		rs.advance(o.Dt)
		return "", nil
	case "clear":
		for _, j := range covered(prefixes, o.Inst) {
			_, cl := rs[j].apply(o)
			classes = append(classes, cl...)
		}
		return "", classes
	}
	return rs[o.Inst].apply(o)
}

func outcome(err error) string {
	switch {
	case err == nil:
		return "ok"
	case errors.Is(err, cache.ErrTTLKeyExists):
		return "exists"
	case errors.Is(err, cache.ErrTTLKeyNotFound):
		return "miss"
	}
	return "error(" + err.Error() + ")"
}

func ExecDiff(c DiffCase) *vkit.Result {
	res := &vkit.Result{}
	if c.TTL <= 0 || c.TTL2 < 0 || c.Keys < 1 || c.Keys > diffMaxKeys || len(c.Second) > 32 || c.Second == rdsPrefix ||
		strings.HasPrefix(c.Second, decoyPrefix) || strings.HasPrefix(decoyPrefix, c.Second) && c.Second != "" ||
		c.Decoy != nil && (c.Decoy.TTL <= 0 || c.Decoy.Size < 0 || c.Decoy.Size > 1<<20) {
		res.Skip("malformed-case")
		return res
	}
	names := newNamer(c.Names, c.Keys)
	if names == nil || len(c.Names) > c.Keys {
		res.Skip("malformed-key-names")
		return res
	}
	// two caches on one server share its key space: a case in which two (cache,
	// key) pairs mean the same server key compares nothing (cannot happen with
	// the generated names and prefixes)
	{
		full := map[string]bool{}
		for _, p := range c.prefixes() {
			for k := 0; k < c.Keys; k++ {
				if full[p+names.name(k)] {
					res.Skip("aliasing-key-names")
					return res
				}
				full[p+names.name(k)] = true
			}
		}
	}
	clk := t0
	clock := func() int64 { return clk }
	restore := cache.VerifSetNow(clock)
	defer restore()
	ctx := context.Background()
	fake := newFakeRedis(clock, c.Scan)
	prefixes := c.prefixes()
	var mems, rdss []cache.TTLCache
	var rs refs
	var ds *decoys
	if c.Decoy != nil {
		ds = &decoys{ctx: ctx, use: c.Decoy.Use}
		ds.add(cache.NewTTLRdsCache(fake, decoyPrefix, c.Decoy.TTL))
		ds.add(cache.NewTTLMemCache(c.Decoy.Size, c.Decoy.TTL))
		res.Class("decoy-instances")
	}
	ttls := c.ttls()
	for i, p := range prefixes {
		mems = append(mems, cache.NewTTLMemCache(1<<20, ttls[i]))
		rdss = append(rdss, cache.NewTTLRdsCache(fake, p, ttls[i]))
		rs = append(rs, newRef(ttls[i]))
	}
	if c.Decoy != nil {
		ds.add(cache.NewTTLMemCache(c.Decoy.Size+1, c.Decoy.TTL))
		ds.add(cache.NewTTLRdsCache(fake, decoyPrefix+"2:", c.Decoy.TTL+1))
	}
	if len(ttls) > 1 && ttls[0] != ttls[1] {
		res.Class("second-cache:other-default-ttl")
	}
	keyName := names.name
	if names.describe() != "" {
		res.Class("special-key-names")
	}
	switch {
	case c.Second == "":
	case strings.HasPrefix(c.Second, rdsPrefix):
		res.Class("second-cache:prefix-extends-the-first")
	case strings.HasPrefix(rdsPrefix, c.Second):
		res.Class("second-cache:prefix-of-the-first")
	default:
		res.Class("second-cache:unrelated-prefix")
	}
	if strings.ContainsAny(c.Second, "*?[]\\") {
		res.Class("second-cache:prefix-with-pattern-characters")
	}
	vr := newValuer()
	var log []string
	fail := func(site string, step int, format string, a ...any) *vkit.Result {
		l := log
		if len(l) > 60 {
			l = l[len(l)-60:]
		}
		return res.Failf(site, "step [%d]: %s\ndefault-ttl=%v prefixes=%q;%s history (mem | rds): %s\nlast redis commands: %s",
			step, fmt.Sprintf(format, a...), ttls, prefixes, names.describe(), strings.Join(l, "; "), strings.Join(fake.Tail(8), "; "))
	}
	nt := false
	name := func(o Op) string {
		if len(prefixes) > 1 {
			return fmt.Sprintf("cache%d.%s", o.Inst, o)
		}
		return o.String()
	}
	classify := func(classes []string) {
		for _, cl := range classes {
			if cl == "nt" {
				nt = true
			} else {
				res.Class(cl)
			}
		}
	}
	doGet := func(step int, o Op, site string) bool {
		want, classes := rs.apply(o, prefixes)
		classify(classes)
		ds.mirror(o, keyName(o.Key))
		mv, merr := mems[o.Inst].Get(ctx, keyName(o.Key), getOpts(o)...)
		rv, rerr := rdss[o.Inst].Get(ctx, keyName(o.Key), getOpts(o)...)
		mo, ro := outcome(merr), outcome(rerr)
		if merr == nil {
			mo = short(string(mv))
		}
		if rerr == nil {
			ro = short(string(rv))
		}
		log = append(log, fmt.Sprintf("[%d] %s -> %s | %s", step, name(o), mo, ro))
		if (merr == nil) != (rerr == nil) || outcome(merr) != outcome(rerr) {
			fail(site, step, "%s: in-memory says %s, redis-backed says %s (the statement expects a %s)", name(o), mo, ro, want)
			return false
		}
		if merr == nil && string(mv) != string(rv) {
			fail(site+"-value", step, "%s: in-memory returned %s, redis-backed returned %s", name(o), mo, ro)
			return false
		}
		if merr == nil && len(mv) == 0 {
			res.Class("hit-with-empty-value")
		}
		return true
	}
	// foreign: keys of the server that belong to no cache of the case must outlive every Clear
	foreignGone := func(step int, what string) bool {
		if k := fake.MissingForeign(prefixes); k != "" {
			fail("diff/clear/foreign-key-deleted", step, "after %s the server no longer holds %q, a key outside the prefixes of the caches", what, k)
			return true
		}
		return false
	}
	for i, o := range c.Ops {
		if why := rs.admissible(o, c.Keys); why != "" {
			res.Skip(why)
			continue
		}
		switch o.Kind {
		case "set":
			v, _, ok := vr.value(i, o)
			if !ok {
				res.Skip("unknown-value-kind")
				continue
			}
			if ttl := o.TTL; o.HasTTL && ttl > maxDurS {
				res.Class("ttl-beyond-duration-range")
			}
			want, classes := rs.apply(o, prefixes)
			classify(classes)
			ds.mirror(o, keyName(o.Key))
			merr := mems[o.Inst].Set(ctx, keyName(o.Key), v, setOpts(o)...)
			rerr := rdss[o.Inst].Set(ctx, keyName(o.Key), v, setOpts(o)...)
			log = append(log, fmt.Sprintf("[%d] %s -> %s | %s", i, name(o), outcome(merr), outcome(rerr)))
			if outcome(merr) != outcome(rerr) {
				return fail("diff/set", i, "%s: in-memory says %s, redis-backed says %s (the statement expects %s)", name(o), outcome(merr), outcome(rerr), want)
			}
		case "get":
			if !doGet(i, o, "diff/get") {
				return res
			}
		case "remove":
			rs.apply(o, prefixes)
			ds.mirror(o, keyName(o.Key))
			merr := mems[o.Inst].Remove(ctx, keyName(o.Key))
			rerr := rdss[o.Inst].Remove(ctx, keyName(o.Key))
			log = append(log, fmt.Sprintf("[%d] %s -> %s | %s", i, name(o), outcome(merr), outcome(rerr)))
			if outcome(merr) != outcome(rerr) {
				return fail("diff/remove", i, "%s: in-memory says %s, redis-backed says %s", name(o), outcome(merr), outcome(rerr))
			}
		case "clear":
			_, classes := rs.apply(o, prefixes)
			classify(classes)
			// how a complete SCAN of the prefix is paged right now (labels only)
			layout := fake.ScanLayout(literalPattern(prefixes[o.Inst]) + "*")
			withKeys, total := 0, 0
			for _, n := range layout {
				total += n
				if n > 0 {
					withKeys++
				}
			}
			if len(layout) > 1 {
				res.Class("clear-scan-has-several-pages")
			}
			if withKeys > 1 {
				res.Class("clear-spans-several-scan-pages")
				res.Class(fmt.Sprintf("clear-spans-several-scan-pages:page=%d", c.Scan.normal().Page))
			}
			if len(layout) > 1 && layout[0] == 0 && total > 0 {
				res.Class("clear-first-scan-page-empty")
			}
			for p := 1; p+1 < len(layout); p++ {
				if layout[p] == 0 && total > 0 {
					res.Class("clear-empty-scan-page-in-the-middle")
				}
			}
			if fake.ForeignCount() > 0 {
				res.Class("clear-with-foreign-keys-on-the-server")
			}
			for _, j := range covered(prefixes, o.Inst) {
				mems[j].Clear(ctx)
			}
			// single keys of the other caches that happen to start with the cleared prefix as strings (a key named "[k]0"
			// under "c05:" lies under "c05:[") are on the server what the cleared cache owns: they go too
			for j := range prefixes {
				if j == o.Inst || strings.HasPrefix(prefixes[j], prefixes[o.Inst]) {
					continue
				}
				for k := 0; k < c.Keys; k++ {
					if strings.HasPrefix(prefixes[j]+names.name(k), prefixes[o.Inst]) {
						rs[j].apply(Op{Kind: "remove", Key: k})
						_ = mems[j].Remove(ctx, names.name(k))
						res.Class("clear-covers-single-keys-of-another-cache")
					}
				}
			}
			rdss[o.Inst].Clear(ctx)
			log = append(log, fmt.Sprintf("[%d] %s scan pages %v", i, name(o), layout))
			if foreignGone(i, name(o)) {
				return res
			}
		case "advance":
			rs.apply(o, prefixes)
			clk += o.Dt
			if o.Dt >= maxDurS {
				res.Class("advance-beyond-duration-range")
			}
			log = append(log, fmt.Sprintf("[%d] Advance(%d) now=t0+%d", i, o.Dt, clk-t0))
		}
	}
	// final probe of every key of every cache on both back-ends
	step := len(c.Ops)
	for inst := range prefixes {
		for k := 0; k < c.Keys; k++ {
			if !doGet(step, Op{Kind: "get", Key: k, Inst: inst}, "diff/final-probe") {
				return res
			}
			step++
		}
	}
	if foreignGone(step, "the history") {
		return res
	}
	res.NonTrivial = nt
	return res
}

const ruleDiff = "rapid: default ttl in {1,3,10}, 1..12 keys (small counts weighted), the fake's SCAN shape (page size in {1,2,3,10} slots per call - whatever COUNT the client sends, it is a hint -, 0..4 keys of a foreign prefix up front, optionally another foreign key after every 1st..3rd new key, holes reused or not), in 3/7 of the cases a second redis-backed cache on the same fake server (prefix unrelated / extending the first cache's prefix / a prefix of it) with an in-memory cache of its own and, two times out of three, a default ttl of its own (1..100), every element addressed to one of them; special key names as in part mem (one quarter of the cases; the same names in every cache; keys are data to the server, only the prefix is a pattern); in a fifth of the cases bystander instances (a redis-backed cache under the prefix zz: on the same server and an in-memory one, built before the caches under test, two more after them, default ttl 1..86400 of their own, half of the time every keyed call applied to them first); 1..40 independently drawn elements with the same mix, value kinds (unique, empty, nil, long, one slice under several keys) and scripted shapes as part mem but restricted as the property says - positive ttls only (WithTTL in {1,2,3,5,10}, update-ttl in {0=default,1,2,5,10}, 1/6 of either a long one up to MaxInt64), keep-ttl only on keys the reference knows to be live, Advance amounts bumped so that the clock never equals a pending deadline (just before / just past the nearest deadline are drawn on purpose) and never lies between the 292 years a time.Duration can carry to Redis and the in-memory deadline of a longer ttl; inadmissible ops produced by shrinking are skipped and counted. The same history is applied to NewTTLMemCache(2^20) and NewTTLRdsCache(fake redis.Cmdable with Redis semantics on the same virtual clock, overflow-free); Clear is drawn at 3% plus a scripted shape (Set many keys with ttl 10, Clear, Get the last and the first, Set must-not-exist the last) at 1% per element, so that the prefix regularly spans several SCAN pages when Clear runs (classes clear-spans-several-scan-pages, clear-first-scan-page-empty, clear-empty-scan-page-in-the-middle); a Clear of one cache clears the in-memory side of exactly the caches whose prefix starts with its prefix. Oracle: identical ok / AlreadyExists / hit / miss outcome and identical value at every step and in a final probe of every key of every cache; every key the fake holds outside the caches' prefixes is still there after each Clear and at the end. Non-trivial: some Get or must-not-exist Set happens on a key whose ttl has elapsed, or a hit happens after the original deadline thanks to update-ttl; distinct = distinct case JSON"

var PartDiff = &vkit.Part[DiffCase]{
	Property: Property, Name: "diff",
	Rule:  ruleDiff,
	Quick: 12000, Thorough: 60000,
	Gen: GenDiff, Exec: ExecDiff,
}
