package c05ttl

// part "long": the same statement far from the small numbers of the other parts - few cases, each a long history on
// ONE instance, the model compared at every call:
//
//	big     in-memory cache of size 64 ... 5000: fill, overflow, read the oldest key that must still be there and the
//	        newest one that may be gone, ranges of Get / Remove / remove-after-get / set-if-absent, Clear, expiry of
//	        everything, refill; judged by a window model whose recency queries are logarithmic (wmodel)
//	rounds  a drawn pattern of 2..13 operations over 1..6 keys repeated 1100..5000 times on one small in-memory cache
//	        (every option, clock advances, special key names), judged by the three-valued model of part mem
//	clear   1200..3000 keys under the prefix of a redis-backed cache (fake server, any page size) and in an in-memory
//	        cache: reads before, Clear, nothing under the prefix afterwards, reads and set-if-absent after

import (
	"context"
	"errors"
	"fmt"
	"strings"

	"github.com/pinealctx/neptune/cache"
	"pgregory.net/rapid"

	"verifharness/vkit"
)

// BigStep is one step of a "big" history: the operation Kind applied to the keys From .. From+N-1 in ascending
// (Desc: descending) order; Kind "oldest" reads the key the model holds as the least recently touched one that
// must still be retrievable, "firstout" the most recently touched one beyond the window (N of them, walking on).
//
//	set | setttl (WithTTL(TTL)) | mne | get | rag | remove    keyed
//	oldest | firstout                                          resolved by the model at run time
//	clear | advance (Dt)
type BigStep struct {
	Kind string `json:"kind"`
	From int    `json:"from,omitempty"`
	N    int    `json:"n,omitempty"`
	Desc bool   `json:"desc,omitempty"`
	TTL  int64  `json:"ttl,omitempty"`
	Dt   int64  `json:"dt,omitempty"`
}

type LongCase struct {
	Shape string `json:"shape"` // big | rounds | clear
	Size  int    `json:"size,omitempty"`
	TTL   int64  `json:"ttl"`
	Keys  int    `json:"keys,omitempty"` // big: keys b0..b<Keys-1>; rounds: keys of the pattern
	// big
	Steps []BigStep `json:"steps,omitempty"`
	// rounds: Pattern is executed Rounds times; after every ProbeEvery-th round (0 = never) every key is read
	Pattern    []Op  `json:"pattern,omitempty"`
	Rounds     int   `json:"rounds,omitempty"`
	ProbeEvery int   `json:"probe_every,omitempty"`
	Names      []int `json:"names,omitempty"`
	// clear: Fill keys are set, the keys Stripe, 2*Stripe, ... removed again (holes in the server's table; 0 = none),
	// Second more keys set Dt seconds later with ttl TTL2, then Clear; Sample are the keys read before and after
	Fill   int     `json:"fill,omitempty"`
	Stripe int     `json:"stripe,omitempty"`
	Second int     `json:"second,omitempty"`
	TTL2   int64   `json:"ttl2,omitempty"`
	Dt     int64   `json:"dt,omitempty"`
	Sample []int   `json:"sample,omitempty"`
	Scan   ScanCfg `json:"scan,omitempty"`
}

// ---------------------------------------------------------------------------
// wmodel: the statement's window model for many keys. Same three answers as the model of part mem (must-hit /
// must-miss / either, the observed answer adopted) for the operations of the big shape, with exact deadlines (a
// reading exactly on a deadline is "either") and "how many other distinct keys were touched after this key's own
// last touch" answered by a Fenwick tree over touch sequence numbers.

type wkey struct {
	present bool
	val     string
	dl      int64
	own     int // sequence number of the key's own last touch
	any     int // last touch as the other keys must count it (adds refused set-if-absent calls and consuming reads)
	why     string
}

type wmodel struct {
	size   int
	ttl    int64
	now    int64
	t0     int64
	ks     []wkey
	seq    int
	fw     []int // Fenwick tree: one point per key at its `any`
	at     []int // sequence number -> key holding it as `any` (-1: none)
	points int
	res    *vkit.Result
	log    []string
	step   int
}

func newWModel(size int, ttl int64, keys, touches int, start int64, res *vkit.Result) *wmodel {
	m := &wmodel{size: size, ttl: ttl, now: start, t0: start, ks: make([]wkey, keys), fw: make([]int, touches+2), at: make([]int, touches+2), res: res}
	for i := range m.ks {
		m.ks[i].why = "never-set"
	}
	for i := range m.at {
		m.at[i] = -1
	}
	return m
}

func (m *wmodel) fwAdd(i, d int) {
	for ; i < len(m.fw); i += i & -i {
		m.fw[i] += d
	}
}

func (m *wmodel) fwSum(i int) int { // points at positions 1..i
	n := 0
	for ; i > 0; i -= i & -i {
		n += m.fw[i]
	}
	return n
}

// fwFind returns the position of the n-th point (1-based), 0 if there are fewer.
func (m *wmodel) fwFind(n int) int {
	if n < 1 || n > m.points {
		return 0
	}
	pos, step := 0, 1
	for step*2 < len(m.fw) {
		step *= 2
	}
	for ; step > 0; step /= 2 {
		if pos+step < len(m.fw) && m.fw[pos+step] < n {
			pos += step
			n -= m.fw[pos]
		}
	}
	return pos + 1
}

// touch gives key k a new sequence number as `any` (and as `own` if ownToo).
func (m *wmodel) touch(k int, ownToo bool) {
	s := &m.ks[k]
	if s.any > 0 {
		m.fwAdd(s.any, -1)
		m.at[s.any] = -1
		m.points--
	}
	m.seq++
	s.any = m.seq
	if ownToo {
		s.own = m.seq
	}
	m.fwAdd(s.any, 1)
	m.at[s.any] = k
	m.points++
}

func (m *wmodel) othersAfter(k int) int {
	s := &m.ks[k]
	n := m.points - m.fwSum(s.own)
	if s.any > s.own {
		n--
	}
	return n
}

func (m *wmodel) expect(k int) (int, string) {
	s := &m.ks[k]
	if !s.present {
		return mustMiss, s.why
	}
	if m.now > s.dl {
		return mustMiss, "expired"
	}
	out := m.othersAfter(k) >= m.size
	onDl := m.now == s.dl
	switch {
	case !out && !onDl:
		return mustHit, ""
	case out && onDl:
		return either, "window+deadline"
	case out:
		return either, "window"
	default:
		return either, "deadline"
	}
}

// oldestProtected returns the least recently touched present, unexpired key that must still hit (-1: none);
// firstOut the most recently touched present key beyond the window (-1: none).
func (m *wmodel) oldestProtected() int {
	first := m.points - m.size + 1
	if first < 1 {
		first = 1
	}
	for n := first; n <= m.points; n++ {
		k := m.at[m.fwFind(n)]
		if k >= 0 && m.ks[k].present {
			if e, _ := m.expect(k); e == mustHit {
				return k
			}
		}
	}
	return -1
}

func (m *wmodel) firstOut() int {
	for n, tries := m.points-m.size, 0; n >= 1 && tries < 64; n, tries = n-1, tries+1 {
		k := m.at[m.fwFind(n)]
		if k >= 0 && m.ks[k].present {
			if e, _ := m.expect(k); e == either {
				return k
			}
		}
	}
	return -1
}

func (m *wmodel) logf(format string, a ...any) {
	if len(m.log) >= 160 {
		m.log = append(m.log[:0], m.log[len(m.log)-80:]...)
	}
	m.log = append(m.log, fmt.Sprintf("[%d] ", m.step)+fmt.Sprintf(format, a...))
}

func (m *wmodel) failf(site, format string, a ...any) {
	l := m.log
	if len(l) > 40 {
		l = l[len(l)-40:]
	}
	m.res.Failf(site, "%s\nsize=%d default-ttl=%d keys=%d, last calls: %s", fmt.Sprintf(format, a...), m.size, m.ttl, len(m.ks), strings.Join(l, "; "))
}

func (m *wmodel) describe(k int) string {
	s := &m.ks[k]
	if !s.present {
		return fmt.Sprintf("b%d absent (%s)", k, s.why)
	}
	dl := "never"
	if s.dl != inf {
		dl = fmt.Sprintf("t0+%d", s.dl-m.t0)
	}
	return fmt.Sprintf("b%d=%s deadline %s, now t0+%d, %d other distinct keys touched since its last touch (size %d)", k, short(s.val), dl, m.now-m.t0, m.othersAfter(k), m.size)
}

func (m *wmodel) absent(k int, why string) { m.ks[k].present, m.ks[k].why = false, why }

func (m *wmodel) stored(k int, val string, dl int64) {
	s := &m.ks[k]
	s.present, s.val, s.dl = true, val, dl
	m.touch(k, true)
}

func (m *wmodel) set(k int, what string, hasTTL bool, ttl int64, mne bool, val string, err error) {
	if !hasTTL {
		ttl = m.ttl
	}
	d := deadlineOf(m.now, ttl)
	exp, why := m.expect(k)
	exists := errors.Is(err, cache.ErrTTLKeyExists)
	m.logf("%s -> %s", what, errName(err))
	if err != nil && !(exists && mne) {
		m.failf("long/big/set/error", "%s returned %v; a Set without must-not-exist always succeeds, and must-not-exist may only fail with AlreadyExists", what, err)
		return
	}
	if mne {
		switch exp {
		case mustMiss:
			if exists {
				m.failf("long/big/set-mne/must-succeed:"+why, "%s reported AlreadyExists but the key is not retrievable (%s). %s", what, why, m.describe(k))
				return
			}
		case mustHit:
			if !exists {
				m.failf("long/big/set-mne/must-fail", "%s succeeded although the key is live: %s", what, m.describe(k))
				return
			}
		}
		if exists {
			m.touch(k, false)
			return
		}
	}
	m.stored(k, val, d)
}

func (m *wmodel) get(k int, what string, rag bool, got []byte, err error) (hit bool) {
	s := &m.ks[k]
	exp, why := m.expect(k)
	hit = err == nil
	miss := errors.Is(err, cache.ErrTTLKeyNotFound)
	if hit {
		m.logf("%s -> %s", what, short(string(got)))
	} else {
		m.logf("%s -> %s", what, errName(err))
	}
	if !hit && !miss {
		m.failf("long/big/get/error", "%s returned %v (neither a value nor NotFound)", what, err)
		return
	}
	switch exp {
	case mustMiss:
		if hit {
			m.failf("long/big/get/must-miss:"+why, "%s returned %.40q but the key must not be retrievable (%s). %s", what, got, why, m.describe(k))
			return
		}
		if s.present {
			m.absent(k, "expired")
		}
		return
	case mustHit:
		if miss {
			m.failf("long/big/get/must-hit", "%s reported NotFound but the key is live and inside the recency window: %s", what, m.describe(k))
			return
		}
	default:
		m.res.Class("big:either:" + why)
		if miss {
			m.absent(k, "evicted-or-expired")
			return
		}
	}
	if string(got) != s.val {
		m.failf("long/big/get/value", "%s returned %s, the latest Set stored %s. %s", what, short(string(got)), short(s.val), m.describe(k))
		return
	}
	if rag {
		m.touch(k, false)
		m.absent(k, "consumed")
		return
	}
	m.touch(k, true)
	return
}

// ---------------------------------------------------------------------------
// generator

var longBigSizes = []int{1000, 1023, 1024, 1025, 1100, 1500, 2000, 2047, 2048, 2049, 3000, 4096, 5000}

func genLongBig(t *rapid.T) LongCase {
	c := LongCase{Shape: "big", Size: rapid.SampledFrom(longBigSizes).Draw(t, "size"), TTL: rapid.SampledFrom([]int64{0, 0, -1, 100000}).Draw(t, "ttl")}
	if rapid.IntRange(0, 5).Draw(t, "smallsize") == 0 {
		c.Size = rapid.SampledFrom([]int{64, 100, 300, 511, 512}).Draw(t, "ssize")
	}
	fill := c.Size
	switch rapid.IntRange(0, 4).Draw(t, "fillkind") {
	case 0:
		fill = c.Size - rapid.IntRange(0, c.Size/2).Draw(t, "under")
	case 1, 2:
		fill = c.Size + rapid.SampledFrom([]int{1, 2, 17, 100, 1024, 1100}).Draw(t, "over")
	case 3:
		fill = c.Size + rapid.IntRange(1, c.Size/3).Draw(t, "over_any")
	}
	if fill < 1 {
		fill = 1
	}
	next := fill // next never used key
	c.Steps = append(c.Steps, BigStep{Kind: "set", From: 0, N: fill},
		BigStep{Kind: "firstout", N: 1}, BigStep{Kind: "oldest", N: 1}, BigStep{Kind: "get", From: fill - 1, N: 1}, BigStep{Kind: "get", From: 0, N: 1})
	n := rapid.IntRange(0, 6).Draw(t, "extra")
	for i := 0; i < n; i++ {
		from := rapid.IntRange(0, next-1).Draw(t, "from")
		cnt := rapid.SampledFrom([]int{1, 2, 10, 100, 1000, 1024, 1100}).Draw(t, "count")
		kind := rapid.IntRange(0, 11).Draw(t, "step")
		if kind > 2 && cnt > next-from { // a run over old keys ends with the last of them
			cnt = next - from
		}
		two := 2
		if two > next-from {
			two = next - from
		}
		switch kind {
		case 0, 1, 2: // new keys: overflow (further), then look at the edge of the window
			c.Steps = append(c.Steps, BigStep{Kind: "set", From: next, N: cnt}, BigStep{Kind: "oldest", N: 2}, BigStep{Kind: "firstout", N: 1})
			next += cnt
		case 3:
			c.Steps = append(c.Steps, BigStep{Kind: "get", From: from, N: cnt, Desc: rapid.Bool().Draw(t, "desc")})
		case 4:
			c.Steps = append(c.Steps, BigStep{Kind: "set", From: from, N: cnt, Desc: rapid.Bool().Draw(t, "desc")})
		case 5:
			c.Steps = append(c.Steps, BigStep{Kind: "remove", From: from, N: cnt}, BigStep{Kind: "get", From: from, N: two})
		case 6:
			c.Steps = append(c.Steps, BigStep{Kind: "rag", From: from, N: cnt}, BigStep{Kind: "get", From: from, N: two})
		case 7:
			c.Steps = append(c.Steps, BigStep{Kind: "mne", From: from, N: cnt})
		case 8:
			c.Steps = append(c.Steps, BigStep{Kind: "oldest", N: rapid.SampledFrom([]int{1, 3, 50}).Draw(t, "oldest")})
		case 9:
			c.Steps = append(c.Steps, BigStep{Kind: "clear"}, BigStep{Kind: "get", From: from, N: two}, BigStep{Kind: "set", From: from, N: cnt}, BigStep{Kind: "oldest", N: 1})
		case 10:
			ttl := rapid.SampledFrom([]int64{5, 50}).Draw(t, "ttl_short")
			c.Steps = append(c.Steps, BigStep{Kind: "setttl", From: from, N: cnt, TTL: ttl}, BigStep{Kind: "advance", Dt: ttl - 1}, BigStep{Kind: "get", From: from, N: 1},
				BigStep{Kind: "advance", Dt: 2}, BigStep{Kind: "get", From: from, N: cnt}, BigStep{Kind: "mne", From: from, N: 1})
		default:
			// everything with a finite ttl expires
			c.Steps = append(c.Steps, BigStep{Kind: "advance", Dt: 100001}, BigStep{Kind: "get", From: from, N: two})
		}
	}
	c.Keys = next
	return c
}

func genLongRounds(t *rapid.T) LongCase {
	c := LongCase{Shape: "rounds",
		Size: rapid.SampledFrom([]int{0, 1, 1, 2, 2, 3, 4, 5, 8}).Draw(t, "size"),
		TTL:  rapid.SampledFrom([]int64{-1, 0, 0, 1, 3, 10, 30 * 86400}).Draw(t, "ttl"),
		Keys: rapid.IntRange(1, 6).Draw(t, "keys"),
	}
	protos := rapid.SliceOfN(genProto(genCfg{keys: c.Keys}), 2, 8).Draw(t, "pattern")
	sets, gets := 0, 0
	for _, p := range protos {
		for _, o := range p.Ops {
			switch o.Kind {
			case "advance":
				if o.Dt > 100 || o.Dt < 0 { // the pattern repeats thousands of times: keep the clock in range
					o.Dt %= 7
				}
			case "set":
				sets++
			case "get":
				gets++
			case "clear":
				if len(c.Pattern)%2 == 0 { // a Clear in every round leaves little else; keep about half of them
					continue
				}
			}
			if len(c.Pattern) < 12 {
				c.Pattern = append(c.Pattern, o)
			}
		}
	}
	if sets == 0 {
		c.Pattern = append([]Op{{Kind: "set", Key: 0}}, c.Pattern...)
	}
	if gets == 0 {
		c.Pattern = append(c.Pattern, Op{Kind: "get", Key: c.Keys - 1})
	}
	c.Rounds = rapid.SampledFrom([]int{1100, 2000, 2100, 3000, 4100, 5000}).Draw(t, "rounds")
	c.ProbeEvery = rapid.SampledFrom([]int{0, 1, 1, 16}).Draw(t, "probe_every")
	per := len(c.Pattern)
	if c.ProbeEvery == 1 {
		per += c.Keys
	} else if c.ProbeEvery > 1 {
		per++
	}
	if most := (1 << 16) / per; c.Rounds > most { // the executor takes at most 65536 calls
		c.Rounds = most
	}
	c.Names = genNames(t, c.Keys)
	return c
}

func genLongClear(t *rapid.T) LongCase {
	c := LongCase{Shape: "clear",
		TTL:  rapid.SampledFrom([]int64{3, 10, 1000}).Draw(t, "ttl"),
		Fill: rapid.SampledFrom([]int{1200, 1500, 2000, 2048, 3000}).Draw(t, "fill"),
		Scan: ScanCfg{
			Page:    rapid.SampledFrom([]int{10, 10, 100, 1000, 3, 1}).Draw(t, "page"),
			Foreign: rapid.SampledFrom([]int{0, 2, 16}).Draw(t, "foreign"),
			Gap:     rapid.SampledFrom([]int{0, 0, 7, 100}).Draw(t, "gap"),
		},
	}
	if rapid.Bool().Draw(t, "striped") {
		c.Stripe = rapid.SampledFrom([]int{2, 3, 10, 500}).Draw(t, "stripe")
	}
	if rapid.Bool().Draw(t, "two_batches") {
		c.Second = rapid.SampledFrom([]int{1, 100, 1100}).Draw(t, "second")
		c.TTL2 = rapid.SampledFrom([]int64{2, 5, 100}).Draw(t, "ttl2")
		c.Dt = int64(rapid.IntRange(0, 2).Draw(t, "dt"))
	}
	total := c.Fill + c.Second
	c.Sample = []int{0, 1, 998, 999, 1000, 1001, 1023, 1024, total - 1}
	for i := 0; i < 6; i++ {
		c.Sample = append(c.Sample, rapid.IntRange(0, total-1).Draw(t, "sample"))
	}
	return c
}

func GenLong(t *rapid.T) LongCase {
	switch rapid.IntRange(0, 9).Draw(t, "shape") {
	case 0, 1, 2, 3:
		return genLongBig(t)
	case 4, 5:
		return genLongClear(t)
	default:
		return genLongRounds(t)
	}
}

// ---------------------------------------------------------------------------
// executors

func ExecLong(c LongCase) *vkit.Result {
	switch c.Shape {
	case "big":
		return execLongBig(c)
	case "rounds":
		return execLongRounds(c)
	case "clear":
		return execLongClear(c)
	}
	res := &vkit.Result{}
	res.Skip("unknown-shape")
	return res
}

const longMaxOps = 1 << 18

func execLongBig(c LongCase) *vkit.Result {
	res := &vkit.Result{}
	if c.Size < 1 || c.Size > 1<<20 || c.Keys < 1 || c.Keys > 1<<17 || len(c.Steps) > 256 {
		res.Skip("malformed-case")
		return res
	}
	touches := 2 * c.Keys // the final probe and slack
	for _, s := range c.Steps {
		if s.N < 0 || s.N > 1<<17 || s.From < 0 || s.Dt < 0 || s.Dt > 1<<40 {
			res.Skip("malformed-case")
			return res
		}
		touches += s.N + 1
	}
	if touches > longMaxOps {
		res.Skip("too-long")
		return res
	}
	res.Class("big")
	res.Class(fmt.Sprintf("big:size=%d", c.Size))
	clk := t0
	restore := cache.VerifSetNow(func() int64 { return clk })
	defer restore()
	ctx := context.Background()
	tc := cache.NewTTLMemCache(c.Size, c.TTL)
	m := newWModel(c.Size, c.TTL, c.Keys, touches, clk, res)
	names := make([]string, c.Keys)
	for k := range names {
		names[k] = fmt.Sprintf("b%d", k)
	}
	step := 0
	value := func() string { return fmt.Sprintf("w%d", step) }
	doGet := func(k int, rag bool) bool {
		m.step = step
		step++
		var v []byte
		var err error
		what := "Get(" + names[k] + ")"
		if rag {
			what = "Get(" + names[k] + ",remove-after-get)"
			v, err = tc.Get(ctx, names[k], cache.WithRemoveAfterGet())
		} else {
			v, err = tc.Get(ctx, names[k])
		}
		return m.get(k, what, rag, v, err)
	}
	for _, s := range c.Steps {
		if res.Fail != nil {
			return res
		}
		switch s.Kind {
		case "clear":
			m.step = step
			step++
			tc.Clear(ctx)
			m.logf("Clear()")
			for k := range m.ks {
				if m.ks[k].present {
					m.absent(k, "cleared")
				}
			}
			res.Class("big:clear")
			continue
		case "advance":
			clk += s.Dt
			m.now = clk
			m.logf("Advance(%d)", s.Dt)
			continue
		case "oldest", "firstout":
			for i := 0; i < s.N && res.Fail == nil; i++ {
				k := m.oldestProtected()
				if s.Kind == "firstout" {
					k = m.firstOut()
				}
				if k < 0 {
					break
				}
				if s.Kind == "oldest" {
					res.Class("big:read-oldest-protected")
					if m.othersAfter(k) == m.size-1 {
						res.Class("big:read-oldest-protected:at-window-edge")
						res.NonTrivial = true
					}
				}
				doGet(k, false)
			}
			continue
		case "set", "setttl", "mne", "get", "rag", "remove":
		default:
			res.Skip("unknown-step")
			continue
		}
		hits := 0
		for i := 0; i < s.N && res.Fail == nil; i++ {
			k := s.From + i
			if s.Desc {
				k = s.From + s.N - 1 - i
			}
			if k >= c.Keys {
				res.Skip("op-on-unknown-key")
				continue
			}
			switch s.Kind {
			case "set", "setttl", "mne":
				m.step = step
				val := value()
				step++
				var fns []cache.SetOptFn
				what := "Set(" + names[k]
				if s.Kind == "setttl" {
					fns = append(fns, cache.WithTTL(s.TTL))
					what += fmt.Sprintf(",ttl=%d", s.TTL)
				}
				if s.Kind == "mne" {
					fns = append(fns, cache.WithMustNotExist())
					what += ",must-not-exist"
				}
				err := tc.Set(ctx, names[k], []byte(val), fns...)
				m.set(k, what+")", s.Kind == "setttl", s.TTL, s.Kind == "mne", val, err)
			case "get", "rag":
				if doGet(k, s.Kind == "rag") {
					hits++
				}
			case "remove":
				m.step = step
				step++
				err := tc.Remove(ctx, names[k])
				m.logf("Remove(%s) -> %s", names[k], errName(err))
				if err != nil {
					m.failf("long/big/remove/error", "Remove(%s) returned %v", names[k], err)
					break
				}
				m.absent(k, "removed")
			}
		}
		// the keys of one run of reads are distinct and no call in between can have added one: they were all
		// retrievable when the run began
		if res.Fail == nil && (s.Kind == "get" || s.Kind == "rag") && hits > c.Size {
			m.failf("long/big/bound/read-run", "a run of Gets over %d distinct keys hit %d times, size is %d", s.N, hits, c.Size)
		}
	}
	if res.Fail != nil {
		return res
	}
	hits := 0
	for k := 0; k < c.Keys && res.Fail == nil; k++ {
		if doGet(k, false) {
			hits++
		}
	}
	if res.Fail == nil && hits > c.Size {
		m.failf("long/big/bound/final-probe", "the final probe of all %d keys hit %d times, size is %d", c.Keys, hits, c.Size)
	}
	if hits > 1024 {
		res.Class("big:more-than-1024-keys-retrievable")
	}
	return res
}

func execLongRounds(c LongCase) *vkit.Result {
	res := &vkit.Result{}
	n := len(c.Pattern)
	if c.Keys < 1 || c.Keys > 16 || n < 1 || n > 64 || c.Rounds < 1 || c.Rounds > 1<<16 || c.ProbeEvery < 0 {
		res.Skip("malformed-case")
		return res
	}
	total := n * c.Rounds
	if c.ProbeEvery > 0 {
		total += c.Rounds / c.ProbeEvery * c.Keys
	}
	if total > 1<<16 {
		res.Skip("too-long")
		return res
	}
	mc := MemCase{Size: c.Size, TTL: c.TTL, Keys: c.Keys, Names: c.Names}
	for r := 1; r <= c.Rounds; r++ {
		mc.Ops = append(mc.Ops, c.Pattern...)
		if c.ProbeEvery > 0 && r%c.ProbeEvery == 0 {
			for k := 0; k < c.Keys; k++ {
				mc.Ops = append(mc.Ops, Op{Kind: "get", Key: k})
			}
		}
	}
	res = ExecMem(mc)
	res.Class("rounds")
	if res.Fail != nil {
		res.Fail.Site = "long/rounds:" + res.Fail.Site
	}
	return res
}

func execLongClear(c LongCase) *vkit.Result {
	res := &vkit.Result{}
	total := c.Fill + c.Second
	if c.TTL <= 0 || c.Fill < 1 || c.Second < 0 || total > 1<<16 || c.Stripe < 0 || c.Stripe == 1 || c.Dt < 0 || c.Dt >= c.TTL ||
		c.Second > 0 && c.TTL2 <= 0 || len(c.Sample) > 256 {
		res.Skip("malformed-case")
		return res
	}
	res.Class("clear")
	clk := t0
	clock := func() int64 { return clk }
	restore := cache.VerifSetNow(clock)
	defer restore()
	ctx := context.Background()
	fake := newFakeRedis(clock, c.Scan)
	mem := cache.NewTTLMemCache(1<<20, c.TTL)
	rds := cache.NewTTLRdsCache(fake, rdsPrefix, c.TTL)
	prefixes := []string{rdsPrefix}
	name := func(k int) string { return fmt.Sprintf("n%d", k) }
	fail := func(site, format string, a ...any) *vkit.Result {
		return res.Failf(site, "%s\ndefault-ttl=%d: %d keys set (every %d-th removed again), %d more %d s later with ttl %d, scan %+v\nlast redis commands: %s",
			fmt.Sprintf(format, a...), c.TTL, c.Fill, c.Stripe, c.Second, c.Dt, c.TTL2, c.Scan.normal(), strings.Join(fake.Tail(6), "; "))
	}
	set := func(k int, what string, fns ...cache.SetOptFn) bool {
		v := []byte(fmt.Sprintf("x%d", k))
		merr, rerr := mem.Set(ctx, name(k), v, fns...), rds.Set(ctx, name(k), v, fns...)
		if outcome(merr) != outcome(rerr) {
			fail("long/clear/set", "%s(%s): in-memory says %s, redis-backed says %s", what, name(k), outcome(merr), outcome(rerr))
			return false
		}
		return true
	}
	get := func(key, when string) bool {
		mv, merr := mem.Get(ctx, key)
		rv, rerr := rds.Get(ctx, key)
		if outcome(merr) != outcome(rerr) {
			fail("long/clear/get", "Get(%s) %s: in-memory says %s, redis-backed says %s", key, when, outcome(merr), outcome(rerr))
			return false
		}
		if merr == nil && string(mv) != string(rv) {
			fail("long/clear/get-value", "Get(%s) %s: in-memory returned %s, redis-backed returned %s", key, when, short(string(mv)), short(string(rv)))
			return false
		}
		return true
	}
	for k := 0; k < c.Fill; k++ {
		if !set(k, "Set") {
			return res
		}
	}
	if c.Stripe > 0 {
		for k := c.Stripe; k < c.Fill; k += c.Stripe {
			merr, rerr := mem.Remove(ctx, name(k)), rds.Remove(ctx, name(k))
			if outcome(merr) != outcome(rerr) {
				return fail("long/clear/remove", "Remove(%s): in-memory says %s, redis-backed says %s", name(k), outcome(merr), outcome(rerr))
			}
		}
		res.Class("clear:holes")
	}
	clk += c.Dt
	for k := c.Fill; k < total; k++ {
		if !set(k, "Set ttl", cache.WithTTL(c.TTL2)) {
			return res
		}
	}
	sample := func(when string) bool {
		for _, k := range c.Sample {
			if k < 0 || k >= total {
				res.Skip("sample-out-of-range")
				continue
			}
			if !get(name(k), when) {
				return false
			}
		}
		return true
	}
	if !sample("before Clear") {
		return res
	}
	layout := fake.ScanLayout(rdsPrefix + "*")
	if len(layout) > 100 {
		res.Class("clear:more-than-100-scan-pages")
	}
	res.Class(fmt.Sprintf("clear:page=%d", c.Scan.normal().Page))
	mem.Clear(ctx)
	rds.Clear(ctx)
	if k := fake.MissingForeign(prefixes); k != "" {
		return fail("long/clear/foreign-key-deleted", "after Clear the server no longer holds %q, a key outside the prefix of the cache", k)
	}
	// whatever the server still holds under the prefix is a key the redis-backed cache serves and the cleared
	// in-memory cache does not: read the first of them through both
	if left := fake.LiveUnder(rdsPrefix, 3); len(left) > 0 {
		for _, full := range left {
			if !get(strings.TrimPrefix(full, rdsPrefix), fmt.Sprintf("after Clear (the server still holds %d keys under the prefix, among them %q)", fake.CountUnder(rdsPrefix), full)) {
				return res
			}
		}
	}
	if !sample("after Clear") {
		return res
	}
	for i, k := range c.Sample {
		if k < 0 || k >= total || i%2 == 1 {
			continue
		}
		if !set(k, "Set must-not-exist after Clear", cache.WithMustNotExist()) {
			return res
		}
	}
	if !sample("after Clear and set-if-absent") {
		return res
	}
	res.NonTrivial = true
	return res
}

var PartLong = &vkit.Part[LongCase]{
	Property: Property, Name: "long",
	Rule:  "rapid: few long histories on ONE instance each. big (4/10): in-memory cache of size in {1000,1023,1024,1025,1100,1500,2000,2047,2048,2049,3000,4096,5000} (1/6: 64..512), default ttl in {0,-1,100000}; b0.. are Set in order - up to half of the size fewer, exactly the size, or 1, 2, 17, 100, 1024, 1100 / up to a third more -, then the newest key beyond the window, the oldest key that must still be there, the last and the first key are read; 0..6 further drawn steps: 1..1100 new keys and a look at both sides of the window's edge, a run of Gets or overwriting Sets (ascending / descending) over 1..1100 old keys, Remove / remove-after-get / set-if-absent of such a run, the 1..50 oldest protected keys, Clear and refill, a run of Sets with ttl 5|50 read one second before and after its end, an advance past every finite ttl; every call is judged by a window model (must-hit / must-miss / either with the observed answer adopted; recency = number of other distinct keys touched since the key's own last touch, kept in a Fenwick tree), a run of Gets may not hit more than size times, and a final probe reads all keys (hits <= size). rounds (4/10): size in {0,1,2,3,4,5,8}, 1..6 keys (special key names as in part mem), a pattern of 2..13 operations drawn like the elements of part mem (advances capped at 100 s) executed 1100..5000 times, every key read after every / every 16th / no round; the whole history (up to 65536 calls) is judged call by call by the three-valued model of part mem, with its final probe and bound. clear (2/10): 1200..3000 keys with ttl in {3,10,1000} set in a redis-backed cache (fake server paging its SCAN by 1, 3, 10, 100 or 1000 slots, foreign keys up front and in between) and an in-memory cache, optionally every 2nd/3rd/10th/500th removed again (holes) and 1..1100 more keys with another ttl 0..2 s later; 15 sample keys (among them 998..1001, 1023, 1024, the last) are read through both before Clear, after Clear and after a set-if-absent of half of them: outcomes and values must agree, foreign keys survive, and every key the server still holds under the prefix after Clear is read through both. Non-trivial: big - the oldest protected key sits exactly on the window's edge when read; clear - always; rounds - as in part mem",
	Quick: 40, Thorough: 400,
	Gen: GenLong, Exec: ExecLong,
}
