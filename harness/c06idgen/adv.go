package c06idgen

// part "adv-shared" (plain binary) / "race-adv" (-race binary): concurrent
// callers of wall-clock nodes on a clock that keeps moving.
//
// Part race-shared drives the shared HardNode with a piecewise-constant script
// (at most ten different readings per case). Here the clock advances with every
// reading - a scripted clock proportional to the global tick counter, so that
// any two readings differ (or, at the slower rates, every few readings share a
// millisecond), or the machine's own clock, with NO hook installed - and one,
// two or three DIFFERENT generators (different node numbers; HardNodes,
// sometimes a MonoNode) are called at the same time, each by its own goroutines.
// The statement is about each generator by itself: its ids are distinct,
// increasing per goroutine and in interval order, carry its own node and a
// timestamp not earlier than the clock reading of the call, whatever other
// generators of the package do meanwhile.

import (
	"fmt"
	"runtime"
	"sort"
	"sync"
	"sync/atomic"
	"time"

	"github.com/pinealctx/neptune/idgen/snowflake"
	"pgregory.net/rapid"

	"verifharness/vkit"
)

type AdvGen struct {
	Kind string `json:"kind"` // hard | mono
	Node int64  `json:"node"`
	// hard: created with an id AheadMs ahead of the first clock reading (step 4095); -1: created with 0
	AheadMs int64 `json:"ahead_ms"`
}

type AdvCase struct {
	Cfg Cfg `json:"cfg"` // Cfg.Node is not used (the generators carry their nodes)
	// Clock of the HardNodes: "ticks": reading number r of the case (r counts all
	// ticks of the global counter) is Start + r*Num/Den ms after the epoch, read
	// through VerifSetNow; "real": the package's default clock, no hook installed.
	Clock string   `json:"clock"`
	Start int64    `json:"start,omitempty"`
	Num   int64    `json:"num,omitempty"`
	Den   int64    `json:"den,omitempty"`
	Gens  []AdvGen `json:"gens"`
	G     int      `json:"g"`     // goroutines; goroutine g calls generator g % len(Gens)
	Calls int      `json:"calls"` // per goroutine
	Procs int      `json:"procs"`
	// Free: the goroutines run free - no tick bracket around the calls (the shared
	// counter would keep the callers in step), up to 100 000 calls each; only the
	// ids are kept and judged without the interval order.
	Free bool `json:"free,omitempty"`
}

func ExecAdv(c AdvCase) *vkit.Result {
	res := &vkit.Result{}
	cfg := c.Cfg
	cfg.Node = 0
	ng := len(c.Gens)
	if !cfg.valid() || ng < 1 || ng > 4 || c.G < ng || c.G > 64 || c.Calls < 1 || c.Calls > 200000 || c.Procs < 1 || c.Procs > 64 {
		res.Skip("invalid-shape")
		return res
	}
	if c.Clock != "ticks" && c.Clock != "real" {
		res.Skip("unknown-clock")
		return res
	}
	lay := cfg.layout()
	nodeMax := int64(1)<<cfg.NodeBits - 1
	haveMono, maxAhead, hardGoroutines := false, int64(0), 0
	for i, g := range c.Gens {
		if g.Kind != "hard" && g.Kind != "mono" {
			res.Skip("unknown-kind")
			return res
		}
		if g.Node < 0 || g.Node > nodeMax || g.AheadMs < -1 || g.AheadMs > maxDelta {
			res.Skip("invalid-shape")
			return res
		}
		for _, h := range c.Gens[:i] {
			if h.Node == g.Node {
				res.Skip("equal-nodes") // two live nodes with one number are outside the documented use
				return res
			}
		}
		if g.Kind == "mono" {
			haveMono = true
		} else {
			if g.AheadMs > maxAhead {
				maxAhead = g.AheadMs
			}
			for k := i; k < c.G; k += ng {
				hardGoroutines++
			}
		}
	}
	if (haveMono || c.Clock == "real") && (cfg.EpochMs > ms2026 || !realClockInside(cfg)) {
		res.Skip("real-clock-outside-width")
		return res
	}
	total := c.G * c.Calls
	at := func(r uint64) int64 { return 0 }
	if c.Clock == "ticks" {
		if c.Num < 1 || c.Num > msDay || c.Den < 1 || c.Den > 1<<20 || c.Start > maxDelta || c.Start < -maxDelta || cfg.EpochMs+c.Start < 0 {
			res.Skip("out-of-width")
			return res
		}
		// domain: every reading and the slots consumed by all calls stay inside the width
		// (three ticks per call: start, clock read, end)
		last := c.Start + (3*int64(total)+8)*c.Num/c.Den
		if last > maxDelta || last+maxAhead+int64(hardGoroutines*c.Calls/4096)+8 > lay.maxTs() {
			res.Skip("out-of-width")
			return res
		}
		start, num, den := c.Start, c.Num, c.Den
		at = func(r uint64) int64 { return start + int64(r)*num/den }
		if c.Start < 0 {
			res.Class("clock-before-epoch")
		}
		if cfg.EpochMs+last > nanoEndMs {
			res.Class("clock-after-2262")
		}
		switch {
		case c.Num >= c.Den:
			res.Class("ticks-clock: every reading a new millisecond")
		default:
			res.Class("ticks-clock: several readings per millisecond")
		}
	}
	cfg.classes(res)
	res.Class("clock=" + c.Clock)
	res.Class(fmt.Sprintf("generators=%d", ng))
	res.Class(fmt.Sprintf("goroutines=%d", c.G))
	if haveMono {
		res.Class("with-mono-node")
	}

	restoreCfg := cfg.install(res)
	defer restoreCfg()
	var ticks atomic.Uint64
	epoch := cfg.EpochMs
	if c.Clock == "ticks" {
		restoreNow := snowflake.VerifSetNow(func() time.Time {
			return msTime(epoch+at(ticks.Add(1)), 0)
		})
		defer restoreNow()
	}
	// "real": nothing is installed - the node reads whatever clock the package uses by default

	wall0 := time.Now()
	nodes := make([]snowflake.Node, ng)
	lasts := make([]int64, ng)
	for i, g := range c.Gens {
		if g.Kind == "mono" {
			n, err := snowflake.NewMonoNode(g.Node)
			if err != nil || n == nil {
				return res.Failf("adv/newnode", "generator %d: NewMonoNode(%d) with nodeBits %d: %v", i, g.Node, cfg.NodeBits, err)
			}
			if msg := monoEpochDefect(n, Cfg{EpochMs: cfg.EpochMs, NodeBits: cfg.NodeBits, NodeAtLowest: cfg.NodeAtLowest, Node: g.Node}); msg != "" {
				return res.Failf("mono/epoch-not-monotonic", "%s", msg)
			}
			nodes[i], lasts[i] = n, -1
			continue
		}
		last := int64(0)
		if g.AheadMs >= 0 {
			base := at(0)
			if c.Clock == "real" {
				base = wall0.UnixMilli() - epoch
			}
			if base < 0 {
				base = 0
			}
			last = lay.compose(base+g.AheadMs, g.Node, stepMax)
			res.Class("created-ahead-of-clock")
		}
		n, err := snowflake.NewNode(g.Node, last)
		if err != nil || n == nil {
			return res.Failf("adv/newnode", "generator %d: NewNode(%d, %d) with nodeBits %d: %v", i, g.Node, last, cfg.NodeBits, err)
		}
		if last == 0 {
			last = -1 // nothing to stay above: the id only has to keep the sign bit clear
		}
		nodes[i], lasts[i] = n, last
	}

	oldProcs := runtime.GOMAXPROCS(c.Procs)
	defer runtime.GOMAXPROCS(oldProcs)

	if c.Free {
		return execAdvFree(c, res, cfg, nodes, lasts)
	}
	recs := make([][]rec, c.G)
	for g := range recs {
		recs[g] = make([]rec, c.Calls)
	}
	real := c.Clock == "real"
	var wg sync.WaitGroup
	gate := make(chan struct{})
	for g := 0; g < c.G; g++ {
		wg.Add(1)
		go func(g int) {
			defer wg.Done()
			mine := recs[g]
			node := nodes[g%ng]
			<-gate
			for i := range mine {
				var before int64
				s := ticks.Add(1)
				if real {
					// the machine's clock, read before the call: the reading the node takes
					// inside the call is not earlier (an order between two readings, no wait)
					before = time.Now().UnixMilli() - epoch
				}
				id := node.Generate()
				e := ticks.Add(1)
				mine[i] = rec{start: s, end: e, id: id, g: g, i: i, before: before}
			}
		}(g)
	}
	close(gate)
	wg.Wait()
	wall1 := time.Now()
	// Guard, not a verdict: if the machine's wall clock was set back while the case
	// ran (it lost more than a millisecond against the monotonic clock), two wall
	// readings are not ordered and the timestamp check of the real-clock shape is
	// left out.
	steppedBack := real && wall1.Sub(wall0)-time.Duration(wall1.UnixNano()-wall0.UnixNano()) > time.Millisecond
	if steppedBack {
		res.Skip("wall-clock-set-back-during-case")
	}

	overlaps := 0
	for gi, g := range c.Gens {
		var mine [][]rec
		for k := gi; k < c.G; k += ng {
			mine = append(mine, recs[k])
		}
		label := fmt.Sprintf("%s node %d (generator %d of %d, clock %s)", g.Kind, g.Node, gi, ng, c.Clock)
		all, byID, ov, site, msg := judgeOrder(label, mine)
		if site != "" {
			return res.Failf(site, "%s", msg)
		}
		if len(mine) >= 2 {
			overlaps += ov
		}
		if byID[0].id <= lasts[gi] {
			r := byID[0]
			if r.id < 0 {
				return res.Failf("adv/negative-id", "%s: goroutine %d call %d: id %d has the sign bit set", label, r.g, r.i, r.id)
			}
			lts, lnd, lst := lay.decode(lasts[gi])
			ts, nd, st := lay.decode(r.id)
			return res.Failf("adv/not-above-last", "%s: goroutine %d call %d: id %d (ts %d node %d step %d) is not above the last id given to NewNode %d (ts %d node %d step %d)",
				label, r.g, r.i, r.id, ts, nd, st, lasts[gi], lts, lnd, lst)
		}
		for _, r := range all {
			ts, nd, st := lay.decode(r.id)
			if nd != g.Node {
				return res.Failf("adv/node-field", "%s: goroutine %d call %d: id %d decodes to node %d (ts %d step %d), the generator's node is %d; nodes of the live generators: %v, nodeBits %d nodeAtLowest %v",
					label, r.g, r.i, r.id, nd, ts, st, g.Node, advNodes(c.Gens), cfg.NodeBits, cfg.NodeAtLowest)
			}
			if g.Kind != "hard" {
				continue
			}
			if real {
				if !steppedBack && ts < r.before {
					return res.Failf("adv/ts-before-clock", "%s: goroutine %d call %d: the machine's clock read %d ms after the epoch before the call, id %d carries timestamp %d (%d ms earlier; step %d)",
						label, r.g, r.i, r.before, r.id, ts, r.before-ts, st)
				}
			} else if lo := at(r.start + 1); ts < lo {
				return res.Failf("adv/ts-before-clock", "%s: goroutine %d call %d (ticks %d..%d): every clock reading during the call was at least %d ms after the epoch, id %d carries timestamp %d (step %d)",
					label, r.g, r.i, r.start, r.end, lo, r.id, ts, st)
			}
		}
	}
	if ng >= 2 {
		if crossOverlap(recs, ng) {
			res.Class("different-generators-called-at-once")
			overlaps++
		}
	}
	if overlaps > 0 {
		res.Class("calls-overlapped")
		res.NonTrivial = c.G >= 2
	}
	return res
}

// execAdvFree is the free-running shape: the goroutines call their generators in
// tight loops and keep the ids only. Judged per generator: each goroutine's ids
// strictly increasing, all ids distinct, above the id given to NewNode, sign bit
// clear, node field of the generator that returned the id.
func execAdvFree(c AdvCase, res *vkit.Result, cfg Cfg, nodes []snowflake.Node, lasts []int64) *vkit.Result {
	res.Class("free-running")
	lay := cfg.layout()
	ng := len(c.Gens)
	ids := make([][]int64, c.G)
	for g := range ids {
		ids[g] = make([]int64, c.Calls)
	}
	var wg sync.WaitGroup
	gate := make(chan struct{})
	for g := 0; g < c.G; g++ {
		wg.Add(1)
		go func(g int) {
			defer wg.Done()
			mine := ids[g]
			node := nodes[g%ng]
			<-gate
			for i := range mine {
				mine[i] = node.Generate()
			}
		}(g)
	}
	close(gate)
	wg.Wait()
	for gi, g := range c.Gens {
		label := fmt.Sprintf("%s node %d (generator %d of %d, clock %s, free-running)", g.Kind, g.Node, gi, ng, c.Clock)
		var all []int64
		for k := gi; k < c.G; k += ng {
			for i, id := range ids[k] {
				ts, nd, st := lay.decode(id)
				if id < 0 {
					return res.Failf("adv/negative-id", "%s: goroutine %d call %d: id %d has the sign bit set", label, k, i, id)
				}
				if i > 0 && id <= ids[k][i-1] {
					return res.Failf("race/goroutine-order", "%s: goroutine %d call %d got id %d after id %d", label, k, i, id, ids[k][i-1])
				}
				if id <= lasts[gi] {
					return res.Failf("adv/not-above-last", "%s: goroutine %d call %d: id %d is not above the last id given to NewNode %d", label, k, i, id, lasts[gi])
				}
				if nd != g.Node {
					return res.Failf("adv/node-field", "%s: goroutine %d call %d: id %d decodes to node %d (ts %d step %d), the generator's node is %d; nodes of the live generators: %v, nodeBits %d nodeAtLowest %v",
						label, k, i, id, nd, ts, st, g.Node, advNodes(c.Gens), cfg.NodeBits, cfg.NodeAtLowest)
				}
			}
			all = append(all, ids[k]...)
		}
		sort.Slice(all, func(i, j int) bool { return all[i] < all[j] })
		for i := 1; i < len(all); i++ {
			if all[i] == all[i-1] {
				ts, nd, st := lay.decode(all[i])
				return res.Failf("race/duplicate", "%s: id %d (ts %d node %d step %d) returned twice", label, all[i], ts, nd, st)
			}
		}
	}
	// no tick bracket: whether calls overlapped is not observed; the case counts as
	// non-trivial when several goroutines ran on several processors
	res.NonTrivial = c.G >= 2 && c.Procs >= 2
	return res
}

func advNodes(gens []AdvGen) []int64 {
	out := make([]int64, len(gens))
	for i, g := range gens {
		out[i] = g.Node
	}
	return out
}

type advIv struct {
	s, e uint64
	gen  int
}

// crossOverlap: some call of one generator started while a call of another
// generator was running (goroutine g belongs to generator g % ng).
func crossOverlap(recs [][]rec, ng int) bool {
	var all []advIv
	for g := range recs {
		for _, r := range recs[g] {
			all = append(all, advIv{r.start, r.end, g % ng})
		}
	}
	sort.Slice(all, func(i, j int) bool { return all[i].s < all[j].s })
	maxEnd := make([]uint64, ng)
	for _, x := range all {
		for h := 0; h < ng; h++ {
			if h != x.gen && maxEnd[h] > x.s {
				return true
			}
		}
		if x.e > maxEnd[x.gen] {
			maxEnd[x.gen] = x.e
		}
	}
	return false
}

func GenAdv(t *rapid.T) AdvCase { return genAdv(t, true) }

// GenAdvRace: without the free-running shape (100 000 calls per goroutine are too slow under the race detector).
func GenAdvRace(t *rapid.T) AdvCase { return genAdv(t, false) }

func genAdv(t *rapid.T, withFree bool) AdvCase {
	var c AdvCase
	c.Clock = rapid.SampledFrom([]string{"ticks", "ticks", "real"}).Draw(t, "clock")
	ng := rapid.SampledFrom([]int{1, 2, 2, 3}).Draw(t, "generators")
	withMono := ng >= 2 && rapid.IntRange(0, 4).Draw(t, "withMono") == 0
	c.Cfg = genCfg(t, c.Clock == "ticks" && !withMono)
	c.Cfg.Node = 0
	lay := c.Cfg.layout()
	nodeMax := int64(1)<<c.Cfg.NodeBits - 1
	nodes := rapid.SliceOfNDistinct(rapid.OneOf(rapid.SampledFrom([]int64{0, 1, 2, nodeMax - 1, nodeMax}), rapid.Int64Range(0, nodeMax)),
		ng, ng, func(v int64) int64 { return v }).Draw(t, "nodes")
	maxAhead := int64(0)
	for i, nd := range nodes {
		g := AdvGen{Kind: "hard", Node: nd, AheadMs: -1}
		if withMono && i == 1 {
			g.Kind = "mono"
		} else if rapid.IntRange(0, 3).Draw(t, "createdAhead") == 0 {
			g.AheadMs = rapid.SampledFrom([]int64{0, 1, 5, 1000}).Draw(t, "aheadMs")
			if g.AheadMs > maxAhead {
				maxAhead = g.AheadMs
			}
		}
		c.Gens = append(c.Gens, g)
	}
	c.G = rapid.SampledFrom([]int{4, 2, 8, 3, 16}).Draw(t, "g")
	if c.G < ng {
		c.G = ng
	}
	c.Calls = rapid.SampledFrom([]int{50, 300, 1000, 3000}).Draw(t, "calls")
	c.Procs = rapid.SampledFrom([]int{2, 4, 8}).Draw(t, "procs")
	if withFree && rapid.IntRange(0, 14).Draw(t, "free") == 0 {
		c.Free = true
		c.G = ng * rapid.IntRange(1, 2).Draw(t, "perGenerator")
		if c.G < 2 {
			c.G = 2
		}
		c.Calls = rapid.SampledFrom([]int{20000, 100000}).Draw(t, "freeCalls")
	}
	if c.Clock == "ticks" {
		// rate of the clock in milliseconds per tick: from 50 ticks per millisecond to a day per tick
		r := rapid.SampledFrom([][2]int64{{1, 1}, {1, 1}, {1, 2}, {1, 3}, {1, 8}, {1, 50}, {2, 3}, {3, 1}, {1000, 1}, {msHour, 1}, {msDay, 1}}).Draw(t, "rate")
		c.Num, c.Den = r[0], r[1]
		span := (3*int64(c.G*c.Calls)+8)*c.Num/c.Den + maxAhead + int64(c.G*c.Calls/4096) + 16
		if span > lay.maxTs()/2 {
			// a day per tick times many calls does not fit the narrowest widths: slow the clock down
			c.Num, span = msHour/60, (3*int64(c.G*c.Calls)+8)*(msHour/60)/c.Den+maxAhead+int64(c.G*c.Calls/4096)+16
		}
		top := lay.maxTs() - span
		bottom := -c.Cfg.EpochMs // no reading before 1970
		if top < bottom {
			top = bottom // does not fit the width: ExecAdv will skip it
		}
		switch rapid.IntRange(0, 4).Draw(t, "startKind") {
		case 0:
			c.Start = -rapid.Int64Range(1, 5000).Draw(t, "beforeEpoch")
		case 1:
			c.Start = 0
		case 2:
			c.Start = top - rapid.Int64Range(0, 5000).Draw(t, "nearEnd")
		default:
			lo := int64(0)
			if lo < bottom {
				lo = bottom
			}
			c.Start = lo
			if lo < top {
				c.Start = rapid.Int64Range(lo, top).Draw(t, "anywhere")
			}
		}
		if c.Start > top {
			c.Start = top
		}
		if c.Start < bottom {
			c.Start = bottom
		}
	}
	return c
}

const ruleAdv = "G: config as part hard (epoch up to 2026 for the real clock / a MonoNode); 1-3 generators with pairwise different in-field node numbers - HardNodes (created with 0 or an id 0 ms..1 s ahead of the clock), in 1 of 5 multi-generator cases one MonoNode - " +
	"called at the same time by 2,3,4,8,16 goroutines (goroutine g calls generator g mod n), 50-3000 calls each, GOMAXPROCS 2/4/8; the HardNodes' clock keeps moving: either a scripted clock proportional to the global atomic tick counter " +
	"(reading r = start + r*num/den ms; 50 readings per millisecond .. one day per reading, so at rates >= 1 no two readings are equal), read through VerifSetNow, or (1 in 3) the machine's own clock with no hook installed; every call is bracketed by ticks of the counter. " +
	"O, per generator: all ids distinct; each goroutine's ids strictly increasing; call a returned before call b started => id_a < id_b; ids above the id given to NewNode; sign bit clear; decoded node == the node of the generator that returned the id; " +
	"HardNode timestamp >= the least reading the scripted clock could hand out during the call / >= the machine's clock read (by the harness) just before the call - an order between two readings, left out if the wall clock was set back against the monotonic one during the case. " +
	"Part race-adv runs from a -race binary, part adv-shared is the same generator and oracle in the plain binary, where 1 case in 15 is free-running: no tick bracket (the shared counter keeps callers in step), 20 000 / 100 000 calls per goroutine, " +
	"judged without the interval order and the timestamp bound. NT: calls (of one generator or of different generators) overlapped in tick time; free-running: >= 2 goroutines on >= 2 processors."

// PartAdv is the plain-binary part, PartRaceAdv its twin under the race detector.
var PartAdv = vkit.Part[AdvCase]{
	Property: Property, Name: "adv-shared", Rule: ruleAdv,
	Quick: 300, Thorough: 1500,
	Gen: GenAdv, Exec: ExecAdv,
}

var PartRaceAdv = vkit.Part[AdvCase]{
	Property: Property, Name: "race-adv", Rule: ruleAdv,
	Quick: 60, Thorough: 800,
	Gen: GenAdvRace, Exec: ExecAdv,
}
