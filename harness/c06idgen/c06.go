// Package c06idgen decides property C06: every id returned by a snowflake node
// (wall-clock HardNode, monotonic MonoNode) or by the unix-nano generators is
// strictly greater than every id the same generator returned before, whatever
// the clock does and however many goroutines call it; a restarted wall-clock
// node continues above the id it was given; ids never carry a timestamp
// earlier than the clock reading of the call; the node field is the configured
// node.
//
// The oracles are written from the statement and the documented bit layout
// (idgen/snowflake/snowflake.go header comment, README): they never call
// IDFields / figureShift and never predict the exact id.
package c06idgen

import (
	"fmt"
	"math"
	"runtime"
	"sort"
	"strconv"
	"strings"
	"sync"
	"sync/atomic"
	"time"

	"github.com/pinealctx/neptune/idgen/nano"
	"github.com/pinealctx/neptune/idgen/snowflake"
	"pgregory.net/rapid"

	"verifharness/vkit"
)

const Property = "C06"

// ---------------------------------------------------------------------------
// the documented layout, stated independently of the package
//
//	b0 sign (0) | timestamp ms since epoch (63-nodeBits-12 bits) | node | step(12)
//	node-at-lowest:            ... timestamp ...                 | step(12) | node
//
// nodeBits is 10, 9 or 8 (1024 / 512 / 256 nodes; 41 / 42 / 43 timestamp bits).

const (
	stepBits = 12
	stepMax  = 1<<stepBits - 1

	ms2000 = 946684800000  // 2000-01-01T00:00:00Z in Unix ms
	ms2021 = 1609430400000 // the package's default epoch
	ms2026 = 1767225600000 // 2026-01-01T00:00:00Z (upper end of "epoch in the past"; no wall clock in Gen)
	ms2100 = 4102444800000
	// last millisecond whose nanosecond count fits int64 (2262-04-11T23:47:16.854Z)
	nanoEndMs = math.MaxInt64 / 1000000
)

type layout struct {
	nodeBits uint
	atLowest bool
}

func (l layout) timeShift() uint { return l.nodeBits + stepBits }
func (l layout) maxTs() int64    { return 1<<(63-l.timeShift()) - 1 }

func (l layout) decode(id int64) (ts, node, step int64) {
	low := id & (1<<l.timeShift() - 1)
	ts = id >> l.timeShift()
	if l.atLowest {
		node = low & (1<<l.nodeBits - 1)
		step = low >> l.nodeBits
	} else {
		step = low & stepMax
		node = low >> stepBits
	}
	return ts, node, step
}

func (l layout) compose(ts, node, step int64) int64 {
	if l.atLowest {
		return ts<<l.timeShift() | step<<l.nodeBits | node
	}
	return ts<<l.timeShift() | node<<stepBits | step
}

// Cfg is the package-global snowflake configuration plus the node number.
type Cfg struct {
	EpochMs      int64 `json:"epoch_ms"`
	NodeBits     uint8 `json:"node_bits"`
	NodeAtLowest bool  `json:"node_at_lowest"`
	Node         int64 `json:"node"`
	// ViaSetup: the configuration is installed through the package's public API
	// (Setup(UseEpoch, UseNodeMode, NodeAtLowest) on top of the package defaults)
	// instead of the hook VerifSetConfig; the hook only restores it afterwards.
	ViaSetup bool `json:"via_setup,omitempty"`
	// SetupCalls (with ViaSetup): the Setup calls a program makes, in order, on top
	// of the package defaults; each call is a list of options in the order given:
	// "epoch" / "mode" / "lowest" = UseEpoch(EpochMs) / UseNodeMode(NodeBits) /
	// NodeAtLowest(); "epoch=<ms>" / "mode=<bits>" = the same options with another
	// value (overridden by a later one). Empty: one call with all options in the
	// order epoch, mode, lowest. The calls must lead to this configuration when
	// every option means what it documents (checked by setupModel, else skipped).
	SetupCalls [][]string `json:"setup_calls,omitempty"`
}

// install makes the configuration current and returns the function restoring the
// previous one. With ViaSetup the package is first put back to its documented
// defaults (epoch 2021-01-01, 1024 nodes, node above the step) - Setup cannot
// switch node-at-lowest off again - and then configured the way a program does:
// through one or several Setup calls with the options in the drawn order. What
// the options document: UseEpoch sets the epoch, UseNodeMode the node width,
// NodeAtLowest the position of the node; Setup applies them, in order, to the
// configuration in force (an option not given leaves its setting alone).
func (c Cfg) install(res *vkit.Result) (restore func()) {
	if !c.ViaSetup {
		return snowflake.VerifSetConfig(c.EpochMs, c.NodeBits, c.NodeAtLowest)
	}
	res.Class("config-via-Setup")
	restore = snowflake.VerifSetConfig(ms2021, 10, false)
	calls := c.SetupCalls
	if len(calls) == 0 {
		calls = [][]string{{"epoch", "mode"}}
		if c.NodeAtLowest {
			calls[0] = append(calls[0], "lowest")
		}
	} else {
		res.Class(fmt.Sprintf("setup-calls=%d", len(calls)))
	}
	for k, call := range calls {
		var opts []snowflake.Option
		sawLowest := false
		for _, o := range call {
			name, val := c.setupOption(o)
			switch name {
			case "epoch":
				opts = append(opts, snowflake.UseEpoch(msTime(val, 0)))
			case "mode":
				var mode snowflake.NodeBitsMode
				switch val {
				case 8:
					mode = snowflake.Node256
				case 9:
					mode = snowflake.Node512
				default:
					mode = snowflake.Node1024
				}
				opts = append(opts, snowflake.UseNodeMode(mode))
				if sawLowest {
					res.Class("setup: NodeAtLowest before UseNodeMode")
				}
			case "lowest":
				opts = append(opts, snowflake.NodeAtLowest())
				sawLowest = true
			}
		}
		if k > 0 && len(call) < 3 {
			res.Class("setup: later call gives only some options")
		}
		snowflake.Setup(opts...)
	}
	return restore
}

// setupOption parses one element of SetupCalls: the option's name and value.
func (c Cfg) setupOption(o string) (name string, val int64) {
	switch o {
	case "epoch":
		return "epoch", c.EpochMs
	case "mode":
		return "mode", int64(c.NodeBits)
	case "lowest":
		return "lowest", 1
	}
	if i := strings.IndexByte(o, '='); i > 0 {
		v, err := strconv.ParseInt(o[i+1:], 10, 64)
		if err == nil && (o[:i] == "epoch" && v >= 0 && v <= nanoEndMs || o[:i] == "mode" && v >= 8 && v <= 10) {
			return o[:i], v
		}
	}
	return "", 0
}

// setupModel is the documented meaning of the Setup calls, stated independently:
// starting from the package defaults every option overwrites its own setting,
// later ones win, nothing else changes. ok: the calls are well-formed and lead
// to the configuration of the case.
func (c Cfg) setupModel() (ok bool) {
	if len(c.SetupCalls) == 0 {
		return true
	}
	if !c.ViaSetup || len(c.SetupCalls) > 4 {
		return false
	}
	epoch, bits, lowest := int64(ms2021), int64(10), false
	for _, call := range c.SetupCalls {
		if len(call) > 8 {
			return false
		}
		for _, o := range call {
			switch name, val := c.setupOption(o); name {
			case "epoch":
				epoch = val
			case "mode":
				bits = val
			case "lowest":
				lowest = true
			default:
				return false
			}
		}
	}
	return epoch == c.EpochMs && bits == int64(c.NodeBits) && lowest == c.NodeAtLowest
}

func (c Cfg) layout() layout { return layout{uint(c.NodeBits), c.NodeAtLowest} }

func (c Cfg) valid() bool {
	if c.NodeBits != 8 && c.NodeBits != 9 && c.NodeBits != 10 {
		return false
	}
	// Setup(UseEpoch(t)) stores t.UnixNano()/1e6, so no epoch beyond the
	// int64-nanosecond horizon can be configured through the package's API; the
	// hook could install one, the check does not.
	// (a node outside the field is a legal argument: the constructors have to refuse it)
	return c.Node >= -1<<40 && c.Node <= 1<<40 && c.EpochMs >= 0 && c.EpochMs <= nanoEndMs && c.setupModel()
}

func (c Cfg) classes(res *vkit.Result) {
	res.Class(fmt.Sprintf("nodeBits=%d", c.NodeBits))
	if c.NodeAtLowest {
		res.Class("node-at-lowest")
	}
	switch {
	case c.Node == 0:
		res.Class("node=0")
	case c.Node == 1<<c.NodeBits-1:
		res.Class("node=max")
	}
	switch {
	case c.EpochMs > nanoEndMs-86400000:
		res.Class("epoch-at-horizon")
	case c.EpochMs > ms2026:
		res.Class("epoch-in-future")
	case c.EpochMs == 0:
		res.Class("epoch=1970 (0)")
	case c.EpochMs < ms2000:
		res.Class("epoch-before-2000")
	}
}

// msTime is the instant absMs milliseconds (+subNs nanoseconds) after the Unix epoch.
func msTime(absMs int64, subNs int64) time.Time {
	sec := absMs / 1000
	rem := absMs % 1000
	if rem < 0 {
		rem += 1000
		sec--
	}
	return time.Unix(sec, rem*1000000+subNs)
}

// nodeOutside: the configured node does not fit the node field.
func (c Cfg) nodeOutside() bool { return c.Node < 0 || c.Node > int64(1)<<c.NodeBits-1 }

func genCfg(t *rapid.T, lateEpochs bool) Cfg {
	var c Cfg
	c.NodeBits = uint8(rapid.SampledFrom([]int{8, 9, 10}).Draw(t, "nodeBits"))
	c.NodeAtLowest = rapid.Bool().Draw(t, "atLowest")
	nodeMax := int64(1)<<c.NodeBits - 1
	switch rapid.IntRange(0, 6).Draw(t, "nodeKind") {
	case 6:
		// outside the node field: the constructors must refuse it - or, if one accepts it, the ids must still carry it
		c.Node = rapid.SampledFrom([]int64{nodeMax + 1, nodeMax + 2, 2 * (nodeMax + 1), -1, 1 << 40}).Draw(t, "nodeOut")
	case 0:
		c.Node = 0
	case 1:
		c.Node = 1
	case 2:
		c.Node = nodeMax
	default:
		c.Node = rapid.Int64Range(0, nodeMax).Draw(t, "node")
	}
	k := rapid.IntRange(0, 11).Draw(t, "epochKind")
	if !lateEpochs && (k == 8 || k == 9) {
		k = 3
	}
	switch k {
	case 10: // the Unix epoch itself (epoch value 0) and the millisecond after it
		c.EpochMs = rapid.SampledFrom([]int64{0, 0, 1}).Draw(t, "epochZero")
	case 11:
		c.EpochMs = rapid.Int64Range(0, ms2000).Draw(t, "epochEarly")
	case 0, 1:
		c.EpochMs = ms2000
	case 2:
		c.EpochMs = ms2021
	case 8: // an epoch ahead of today's calendar, still before the int64-nanosecond horizon
		c.EpochMs = rapid.Int64Range(ms2100, nanoEndMs).Draw(t, "epochFuture")
	case 9: // the last epochs Setup can express (just below the int64-nanosecond horizon)
		c.EpochMs = nanoEndMs - rapid.Int64Range(0, 86400000).Draw(t, "epochLate")
	default:
		c.EpochMs = rapid.Int64Range(ms2000, ms2026).Draw(t, "epoch")
	}
	c.ViaSetup = rapid.IntRange(0, 3).Draw(t, "viaSetup") == 0
	if c.ViaSetup && rapid.IntRange(0, 3).Draw(t, "setupPlan") != 0 {
		c.SetupCalls = genSetupCalls(t, c)
	}
	return c
}

// genSetupCalls draws the Setup calls of a program that ends up with the
// configuration c: the options in any order, spread over 1-3 calls (a call may
// be empty), options that restate a default left out or given, and options with
// another value given before the final one (a first configuration that a later
// call changes in part).
func genSetupCalls(t *rapid.T, c Cfg) [][]string {
	var opts []string
	// earlier, different values: always before the final option of the same kind
	decoyEpoch := rapid.IntRange(0, 2).Draw(t, "decoyEpoch") == 0
	decoyMode := rapid.IntRange(0, 2).Draw(t, "decoyMode") == 0
	if c.EpochMs != ms2021 || decoyEpoch || rapid.Bool().Draw(t, "restateEpoch") {
		opts = append(opts, "epoch")
	}
	if c.NodeBits != 10 || decoyMode || rapid.Bool().Draw(t, "restateMode") {
		opts = append(opts, "mode")
	}
	if c.NodeAtLowest {
		opts = append(opts, "lowest")
		if rapid.IntRange(0, 3).Draw(t, "lowestTwice") == 0 {
			opts = append(opts, "lowest")
		}
	}
	if decoyEpoch {
		opts = append(opts, "epoch="+strconv.FormatInt(rapid.SampledFrom([]int64{0, ms2000, ms2021, ms2026, ms2100}).Draw(t, "decoyEpochMs"), 10))
	}
	if decoyMode {
		opts = append(opts, "mode="+strconv.Itoa(rapid.SampledFrom([]int{8, 9, 10}).Draw(t, "decoyBits")))
	}
	if len(opts) > 1 {
		perm := rapid.Permutation(opts).Draw(t, "optionOrder")
		opts = perm
	}
	// a value given before the final one: swap where the draw put it behind
	for _, kind := range []string{"epoch", "mode"} {
		final, decoy := -1, -1
		for i, o := range opts {
			if o == kind {
				final = i
			} else if strings.HasPrefix(o, kind+"=") {
				decoy = i
			}
		}
		if final >= 0 && decoy > final {
			opts[final], opts[decoy] = opts[decoy], opts[final]
		}
	}
	ncalls := rapid.IntRange(1, 3).Draw(t, "setupCalls")
	calls := make([][]string, ncalls)
	for i := range calls {
		calls[i] = []string{}
	}
	k := 0
	for _, o := range opts {
		if k < ncalls-1 && rapid.IntRange(0, 2).Draw(t, "nextCall") == 0 {
			k++
		}
		calls[k] = append(calls[k], o)
	}
	return calls
}

// ---------------------------------------------------------------------------
// part "hard": HardNode trajectories with restarts

// Seg is one stretch of a clock trajectory: the clock moves by DeltaMs, an
// optional restart happens, then Calls ids are generated at that reading.
type Seg struct {
	DeltaMs int64 `json:"delta_ms"`
	SubNs   int64 `json:"sub_ns,omitempty"` // sub-millisecond part of the reading
	Calls   int   `json:"calls"`
	// Restart: 0 none (the first segment always creates the node), 1 NewNode(node,
	// last issued id), 2 NewNode(node, an id of this node AheadMs ahead of the
	// current reading with step AheadStep - never below the last issued id).
	Restart   int   `json:"restart,omitempty"`
	AheadMs   int64 `json:"ahead_ms,omitempty"`
	AheadStep int   `json:"ahead_step,omitempty"`
}

type HardCase struct {
	Cfg        Cfg   `json:"cfg"`
	StartOffMs int64 `json:"start_off_ms"` // clock reading of the first segment, relative to the epoch
	Segs       []Seg `json:"segs"`
}

const (
	maxDelta = int64(1) << 45
	maxCalls = 20000
)

// domain decides, from the case alone, whether the trajectory stays inside what
// the format can express: every id needs its own (timestamp, step) slot at or
// after the clock reading, so the least possible slot index is
// phi_i = max(phi_{i-1}+1, reading_i*4096); it must stay inside the timestamp
// width (with 2 ms to spare). Returns "" or the reason for skipping.
func (c HardCase) domain() string {
	lay := c.Cfg.layout()
	limit := (lay.maxTs() - 2) << stepBits
	off := c.StartOffMs
	if off > maxDelta || off < -maxDelta {
		return "out-of-width"
	}
	hi := int64(0)
	for k, s := range c.Segs {
		if s.DeltaMs > maxDelta || s.DeltaMs < -maxDelta || s.Calls < 0 || s.Calls > maxCalls ||
			s.SubNs < 0 || s.SubNs > 999999 || s.AheadMs < 0 || s.AheadMs > maxDelta ||
			s.AheadStep < 0 || s.AheadStep > stepMax || s.Restart < 0 || s.Restart > 2 {
			return "malformed-segment"
		}
		off += s.DeltaMs
		if off > maxDelta || off < -maxDelta {
			return "out-of-width"
		}
		if c.Cfg.EpochMs+off < 0 {
			return "clock-before-1970"
		}
		if s.Restart == 2 {
			base := off
			if base < 0 {
				base = 0
			}
			if a := (base+s.AheadMs)<<stepBits + int64(s.AheadStep); a > hi {
				hi = a
			}
		}
		if s.Calls > 0 {
			if v := off<<stepBits - 1; v > hi {
				hi = v
			}
			hi += int64(s.Calls)
		}
		if hi > limit {
			return "out-of-width"
		}
		_ = k
	}
	return ""
}

func ExecHard(c HardCase) *vkit.Result {
	res := &vkit.Result{}
	if !c.Cfg.valid() {
		res.Skip("invalid-config")
		return res
	}
	if why := c.domain(); why != "" {
		res.Skip(why)
		return res
	}
	lay := c.Cfg.layout()
	c.Cfg.classes(res)

	restoreCfg := c.Cfg.install(res)
	defer restoreCfg()
	var cur time.Time
	restoreNow := snowflake.VerifSetNow(func() time.Time { return cur })
	defer restoreNow()

	var node snowflake.Node
	var prev int64 // greatest id issued so far, or the last id handed to NewNode
	afterRestart := false
	off := c.StartOffMs
	calls := 0
	lastReading, haveReading := int64(0), false
	sawBefore2262, sawAfter2262 := false, false
	for k, s := range c.Segs {
		off += s.DeltaMs
		abs := c.Cfg.EpochMs + off
		cur = msTime(abs, s.SubNs)
		if node == nil || s.Restart != 0 {
			last := prev
			if s.Restart == 2 {
				base := off
				if base < 0 {
					base = 0
				}
				if a := lay.compose(base+s.AheadMs, c.Cfg.Node, int64(s.AheadStep)); a > last {
					last = a
				}
			}
			n, err := snowflake.NewNode(c.Cfg.Node, last)
			if err != nil && c.Cfg.nodeOutside() {
				res.Class("node outside the field: refused")
				return res
			}
			if err != nil || n == nil {
				return res.Failf("hard/newnode", "seg %d: NewNode(%d, %d) with nodeBits %d: %v", k, c.Cfg.Node, last, c.Cfg.NodeBits, err)
			}
			if node != nil {
				res.Class("restart")
			} else if last == 0 {
				// first creation with "no previous id": nothing to stay above, the
				// id only has to keep the sign bit clear (documented layout: b0 = 0)
				last = -1
			}
			node, prev, afterRestart = n, last, true
			if lts, _, _ := lay.decode(last); last > 0 && lts > off && s.Calls > 0 {
				res.Class("restart-ahead-of-clock")
			}
		}
		if s.Calls == 0 {
			continue
		}
		if off < 0 {
			res.Class("clock-before-epoch")
		}
		if abs > nanoEndMs {
			sawAfter2262 = true
			res.Class("clock-after-2262")
		} else {
			sawBefore2262 = true
		}
		if sawAfter2262 && sawBefore2262 {
			res.Class("crosses-2262")
		}
		if off >= lay.maxTs()-100000 {
			res.Class("near-end-of-width")
		}
		if haveReading && off < lastReading {
			res.Class("rewind")
			res.NonTrivial = true
			if lastReading-off > 10*msYear {
				res.Class("rewind>10y")
			}
		}
		if haveReading && off-lastReading > 10*msYear {
			res.Class("forward-jump>10y")
		}
		if haveReading && off == lastReading || s.Calls >= 2 {
			res.Class("stall")
			res.NonTrivial = true
		}
		if s.Calls > stepMax {
			res.Class("over-4096-per-ms")
		}
		lastReading, haveReading = off, true
		if prev > 0 {
			// how far the ids already issued (or handed to NewNode) run ahead of the clock
			pts, _, _ := lay.decode(prev)
			switch lead := pts - off; {
			case lead > msYear:
				res.Class("ids-ahead-of-clock>1y")
			case lead > msDay:
				res.Class("ids-ahead-of-clock>1d")
			case lead > msHour:
				res.Class("ids-ahead-of-clock>1h")
			case lead > 5*msMinute:
				res.Class("ids-ahead-of-clock>5min")
			case lead > 10*msSecond:
				res.Class("ids-ahead-of-clock>10s")
			}
		}
		for i := 0; i < s.Calls; i++ {
			id := node.Generate()
			calls++
			ts, nd, st := lay.decode(id)
			if id < 0 {
				return res.Failf("hard/negative-id", "seg %d call %d (clock %d ms after epoch): id %d has the sign bit set (ts %d node %d step %d)", k, i, off, id, ts, nd, st)
			}
			if id <= prev {
				pts, pnd, pst := lay.decode(prev)
				site, what := "hard/not-increasing", "previous id"
				if afterRestart {
					site, what = "hard/restart-not-above-last", "last id given to NewNode"
				}
				return res.Failf(site, "seg %d call %d (clock %d ms after epoch): id %d (ts %d node %d step %d) is not above the %s %d (ts %d node %d step %d)",
					k, i, off, id, ts, nd, st, what, prev, pts, pnd, pst)
			}
			if nd != c.Cfg.Node {
				return res.Failf("hard/node-field", "seg %d call %d: id %d decodes to node %d (ts %d step %d), configured node %d, nodeBits %d nodeAtLowest %v",
					k, i, id, nd, ts, st, c.Cfg.Node, c.Cfg.NodeBits, c.Cfg.NodeAtLowest)
			}
			if ts < off {
				return res.Failf("hard/ts-before-clock", "seg %d call %d: clock reads %s = %d ms after the epoch, id %d carries timestamp %d (%d ms earlier; node %d step %d)",
					k, i, cur.UTC().Format("2006-01-02T15:04:05.000Z"), off, id, ts, off-ts, nd, st)
			}
			if st == 0 && !afterRestart {
				if pts, _, pst := lay.decode(prev); pst == stepMax && ts == pts+1 && off <= pts {
					res.Class("wrap-carry")
					if s.DeltaMs < 0 {
						res.Class("rewind-across-wrap")
					}
				}
			}
			prev, afterRestart = id, false
		}
	}
	if calls == 0 {
		res.NonTrivial = false
		res.Skip("no-calls")
	}
	return res
}

var callKinds = []int{1, 1, 2, 3, 4095, 4096, 4097, 8192, 9000}
var bigJumps = []int64{1000, 60000, 86400000, 31536000000}

const (
	msSecond = int64(1000)
	msMinute = 60 * msSecond
	msHour   = 60 * msMinute
	msDay    = 24 * msHour
	msYear   = 365 * msDay
)

// drawSpan draws a positive number of milliseconds from every scale a clock step,
// a rewind or a restart lead can have: milliseconds, seconds, minutes, hours,
// days, years.
func drawSpan(t *rapid.T, label string) int64 {
	switch rapid.IntRange(0, 8).Draw(t, label+"Scale") {
	case 8:
		return drawFar(t, label)
	case 0:
		return rapid.Int64Range(1, 10000).Draw(t, label+"Ms")
	case 1:
		return msSecond*rapid.Int64Range(1, 120).Draw(t, label+"S") + rapid.Int64Range(0, 999).Draw(t, label+"Frac")
	case 2:
		return msMinute*rapid.Int64Range(1, 120).Draw(t, label+"Min") + rapid.Int64Range(0, msMinute-1).Draw(t, label+"Frac")
	case 3:
		return msHour*rapid.Int64Range(1, 48).Draw(t, label+"H") + rapid.Int64Range(0, msHour-1).Draw(t, label+"Frac")
	case 4:
		return msDay*rapid.Int64Range(1, 800).Draw(t, label+"D") + rapid.Int64Range(0, msDay-1).Draw(t, label+"Frac")
	case 5:
		return msYear * rapid.Int64Range(1, 8).Draw(t, label+"Y")
	case 6:
		// just beyond the round thresholds a plausibility test would use
		return rapid.SampledFrom([]int64{5 * msMinute, msHour, msDay, 7 * msDay, msYear}).Draw(t, label+"Round") + rapid.Int64Range(0, 2).Draw(t, label+"Over")
	default:
		return rapid.Int64Range(1, 10*msYear).Draw(t, label+"Any")
	}
}

// drawFar draws a span of decades: just beyond 10 / 20 / 50 years (where a
// plausibility test on a clock step would put its threshold) or anything from 10
// to 60 years. The generators place the trajectory so that it fits the timestamp
// width of the layout (about 69 / 139 / 278 years); what does not fit is skipped.
func drawFar(t *rapid.T, label string) int64 {
	if rapid.Bool().Draw(t, label+"FarRound") {
		return rapid.SampledFrom([]int64{10 * msYear, 10*msYear + 3*msDay, 11 * msYear, 20 * msYear, 25 * msYear, 50 * msYear, 60 * msYear}).Draw(t, label+"FarY") + rapid.Int64Range(0, 2).Draw(t, label+"Over")
	}
	return rapid.Int64Range(10*msYear, 60*msYear).Draw(t, label+"Far")
}

func genSegs(t *rapid.T) []Seg {
	n := rapid.IntRange(1, 8).Draw(t, "nsegs")
	segs := make([]Seg, n)
	for k := range segs {
		s := &segs[k]
		if k > 0 {
			switch rapid.IntRange(0, 9).Draw(t, "deltaKind") {
			case 0:
				s.DeltaMs = -rapid.Int64Range(1, 10000).Draw(t, "rewind")
			case 8: // rewind on any scale: seconds, minutes, hours, days, years
				s.DeltaMs = -drawSpan(t, "rewind")
			case 9:
				// return from an excursion: the clock goes back by (about) the last forward
				// jump, e.g. after a wrong date had been set and was corrected
				back := int64(0)
				for j := k - 1; j >= 1 && back == 0; j-- {
					if segs[j].DeltaMs >= msSecond {
						back = segs[j].DeltaMs
					}
				}
				if back == 0 {
					back = drawSpan(t, "rewind")
				}
				s.DeltaMs = -back + rapid.SampledFrom([]int64{0, 0, -1, 1, -1000, 1000}).Draw(t, "returnJitter")
				if s.DeltaMs >= 0 {
					s.DeltaMs = -1
				}
			case 1:
				s.DeltaMs = -1
			case 2, 3:
				s.DeltaMs = 0
			case 4:
				s.DeltaMs = 1
			case 5:
				s.DeltaMs = rapid.Int64Range(2, 50).Draw(t, "fwd")
			case 6:
				s.DeltaMs = rapid.SampledFrom(bigJumps).Draw(t, "jump")
			default:
				if rapid.IntRange(0, 2).Draw(t, "farJump") == 0 {
					s.DeltaMs = drawFar(t, "jump") // decades ahead (a wrong date was set)
				} else {
					s.DeltaMs = rapid.Int64Range(1, 5*31536000000).Draw(t, "bigjump")
				}
			}
		}
		if rapid.IntRange(0, 2).Draw(t, "callsKind") == 0 {
			s.Calls = rapid.IntRange(1, 200).Draw(t, "callsN")
		} else {
			s.Calls = rapid.SampledFrom(callKinds).Draw(t, "calls")
		}
		if rapid.Bool().Draw(t, "hasSub") {
			s.SubNs = rapid.Int64Range(0, 999999).Draw(t, "subNs")
		}
		r := rapid.IntRange(0, 7).Draw(t, "restartKind")
		switch {
		case k == 0 && r >= 6, k > 0 && r == 7:
			s.Restart = 2
			switch rapid.IntRange(0, 7).Draw(t, "aheadKind") {
			case 0:
				s.AheadMs = 0
			case 1:
				s.AheadMs = 1
			case 2:
				s.AheadMs = 1000
			case 3:
				s.AheadMs = 60000
			case 4:
				s.AheadMs = rapid.Int64Range(0, 10000).Draw(t, "aheadMs")
			default: // lead on any scale: the node was stopped while its ids ran (far) ahead of the clock
				s.AheadMs = drawSpan(t, "ahead")
			}
			s.AheadStep = rapid.SampledFrom([]int{0, 1, stepMax - 1, stepMax, -1}).Draw(t, "aheadStep")
			if s.AheadStep < 0 {
				s.AheadStep = rapid.IntRange(0, stepMax).Draw(t, "aheadStepN")
			}
		case k > 0 && r == 6:
			s.Restart = 1
		}
	}
	return segs
}

func GenHard(t *rapid.T) HardCase {
	c := HardCase{Cfg: genCfg(t, true)}
	lay := c.Cfg.layout()
	c.Segs = genSegs(t)
	// computed headroom: the start offset is chosen after the trajectory, so that
	// start + all forward jumps + restart leads + one millisecond per 4096 calls
	// stays inside the timestamp width
	// need: the farthest the trajectory reaches above its start (readings and
	// restart leads); minPre: the farthest it falls below it
	var pre, need, minPre int64
	total := 0
	for _, s := range c.Segs {
		pre += s.DeltaMs
		if pre > need {
			need = pre
		}
		if pre < minPre {
			minPre = pre
		}
		if s.Restart == 2 {
			if pre+s.AheadMs > need {
				need = pre + s.AheadMs
			}
			if s.AheadMs > need {
				need = s.AheadMs
			}
		}
		total += s.Calls
	}
	top := lay.maxTs() - (need + int64(total/4096) + int64(len(c.Segs)) + 8)
	bottom := -c.Cfg.EpochMs - minPre // no reading before 1970
	if top < bottom {
		top = bottom // does not fit the width: ExecHard will skip it
	}
	between := func(lo, hi int64, label string) int64 {
		if lo < bottom {
			lo = bottom
		}
		if hi > top {
			hi = top
		}
		if lo >= hi {
			return lo
		}
		return rapid.Int64Range(lo, hi).Draw(t, label)
	}
	boundary := int64(nanoEndMs) - c.Cfg.EpochMs // last reading whose UnixNano is defined
	var start int64
	switch rapid.IntRange(0, 10).Draw(t, "startKind") {
	case 0:
		start = -rapid.Int64Range(1, 20000).Draw(t, "beforeEpoch")
	case 10: // long before the epoch (as far back as 1970)
		start = -drawSpan(t, "beforeEpoch")
	case 1:
		start = 0
	case 2:
		start = rapid.Int64Range(1, 10000).Draw(t, "early")
	case 3, 4:
		start = between(0, top, "anywhere")
	case 5, 6:
		start = top - rapid.Int64Range(0, 5000).Draw(t, "nearEnd")
	case 7:
		if boundary > 0 && boundary < top {
			start = boundary - rapid.Int64Range(0, 3).Draw(t, "atHorizon")
		} else {
			start = top - rapid.Int64Range(0, 5000).Draw(t, "nearEnd")
		}
	default:
		lo := boundary + 1
		if lo < 0 {
			lo = 0
		}
		if lo <= top {
			start = between(lo, top, "afterHorizon")
		} else {
			start = top - rapid.Int64Range(0, 5000).Draw(t, "nearEnd")
		}
	}
	if start > top {
		start = top
	}
	if start < bottom {
		start = bottom
	}
	c.StartOffMs = start
	return c
}

const ruleHard = "G: config {epoch 0 | 1 | 1970..2000 | 2000..2026 | 2100..2262-04-11 (the last epoch Setup can express), nodeBits 8/9/10, node-at-lowest, node 0/1/max/random} installed via VerifSetConfig or (1 in 4) via the public Setup(UseEpoch, UseNodeMode, NodeAtLowest) on top of the defaults - there, in 3 of 4 cases, as a drawn program: options in any order over 1-3 Setup calls, later calls giving only some options, restated defaults, first values overridden later; " +
	"1-8 clock segments (delta: rewind 1 ms..10 s or on any scale s/min/h/d/y up to 10 y and decades (10..60 y), return from the last forward jump (+-1 ms, +-1 s), 0, +1 ms, +small, +1 s..5 y, +10..60 y (incl. just beyond 10 / 20 / 50 y) as far as the timestamp width allows; calls 1,2,3,4095,4096,4097,8192,9000 or 1..200; optional sub-ms part) " +
	"read through VerifSetNow; restarts NewNode(node,last issued id) or NewNode(node, id ahead of the clock by 0 ms..years); start offset before the epoch (ms .. years, never before 1970), 0, anywhere, " +
	"at the top of the timestamp width minus computed headroom, at / after the int64-nanosecond horizon (2262-04-11). " +
	"O: strict chain of ids incl. across restarts (first id after NewNode(node,last) > last), sign bit clear, decoded node == configured, decoded timestamp >= clock - epoch (own decoder). " +
	"NT: some call reads a clock value <= the reading of the previous call (stall or rewind spanning >= 1 call)."

var PartHard = vkit.Part[HardCase]{
	Property: Property, Name: "hard", Rule: ruleHard,
	Quick: 4000, Thorough: 40000,
	Gen: GenHard, Exec: ExecHard,
}

// PartHardEdges runs ExecHard over a fixed list of boundary trajectories (every
// layout at the first and last millisecond of its width, at the epoch, at the
// int64-nanosecond horizon), so that these corners do not depend on the seed.
var PartHardEdges = vkit.Part[HardCase]{
	Property: Property, Name: "hard-edges",
	Rule: "fixed list: nodeBits 8/9/10 x node-at-lowest x node {1 (config via hook), max (config via Setup)} x epoch {0 (1970), 2000, default 2021, 2200, 2262-04-11 horizon} x start {-1, 0, horizon-1, 2270-01-01, top of width} x " +
		"{stall 4097 calls; 2 calls, rewind 1 s, 4097 calls, restart with last id, +1 ms, 2 calls; 2 calls, rewind 5 min, 2 calls, rewind 1 h, 2 calls, rewind 1 d + restart with last id, 2 calls, restart with an id 1 d ahead, 2 calls; from the epoch: 2 calls, +11 y, 2 calls, +50 y, 2 calls, -55 y, 2 calls}; " +
		"for epoch 2000 and the largest node: the configuration reached through 3-4 other sequences of Setup calls (options in another order, spread over several calls, a first call with other values); " +
		"starts outside the width and trajectories reaching before 1970 are left out. Same oracle and NT rule as part hard.",
	Exec: ExecHard,
}

func HardEdgeCases() []HardCase {
	var out []HardCase
	const ms2200, ms2270 = 7258118400000, 9467107200000
	for _, nb := range []uint8{8, 9, 10} {
		for _, low := range []bool{false, true} {
			for _, node := range []int64{1, 1<<nb - 1} {
				for _, ep := range []int64{0, ms2000, ms2021, ms2200, nanoEndMs} {
					// the largest node of each layout is configured through Setup, the other through the hook
					cfg := Cfg{EpochMs: ep, NodeBits: nb, NodeAtLowest: low, Node: node, ViaSetup: node != 1}
					lay := cfg.layout()
					starts := []int64{-1, 0, nanoEndMs - ep - 1, ms2270 - ep, lay.maxTs() - 16}
					seen := map[int64]bool{}
					for _, st := range starts {
						if st < -1 || st > lay.maxTs()-16 || seen[st] {
							continue
						}
						seen[st] = true
						if ep+st-1000 >= 0 {
							out = append(out,
								HardCase{Cfg: cfg, StartOffMs: st, Segs: []Seg{{Calls: 4097}}},
								HardCase{Cfg: cfg, StartOffMs: st, Segs: []Seg{{Calls: 2}, {DeltaMs: -1000, Calls: 4097, SubNs: 999999}, {Restart: 1, Calls: 1}, {DeltaMs: 1001, Calls: 2}}},
							)
						}
						if st == 0 {
							// decades: the clock jumps 11 and 50 years ahead and comes back by 55 (inside every width)
							out = append(out, HardCase{Cfg: cfg, StartOffMs: st, Segs: []Seg{{Calls: 2}, {DeltaMs: 11 * msYear, Calls: 2}, {DeltaMs: 50 * msYear, Calls: 2}, {DeltaMs: -55 * msYear, Calls: 2}}})
						}
						if st == 0 && ep == ms2000 && node != 1 {
							// the same configuration reached through other Setup calls: option order, several calls, a later call that gives only some options
							plans := [][][]string{
								{{"mode", "epoch"}},
								{{"mode"}, {"epoch"}},
								{{"epoch"}, {"mode"}},
								{{"epoch=0", "mode=9"}, {}, {"mode", "epoch"}},
							}
							if low {
								plans = [][][]string{
									{{"lowest", "mode", "epoch"}},
									{{"mode", "lowest"}, {"epoch"}},
									{{"epoch", "lowest"}, {"mode"}},
									{{"lowest"}, {"epoch=0", "mode=9"}, {"mode", "epoch"}},
								}
							}
							for _, plan := range plans {
								pc := cfg
								pc.SetupCalls = plan
								out = append(out, HardCase{Cfg: pc, StartOffMs: st, Segs: []Seg{{Calls: 3}, {DeltaMs: 1, Calls: 2}}})
							}
						}
						// far rewinds: 5 min, 1 h, restart after another day back, restart with an id more than a day ahead
						if ep+st-(5*msMinute+1)-(msHour+1)-msDay >= 0 {
							out = append(out, HardCase{Cfg: cfg, StartOffMs: st, Segs: []Seg{{Calls: 2}, {DeltaMs: -5*msMinute - 1, Calls: 2}, {DeltaMs: -msHour - 1, Calls: 2},
								{DeltaMs: -msDay, Restart: 1, Calls: 2}, {Restart: 2, AheadMs: msDay + 2, AheadStep: stepMax, Calls: 2}}})
						}
					}
				}
			}
		}
	}
	return out
}

// ---------------------------------------------------------------------------
// part "nano": UnixNanoID / UnixNanoNoLockID sequences

type NanoOp struct {
	Ts   int64 `json:"ts"`
	Real bool  `json:"real,omitempty"` // GenID(): the real clock supplies the timestamp
}

type NanoCase struct {
	NoLock bool     `json:"no_lock"`
	Init   int64    `json:"init"`
	Ops    []NanoOp `json:"ops"`
}

// timestamps within 2^32 of MaxInt64 are outside the domain (current+1 must not overflow)
const nanoLimit = math.MaxInt64 - 1<<32

type nanoGen interface {
	GenID() int64
	GenIDByTS(ts int64) int64
}

func ExecNano(c NanoCase) *vkit.Result {
	res := &vkit.Result{}
	if c.Init > nanoLimit {
		res.Skip("init-beyond-headroom")
		return res
	}
	var g nanoGen
	if c.NoLock {
		res.Class("nolock")
		g = nano.NewUnixNanoNoLockID(c.Init)
	} else {
		res.Class("locked")
		g = nano.NewUnixNanoID(c.Init)
	}
	if c.Init < 0 {
		res.Class("negative-init")
	}
	prev := c.Init
	first := true
	done := 0
	for i, op := range c.Ops {
		if op.Real {
			id := g.GenID()
			res.Class("real-clock")
			if id <= prev {
				return res.Failf("nano/not-increasing", "op %d GenID() = %d, not above the previous id %d", i, id, prev)
			}
			prev, first = id, false
			done++
			continue
		}
		if op.Ts > nanoLimit {
			res.Skip("ts-beyond-headroom")
			continue
		}
		id := g.GenIDByTS(op.Ts)
		done++
		if id <= prev {
			if first {
				return res.Failf("nano/not-above-initial", "op %d GenIDByTS(%d) = %d, not above the current id %d the generator was created with", i, op.Ts, id, c.Init)
			}
			return res.Failf("nano/not-increasing", "op %d GenIDByTS(%d) = %d, not above the previous id %d", i, op.Ts, id, prev)
		}
		switch {
		case op.Ts > prev:
			// documented: "if bigger than current, return it"
			if id != op.Ts {
				return res.Failf("nano/ts-not-returned", "op %d GenIDByTS(%d) = %d though the timestamp is above the previous id %d", i, op.Ts, id, prev)
			}
		case op.Ts == prev:
			res.Class("ts-equal-current")
			res.NonTrivial = true
		default:
			res.Class("ts-below-current")
			res.NonTrivial = true
		}
		if op.Ts < 0 {
			res.Class("negative-ts")
		}
		if op.Ts > nanoLimit-1<<20 {
			res.Class("near-max")
		}
		prev, first = id, false
	}
	if done == 0 {
		res.NonTrivial = false
		res.Skip("no-calls")
	}
	return res
}

func GenNano(t *rapid.T) NanoCase {
	c := NanoCase{NoLock: rapid.Bool().Draw(t, "noLock")}
	switch rapid.IntRange(0, 7).Draw(t, "initKind") {
	case 0:
		c.Init = 0
	case 1:
		c.Init = -rapid.Int64Range(1, 1<<40).Draw(t, "initNeg")
	case 2:
		c.Init = math.MinInt64
	case 3:
		c.Init = nanoLimit - rapid.Int64Range(0, 1<<20).Draw(t, "initTop")
	case 4:
		c.Init = 1790000000000000000 + rapid.Int64Range(-1<<50, 1<<50).Draw(t, "initNow")
	default:
		c.Init = rapid.Int64Range(math.MinInt64, nanoLimit).Draw(t, "init")
	}
	n := rapid.IntRange(1, 120).Draw(t, "nops")
	ts := c.Init
	if rapid.Bool().Draw(t, "startElsewhere") {
		ts = rapid.Int64Range(math.MinInt64, nanoLimit).Draw(t, "ts0")
	}
	add := func(d int64) {
		// saturating move inside [MinInt64, nanoLimit]
		if d > 0 && ts > nanoLimit-d {
			ts = nanoLimit
		} else if d < 0 && ts < math.MinInt64-d {
			ts = math.MinInt64
		} else {
			ts += d
		}
	}
	for i := 0; i < n; i++ {
		var op NanoOp
		switch rapid.IntRange(0, 11).Draw(t, "opKind") {
		case 0, 1: // same timestamp again
		case 2:
			add(-1)
		case 3:
			add(1)
		case 4:
			add(2)
		case 5:
			add(-rapid.Int64Range(1, 1000000).Draw(t, "back"))
		case 6:
			add(rapid.Int64Range(1, 1000000).Draw(t, "fwd"))
		case 7:
			add(-rapid.Int64Range(1, math.MaxInt64).Draw(t, "farBack"))
		case 8:
			add(rapid.Int64Range(1, math.MaxInt64).Draw(t, "farFwd"))
		case 9:
			ts = rapid.Int64Range(math.MinInt64, nanoLimit).Draw(t, "abs")
		case 10:
			ts = nanoLimit - rapid.Int64Range(0, 1<<20).Draw(t, "top")
		default:
			op.Real = true
		}
		op.Ts = ts
		if op.Real {
			op.Ts = 0
		}
		c.Ops = append(c.Ops, op)
	}
	return c
}

const ruleNano = "G: UnixNanoID or UnixNanoNoLockID created with current in {0, negative, MinInt64, near MaxInt64-2^32, around today's nanoseconds, random}; 1-120 calls " +
	"GenIDByTS(ts) with ts walking by {0,-1,+1,+2,-small,+small,-far,+far, absolute, top of the range} (saturating inside [MinInt64, MaxInt64-2^32]) and a few GenID() on the real clock. " +
	"O: every id > previous id and > the initial current; ts above the previous id is returned unchanged. NT: at least one ts <= the previous id (stall or rewind)."

var PartNano = vkit.Part[NanoCase]{
	Property: Property, Name: "nano", Rule: ruleNano,
	Quick: 20000, Thorough: 200000,
	Gen: GenNano, Exec: ExecNano,
}

// ---------------------------------------------------------------------------
// part "mono": MonoNode on the real monotonic clock

type MonoCase struct {
	Cfg   Cfg `json:"cfg"`
	Calls int `json:"calls"`
}

// realClockInside is a domain guard, not an oracle: MonoNode reads the machine's
// clock, which must lie after the epoch and inside the timestamp width (it does
// for every generated epoch unless the machine's clock is badly off).
func realClockInside(c Cfg) bool {
	off := time.Now().UnixMilli() - c.EpochMs
	return off >= 0 && off < c.layout().maxTs()-86400000
}

// monoEpochDefect looks at the instant a MonoNode measures elapsed time from
// (hook VerifMonoEpoch). The node cannot be driven by an injected clock, so its
// immunity against steps of the wall clock is checked at its root: time.Since
// uses the monotonic clock only if that instant carries a monotonic reading
// (package time: such a Time prints with an " m=" suffix); without it every
// Generate subtracts wall-clock readings and a backward step repeats ids. For
// the epochs used here (1970..2026) time.Time.Add keeps the reading (it is only
// dropped for results before 1885 or after 2157).
func monoEpochDefect(node snowflake.Node, c Cfg) string {
	ep, ok := snowflake.VerifMonoEpoch(node)
	if !ok {
		return "" // not a *MonoNode: nothing to look at, the id oracles still apply
	}
	if str := ep.String(); !strings.Contains(str, " m=") {
		return fmt.Sprintf("NewMonoNode(%d), epoch %d ms: the node's reference instant %q carries no monotonic clock reading, time.Since(epoch) falls back to the wall clock and ids repeat when it steps back",
			c.Node, c.EpochMs, str)
	}
	return ""
}

func ExecMono(c MonoCase) *vkit.Result {
	res := &vkit.Result{}
	if !c.Cfg.valid() || c.Cfg.EpochMs > ms2026 || c.Calls < 0 || c.Calls > 200000 {
		res.Skip("invalid-config")
		return res
	}
	lay := c.Cfg.layout()
	if !realClockInside(c.Cfg) {
		res.Skip("real-clock-outside-width")
		return res
	}
	c.Cfg.classes(res)
	restoreCfg := c.Cfg.install(res)
	defer restoreCfg()
	node, err := snowflake.NewMonoNode(c.Cfg.Node)
	if err != nil && c.Cfg.nodeOutside() {
		res.Class("node outside the field: refused")
		return res
	}
	if err != nil || node == nil {
		return res.Failf("mono/newnode", "NewMonoNode(%d) with nodeBits %d: %v", c.Cfg.Node, c.Cfg.NodeBits, err)
	}
	if msg := monoEpochDefect(node, c.Cfg); msg != "" {
		return res.Failf("mono/epoch-not-monotonic", "%s", msg)
	}
	ids := make([]int64, c.Calls)
	for i := range ids {
		ids[i] = node.Generate()
	}
	var prev int64
	for i, id := range ids {
		ts, nd, st := lay.decode(id)
		if i > 0 && id <= prev {
			pts, pnd, pst := lay.decode(prev)
			return res.Failf("mono/not-increasing", "call %d: id %d (ts %d node %d step %d) is not above the previous id %d (ts %d node %d step %d)",
				i, id, ts, nd, st, prev, pts, pnd, pst)
		}
		if nd != c.Cfg.Node {
			return res.Failf("mono/node-field", "call %d: id %d decodes to node %d (ts %d step %d), configured node %d, nodeBits %d nodeAtLowest %v",
				i, id, nd, ts, st, c.Cfg.Node, c.Cfg.NodeBits, c.Cfg.NodeAtLowest)
		}
		if id < 0 {
			return res.Failf("mono/negative", "call %d: id %d is negative", i, id)
		}
		if i > 0 {
			pts, _, pst := lay.decode(prev)
			if pts == ts {
				res.Class("same-ms")
				res.NonTrivial = true
			}
			if pst == stepMax && st == 0 && ts > pts {
				res.Class("wrap-spin-to-next-ms")
			}
		}
		prev = id
	}
	return res
}

func GenMono(t *rapid.T) MonoCase {
	return MonoCase{Cfg: genCfg(t, false), Calls: rapid.SampledFrom([]int{1000, 20000, 20000, 40000}).Draw(t, "calls")}
}

const ruleMono = "G: config as part hard with an epoch in 1970 (0)..2026; NewMonoNode(node) then a tight loop of 1 000 / 20 000 / 40 000 Generate calls on the real monotonic clock " +
	"(more than 4096 per millisecond on this machine, so the spin-to-next-millisecond path runs; see class wrap-spin-to-next-ms). " +
	"O: strict chain, decoded node == configured, non-negative; the node's reference instant (hook VerifMonoEpoch) carries a monotonic clock reading (site mono/epoch-not-monotonic; also in parts multi and race-shared). NT: two consecutive ids share a millisecond (the clock stalled between two calls)."

var PartMono = vkit.Part[MonoCase]{
	Property: Property, Name: "mono", Rule: ruleMono,
	Quick: 150, Thorough: 1500,
	Gen: GenMono, Exec: ExecMono,
}

// ---------------------------------------------------------------------------
// part "race-shared": 2-16 goroutines share one generator while a thread-safe
// scripted clock moves

// RSeg: the scripted value moves by Delta and then stays for Ticks ticks of the
// global tick counter (a call of kind hard/nano takes three ticks: start, clock
// read, end).
type RSeg struct {
	Delta int64 `json:"d"`
	Ticks int   `json:"ticks"`
}

type RaceCase struct {
	Kind  string `json:"kind"` // hard | mono | nano
	Cfg   Cfg    `json:"cfg"`
	G     int    `json:"g"`
	Calls int    `json:"calls"` // per goroutine
	Procs int    `json:"procs"`
	// hard: clock offset from the epoch in ms; nano: timestamp in ns
	Start int64  `json:"start"`
	Segs  []RSeg `json:"segs"`
	// hard: the node is created with an id InitAheadMs ahead of the first reading
	// (-1: created with 0); nano: the generator is created with current = NanoInit
	InitAheadMs int64 `json:"init_ahead_ms"`
	NanoInit    int64 `json:"nano_init"`
	// nano: where the generator's resume value lies relative to the machine's
	// clock at execution time: "" NanoInit and the script are absolute; "past"
	// (30 years back), "now", "hour-ahead", "century-ahead": current = that instant
	// + NanoInit, and the scripted timestamps are offsets from the machine's clock.
	// The real clock only selects the branch the generator takes; the oracle does
	// not depend on it.
	NanoResume string `json:"nano_resume,omitempty"`
	// nano: call i of goroutine g is GenID() (real clock) where
	// Mix[(5*g+i) % len(Mix)] is set, GenIDByTS(scripted ts) otherwise
	Mix []bool `json:"mix,omitempty"`
}

const (
	nsHour     = int64(3600) * 1000000000
	nsYear     = 365 * 24 * nsHour
	maxRelNano = int64(1) << 55 // bound on relative script values / NanoInit (about 1.1 years)
)

type script struct {
	upto []uint64 // segment k covers ticks < upto[k]
	vals []int64
}

func (s *script) seg(r uint64) int {
	for k, u := range s.upto {
		if r < u {
			return k
		}
	}
	return len(s.vals) - 1
}

func (s *script) at(r uint64) int64 { return s.vals[s.seg(r)] }

// minBetween is the least value the script can hand out for a tick in [a, b].
func (s *script) minBetween(a, b uint64) int64 {
	ka, kb := s.seg(a), s.seg(b)
	m := s.vals[ka]
	for k := ka + 1; k <= kb; k++ {
		if s.vals[k] < m {
			m = s.vals[k]
		}
	}
	return m
}

type rec struct {
	start, end uint64
	id         int64
	g, i       int
	before     int64 // part adv, real clock: the machine's clock (ms after the epoch) read before the call
}

func (c RaceCase) newScript() (*script, string) {
	sc := &script{}
	v := c.Start
	var u uint64
	if len(c.Segs) == 0 {
		return nil, "no-segments"
	}
	for _, s := range c.Segs {
		if s.Ticks < 1 || s.Ticks > 1<<24 {
			return nil, "malformed-segment"
		}
		if s.Delta > 0 && v > math.MaxInt64-s.Delta || s.Delta < 0 && v < math.MinInt64-s.Delta {
			return nil, "script-overflow"
		}
		v += s.Delta
		u += uint64(s.Ticks)
		sc.vals = append(sc.vals, v)
		sc.upto = append(sc.upto, u)
	}
	return sc, ""
}

func ExecRace(c RaceCase) *vkit.Result {
	res := &vkit.Result{}
	if c.G < 1 || c.G > 64 || c.Calls < 1 || c.Calls > 20000 || c.Procs < 1 || c.Procs > 64 {
		res.Skip("invalid-shape")
		return res
	}
	total := c.G * c.Calls
	var gen func(g, i int) int64
	nanoInit := c.NanoInit
	var ticks atomic.Uint64
	var sc *script
	lay := c.Cfg.layout()
	switch c.Kind {
	case "hard", "mono":
		if !c.Cfg.valid() || (c.Kind == "mono" && c.Cfg.EpochMs > ms2026) {
			res.Skip("invalid-config")
			return res
		}
		c.Cfg.classes(res)
		restoreCfg := c.Cfg.install(res)
		defer restoreCfg()
		if c.Kind == "mono" {
			if !realClockInside(c.Cfg) {
				res.Skip("real-clock-outside-width")
				return res
			}
			node, err := snowflake.NewMonoNode(c.Cfg.Node)
			if err != nil && c.Cfg.nodeOutside() {
				res.Class("node outside the field: refused")
				return res
			}
			if err != nil || node == nil {
				return res.Failf("race/newnode", "NewMonoNode(%d): %v", c.Cfg.Node, err)
			}
			if msg := monoEpochDefect(node, c.Cfg); msg != "" {
				return res.Failf("mono/epoch-not-monotonic", "%s", msg)
			}
			gen = func(int, int) int64 { return node.Generate() }
			break
		}
		var why string
		if sc, why = c.newScript(); why != "" {
			res.Skip(why)
			return res
		}
		// domain: every reading and the slots consumed by all calls stay inside the width
		maxOff := int64(0)
		for k, v := range sc.vals {
			if v > maxDelta || c.Cfg.EpochMs+v < 0 {
				res.Skip("out-of-width")
				return res
			}
			if v > maxOff {
				maxOff = v
			}
			if v < 0 {
				res.Class("clock-before-epoch")
			}
			if c.Cfg.EpochMs+v > nanoEndMs {
				res.Class("clock-after-2262")
			}
			if k > 0 && c.Segs[k].Delta < 0 {
				res.Class("script-rewind")
				if c.Segs[k].Delta < -msHour {
					res.Class("script-rewind>1h")
				}
			}
			if k > 0 && c.Segs[k].Delta > 10*msYear {
				res.Class("script-jump>10y")
			}
		}
		if c.InitAheadMs < -1 || c.InitAheadMs > maxDelta || maxOff+c.InitAheadMs+int64(total/4096)+8 > lay.maxTs() {
			res.Skip("out-of-width")
			return res
		}
		last := int64(0)
		if c.InitAheadMs >= 0 {
			base := sc.vals[0]
			if base < 0 {
				base = 0
			}
			last = lay.compose(base+c.InitAheadMs, c.Cfg.Node, stepMax)
			res.Class("created-ahead-of-clock")
		}
		epoch := c.Cfg.EpochMs
		restoreNow := snowflake.VerifSetNow(func() time.Time {
			return msTime(epoch+sc.at(ticks.Add(1)), 0)
		})
		defer restoreNow()
		node, err := snowflake.NewNode(c.Cfg.Node, last)
		if err != nil && c.Cfg.nodeOutside() {
			res.Class("node outside the field: refused")
			return res
		}
		if err != nil || node == nil {
			return res.Failf("race/newnode", "NewNode(%d, %d): %v", c.Cfg.Node, last, err)
		}
		gen = func(int, int) int64 { return node.Generate() }
	case "nano":
		var why string
		if sc, why = c.newScript(); why != "" {
			res.Skip(why)
			return res
		}
		base := int64(0)
		if c.NanoResume != "" {
			// relative mode: everything is an offset from the machine's clock now
			now := time.Now().UnixNano()
			if now < 40*nsYear || now > 200*nsYear {
				res.Skip("real-clock-implausible")
				return res
			}
			base = now
			switch c.NanoResume {
			case "past":
				nanoInit = now - 30*nsYear
			case "now":
				nanoInit = now
			case "hour-ahead":
				nanoInit = now + nsHour
			case "century-ahead":
				nanoInit = now + 100*nsYear
			default:
				res.Skip("unknown-resume")
				return res
			}
			if c.NanoInit > maxRelNano || c.NanoInit < -maxRelNano {
				res.Skip("init-beyond-headroom")
				return res
			}
			nanoInit += c.NanoInit
			for k, v := range sc.vals {
				if v > maxRelNano || v < -maxRelNano {
					res.Skip("ts-beyond-headroom")
					return res
				}
				sc.vals[k] = base + v
			}
			res.Class("nano-resume=" + c.NanoResume)
		} else {
			res.Class("nano-resume=absolute")
		}
		for _, v := range sc.vals {
			if v > nanoLimit {
				res.Skip("ts-beyond-headroom")
				return res
			}
		}
		if nanoInit > nanoLimit {
			res.Skip("init-beyond-headroom")
			return res
		}
		if len(c.Mix) > 64 {
			res.Skip("invalid-shape")
			return res
		}
		nReal := 0
		for _, m := range c.Mix {
			if m {
				nReal++
			}
		}
		switch {
		case nReal == 0:
			res.Class("nano-calls=GenIDByTS")
		case nReal == len(c.Mix):
			res.Class("nano-calls=GenID")
		default:
			res.Class("nano-calls=mixed")
		}
		ng := nano.NewUnixNanoID(nanoInit)
		mix := c.Mix
		gen = func(g, i int) int64 {
			if len(mix) > 0 && mix[(5*g+i)%len(mix)] {
				return ng.GenID()
			}
			return ng.GenIDByTS(sc.at(ticks.Add(1)))
		}
	default:
		res.Skip("unknown-kind")
		return res
	}
	res.Class("kind=" + c.Kind)
	res.Class(fmt.Sprintf("goroutines=%d", c.G))

	oldProcs := runtime.GOMAXPROCS(c.Procs)
	defer runtime.GOMAXPROCS(oldProcs)

	recs := make([][]rec, c.G)
	for g := range recs {
		recs[g] = make([]rec, c.Calls)
	}
	var wg sync.WaitGroup
	gate := make(chan struct{})
	for g := 0; g < c.G; g++ {
		wg.Add(1)
		go func(g int) {
			defer wg.Done()
			mine := recs[g]
			<-gate
			for i := range mine {
				s := ticks.Add(1)
				id := gen(g, i)
				e := ticks.Add(1)
				mine[i] = rec{start: s, end: e, id: id, g: g, i: i}
			}
		}(g)
	}
	close(gate)
	wg.Wait()

	all, byID, overlaps, site, msg := judgeOrder(c.Kind, recs)
	if site != "" {
		return res.Failf(site, "%s", msg)
	}
	if c.Kind == "nano" {
		if byID[0].id <= nanoInit {
			return res.Failf("race/not-above-initial", "nano: id %d is not above the current id %d the generator was created with", byID[0].id, nanoInit)
		}
	} else {
		for _, r := range all {
			ts, nd, st := lay.decode(r.id)
			if r.id < 0 {
				return res.Failf("race/negative-id", "%s: goroutine %d call %d: id %d has the sign bit set", c.Kind, r.g, r.i, r.id)
			}
			if nd != c.Cfg.Node {
				return res.Failf("race/node-field", "%s: goroutine %d call %d: id %d decodes to node %d (ts %d step %d), configured node %d", c.Kind, r.g, r.i, r.id, nd, ts, st, c.Cfg.Node)
			}
			if c.Kind == "hard" {
				if lo := sc.minBetween(r.start, r.end); ts < lo {
					return res.Failf("race/ts-before-clock", "hard: goroutine %d call %d (ticks %d..%d): the clock read at least %d ms after the epoch during the call, id %d carries timestamp %d",
						r.g, r.i, r.start, r.end, lo, r.id, ts)
				}
			}
		}
		for i := 1; i < len(byID); i++ {
			pts, _, pst := lay.decode(byID[i-1].id)
			ts, _, st := lay.decode(byID[i].id)
			if pst == stepMax && st == 0 && ts == pts+1 {
				res.Class("step-wrap")
				break
			}
		}
	}
	if overlaps > 0 {
		res.Class("calls-overlapped")
		res.NonTrivial = c.G >= 2
	}
	return res
}

// judgeOrder is the schedule-independent part of the concurrent oracle: each
// goroutine's ids strictly increasing, all ids distinct, and a call that
// returned before another one started got the smaller id (one sweep over the
// calls sorted by start tick, with a running maximum over the calls that have
// already ended). It also counts calls that started while an earlier one was
// still running.
func judgeOrder(kind string, recs [][]rec) (all, byID []rec, overlaps int, site, msg string) {
	for g := range recs {
		for i := 1; i < len(recs[g]); i++ {
			if recs[g][i].id <= recs[g][i-1].id {
				return nil, nil, 0, "race/goroutine-order", fmt.Sprintf("%s: goroutine %d call %d got id %d after id %d", kind, g, i, recs[g][i].id, recs[g][i-1].id)
			}
		}
		all = append(all, recs[g]...)
	}
	byID = append([]rec(nil), all...)
	sort.Slice(byID, func(i, j int) bool { return byID[i].id < byID[j].id })
	for i := 1; i < len(byID); i++ {
		if byID[i].id == byID[i-1].id {
			a, b := byID[i-1], byID[i]
			return nil, nil, 0, "race/duplicate", fmt.Sprintf("%s: id %d returned twice: goroutine %d call %d (ticks %d..%d) and goroutine %d call %d (ticks %d..%d)",
				kind, a.id, a.g, a.i, a.start, a.end, b.g, b.i, b.start, b.end)
		}
	}
	byStart := all
	sort.Slice(byStart, func(i, j int) bool { return byStart[i].start < byStart[j].start })
	byEnd := append([]rec(nil), all...)
	sort.Slice(byEnd, func(i, j int) bool { return byEnd[i].end < byEnd[j].end })
	var best rec
	haveBest := false
	p := 0
	for bi, b := range byStart {
		for p < len(byEnd) && byEnd[p].end < b.start {
			if !haveBest || byEnd[p].id > best.id {
				best, haveBest = byEnd[p], true
			}
			p++
		}
		if p < bi {
			overlaps++ // some call that started earlier had not returned yet
		}
		if haveBest && b.id <= best.id {
			return nil, nil, 0, "race/interval-order", fmt.Sprintf("%s: goroutine %d call %d returned id %d at tick %d; goroutine %d call %d started later (tick %d) and got id %d",
				kind, best.g, best.i, best.id, best.end, b.g, b.i, b.start, b.id)
		}
	}
	return all, byID, overlaps, "", ""
}

func GenRace(t *rapid.T) RaceCase {
	c := RaceCase{InitAheadMs: -1}
	c.Kind = rapid.SampledFrom([]string{"hard", "nano", "hard", "mono", "nano", "hard"}).Draw(t, "kind")
	c.G = rapid.SampledFrom([]int{4, 2, 8, 3, 16}).Draw(t, "g")
	c.Calls = rapid.SampledFrom([]int{50, 300, 1000, 3000}).Draw(t, "calls")
	c.Procs = rapid.SampledFrom([]int{2, 4, 8}).Draw(t, "procs")
	total := c.G * c.Calls
	genSegs := func(rew, fwd int64, scales bool) {
		n := rapid.IntRange(1, 10).Draw(t, "nsegs")
		for k := 0; k < n; k++ {
			var s RSeg
			if k > 0 {
				switch rapid.IntRange(0, 5).Draw(t, "deltaKind") {
				case 0:
					if scales && rapid.Bool().Draw(t, "farRewind") {
						s.Delta = -drawSpan(t, "rewind") // ms: seconds .. years
					} else {
						s.Delta = -rapid.Int64Range(1, rew).Draw(t, "rewind")
					}
				case 1:
					s.Delta = -1
				case 2:
					s.Delta = 0
				case 3:
					s.Delta = 1
				case 4:
					s.Delta = rapid.Int64Range(2, 50).Draw(t, "fwd")
				default:
					if far := rapid.IntRange(0, 3).Draw(t, "farJump"); scales && far == 0 {
						s.Delta = drawSpan(t, "jump") // ms: seconds .. decades
					} else if scales && far == 1 {
						s.Delta = drawFar(t, "jump") // decades
					} else {
						s.Delta = rapid.Int64Range(1, fwd).Draw(t, "jump")
					}
				}
			}
			s.Ticks = rapid.SampledFrom([]int{1, 3, 30, 300, 3000, 13000, 30000}).Draw(t, "ticks")
			c.Segs = append(c.Segs, s)
		}
	}
	switch c.Kind {
	case "hard":
		c.Cfg = genCfg(t, true)
		genSegs(10000, 86400000, true)
		var pre, need, minPre int64
		for _, s := range c.Segs {
			pre += s.Delta
			if pre > need {
				need = pre
			}
			if pre < minPre {
				minPre = pre
			}
		}
		if rapid.IntRange(0, 3).Draw(t, "ahead") == 0 {
			c.InitAheadMs = rapid.SampledFrom([]int64{0, 1, 5, 1000, 5*msMinute + 1, msHour + 1, msDay + 1, msYear}).Draw(t, "aheadMs")
		}
		ahead := c.InitAheadMs
		if ahead < 0 {
			ahead = 0
		}
		top := c.Cfg.layout().maxTs() - (need + ahead + int64(total/4096) + 16)
		bottom := -c.Cfg.EpochMs - minPre // no reading before 1970
		if top < bottom {
			top = bottom // does not fit the width: ExecRace will skip it
		}
		anywhere := func() int64 {
			lo := int64(0)
			if lo < bottom {
				lo = bottom
			}
			if lo >= top {
				return lo
			}
			return rapid.Int64Range(lo, top).Draw(t, "anywhere")
		}
		boundary := int64(nanoEndMs) - c.Cfg.EpochMs
		switch rapid.IntRange(0, 5).Draw(t, "startKind") {
		case 0:
			c.Start = -rapid.Int64Range(1, 5000).Draw(t, "beforeEpoch")
		case 1:
			c.Start = 0
		case 2:
			c.Start = anywhere()
		case 3:
			c.Start = top - rapid.Int64Range(0, 5000).Draw(t, "nearEnd")
		default:
			if boundary > 0 && boundary < top {
				c.Start = boundary - rapid.Int64Range(0, 3).Draw(t, "atHorizon")
			} else {
				c.Start = anywhere()
			}
		}
		if c.Start > top {
			c.Start = top
		}
		if c.Start < bottom {
			c.Start = bottom
		}
	case "mono":
		c.Cfg = genCfg(t, false)
	case "nano":
		genSegs(1000000000, 1<<40, false)
		c.NanoResume = rapid.SampledFrom([]string{"hour-ahead", "century-ahead", "now", "past", ""}).Draw(t, "resume")
		if c.NanoResume == "" {
			c.Start = rapid.Int64Range(math.MinInt64/2, nanoLimit/2).Draw(t, "startNs")
			c.NanoInit = c.Start + rapid.Int64Range(-1000, 1000).Draw(t, "initRel")
		} else {
			c.Start = rapid.Int64Range(-2*nsHour, 2*nsHour).Draw(t, "startRelNs")
			c.NanoInit = rapid.Int64Range(-1000, 1000).Draw(t, "initRel")
		}
		switch rapid.IntRange(0, 4).Draw(t, "mixKind") {
		case 0:
			c.Mix = []bool{true} // GenID only
		case 1:
			c.Mix = nil // GenIDByTS only
		case 2:
			c.Mix = []bool{true, false}
		default:
			c.Mix = rapid.SliceOfN(rapid.Bool(), 2, 8).Draw(t, "mix")
		}
	}
	return c
}

const ruleRace = "G: one generator (HardNode on a scripted clock via VerifSetNow / MonoNode on the real clock / UnixNanoID created with a resume value 30 years back, now, one hour or 100 years ahead of the machine clock (or absolute), called through a drawn per-call mix of GenID() and GenIDByTS(scripted ts)) shared by 2,3,4,8,16 goroutines, " +
	"50-3000 calls each, GOMAXPROCS 2/4/8; the scripted value is a function of one global atomic tick counter (1-10 segments: rewind (HardNode: 1 ms..10 s or any scale up to 60 y), 0, +1, +small, +jump (HardNode: up to a day, any scale, or decades up to 60 y); 1..30000 ticks each; HardNode created with 0 or an id 0 ms..1 y ahead) and every call is bracketed " +
	"by ticks of the same counter. O: all ids distinct; each goroutine's ids strictly increasing; call a returned before call b started => id_a < id_b (sweep over intervals); node field; " +
	"HardNode timestamp >= the least clock value handed out during the call's interval; nano ids above the resume value. Part race-shared runs from a -race binary, part shared-plain is the same generator and oracle in the plain binary. NT: calls of different goroutines overlapped in tick time."

var PartRace = vkit.Part[RaceCase]{
	Property: Property, Name: "race-shared", Rule: ruleRace,
	Quick: 120, Thorough: 1000,
	Gen: GenRace, Exec: ExecRace,
}

// PartSharedPlain is the twin of PartRace in the plain (non -race) binary: the
// same cases judged by the oracle alone, at full speed.
var PartSharedPlain = vkit.Part[RaceCase]{
	Property: Property, Name: "shared-plain", Rule: ruleRace,
	Quick: 300, Thorough: 1500,
	Gen: GenRace, Exec: ExecRace,
}

// ---------------------------------------------------------------------------
// part "multi": several generators alive at the same time
//
// Every other part owns exactly one live generator. Here two or three snowflake
// nodes with different node numbers (HardNodes on the injected clock, sometimes
// a MonoNode on the real one) and, in half of the cases, two unix-nano
// generators live side by side and are called alternately: the statement is
// about "the same generator", so each chain has to stay strictly increasing and
// every snowflake id has to carry the node of the generator that returned it,
// whatever was created, restarted or called in between.

type MultiGen struct {
	Kind string `json:"kind"` // hard | mono | nano | nano-nolock
	// snowflake kinds: node number, inside the node field, different from the other snowflake generators of the case
	Node int64 `json:"node,omitempty"`
	// hard: created with an id AheadMs ahead of the first clock reading (step 4095); -1: created with 0
	AheadMs int64 `json:"ahead_ms,omitempty"`
	// nano kinds: the current value it is created with
	Init int64 `json:"init,omitempty"`
}

// MultiOp: the injected clock moves by DeltaMs, then generator G is (hard only:
// optionally restarted with its last id and) called N times; nano generators are
// called with GenIDByTS(Ts).
type MultiOp struct {
	G       int   `json:"g"`
	N       int   `json:"n"`
	DeltaMs int64 `json:"delta_ms,omitempty"`
	Ts      int64 `json:"ts,omitempty"`
	Restart bool  `json:"restart,omitempty"`
}

type MultiCase struct {
	Cfg        Cfg        `json:"cfg"` // Cfg.Node is not used (the generators carry their nodes)
	StartOffMs int64      `json:"start_off_ms"`
	Gens       []MultiGen `json:"gens"`
	Ops        []MultiOp  `json:"ops"`
}

func isSnow(kind string) bool { return kind == "hard" || kind == "mono" }

func ExecMulti(c MultiCase) *vkit.Result {
	res := &vkit.Result{}
	cfg := c.Cfg
	cfg.Node = 0
	if !cfg.valid() || len(c.Gens) < 2 || len(c.Gens) > 6 || len(c.Ops) < 1 || len(c.Ops) > 64 {
		res.Skip("invalid-shape")
		return res
	}
	lay := cfg.layout()
	nodeMax := int64(1)<<cfg.NodeBits - 1
	nSnow, nNano, haveMono := 0, 0, false
	maxAhead := int64(0)
	for i, g := range c.Gens {
		switch g.Kind {
		case "hard", "mono":
			if g.Node < 0 || g.Node > nodeMax || g.AheadMs < -1 || g.AheadMs > maxDelta {
				res.Skip("invalid-shape")
				return res
			}
			for _, h := range c.Gens[:i] {
				if isSnow(h.Kind) && h.Node == g.Node {
					res.Skip("equal-nodes") // two live nodes with one number are outside the documented use
					return res
				}
			}
			nSnow++
			if g.Kind == "mono" {
				haveMono = true
			} else if g.AheadMs > maxAhead {
				maxAhead = g.AheadMs
			}
		case "nano", "nano-nolock":
			if g.Init > nanoLimit {
				res.Skip("init-beyond-headroom")
				return res
			}
			nNano++
		default:
			res.Skip("unknown-kind")
			return res
		}
	}
	if haveMono && (cfg.EpochMs > ms2026 || !realClockInside(cfg)) {
		res.Skip("real-clock-outside-width")
		return res
	}
	// domain of the wall-clock nodes: readings not before 1970, readings + leads + consumed slots inside the width
	off, maxOff, hardCalls := c.StartOffMs, c.StartOffMs, 0
	if off > maxDelta || off < -maxDelta || cfg.EpochMs+off < 0 {
		res.Skip("out-of-width")
		return res
	}
	for _, op := range c.Ops {
		if op.G < 0 || op.G >= len(c.Gens) || op.N < 0 || op.N > maxCalls || op.DeltaMs > maxDelta || op.DeltaMs < -maxDelta {
			res.Skip("malformed-op")
			return res
		}
		off += op.DeltaMs
		if off > maxDelta || off < -maxDelta {
			res.Skip("out-of-width")
			return res
		}
		if cfg.EpochMs+off < 0 {
			res.Skip("clock-before-1970")
			return res
		}
		if off > maxOff {
			maxOff = off
		}
		if op.DeltaMs > 10*msYear {
			res.Class("forward-jump>10y")
		}
		if c.Gens[op.G].Kind == "hard" {
			hardCalls += op.N
		}
	}
	if maxOff < 0 {
		maxOff = 0
	}
	if maxOff+maxAhead+int64(hardCalls/4096)+int64(len(c.Ops))+8 > lay.maxTs() {
		res.Skip("out-of-width")
		return res
	}
	cfg.classes(res)
	res.Class(fmt.Sprintf("snowflake-nodes=%d", nSnow))
	res.Class(fmt.Sprintf("nano-generators=%d", nNano))
	if haveMono {
		res.Class("with-mono-node")
	}

	restoreCfg := cfg.install(res)
	defer restoreCfg()
	off = c.StartOffMs
	cur := msTime(cfg.EpochMs+off, 0)
	restoreNow := snowflake.VerifSetNow(func() time.Time { return cur })
	defer restoreNow()

	type live struct {
		node         snowflake.Node
		nano         nanoGen
		prev         int64 // greatest id issued, or the id / current value it was created with
		have         bool  // prev is a bound the next id has to exceed
		afterRestart bool
		calledOps    int
	}
	gens := make([]live, len(c.Gens))
	for i, g := range c.Gens {
		l := &gens[i]
		switch g.Kind {
		case "hard":
			last := int64(0)
			if g.AheadMs >= 0 {
				base := off
				if base < 0 {
					base = 0
				}
				last = lay.compose(base+g.AheadMs, g.Node, stepMax)
				l.prev, l.have, l.afterRestart = last, true, true
			}
			n, err := snowflake.NewNode(g.Node, last)
			if err != nil || n == nil {
				return res.Failf("multi/newnode", "generator %d: NewNode(%d, %d) with nodeBits %d: %v", i, g.Node, last, cfg.NodeBits, err)
			}
			l.node = n
		case "mono":
			n, err := snowflake.NewMonoNode(g.Node)
			if err != nil || n == nil {
				return res.Failf("multi/newnode", "generator %d: NewMonoNode(%d) with nodeBits %d: %v", i, g.Node, cfg.NodeBits, err)
			}
			if msg := monoEpochDefect(n, Cfg{EpochMs: cfg.EpochMs, NodeBits: cfg.NodeBits, NodeAtLowest: cfg.NodeAtLowest, Node: g.Node}); msg != "" {
				return res.Failf("mono/epoch-not-monotonic", "%s", msg)
			}
			l.node = n
		case "nano":
			l.nano, l.prev, l.have = nano.NewUnixNanoID(g.Init), g.Init, true
		case "nano-nolock":
			l.nano, l.prev, l.have = nano.NewUnixNanoNoLockID(g.Init), g.Init, true
		}
	}

	calls := 0
	lastOpOf := map[bool]int{} // family (snowflake / nano) -> generator of the family's previous op
	lastOpOf[true], lastOpOf[false] = -1, -1
	switched := map[int]bool{} // generators another one of the same family was called after
	for k, op := range c.Ops {
		off += op.DeltaMs
		cur = msTime(cfg.EpochMs+off, 0)
		g := c.Gens[op.G]
		l := &gens[op.G]
		if op.Restart && g.Kind == "hard" {
			last := int64(0)
			if l.have {
				last = l.prev
			}
			n, err := snowflake.NewNode(g.Node, last)
			if err != nil || n == nil {
				return res.Failf("multi/newnode", "op %d: restart of generator %d: NewNode(%d, %d): %v", k, op.G, g.Node, last, err)
			}
			l.node, l.afterRestart = n, l.have
			res.Class("restart-while-others-live")
		}
		if op.N == 0 {
			continue
		}
		fam := isSnow(g.Kind)
		if p := lastOpOf[fam]; p >= 0 && p != op.G {
			switched[p] = true
		}
		if switched[op.G] && l.calledOps > 0 {
			// called, then another generator of its family, now called again
			res.Class("alternated")
			res.NonTrivial = true
		}
		lastOpOf[fam] = op.G
		l.calledOps++
		if !fam && op.Ts > nanoLimit {
			res.Skip("ts-beyond-headroom")
			continue
		}
		for i := 0; i < op.N; i++ {
			calls++
			if !fam {
				id := l.nano.GenIDByTS(op.Ts)
				if id <= l.prev {
					return res.Failf("multi/nano-not-increasing", "op %d call %d: generator %d (%s) GenIDByTS(%d) = %d, not above its previous id / initial current %d", k, i, op.G, g.Kind, op.Ts, id, l.prev)
				}
				if op.Ts > l.prev && id != op.Ts {
					// documented: "if bigger than current, return it" - current is this generator's own
					return res.Failf("multi/nano-ts-not-returned", "op %d call %d: generator %d (%s) GenIDByTS(%d) = %d though the timestamp is above its own previous id %d", k, i, op.G, g.Kind, op.Ts, id, l.prev)
				}
				l.prev = id
				continue
			}
			id := l.node.Generate()
			ts, nd, st := lay.decode(id)
			if id < 0 {
				return res.Failf("multi/negative-id", "op %d call %d: generator %d (%s node %d): id %d has the sign bit set", k, i, op.G, g.Kind, g.Node, id)
			}
			if l.have && id <= l.prev {
				pts, pnd, pst := lay.decode(l.prev)
				site, what := "multi/not-increasing", "previous id of the same generator"
				if l.afterRestart {
					site, what = "multi/restart-not-above-last", "last id given to NewNode"
				}
				return res.Failf(site, "op %d call %d: generator %d (%s node %d, clock %d ms after epoch): id %d (ts %d node %d step %d) is not above the %s %d (ts %d node %d step %d)",
					k, i, op.G, g.Kind, g.Node, off, id, ts, nd, st, what, l.prev, pts, pnd, pst)
			}
			if nd != g.Node {
				return res.Failf("multi/node-field", "op %d call %d: generator %d was created as %s node %d, its id %d decodes to node %d (ts %d step %d); live snowflake generators: %d, nodeBits %d nodeAtLowest %v",
					k, i, op.G, g.Kind, g.Node, id, nd, ts, st, nSnow, cfg.NodeBits, cfg.NodeAtLowest)
			}
			if g.Kind == "hard" && ts < off {
				return res.Failf("multi/ts-before-clock", "op %d call %d: generator %d (hard node %d): clock reads %d ms after the epoch, id %d carries timestamp %d", k, i, op.G, g.Node, off, id, ts)
			}
			l.prev, l.have, l.afterRestart = id, true, false
		}
	}
	if calls == 0 {
		res.NonTrivial = false
		res.Skip("no-calls")
	}
	return res
}

func GenMulti(t *rapid.T) MultiCase {
	withMono := rapid.IntRange(0, 3).Draw(t, "withMono") == 0
	c := MultiCase{Cfg: genCfg(t, !withMono)}
	c.Cfg.Node = 0
	lay := c.Cfg.layout()
	nodeMax := int64(1)<<c.Cfg.NodeBits - 1
	nSnow := rapid.IntRange(2, 3).Draw(t, "nSnow")
	nodes := rapid.SliceOfNDistinct(rapid.OneOf(rapid.SampledFrom([]int64{0, 1, 2, nodeMax - 1, nodeMax}), rapid.Int64Range(0, nodeMax)),
		nSnow, nSnow, func(v int64) int64 { return v }).Draw(t, "nodes")
	for i, nd := range nodes {
		g := MultiGen{Kind: "hard", Node: nd, AheadMs: -1}
		if withMono && (i == 1 || rapid.IntRange(0, 3).Draw(t, "alsoMono") == 0) {
			g = MultiGen{Kind: "mono", Node: nd}
		} else if rapid.IntRange(0, 3).Draw(t, "createdAhead") == 0 {
			g.AheadMs = rapid.SampledFrom([]int64{0, 1, 1000, msHour + 1, msDay + 1}).Draw(t, "aheadMs")
		}
		c.Gens = append(c.Gens, g)
	}
	if rapid.Bool().Draw(t, "withNano") {
		for i := 0; i < 2; i++ {
			g := MultiGen{Kind: "nano"}
			if rapid.Bool().Draw(t, "noLock") {
				g.Kind = "nano-nolock"
			}
			switch rapid.IntRange(0, 3).Draw(t, "initKind") {
			case 0:
				g.Init = 0
			case 1:
				g.Init = rapid.Int64Range(-1000, 1000).Draw(t, "initSmall")
			case 2:
				g.Init = 1790000000000000000 + rapid.Int64Range(-1<<50, 1<<50).Draw(t, "initNow")
			default:
				g.Init = rapid.Int64Range(math.MinInt64, nanoLimit).Draw(t, "init")
			}
			c.Gens = append(c.Gens, g)
		}
	}
	nops := rapid.IntRange(3, 24).Draw(t, "nops")
	ts := c.Gens[len(c.Gens)-1].Init
	hardCalls := 0
	for k := 0; k < nops; k++ {
		op := MultiOp{G: rapid.IntRange(0, len(c.Gens)-1).Draw(t, "g")}
		g := c.Gens[op.G]
		op.N = rapid.SampledFrom([]int{1, 1, 2, 3, 7, 4096, 4097}).Draw(t, "n")
		if g.Kind != "hard" && op.N > 7 {
			op.N = 5 // the real-clock node and the nano generators: short bursts
		}
		if g.Kind == "hard" {
			hardCalls += op.N
			op.Restart = rapid.IntRange(0, 7).Draw(t, "restart") == 0
		}
		if isSnow(g.Kind) {
			switch rapid.IntRange(0, 7).Draw(t, "deltaKind") {
			case 0:
				op.DeltaMs = -1
			case 1:
				op.DeltaMs = 1
			case 2:
				op.DeltaMs = rapid.Int64Range(2, 50).Draw(t, "fwd")
			case 3:
				op.DeltaMs = -drawSpan(t, "rewind")
			case 4:
				op.DeltaMs = rapid.SampledFrom(bigJumps).Draw(t, "jump")
			case 5:
				op.DeltaMs = drawSpan(t, "jump") // forward on any scale: ms .. decades
			}
		} else {
			switch rapid.IntRange(0, 7).Draw(t, "tsKind") {
			case 0:
				ts--
			case 1:
				ts++
			case 2:
				ts -= rapid.Int64Range(1, 1000000).Draw(t, "back")
			case 3:
				ts += rapid.Int64Range(1, 1000000).Draw(t, "fwd")
			case 4:
				ts = rapid.Int64Range(math.MinInt64/2, nanoLimit/2).Draw(t, "abs")
			case 5:
				ts = c.Gens[op.G].Init + rapid.Int64Range(-3, 3).Draw(t, "nearInit")
			}
			op.Ts = ts
		}
		c.Ops = append(c.Ops, op)
	}
	var pre, need, minPre, maxAhead int64
	for _, op := range c.Ops {
		pre += op.DeltaMs
		if pre > need {
			need = pre
		}
		if pre < minPre {
			minPre = pre
		}
	}
	for _, g := range c.Gens {
		if g.Kind == "hard" && g.AheadMs > maxAhead {
			maxAhead = g.AheadMs
		}
	}
	top := lay.maxTs() - (need + maxAhead + int64(hardCalls/4096) + int64(len(c.Ops)) + 16)
	bottom := -c.Cfg.EpochMs - minPre
	if top < bottom {
		top = bottom
	}
	switch rapid.IntRange(0, 4).Draw(t, "startKind") {
	case 0:
		c.StartOffMs = -rapid.Int64Range(1, 5000).Draw(t, "beforeEpoch")
	case 1:
		c.StartOffMs = 0
	case 2:
		c.StartOffMs = top - rapid.Int64Range(0, 5000).Draw(t, "nearEnd")
	default:
		lo := int64(0)
		if lo < bottom {
			lo = bottom
		}
		c.StartOffMs = lo
		if lo < top {
			c.StartOffMs = rapid.Int64Range(lo, top).Draw(t, "anywhere")
		}
	}
	if c.StartOffMs > top {
		c.StartOffMs = top
	}
	if c.StartOffMs < bottom {
		c.StartOffMs = bottom
	}
	return c
}

const ruleMulti = "G: config as part hard (epoch up to 2026 when a MonoNode takes part); 2-3 snowflake generators with pairwise different in-field node numbers {0,1,2,max-1,max,random} - HardNodes on one injected clock " +
	"(created with 0 or with an id 0 ms..1 d ahead of the clock), in 1 of 4 cases one or more MonoNodes on the real clock - and in half of the cases two unix-nano generators (locked / lock-free, any initial current), all alive together; " +
	"3-24 operations {generator, 1..7 or 4096/4097 calls, clock delta -1/0/+1/+small/rewind on any scale/+jump up to 1 y/+jump on any scale up to 60 y, HardNode optionally restarted with its last id first; nano: GenIDByTS(ts) on a ts walk}. " +
	"O: per generator: ids strictly increasing and above the id / current it was (re)created with; every snowflake id decodes (own decoder) to the node of the generator that returned it; HardNode timestamp >= clock - epoch; " +
	"nano: a ts above the generator's own previous id is returned unchanged; MonoNode epoch carries a monotonic reading. NT: some generator is called, then another one of its family, then the first again."

var PartMulti = vkit.Part[MultiCase]{
	Property: Property, Name: "multi", Rule: ruleMulti,
	Quick: 1500, Thorough: 15000,
	Gen: GenMulti, Exec: ExecMulti,
}
