package c06idgen

import (
	"testing"

	"verifharness/vkit"
)

func TestMain(m *testing.M) { vkit.Main(m) }

func TestProp_Hard(t *testing.T) { PartHard.Run(t) }
func TestProp_Nano(t *testing.T) { PartNano.Run(t) }
func TestProp_Mono(t *testing.T) { PartMono.Run(t) }

// TestProp_Multi: several generators alive at once, called alternately.
func TestProp_Multi(t *testing.T) { PartMulti.Run(t) }

// TestProp_SharedPlain: the concurrent part judged by the oracle alone (plain binary).
func TestProp_SharedPlain(t *testing.T) { PartSharedPlain.Run(t) }

// TestProp_AdvShared: different generators called at once, HardNodes on a clock that keeps moving (plain binary).
func TestProp_AdvShared(t *testing.T) { PartAdv.Run(t) }

// TestRace_Adv is the same part in the -race binary.
func TestRace_Adv(t *testing.T) { PartRaceAdv.Run(t) }

// TestEnum_HardEdges: the fixed boundary list (not a complete enumeration of anything).
func TestEnum_HardEdges(t *testing.T) { PartHardEdges.RunCases(t, HardEdgeCases(), false) }

// TestRace_Shared is run from the -race binary only (props/C06.json "race": true).
func TestRace_Shared(t *testing.T) { PartRace.Run(t) }

func TestReplay(t *testing.T) {
	PartHard.Replay(t, 1)
	PartHardEdges.Replay(t, 1)
	PartNano.Replay(t, 1)
	PartMono.Replay(t, 5)
	PartMulti.Replay(t, 1)
	PartRace.Replay(t, 20)
	PartSharedPlain.Replay(t, 20)
	PartAdv.Replay(t, 20)
	PartRaceAdv.Replay(t, 20)
}

// TestSelf_IntervalOracle checks the concurrent oracle itself on hand-made
// records (it is not part of the property run).
func TestSelf_IntervalOracle(t *testing.T) {
	// two overlapping calls may return ids in either order
	ok := [][]rec{
		{{start: 1, end: 6, id: 20, g: 0, i: 0}, {start: 7, end: 9, id: 30, g: 0, i: 1}},
		{{start: 2, end: 4, id: 10, g: 1, i: 0}, {start: 5, end: 8, id: 25, g: 1, i: 1}},
	}
	if _, _, ov, site, msg := judgeOrder("self", ok); site != "" || ov == 0 {
		t.Fatalf("legal history rejected or overlap not seen: %s %s overlaps=%d", site, msg, ov)
	}
	// distinct, per-goroutine increasing, but g1's call started after g0's second call returned with a larger id
	bad := [][]rec{
		{{start: 1, end: 2, id: 20, g: 0, i: 0}, {start: 3, end: 4, id: 30, g: 0, i: 1}},
		{{start: 5, end: 6, id: 25, g: 1, i: 0}},
	}
	if _, _, _, site, _ := judgeOrder("self", bad); site != "race/interval-order" {
		t.Fatalf("interval-order violation not reported, site=%q", site)
	}
	dup := [][]rec{{{start: 1, end: 4, id: 7, g: 0}}, {{start: 2, end: 3, id: 7, g: 1}}}
	if _, _, _, site, _ := judgeOrder("self", dup); site != "race/duplicate" {
		t.Fatalf("duplicate not reported, site=%q", site)
	}
}
