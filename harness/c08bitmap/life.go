package c08bitmap

// part "life": the same statement over the life of a few bitmaps. The other two parts ask every question once, after
// the Set/Unset script; here members are set and cleared BETWEEN the questions, on the same instances, for tens to
// hundreds of steps: Len/NLen/membership of every bitmap after every step, Equal, GetN*, iterators and the algebra at
// drawn steps (with the bitmap itself as the argument too), results of the algebra that join the pool and are
// modified later, lists and results kept over the whole life (and over bursts of 20-300 further calls of the same
// entry point on the other bitmaps), lists written over by the caller before the identical call is made again.

import (
	"fmt"

	"github.com/pinealctx/neptune/bitmap1024"
	"pgregory.net/rapid"

	"verifharness/vkit"
)

type LifeOp struct {
	// set | equal | getn | iter | and | or | orrev | rev | audit
	Op    string `json:"op"`
	A     int    `json:"a"`               // pool slot of the receiver
	B     int    `json:"b,omitempty"`     // pool slot of the argument (may be A)
	Idx   int32  `json:"idx,omitempty"`   // set: the index; algebra: which members of the result are flipped afterwards
	I16   bool   `json:"i16,omitempty"`   // set: the int16 entry point
	Unset bool   `json:"unset,omitempty"` // set: clear instead of set
	W     int    `json:"w,omitempty"`     // getn/iter: which entry point
	N     int    `json:"n,omitempty"`     // getn/iter: the quota ...
	NRel  bool   `json:"n_rel,omitempty"` // ... or Len + N
	Pos   int    `json:"pos,omitempty"`
	Add   int64  `json:"add,omitempty"`
	Again bool   `json:"again,omitempty"` // getn: write over the list, make the identical call again
	Adopt int    `json:"adopt,omitempty"` // algebra: 1+slot the result replaces in the pool (0 = it is only kept)
	Rep   int    `json:"rep,omitempty"`   // getn/algebra: further calls of the same entry point on the other pool bitmaps
}

type LifeCase struct {
	Pool [][]uint64 `json:"pool"` // 2..4 bitmaps of 16 words
	Thr  int32      `json:"thr"`
	Ops  []LifeOp   `json:"ops"`
}

func genRep(t *rapid.T) int {
	switch k := rapid.IntRange(0, 59).Draw(t, "repkind"); {
	case k == 0:
		return rapid.IntRange(20, 300).Draw(t, "replong")
	case k < 12:
		return rapid.IntRange(1, 8).Draw(t, "rep")
	}
	return 0
}

func GenLife(t *rapid.T) LifeCase {
	c := LifeCase{Thr: rapid.SampledFrom(thresholds).Draw(t, "thr")}
	np := rapid.IntRange(2, 4).Draw(t, "npool")
	for i := 0; i < np; i++ {
		c.Pool = append(c.Pool, genWords(t, c.Thr, fmt.Sprintf("p%d", i)))
	}
	nops := rapid.IntRange(8, 60).Draw(t, "nops")
	if rapid.IntRange(0, 7).Draw(t, "longlife") == 0 {
		nops = rapid.IntRange(150, 400).Draw(t, "nopslong")
	}
	slot := rapid.IntRange(0, np-1)
	for i := 0; i < nops; i++ {
		op := LifeOp{A: slot.Draw(t, "a")}
		switch k := rapid.IntRange(0, 99).Draw(t, "opkind"); {
		case k < 40:
			op.Op = "set"
			op.Unset = rapid.Bool().Draw(t, "unset")
			op.I16 = rapid.Bool().Draw(t, "i16")
			if rapid.IntRange(0, 5).Draw(t, "idxkind") == 0 {
				op.Idx = int32(rapid.SampledFrom([]int16{-1, 0, 63, 64, 1023, 1024, 1025, -64, -1024, math16max, math16min}).Draw(t, "idxedge"))
			} else {
				op.Idx = rapid.Int32Range(0, 1023).Draw(t, "idx")
			}
		case k < 48:
			op.Op = "equal"
			op.B = slot.Draw(t, "b")
		case k < 63:
			op.Op = "getn"
			op.W = rapid.IntRange(0, 5).Draw(t, "w")
			op.Again = rapid.IntRange(0, 2).Draw(t, "again") == 0
			op.Rep = genRep(t)
		case k < 73:
			op.Op = "iter"
			op.W = rapid.IntRange(0, 7).Draw(t, "w")
			op.Pos = rapid.IntRange(0, 3).Draw(t, "pos")
			op.Add = genAdd(t)
		case k < 90:
			op.Op = rapid.SampledFrom([]string{"and", "or", "orrev", "rev"}).Draw(t, "alg")
			op.B = slot.Draw(t, "b")
			op.Idx = rapid.Int32Range(0, 1023).Draw(t, "flip")
			if rapid.IntRange(0, 2).Draw(t, "adoptkind") == 0 {
				op.Adopt = 1 + slot.Draw(t, "adopt")
			}
			op.Rep = genRep(t)
		default:
			op.Op = "audit"
		}
		if op.Op == "getn" || op.Op == "iter" {
			switch rapid.IntRange(0, 3).Draw(t, "nkind") {
			case 0:
				op.NRel, op.N = true, rapid.IntRange(-1, 1).Draw(t, "nrel")
			case 1:
				op.N = rapid.IntRange(0, 6).Draw(t, "nsmall")
			default:
				op.N = rapid.IntRange(0, 1100).Draw(t, "n")
			}
		}
		c.Ops = append(c.Ops, op)
	}
	return c
}

const math16max, math16min = int16(32767), int16(-32768)

type lifeMap struct {
	b bitmap1024.Bit1024
	m model1024
}

type keptMap struct {
	name string
	lifeMap
}

func algebra(op string, x, y bitmap1024.Bit1024) bitmap1024.Bit1024 {
	switch op {
	case "and":
		return x.And(y)
	case "or":
		return x.Or(y)
	case "orrev":
		return x.OrThenReverse(y)
	}
	return x.Reverse()
}

func lifeGetN[T int8 | int16 | int32 | uint32 | int64](res *vkit.Result, k *keptLists, name string, reverse bool, mem []int, n int, call func(int) []T, again bool, ctx string) {
	if !again {
		checkGetN(res, name, reverse, mem, n, keep(k, name, call(n)), ctx)
		return
	}
	l := call(n)
	checkGetN(res, name, reverse, mem, n, toI64(l), ctx)
	for i := range l {
		l[i] = ^l[i]
	}
	keep(k, name+" (written over by the caller)", l)
	checkGetN(res, name+"/again", reverse, mem, n, keep(k, name, call(n)), ctx+" (identical call repeated after the caller wrote over the first list)")
}

func getN(b bitmap1024.Bit1024, w, n int) {
	switch w {
	case 0:
		b.GetNAsI64(n)
	case 1:
		b.RGetNAsI64(n)
	case 2:
		b.GetNAsI32(n)
	case 3:
		b.RGetNAsI32(n)
	case 4:
		b.GetNAsI16(n)
	default:
		b.RGetNAsI16(n)
	}
}

func ExecLife(c LifeCase) *vkit.Result {
	res := &vkit.Result{}
	if len(c.Pool) < 1 || len(c.Pool) > 16 || len(c.Ops) > 5000 {
		res.Skip("malformed-case")
		return res
	}
	for _, ws := range c.Pool {
		if len(ws) != 16 {
			res.Skip("malformed-case")
			return res
		}
	}
	np := len(c.Pool)
	for _, op := range c.Ops {
		if op.A < 0 || op.A >= np || op.B < 0 || op.B >= np || op.Adopt < 0 || op.Adopt > np || op.Rep < 0 || op.Rep > 2000 ||
			op.N > 1<<16 || op.Pos < 0 || op.Pos > 1<<12 || op.W < 0 || op.W > 7 {
			res.Skip("malformed-case")
			return res
		}
	}
	defer bitmap1024.VerifSetSparseMagic(9)
	bitmap1024.VerifSetSparseMagic(c.Thr)
	pool := make([]*lifeMap, np)
	for i, ws := range c.Pool {
		pool[i] = &lifeMap{toBit1024(ws), *modelOf(ws)}
	}
	var lists keptLists
	var maps []keptMap
	step := "at the start"
	// every bitmap of the pool is the set its model says, and counts it, after every step
	invariant := func() bool {
		for i, p := range pool {
			if at, ok := sameAsModel(p.b, &p.m); !ok {
				res.Failf("life/membership", "%s: membership of %d in pool bitmap %d differs from the model", step, at, i)
				return false
			}
			l := len(p.m.members())
			if p.b.Len() != l || p.b.NLen() != 1024-l {
				res.Failf("life/Len", "%s: pool bitmap %d has Len %d NLen %d, the model has %d members", step, i, p.b.Len(), p.b.NLen(), l)
				return false
			}
		}
		return true
	}
	audit := func() bool {
		lists.check(res, step)
		if res.Fail != nil {
			return false
		}
		for _, k := range maps {
			if at, ok := sameAsModel(k.b, &k.m); !ok {
				res.Failf("life/retained", "%s: the result of an earlier %s reads differently now (bit %d)", step, k.name, at)
				return false
			}
		}
		return true
	}
	if !invariant() {
		return res
	}
	changed := make([]bool, np) // membership changed since the life began
	requery := false
	for oi, op := range c.Ops {
		step = fmt.Sprintf("step %d %+v", oi, op)
		a := pool[op.A]
		switch op.Op {
		case "set":
			idx := op.Idx
			switch {
			case op.I16 && !op.Unset:
				idx = int32(int16(idx))
				a.b.SetI16(int16(idx))
			case op.I16:
				idx = int32(int16(idx))
				a.b.UnsetI16(int16(idx))
			case !op.Unset:
				a.b.SetI32(idx)
			default:
				a.b.UnsetI32(idx)
			}
			if idx >= 0 && idx < 1024 {
				if a.m[idx] == op.Unset {
					changed[op.A] = true
				}
				a.m[idx] = !op.Unset
			}
		case "equal":
			o := pool[op.B]
			if got, want := a.b.Equal(o.b), a.m == o.m; got != want {
				return res.Failf("life/Equal", "%s: Equal = %v, the models say %v", step, got, want)
			}
			if !a.b.Equal(toBit1024(wordsOf(&a.m))) {
				return res.Failf("life/Equal", "%s: not Equal to a fresh bitmap with the same members", step)
			}
			requery = requery || changed[op.A]
		case "getn", "iter":
			mem := a.m.members()
			n := op.N
			if op.NRel {
				n += len(mem)
			}
			if op.Op == "iter" {
				checkIter(res, specs1024(a.b)[op.W], mem, op.Pos, 1, op.Add, n, step)
			} else if n >= 0 {
				switch op.W {
				case 0:
					lifeGetN(res, &lists, "Bit1024.GetNAsI64", false, mem, n, a.b.GetNAsI64, op.Again, step)
				case 1:
					lifeGetN(res, &lists, "Bit1024.RGetNAsI64", true, mem, n, a.b.RGetNAsI64, op.Again, step)
				case 2:
					lifeGetN(res, &lists, "Bit1024.GetNAsI32", false, mem, n, a.b.GetNAsI32, op.Again, step)
				case 3:
					lifeGetN(res, &lists, "Bit1024.RGetNAsI32", true, mem, n, a.b.RGetNAsI32, op.Again, step)
				case 4:
					lifeGetN(res, &lists, "Bit1024.GetNAsI16", false, mem, n, a.b.GetNAsI16, op.Again, step)
				default:
					lifeGetN(res, &lists, "Bit1024.RGetNAsI16", true, mem, n, a.b.RGetNAsI16, op.Again, step)
				}
				for r := 1; r <= op.Rep; r++ {
					getN(pool[(op.A+r)%np].b, op.W, n)
				}
			}
			if res.Fail != nil {
				return res
			}
			requery = requery || changed[op.A]
		case "and", "or", "orrev", "rev":
			o := pool[op.B]
			r := algebra(op.Op, a.b, o.b)
			k := keptMap{name: op.Op}
			for i := 0; i < 1024; i++ {
				switch op.Op {
				case "and":
					k.m[i] = a.m[i] && o.m[i]
				case "or":
					k.m[i] = a.m[i] || o.m[i]
				case "orrev":
					k.m[i] = !(a.m[i] || o.m[i])
				default:
					k.m[i] = !a.m[i]
				}
			}
			k.b = r
			if at, ok := sameAsModel(r, &k.m); !ok {
				return res.Failf("life/"+op.Op, "%s: bit %d of the result differs from the model", step, at)
			}
			for j := 1; j <= op.Rep; j++ {
				algebra(op.Op, pool[(op.A+j)%np].b, pool[(op.B+2*j)%np].b)
			}
			if op.Rep >= 20 {
				res.Class("long-retention")
			}
			// the result is a set of its own: some of its members are flipped (the invariant below looks at the operands)
			for _, d := range []int32{0, 1, 64, 517} {
				idx := (op.Idx + d) % 1024
				if k.m[idx] {
					r.UnsetI32(idx)
				} else {
					r.SetI16(int16(idx))
				}
				k.m[idx] = !k.m[idx]
			}
			if op.A == op.B {
				res.Class("self-argument")
			}
			if op.Adopt > 0 {
				// it joins the pool and lives on; the bitmap it replaces is kept as it is
				old := pool[op.Adopt-1]
				maps = append(maps, keptMap{"pool bitmap", *old})
				pool[op.Adopt-1] = &lifeMap{r, k.m}
				changed[op.Adopt-1] = true
			} else {
				maps = append(maps, k)
			}
			requery = requery || changed[op.A]
		case "audit":
			if !audit() {
				return res
			}
		default:
			res.Skip("malformed-case")
			return res
		}
		if !invariant() {
			return res
		}
	}
	step = "at the end of the life"
	if !audit() {
		return res
	}
	if requery {
		res.NonTrivial = true
		res.Class("asked-again-after-a-change")
	}
	if len(c.Ops) >= 150 {
		res.Class("long-life")
	}
	return res
}

var PartLife = &vkit.Part[LifeCase]{
	Property: Property, Name: "life",
	Rule:  "rapid: a pool of 2..4 bitmaps (16 words each from the mixture of part bit1024) and a script of 8..60 (one in eight: 150..400) steps: Set/Unset (both widths, in-range and edge indices), Equal, one GetN* or iterator entry point with a quota near Len / small / up to 1100, And/Or/OrThenReverse/Reverse with any pool bitmap as the argument (itself included), audits. After every step every pool bitmap is compared with its [1024]bool model (membership, Len, NLen); results of the algebra are flipped in four places and either replace a pool slot or are kept; every list and result handed out is read again at the audits and at the end; GetN* lists are, one in three, written over by the caller before the identical call is repeated; one call in sixty is followed by 20..300 further calls of the same entry point on the other pool bitmaps. Non-trivial: a question was asked on a bitmap whose membership had changed since the start; distinct = distinct case JSON",
	Quick: 2500, Thorough: 8000,
	Gen: GenLife, Exec: ExecLife,
}
