package c08bitmap

import (
	"testing"

	"verifharness/vkit"
)

func TestMain(m *testing.M) { vkit.Main(m) }

func TestProp_Bit64(t *testing.T)   { Part64.Run(t) }
func TestProp_Bit1024(t *testing.T) { Part1024.Run(t) }
func TestProp_Life(t *testing.T)    { PartLife.Run(t) }

func TestReplay(t *testing.T) {
	Part64.Replay(t, 1)
	Part1024.Replay(t, 1)
	PartLife.Replay(t, 1)
}

// FuzzBit1024 is the byte-level, coverage-guided entry: 128 bytes of bitmap,
// 128 bytes of second operand, and the scalar arguments.
func FuzzBit1024(f *testing.F) {
	if vkit.SeedCorpus() {
		f.Add(make([]byte, 128), make([]byte, 128), 3, uint8(0), int64(0), int8(9), int32(5), int32(1024))
		full := make([]byte, 128)
		for i := range full {
			full[i] = 0xff
		}
		f.Add(full, make([]byte, 128), 1023, uint8(1), int64(-1), int8(64), int32(-1), int32(1023))
		f.Add(full[:16], full[:8], 1, uint8(4), int64(1<<62), int8(-1), int32(63), int32(64))
	}
	f.Fuzz(func(t *testing.T, a, b []byte, n int, pos uint8, add int64, thr int8, i1, i2 int32) {
		c := Case1024{Words: wordsFromBytes(a), Other: wordsFromBytes(b), Thr: int32(thr), Pos: int(pos % 5), Slack: int(pos/5) % 3, Add: add}
		if n > 1500 {
			n = 1500
		}
		if n < -3 {
			n = -3
		}
		c.N = n
		c.Ops = []SetOp{{Idx: i1}, {Unset: true, Idx: i2}, {I16: true, Idx: int32(int16(i2))}}
		Part1024.FuzzOne(t, c)
	})
}

func wordsFromBytes(b []byte) []uint64 {
	ws := make([]uint64, 16)
	for i := 0; i < len(b) && i < 128; i++ {
		ws[i/8] |= uint64(b[i]) << (8 * uint(i%8))
	}
	return ws
}
