// Package c08bitmap decides property C08: bitmap1024 behaves as a set of
// integers in [0,1023] with ordered, bounded iteration in every width and
// direction, independent of the sparse/dense threshold.
package c08bitmap

import (
	"fmt"
	"math"
	"math/bits"
	"slices"

	"github.com/pinealctx/neptune/bitmap1024"
	"pgregory.net/rapid"

	"verifharness/vkit"
)

const Property = "C08"

// ---------------------------------------------------------------------------
// generators shared by both parts

var thresholds = []int32{-1, 0, 1, 8, 9, 10, 31, 32, 63, 64, 100}

// GenWord draws a 64-bit word from a mixture that makes the boundaries of the
// sparse/dense switch (popcount around thr) and the extremes common.
func GenWord(t *rapid.T, thr int32, label string) uint64 {
	switch rapid.IntRange(0, 9).Draw(t, label+"kind") {
	case 0:
		return 0
	case 1:
		return math.MaxUint64
	case 2:
		return 1 << uint(rapid.IntRange(0, 63).Draw(t, label+"bit"))
	case 3, 4: // popcount exactly thr-1, thr, thr+1 (clamped to 0..64)
		pc := int(thr) + rapid.IntRange(-1, 1).Draw(t, label+"dpc")
		if pc < 0 {
			pc = 0
		}
		if pc > 64 {
			pc = 64
		}
		return wordWithPopcount(t, pc, label)
	case 5: // sparse
		var w uint64
		for i, k := 0, rapid.IntRange(1, 5).Draw(t, label+"k"); i < k; i++ {
			w |= 1 << uint(rapid.IntRange(0, 63).Draw(t, label+"b"))
		}
		return w
	case 6: // dense
		w := uint64(math.MaxUint64)
		for i, k := 0, rapid.IntRange(1, 5).Draw(t, label+"k"); i < k; i++ {
			w &^= 1 << uint(rapid.IntRange(0, 63).Draw(t, label+"b"))
		}
		return w
	case 7: // edges set
		return 1 | 1<<63 | rapid.Uint64().Draw(t, label+"r")&rapid.Uint64().Draw(t, label+"r2")
	default:
		return rapid.Uint64().Draw(t, label+"rand")
	}
}

func wordWithPopcount(t *rapid.T, pc int, label string) uint64 {
	perm := rapid.Permutation([]int{0, 1, 2, 3, 4, 5, 6, 7, 8, 9, 10, 11, 12, 13, 14, 15, 16, 17, 18, 19, 20, 21, 22, 23, 24, 25, 26, 27, 28, 29, 30, 31, 32, 33, 34, 35, 36, 37, 38, 39, 40, 41, 42, 43, 44, 45, 46, 47, 48, 49, 50, 51, 52, 53, 54, 55, 56, 57, 58, 59, 60, 61, 62, 63}).Draw(t, label+"perm")
	var w uint64
	for _, b := range perm[:pc] {
		w |= 1 << uint(b)
	}
	return w
}

func genN(t *rapid.T, l int) int {
	switch rapid.IntRange(0, 7).Draw(t, "nkind") {
	case 0:
		return rapid.IntRange(-3, -1).Draw(t, "nneg")
	case 1:
		return 0
	case 2:
		return 1
	case 3:
		return l - 1
	case 4:
		return l
	case 5:
		return l + 1
	case 6:
		if rapid.IntRange(0, 39).Draw(t, "nbigkind") == 0 {
			// also at and around the multiples of 2^16 (a slot count kept in 16 bits)
			return rapid.SampledFrom([]int{4096, 4097, 5000, 32768, 40000, 65535, 65536, 65537, 66000, 131072}).Draw(t, "nbigger")
		}
		return rapid.IntRange(1025, 1500).Draw(t, "nbig")
	default:
		return rapid.IntRange(0, l+2).Draw(t, "nrand")
	}
}

// ---------------------------------------------------------------------------
// part 1: the 64-bit layer

type Case64 struct {
	Word  uint64 `json:"word"`
	Thr   int32  `json:"thr"`
	N     int    `json:"n"`
	NHuge int    `json:"n_huge,omitempty"` // a second quota, for the iterators only (GetN allocates n slots): "give me everything"
	Pos   int    `json:"pos"`
	Slack int    `json:"slack"`
	Add   int64  `json:"add"`
	Later int    `json:"later,omitempty"` // further rounds of GetN* calls on other words before the kept lists are read again
	SetI  []int  `json:"set_i"`           // Set/Unset script on the word: value = index (0..255), negative = unset(-v-1)
}

// genPos: mostly the first few slots; sometimes far into a long slice (real callers chain many bitmaps into one
// slice), at the boundaries of 8-, 15- and 16-bit cursors.
func genPos(t *rapid.T) int {
	switch rapid.IntRange(0, 99).Draw(t, "poskind") {
	case 0:
		return rapid.SampledFrom([]int{32766, 32767, 32768, 40000, 65535, 65536}).Draw(t, "posbig")
	case 1, 2:
		return rapid.SampledFrom([]int{127, 128, 255, 256}).Draw(t, "posmid")
	}
	return rapid.IntRange(0, 4).Draw(t, "pos")
}

// genNHuge: quotas far above any population, up to the integer limit (0 = none in this case).
func genNHuge(t *rapid.T, pos int) int {
	if rapid.IntRange(0, 7).Draw(t, "nhugekind") != 0 {
		return 0
	}
	return rapid.SampledFrom(nHuge(pos)).Draw(t, "nhuge")
}

// nHuge: the limits of the integer widths, and quotas whose low 8, 16 or 32 bits are a small number (a quota kept in
// a narrower unsigned integer reads as 0, 1, 2 ...).
func nHuge(pos int) []int {
	return []int{4097, 32767, 32768, 40000, 65536, math.MaxInt32, math.MaxInt32 + 1, math.MaxInt - pos, math.MaxInt - 1, math.MaxInt,
		1<<16 + 1, 1<<16 + 2, 3 << 16, 1<<17 + 1, 1<<24 + 1, 1 << 31, math.MaxUint32, 1 << 32, 1<<32 + 1, 1<<32 + 2, 3 << 32, 1<<33 + 1, 1<<40 + 1, 1<<48 + 2}
}

// genLater: how many further rounds of the same calls are made on other bitmaps before results handed out earlier
// are read again: mostly none or a few, rarely (one case in a hundred) twenty to three hundred.
func genLater(t *rapid.T) int {
	switch k := rapid.IntRange(0, 99).Draw(t, "laterkind"); {
	case k == 0:
		return rapid.IntRange(20, 300).Draw(t, "laterlong")
	case k < 40:
		return rapid.IntRange(1, 6).Draw(t, "later")
	}
	return 0
}

// laterRounds: the rounds a case affords (a quota of tens of thousands costs that many slots per GetN call).
func laterRounds(later, n int) int {
	if later < 0 {
		return 0
	}
	if n > 2000 && later > 3 {
		return 3
	}
	if later > 1000 {
		return 1000
	}
	return later
}

// skipForBigPos: a position tens of thousands of slots into the slice costs a slice of that length per call, so such
// a case exercises one iterator pair (forward and reverse of one width), chosen by the case's own numbers, not all.
func skipForBigPos(pos, specIdx, pick, nspecs int) bool {
	if pos < 1000 {
		return false
	}
	if pick < 0 {
		pick = -pick
	}
	return specIdx/2 != pick%(nspecs/2)
}

func genAdd(t *rapid.T) int64 {
	return rapid.SampledFrom([]int64{0, 0, 1, -1, 64, 1024, 127, 128, -128, 32767, 32768, -32768, 65535,
		math.MaxInt32, math.MinInt32, math.MaxUint32, math.MaxInt64, math.MinInt64, math.MaxInt64 - 63, 1 << 40}).Draw(t, "add")
}

func Gen64(t *rapid.T) Case64 {
	thr := rapid.SampledFrom(thresholds).Draw(t, "thr")
	w := GenWord(t, thr, "w")
	c := Case64{Word: w, Thr: thr}
	c.N = genN(t, bits.OnesCount64(w))
	c.Pos = genPos(t)
	c.NHuge = genNHuge(t, c.Pos)
	c.Slack = rapid.IntRange(0, 2).Draw(t, "slack")
	c.Add = genAdd(t)
	c.Later = genLater(t)
	k := rapid.IntRange(0, 4).Draw(t, "nset")
	for i := 0; i < k; i++ {
		v := rapid.SampledFrom([]int{0, 1, 62, 63, 64, 65, 127, 128, 255, 7, 31, 32}).Draw(t, "seti")
		if rapid.Bool().Draw(t, "unset") {
			v = -v - 1
		}
		c.SetI = append(c.SetI, v)
	}
	return c
}

func members64(w uint64) []int {
	var m []int
	for i := 0; i < 64; i++ {
		if w&(1<<uint(i)) != 0 {
			m = append(m, i)
		}
	}
	return m
}

func reversed(m []int) []int {
	r := make([]int, len(m))
	for i, v := range m {
		r[len(m)-1-i] = v
	}
	return r
}

func expectCount(n, l int) int {
	if n < 0 {
		n = 0
	}
	if n > l {
		return l
	}
	return n
}

// iterSpec describes one iterator call in a width-independent way: call runs
// the code under test on a sentinel-filled slice of the given length and
// returns (count, slice as int64s).
type iterSpec struct {
	name    string
	reverse bool
	width   int // bits; 0 = uint32
	call    func(length, pos int, add int64, n int, sentinel int64) (int, []int64)
}

func wrap(width int, v int64) int64 {
	switch width {
	case 8:
		return int64(int8(v))
	case 16:
		return int64(int16(v))
	case 32:
		return int64(int32(v))
	case 0:
		return int64(uint32(v))
	}
	return v
}

const sentinel = int64(-0x5a5a5a5a5a5a5a5b)

// checkIter runs one iterator against the member list.
func checkIter(res *vkit.Result, sp iterSpec, mem []int, pos, slack int, add int64, n int, ctx string) (count int) {
	if res.Fail != nil {
		return 0
	}
	order := mem
	if sp.reverse {
		order = reversed(mem)
	}
	want := expectCount(n, len(mem))
	length := pos + want + slack
	sent := wrap(sp.width, sentinel)
	got, s := sp.call(length, pos, wrap(sp.width, add), n, sent)
	if got != want {
		res.Failf(sp.name+"/count", "%s %s(pos=%d,add=%d,n=%d) returned %d, want min(max(n,0),Len=%d)=%d", ctx, sp.name, pos, add, n, got, len(mem), want)
		return want
	}
	for k := 0; k < length; k++ {
		exp := sent
		if k >= pos && k < pos+want {
			exp = wrap(sp.width, int64(order[k-pos])+wrap(sp.width, add))
		}
		if s[k] != exp {
			res.Failf(sp.name+"/slot", "%s %s(pos=%d,add=%d,n=%d): slot %d = %d, want %d (members %v)", ctx, sp.name, pos, add, n, k, s[k], exp, order)
			return want
		}
	}
	return want
}

func fill[T any](n int, v T) []T {
	s := make([]T, n)
	for i := range s {
		s[i] = v
	}
	return s
}

func toI64[T int8 | int16 | int32 | uint32 | int64](s []T) []int64 {
	o := make([]int64, len(s))
	for i, v := range s {
		o[i] = int64(v)
	}
	return o
}

func specs64(b bitmap1024.Bit64) []iterSpec {
	return []iterSpec{
		{"Bit64.IterAsI64", false, 64, func(l, p int, a int64, n int, sv int64) (int, []int64) {
			s := fill(l, sv)
			return b.IterAsI64(s, p, a, n), s
		}},
		{"Bit64.RIterAsI64", true, 64, func(l, p int, a int64, n int, sv int64) (int, []int64) {
			s := fill(l, sv)
			return b.RIterAsI64(s, p, a, n), s
		}},
		{"Bit64.IterAsI32", false, 32, func(l, p int, a int64, n int, sv int64) (int, []int64) {
			s := fill(l, int32(sv))
			return b.IterAsI32(s, p, int32(a), n), toI64(s)
		}},
		{"Bit64.RIterAsI32", true, 32, func(l, p int, a int64, n int, sv int64) (int, []int64) {
			s := fill(l, int32(sv))
			return b.RIterAsI32(s, p, int32(a), n), toI64(s)
		}},
		{"Bit64.IterAsU32", false, 0, func(l, p int, a int64, n int, sv int64) (int, []int64) {
			s := fill(l, uint32(sv))
			return b.IterAsU32(s, p, uint32(a), n), toI64(s)
		}},
		{"Bit64.RIterAsU32", true, 0, func(l, p int, a int64, n int, sv int64) (int, []int64) {
			s := fill(l, uint32(sv))
			return b.RIterAsU32(s, p, uint32(a), n), toI64(s)
		}},
		{"Bit64.IterAsI16", false, 16, func(l, p int, a int64, n int, sv int64) (int, []int64) {
			s := fill(l, int16(sv))
			return b.IterAsI16(s, p, int16(a), n), toI64(s)
		}},
		{"Bit64.RIterAsI16", true, 16, func(l, p int, a int64, n int, sv int64) (int, []int64) {
			s := fill(l, int16(sv))
			return b.RIterAsI16(s, p, int16(a), n), toI64(s)
		}},
		{"Bit64.IterAsI8", false, 8, func(l, p int, a int64, n int, sv int64) (int, []int64) {
			s := fill(l, int8(sv))
			return b.IterAsI8(s, p, int8(a), n), toI64(s)
		}},
		{"Bit64.RIterAsI8", true, 8, func(l, p int, a int64, n int, sv int64) (int, []int64) {
			s := fill(l, int8(sv))
			return b.RIterAsI8(s, p, int8(a), n), toI64(s)
		}},
	}
}

// checkGetN compares a GetN* result (n >= 0 only: it allocates n slots).
// keptLists: every list a GetN* call handed out, with a copy taken at once. The list belongs to the caller: it reads
// the same after any number of later calls (on this bitmap, on others).
type keptLists struct {
	items []keptList
}

type keptList struct {
	name string
	read func() []int64
	then []int64
}

func keep[T int8 | int16 | int32 | uint32 | int64](k *keptLists, name string, s []T) []int64 {
	now := toI64(s)
	k.items = append(k.items, keptList{name, func() []int64 { return toI64(s) }, now})
	return now
}

func (k *keptLists) check(res *vkit.Result, ctx string) {
	if res.Fail != nil {
		return
	}
	for _, it := range k.items {
		if now := it.read(); !slices.Equal(now, it.then) {
			res.Failf(it.name+"/retained", "%s: the list %s returned changed after later calls: was %v, reads %v", ctx, it.name, it.then, now)
			return
		}
	}
}

// twice: the caller writes over the list it was given (it is the caller's), then makes the identical call again: the
// second list is again the first min(n, Len) members. Both lists are kept.
func twice[T int8 | int16 | int32 | uint32 | int64](res *vkit.Result, k *keptLists, name string, reverse bool, mem []int, n int, call func(int) []T, ctx string) {
	if res.Fail != nil {
		return
	}
	first := call(n)
	for i := range first {
		first[i] = ^first[i]
	}
	keep(k, name+" (written over by the caller)", first)
	checkGetN(res, name+"/again", reverse, mem, n, keep(k, name, call(n)), ctx+" (identical call repeated after the caller wrote over the first list)")
}

func checkGetN(res *vkit.Result, name string, reverse bool, mem []int, n int, got []int64, ctx string) {
	if res.Fail != nil {
		return
	}
	order := mem
	if reverse {
		order = reversed(mem)
	}
	want := expectCount(n, len(mem))
	if len(got) != want {
		res.Failf(name+"/count", "%s %s(%d) returned %d elements %v, want %d of %v", ctx, name, n, len(got), got, want, order)
		return
	}
	for k := 0; k < want; k++ {
		if got[k] != int64(order[k]) {
			res.Failf(name+"/slot", "%s %s(%d)[%d] = %d, want %d", ctx, name, n, k, got[k], order[k])
			return
		}
	}
}

func Exec64(c Case64) *vkit.Result {
	res := &vkit.Result{}
	if c.Pos < 0 || c.Pos > 1<<20 || c.Slack < 0 || c.Slack > 64 || c.N > 1<<20 {
		res.Skip("malformed-case")
		return res
	}
	defer bitmap1024.VerifSetSparseMagic(9)
	w := bitmap1024.Bit64(c.Word)
	model := c.Word
	// Set / Unset change exactly the addressed in-range member.
	for _, v := range c.SetI {
		if v >= 0 {
			w.Set(byte(v))
			if v <= 63 {
				model |= 1 << uint(v)
			}
		} else {
			i := -v - 1
			w.Unset(byte(i))
			if i <= 63 {
				model &^= 1 << uint(i)
			}
		}
		if uint64(w) != model {
			return res.Failf("Bit64.Set", "after script %v up to %d: word %#x, model %#x", c.SetI, v, uint64(w), model)
		}
	}
	mem := members64(model)
	if w.Len() != len(mem) || w.NLen() != 64-len(mem) || w.Full() != (len(mem) == 64) {
		return res.Failf("Bit64.Len", "word %#x: Len %d NLen %d Full %v, model has %d members", model, w.Len(), w.NLen(), w.Full(), len(mem))
	}
	if uint64(w.Reverse()) != ^model {
		return res.Failf("Bit64.Reverse", "word %#x", model)
	}
	thrs := []int32{c.Thr, 9}
	ctx := ""
	for _, thr := range thrs {
		bitmap1024.VerifSetSparseMagic(thr)
		ctx = fmt.Sprintf("word=%#x thr=%d", model, thr)
		for si, sp := range specs64(w) {
			if skipForBigPos(c.Pos, si, c.Slack+len(mem)+int(c.Thr), 10) {
				continue
			}
			checkIter(res, sp, mem, c.Pos, c.Slack, c.Add, c.N, ctx)
			if c.NHuge > 0 {
				checkIter(res, sp, mem, c.Pos, c.Slack, c.Add, c.NHuge, ctx)
			}
		}
		if c.N >= 0 {
			var kl keptLists
			checkGetN(res, "Bit64.GetNAsI64", false, mem, c.N, keep(&kl, "Bit64.GetNAsI64", w.GetNAsI64(c.N)), ctx)
			checkGetN(res, "Bit64.RGetNAsI64", true, mem, c.N, keep(&kl, "Bit64.RGetNAsI64", w.RGetNAsI64(c.N)), ctx)
			checkGetN(res, "Bit64.GetNAsI32", false, mem, c.N, keep(&kl, "Bit64.GetNAsI32", w.GetNAsI32(c.N)), ctx)
			checkGetN(res, "Bit64.RGetNAsI32", true, mem, c.N, keep(&kl, "Bit64.RGetNAsI32", w.RGetNAsI32(c.N)), ctx)
			checkGetN(res, "Bit64.GetNAsI16", false, mem, c.N, keep(&kl, "Bit64.GetNAsI16", w.GetNAsI16(c.N)), ctx)
			checkGetN(res, "Bit64.RGetNAsI16", true, mem, c.N, keep(&kl, "Bit64.RGetNAsI16", w.RGetNAsI16(c.N)), ctx)
			checkGetN(res, "Bit64.GetNAsI8", false, mem, c.N, keep(&kl, "Bit64.GetNAsI8", w.GetNAsI8(c.N)), ctx)
			checkGetN(res, "Bit64.RGetNAsI8", true, mem, c.N, keep(&kl, "Bit64.RGetNAsI8", w.RGetNAsI8(c.N)), ctx)
			// the same calls on the complement word (other members), then the lists handed out before are read again
			if thr == c.Thr {
				// one width (chosen by the case's own numbers) gets the repeated call and the further rounds
				width := (c.Slack + len(mem) + c.Pos + len(c.SetI)) % 4
				switch width {
				case 0:
					twice(res, &kl, "Bit64.GetNAsI64", false, mem, c.N, w.GetNAsI64, ctx)
					twice(res, &kl, "Bit64.RGetNAsI64", true, mem, c.N, w.RGetNAsI64, ctx)
				case 1:
					twice(res, &kl, "Bit64.GetNAsI32", false, mem, c.N, w.GetNAsI32, ctx)
					twice(res, &kl, "Bit64.RGetNAsI32", true, mem, c.N, w.RGetNAsI32, ctx)
				case 2:
					twice(res, &kl, "Bit64.GetNAsI16", false, mem, c.N, w.GetNAsI16, ctx)
					twice(res, &kl, "Bit64.RGetNAsI16", true, mem, c.N, w.RGetNAsI16, ctx)
				default:
					twice(res, &kl, "Bit64.GetNAsI8", false, mem, c.N, w.GetNAsI8, ctx)
					twice(res, &kl, "Bit64.RGetNAsI8", true, mem, c.N, w.RGetNAsI8, ctx)
				}
				// the same calls on the complement word (other members), then further rounds on it and on rotations of it
				cw := ^w
				_, _, _, _ = cw.GetNAsI64(c.N), cw.RGetNAsI64(c.N), cw.GetNAsI32(c.N), cw.RGetNAsI32(c.N)
				_, _, _, _ = cw.GetNAsI16(c.N), cw.RGetNAsI16(c.N), cw.GetNAsI8(c.N), cw.RGetNAsI8(c.N)
				for r, rounds := 1, laterRounds(c.Later, c.N); r <= rounds && res.Fail == nil; r++ {
					if r%2 == 0 {
						cw = bitmap1024.Bit64(bits.RotateLeft64(^model, 5*(r/2)))
					}
					switch width {
					case 0:
						_, _ = cw.GetNAsI64(c.N), cw.RGetNAsI64(c.N)
					case 1:
						_, _ = cw.GetNAsI32(c.N), cw.RGetNAsI32(c.N)
					case 2:
						_, _ = cw.GetNAsI16(c.N), cw.RGetNAsI16(c.N)
					default:
						_, _ = cw.GetNAsI8(c.N), cw.RGetNAsI8(c.N)
					}
				}
				kl.check(res, ctx)
				if c.Later >= 20 {
					res.Class("long-retention")
				}
			}
		}
	}
	classify(res, c.N, len(mem), []int{len(mem)}, c.Thr)
	return res
}

func classify(res *vkit.Result, n, l int, popcounts []int, thr int32) {
	cnt := expectCount(n, l)
	if cnt > 0 && cnt < l {
		res.NonTrivial = true
		res.Class("cut-in-the-middle")
	}
	for _, pc := range popcounts {
		d := pc - int(thr)
		if d >= -1 && d <= 1 {
			res.NonTrivial = true
			res.Class("popcount-at-threshold")
			break
		}
	}
	switch {
	case n < 0:
		res.Class("n<0")
	case n == 0:
		res.Class("n=0")
	case n == l:
		res.Class("n=Len")
	case n > l:
		res.Class("n>Len")
	}
	if l == 0 {
		res.Class("empty")
	}
}

// ---------------------------------------------------------------------------
// part 2: the 1024-bit layer

type SetOp struct {
	Unset bool  `json:"unset,omitempty"`
	I16   bool  `json:"i16,omitempty"`
	Idx   int32 `json:"idx"`
}

type Case1024 struct {
	Words []uint64 `json:"words"` // 16
	Other []uint64 `json:"other"` // 16, for the algebra
	Ops   []SetOp  `json:"ops"`
	Thr   int32    `json:"thr"`
	N     int      `json:"n"`
	NHuge int      `json:"n_huge,omitempty"` // a second quota, for the iterators only
	Pos   int      `json:"pos"`
	Slack int      `json:"slack"`
	Add   int64    `json:"add"`
	Later int      `json:"later,omitempty"` // further rounds of algebra and GetN* calls on other bitmaps before kept results are read again
}

func genWords(t *rapid.T, thr int32, label string) []uint64 {
	ws := make([]uint64, 16)
	switch rapid.IntRange(0, 5).Draw(t, label+"shape") {
	case 0: // empty
	case 1: // full
		for i := range ws {
			ws[i] = math.MaxUint64
		}
	case 2: // a few words only
		for i, k := 0, rapid.IntRange(1, 3).Draw(t, label+"nw"); i < k; i++ {
			ws[rapid.IntRange(0, 15).Draw(t, label+"wi")] = GenWord(t, thr, label+"w")
		}
	default:
		for i := range ws {
			ws[i] = GenWord(t, thr, fmt.Sprintf("%sw%d", label, i))
		}
	}
	return ws
}

func Gen1024(t *rapid.T) Case1024 {
	thr := rapid.SampledFrom(thresholds).Draw(t, "thr")
	c := Case1024{Thr: thr}
	c.Words = genWords(t, thr, "a")
	c.Other = genWords(t, thr, "b")
	k := rapid.IntRange(0, 6).Draw(t, "nops")
	for i := 0; i < k; i++ {
		op := SetOp{Unset: rapid.Bool().Draw(t, "unset"), I16: rapid.Bool().Draw(t, "i16")}
		if op.I16 {
			op.Idx = int32(rapid.OneOf(
				rapid.SampledFrom([]int16{-1, 0, 1, 63, 64, 65, 1022, 1023, 1024, 1025, -64, -63, -1024, math.MaxInt16, math.MinInt16}),
				rapid.Int16Range(0, 1023), rapid.Int16()).Draw(t, "idx16"))
		} else {
			op.Idx = rapid.OneOf(
				rapid.SampledFrom([]int32{-1, 0, 1, 63, 64, 65, 1022, 1023, 1024, 1025, -64, -63, -1024, 1 << 16, 1<<16 + 5, math.MaxInt32, math.MinInt32}),
				rapid.Int32Range(0, 1023), rapid.Int32()).Draw(t, "idx32")
		}
		c.Ops = append(c.Ops, op)
	}
	l := 0
	for _, w := range c.Words {
		l += bits.OnesCount64(w)
	}
	c.N = genN(t, l)
	c.Pos = genPos(t)
	c.NHuge = genNHuge(t, c.Pos)
	c.Slack = rapid.IntRange(0, 2).Draw(t, "slack")
	c.Add = genAdd(t)
	c.Later = genLater(t)
	return c
}

type model1024 [1024]bool

func modelOf(ws []uint64) *model1024 {
	var m model1024
	for i := 0; i < 1024; i++ {
		m[i] = ws[i/64]&(1<<uint(i%64)) != 0
	}
	return &m
}

func (m *model1024) members() []int {
	var out []int
	for i, b := range m {
		if b {
			out = append(out, i)
		}
	}
	return out
}

func toBit1024(ws []uint64) bitmap1024.Bit1024 {
	b := bitmap1024.NewBit1024()
	for i := range ws {
		b[i] = bitmap1024.Bit64(ws[i])
	}
	return b
}

func sameAsModel(b bitmap1024.Bit1024, m *model1024) (int, bool) {
	if len(b) != 16 {
		return -1, false
	}
	for i := 0; i < 1024; i++ {
		if (uint64(b[i/64])&(1<<uint(i%64)) != 0) != m[i] {
			return i, false
		}
	}
	return 0, true
}

func specs1024(b bitmap1024.Bit1024) []iterSpec {
	return []iterSpec{
		{"Bit1024.IterAsI64", false, 64, func(l, p int, a int64, n int, sv int64) (int, []int64) {
			s := fill(l, sv)
			return b.IterAsI64(s, p, a, n), s
		}},
		{"Bit1024.RIterAsI64", true, 64, func(l, p int, a int64, n int, sv int64) (int, []int64) {
			s := fill(l, sv)
			return b.RIterAsI64(s, p, a, n), s
		}},
		{"Bit1024.IterAsI32", false, 32, func(l, p int, a int64, n int, sv int64) (int, []int64) {
			s := fill(l, int32(sv))
			return b.IterAsI32(s, p, int32(a), n), toI64(s)
		}},
		{"Bit1024.RIterAsI32", true, 32, func(l, p int, a int64, n int, sv int64) (int, []int64) {
			s := fill(l, int32(sv))
			return b.RIterAsI32(s, p, int32(a), n), toI64(s)
		}},
		{"Bit1024.IterAsU32", false, 0, func(l, p int, a int64, n int, sv int64) (int, []int64) {
			s := fill(l, uint32(sv))
			return b.IterAsU32(s, p, uint32(a), n), toI64(s)
		}},
		{"Bit1024.RIterAsU32", true, 0, func(l, p int, a int64, n int, sv int64) (int, []int64) {
			s := fill(l, uint32(sv))
			return b.RIterAsU32(s, p, uint32(a), n), toI64(s)
		}},
		{"Bit1024.IterAsI16", false, 16, func(l, p int, a int64, n int, sv int64) (int, []int64) {
			s := fill(l, int16(sv))
			return b.IterAsI16(s, p, int16(a), n), toI64(s)
		}},
		{"Bit1024.RIterAsI16", true, 16, func(l, p int, a int64, n int, sv int64) (int, []int64) {
			s := fill(l, int16(sv))
			return b.RIterAsI16(s, p, int16(a), n), toI64(s)
		}},
	}
}

func Exec1024(c Case1024) *vkit.Result {
	res := &vkit.Result{}
	if len(c.Words) != 16 || len(c.Other) != 16 || c.Pos < 0 || c.Pos > 1<<20 || c.Slack < 0 || c.Slack > 64 || c.N > 1<<20 {
		res.Skip("malformed-case")
		return res
	}
	defer bitmap1024.VerifSetSparseMagic(9)
	b := toBit1024(c.Words)
	m := modelOf(c.Words)
	// Len/NLen are asked before the script and after every step of it, on the same instance
	cnt := len(m.members())
	if b.Len() != cnt || b.NLen() != 1024-cnt {
		return res.Failf("Bit1024.Len", "before the script: Len %d NLen %d, model has %d members", b.Len(), b.NLen(), cnt)
	}
	for _, op := range c.Ops {
		inRange := op.Idx >= 0 && op.Idx < 1024
		switch {
		case op.I16 && !op.Unset:
			b.SetI16(int16(op.Idx))
		case op.I16 && op.Unset:
			b.UnsetI16(int16(op.Idx))
		case !op.Unset:
			b.SetI32(op.Idx)
		default:
			b.UnsetI32(op.Idx)
		}
		if inRange {
			if m[op.Idx] && op.Unset {
				cnt--
			} else if !m[op.Idx] && !op.Unset {
				cnt++
			}
			m[op.Idx] = !op.Unset
			res.Class("set-in-range")
		} else {
			res.Class("set-out-of-range")
		}
		if i, ok := sameAsModel(b, m); !ok {
			return res.Failf("Bit1024.Set", "after %+v: membership of %d differs from the model", op, i)
		}
		if b.Len() != cnt || b.NLen() != 1024-cnt {
			return res.Failf("Bit1024.Len/after-set", "after %+v of the script %+v: Len %d NLen %d, model has %d members", op, c.Ops, b.Len(), b.NLen(), cnt)
		}
	}
	mem := m.members()
	if b.Len() != len(mem) || b.NLen() != 1024-len(mem) {
		return res.Failf("Bit1024.Len", "Len %d NLen %d, model has %d members", b.Len(), b.NLen(), len(mem))
	}
	// algebra
	o := toBit1024(c.Other)
	om := modelOf(c.Other)
	var and, or, rev, orrev model1024
	eq := true
	for i := 0; i < 1024; i++ {
		and[i] = m[i] && om[i]
		or[i] = m[i] || om[i]
		rev[i] = !m[i]
		orrev[i] = !(m[i] || om[i])
		if m[i] != om[i] {
			eq = false
		}
	}
	if i, ok := sameAsModel(b.And(o), &and); !ok {
		return res.Failf("Bit1024.And", "bit %d", i)
	}
	if i, ok := sameAsModel(b.Or(o), &or); !ok {
		return res.Failf("Bit1024.Or", "bit %d", i)
	}
	if i, ok := sameAsModel(b.Reverse(), &rev); !ok {
		return res.Failf("Bit1024.Reverse", "bit %d", i)
	}
	if i, ok := sameAsModel(b.OrThenReverse(o), &orrev); !ok {
		return res.Failf("Bit1024.OrThenReverse", "bit %d", i)
	}
	if b.Equal(o) != eq || !b.Equal(toBit1024(wordsOf(m))) {
		return res.Failf("Bit1024.Equal", "Equal(other)=%v, model %v", b.Equal(o), eq)
	}
	// results are values of their own: they stay what they were after further algebra on other operands, and setting
	// or clearing a member of a result touches neither operand
	rAnd, rOr, rRev, rOrRev := b.And(o), b.Or(o), b.Reverse(), b.OrThenReverse(o)
	// the bitmap as its own argument: x AND x = x OR x = x, NOT(x OR x) = NOT x, x = x (the results are sets of their own too)
	sAnd, sOr, sOrRev := b.And(b), b.Or(b), b.OrThenReverse(b)
	if !b.Equal(b) || !b.Equal(b[:]) {
		return res.Failf("Bit1024.Equal/self", "a bitmap is not Equal to itself")
	}
	_, _, _, _ = o.And(rRev), o.Or(rAnd), o.Reverse(), o.OrThenReverse(rRev)
	if rounds := laterRounds(c.Later, 0); rounds > 0 {
		others := []bitmap1024.Bit1024{o, b.Reverse(), b, o.Reverse()}
		for r := 1; r <= rounds; r++ {
			x, y := others[r%4], others[(r+1)%4]
			_, _, _, _ = x.And(y), x.Or(y), x.Reverse(), x.OrThenReverse(y)
		}
		if c.Later >= 20 {
			res.Class("long-retention")
		}
	}
	for xi, x := range []struct {
		name string
		r    bitmap1024.Bit1024
		want *model1024
	}{{"And", rAnd, &and}, {"Or", rOr, &or}, {"Reverse", rRev, &rev}, {"OrThenReverse", rOrRev, &orrev},
		{"And(self)", sAnd, m}, {"Or(self)", sOr, m}, {"OrThenReverse(self)", sOrRev, &rev}} {
		if i, ok := sameAsModel(x.r, x.want); !ok {
			return res.Failf("Bit1024."+x.name+"/retained", "the result of %s changed after later algebra calls on other operands (bit %d)", x.name, i)
		}
		for _, idx := range []int32{0, 5, 63, 64, 1023} {
			if x.want[idx] {
				x.r.UnsetI32(idx)
			} else {
				x.r.SetI32(idx)
			}
		}
		if i, ok := sameAsModel(b, m); !ok {
			return res.Failf("Bit1024."+x.name+"/aliases-operand", "setting/clearing members of the result of %s changed the receiver (bit %d)", x.name, i)
		}
		if xi >= 4 { // the self-argument results: the receiver was the argument
			continue
		}
		if i, ok := sameAsModel(o, om); !ok {
			return res.Failf("Bit1024."+x.name+"/aliases-operand", "setting/clearing members of the result of %s changed the argument (bit %d)", x.name, i)
		}
	}
	// the operands must not have been modified by the algebra
	if _, ok := sameAsModel(b, m); !ok {
		return res.Failf("Bit1024.algebra-mutates", "receiver changed by And/Or/Reverse/OrThenReverse/Equal")
	}
	if _, ok := sameAsModel(o, om); !ok {
		return res.Failf("Bit1024.algebra-mutates", "argument changed by And/Or/Reverse/OrThenReverse/Equal")
	}
	var pcs []int
	for i := 0; i < 16; i++ {
		pcs = append(pcs, bits.OnesCount64(uint64(b[i])))
	}
	for _, thr := range []int32{c.Thr, 9} {
		bitmap1024.VerifSetSparseMagic(thr)
		ctx := fmt.Sprintf("thr=%d", thr)
		for si, sp := range specs1024(b) {
			if skipForBigPos(c.Pos, si, c.Slack+len(mem)+int(c.Thr), 8) {
				continue
			}
			checkIter(res, sp, mem, c.Pos, c.Slack, c.Add, c.N, ctx)
			if c.NHuge > 0 {
				checkIter(res, sp, mem, c.Pos, c.Slack, c.Add, c.NHuge, ctx)
			}
		}
		if c.N >= 0 {
			// a list handed out belongs to the caller: it reads the same after the later calls (of this bitmap and of its
			// complement, which has other members)
			var kl keptLists
			checkGetN(res, "Bit1024.GetNAsI64", false, mem, c.N, keep(&kl, "Bit1024.GetNAsI64", b.GetNAsI64(c.N)), ctx)
			checkGetN(res, "Bit1024.RGetNAsI64", true, mem, c.N, keep(&kl, "Bit1024.RGetNAsI64", b.RGetNAsI64(c.N)), ctx)
			checkGetN(res, "Bit1024.GetNAsI32", false, mem, c.N, keep(&kl, "Bit1024.GetNAsI32", b.GetNAsI32(c.N)), ctx)
			checkGetN(res, "Bit1024.RGetNAsI32", true, mem, c.N, keep(&kl, "Bit1024.RGetNAsI32", b.RGetNAsI32(c.N)), ctx)
			checkGetN(res, "Bit1024.GetNAsI16", false, mem, c.N, keep(&kl, "Bit1024.GetNAsI16", b.GetNAsI16(c.N)), ctx)
			checkGetN(res, "Bit1024.RGetNAsI16", true, mem, c.N, keep(&kl, "Bit1024.RGetNAsI16", b.RGetNAsI16(c.N)), ctx)
			if thr == c.Thr {
				// one width (chosen by the case's own numbers) gets the repeated call and the further rounds
				width := (c.Slack + len(mem) + c.Pos + len(c.Ops)) % 3
				switch width {
				case 0:
					twice(res, &kl, "Bit1024.GetNAsI64", false, mem, c.N, b.GetNAsI64, ctx)
					twice(res, &kl, "Bit1024.RGetNAsI64", true, mem, c.N, b.RGetNAsI64, ctx)
				case 1:
					twice(res, &kl, "Bit1024.GetNAsI32", false, mem, c.N, b.GetNAsI32, ctx)
					twice(res, &kl, "Bit1024.RGetNAsI32", true, mem, c.N, b.RGetNAsI32, ctx)
				default:
					twice(res, &kl, "Bit1024.GetNAsI16", false, mem, c.N, b.GetNAsI16, ctx)
					twice(res, &kl, "Bit1024.RGetNAsI16", true, mem, c.N, b.RGetNAsI16, ctx)
				}
				// the same calls on the complement (no member in common), then further rounds on it and on the other operand
				cb := b.Reverse()
				_, _, _ = cb.GetNAsI64(c.N), cb.RGetNAsI64(c.N), cb.GetNAsI32(c.N)
				_, _, _ = cb.RGetNAsI32(c.N), cb.GetNAsI16(c.N), cb.RGetNAsI16(c.N)
				for r, rounds := 1, laterRounds(c.Later, c.N); r <= rounds && res.Fail == nil; r++ {
					x := cb
					if r%3 == 2 {
						x = o
					}
					switch width {
					case 0:
						_, _ = x.GetNAsI64(c.N), x.RGetNAsI64(c.N)
					case 1:
						_, _ = x.GetNAsI32(c.N), x.RGetNAsI32(c.N)
					default:
						_, _ = x.GetNAsI16(c.N), x.RGetNAsI16(c.N)
					}
				}
				kl.check(res, ctx)
			}
		}
	}
	if _, ok := sameAsModel(b, m); !ok {
		return res.Failf("Bit1024.iter-mutates", "bitmap changed by iteration")
	}
	classify(res, c.N, len(mem), pcs, c.Thr)
	return res
}

func wordsOf(m *model1024) []uint64 {
	ws := make([]uint64, 16)
	for i, b := range m {
		if b {
			ws[i/64] |= 1 << uint(i%64)
		}
	}
	return ws
}

// ---------------------------------------------------------------------------

var Part64 = &vkit.Part[Case64]{
	Property: Property, Name: "bit64",
	Rule:  "rapid: 64-bit word from a mixture (0, all ones, single bit, popcount = threshold-1/0/+1, sparse, dense, random) x threshold x n (neg,0,1,Len-1,Len,Len+1,big) x pos x add x slack, plus a Set/Unset script; all 10 Iter*/RIter* and 8 GetN* of the 64-bit layer run at the drawn threshold and at 9 against a member list. GetN* lists are kept over 0-6 (one case in a hundred: 20-300) further rounds of calls on other words; for one width the caller writes over its list and repeats the identical call. Non-trivial: 0 < count < Len (cut in the middle) or popcount within +-1 of the threshold; distinct = distinct case JSON",
	Quick: 80000, Thorough: 150000,
	Gen: Gen64, Exec: Exec64,
}

var Part1024 = &vkit.Part[Case1024]{
	Property: Property, Name: "bit1024",
	Rule:  "rapid: two 1024-bit maps as 16 words from the same mixture (or empty/full/few words) + a Set/Unset script over in-range, negative, 1023/1024 and huge indices (int16 and int32 entry points) x threshold x n x pos x add x slack; Set/Unset, Len/NLen, And/Or/Reverse/OrThenReverse/Equal, all 8 Iter*/RIter* and 6 GetN* compared with a [1024]bool model at the drawn threshold and at 9. Len/NLen after every step of the script; the bitmap itself as the argument of And/Or/OrThenReverse/Equal; results and lists kept over 0-6 (one case in a hundred: 20-300) further rounds of the same calls on other bitmaps; for one width the caller writes over its list and repeats the identical call. Non-trivial: 0 < count < Len or some word's popcount within +-1 of the threshold; distinct = distinct case JSON",
	Quick: 32000, Thorough: 60000,
	Gen: Gen1024, Exec: Exec1024,
}
