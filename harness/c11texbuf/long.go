package c11texbuf

// part "long": the same statement, the same executor and oracle as part "differential" (Exec), on few and long
// histories of ONE instance with things the short histories do not contain:
//
//	kept strings   every string that went in (WriteString, NewBufferString; built on the heap, lengths also
//	               above 64 and above 1024) or came out (String) is kept with a private copy of its bytes
//	               and compared after EVERY later step (Exec does that for all parts; here histories are
//	               long and the operation after such a call is, with raised probability, one that
//	               changes the stored bytes in place: a write through the slice of Bytes or Next, ReWrite,
//	               Reset or Truncate and what is written next)
//	bystanders     two more live tex.Buffers from the same constructor call; "Side" operations write to them
//	               between the steps; they must hold what was written to them, and the buffer under test
//	               must not change by a write to a bystander
//	self writes    Write(b.Bytes()[lo:hi]): whole, prefix, suffix, middle, sized to just not fit the spare
//	               tail (reallocation while the argument lives in the old storage). Only while nothing was
//	               consumed since the construction / the last Reset: then no implementation can have
//	               consumed bytes to slide over, and bytes.Buffer (given a part of ITS OWN Bytes()) is
//	               the oracle independent of growth policy
//	big            (one case in 16, thorough one in 8; Case.Big lifts the executor's size guard to 4 MiB)
//	               single writes of 1 MiB - 3 MiB, growth in chunks of 64 KiB - 500 KB past 1, 2, 3 MiB,
//	               doubling by self writes up to 4 MiB, with String / Bytes / Next / Read / ReWrite / Truncate
//	               in between

import (
	"pgregory.net/rapid"

	"verifharness/vkit"
)

var longTable = func() []string {
	w := []struct {
		k string
		n int
	}{
		{"Write", 9}, {"WriteString", 10}, {"WriteSelf", 8}, {"String", 9}, {"Bytes", 7}, {"Next", 5}, {"Read", 4},
		{"ReadByte", 1}, {"ReadRune", 2}, {"UnreadByte", 1}, {"UnreadRune", 1}, {"ReWrite", 6}, {"Reset", 3},
		{"Truncate", 4}, {"Grow", 2}, {"Side", 10}, {"WriteByte", 1}, {"WriteRune", 1}, {"ReadFrom", 1}, {"WriteTo", 1}, {"Len", 1},
	}
	var t []string
	for _, e := range w {
		for i := 0; i < e.n; i++ {
			t = append(t, e.k)
		}
	}
	return t
}()

var (
	longSizes = []int{65, 66, 100, 128, 200, 500, 1000, 1023, 1024, 1025, 1026, 1500, 2000, 3000, 5000}
	bigSizes  = []int{1<<20 - 1, 1 << 20, 1<<20 + 1, 1200000, 1<<20 + 1<<19, 2<<20 - 1, 2 << 20, 2<<20 + 1, 2500000, 3 << 20}
	bigChunks = []int{65536, 100000, 131073, 262144, 500000}
	// the contents of a history that is not big are kept below about this length
	longKeep = 24 << 10
)

const maxLongOps = 500

// changers alter stored bytes in place (or make the next write do so)
var changers = []string{"Bytes", "Bytes", "ReWrite", "ReWrite", "Next", "Reset", "Truncate", "WriteSelf", "Write"}

func (g *genState) genLongOp(t *rapid.T, i int, afterString bool) Op {
	g.aim, g.plan = -1, ""
	k := rapid.SampledFrom(longTable).Draw(t, "lop")
	roll := rapid.IntRange(0, 99).Draw(t, "lroll")
	l := g.ref.Len()
	long := false
	switch {
	case i == 0 && l == 0 && roll < 60:
		// the first storage of the buffer comes from a long string
		k, long = "WriteString", true
	case l > longKeep && roll < 50:
		k = rapid.SampledFrom([]string{"Reset", "Truncate", "Read", "Next"}).Draw(t, "shrink")
		if k == "Read" || k == "Next" {
			g.aim = l - rapid.IntRange(0, 200).Draw(t, "shrinkkeep")
		}
	case afterString && roll < 45:
		k = rapid.SampledFrom(changers).Draw(t, "changer")
	case k == "WriteSelf" && !g.d.clean && roll < 60:
		k = "Reset" // self writes are issued on buffers of which nothing was consumed
	}
	op := Op{K: k}
	switch k {
	case "WriteSelf":
		tail := g.d.sh.cap - (g.d.sh.off + l)
		switch rapid.IntRange(0, 5).Draw(t, "selfkind") {
		case 0, 1: // whole
			op.N, op.L = 0, l
		case 2: // prefix
			op.L = pickInt(t, "selflen", []int{1, l / 2, l - 1, tail, tail + 1, 64, 65}, 0, l)
		case 3: // suffix
			op.L = pickInt(t, "selflen", []int{1, l / 2, l - 1, tail, tail + 1, 64, 65}, 0, l)
			op.N = l - op.L
		case 4: // middle
			op.N = rapid.IntRange(0, l).Draw(t, "selfpos")
			op.L = rapid.IntRange(0, l-op.N).Draw(t, "selflen2")
		default: // the smallest that does not fit the spare tail
			op.L = min(l, max(tail+1, 0))
			if rapid.Bool().Draw(t, "selfend") {
				op.N = l - op.L
			}
		}
	case "Side":
		op.N = rapid.IntRange(0, 1).Draw(t, "side")
		op.P, op.S = genPattern(t)
		op.L = rapid.SampledFrom([]int{0, 1, 3, 8, 20, 40, 64, 65, 100}).Draw(t, "sidelen")
	case "Write", "WriteString":
		g.fill(t, &op)
		if long || rapid.IntRange(0, 9).Draw(t, "longlen") < 4 {
			op.L = rapid.SampledFrom(longSizes).Draw(t, "wlong")
		}
	case "Bytes":
		op.X = rapid.SampledFrom([]uint8{0, 0xff, 0x01, 0x80, 0x20, 0x55}).Draw(t, "bytesscribble")
	default:
		g.fill(t, &op)
	}
	return op
}

func longCtor(t *rapid.T) Ctor {
	c := genCtor(t)
	if c.Kind == "nil" {
		c = Ctor{Kind: "zero"}
	}
	return c
}

// GenLong draws a long history (or, rarely, a big one) by folding over the reference like Gen.
func GenLong(t *rapid.T) Case {
	odds := 16
	if vkit.Tier() == "thorough" {
		odds = 8
	}
	if rapid.IntRange(0, odds-1).Draw(t, "big") == odds/2 { // not an end of the range: rapid prefers those
		return genBig(t)
	}
	c := Case{Ctor: longCtor(t), Side: 2}
	ref, _, _, _ := construct(&c.Ctor, false)
	g := &genState{ref: ref, d: newDriver(&c, -1)}
	// a fixed number of batches of 1-40 operations (rapid's slice lengths average min+5, here about 6): 60-400
	// operations, and a failing history still shrinks to a few (the first entry of the list, batches of one)
	nb := rapid.SampledFrom([]int{2, 10, 20, 35, 35, 50, 50, 70}).Draw(t, "batches")
	i, afterString := 0, c.Ctor.Kind == "string"
	opGen := rapid.Custom(func(t *rapid.T) Op {
		op := g.genLongOp(t, i, afterString)
		g.advance(&op)
		i++
		if op.K != "Side" && op.K != "Len" {
			afterString = op.K == "String" || op.K == "WriteString"
		}
		return op
	})
	for _, b := range rapid.SliceOfN(rapid.SliceOfN(opGen, 1, 40), nb, nb).Draw(t, "ops") {
		c.Ops = append(c.Ops, b...)
	}
	if len(c.Ops) > maxLongOps {
		c.Ops = c.Ops[:maxLongOps]
	}
	return c
}

func genBig(t *rapid.T) Case {
	c := Case{Ctor: longCtor(t), Side: 1, Big: true}
	ref, _, _, _ := construct(&c.Ctor, false)
	g := &genState{ref: ref, d: newDriver(&c, -1)}
	emit := func(op Op) {
		g.advance(&op)
		c.Ops = append(c.Ops, op)
	}
	write := func(l int) {
		op := Op{K: rapid.SampledFrom([]string{"Write", "Write", "WriteString"}).Draw(t, "bigwrite"), L: l}
		op.P, op.S = genPattern(t)
		emit(op)
	}
	// light: an operation in between that does not consume (so that self writes stay admitted) if quiet is set
	follow := func(quiet bool) {
		l := g.ref.Len()
		kinds := []string{"String", "Bytes", "Bytes", "ReWrite", "Side", "Len", "WriteByte"}
		if !quiet {
			kinds = append(kinds, "Next", "Next", "Read", "Read", "ReadByte", "UnreadByte", "Truncate", "Write", "WriteSelf", "Reset", "Grow")
		}
		op := Op{K: rapid.SampledFrom(kinds).Draw(t, "bigfollow")}
		g.aim, g.plan = -1, ""
		switch op.K {
		case "Bytes":
			op.X = rapid.SampledFrom([]uint8{0xff, 0x01, 0x80}).Draw(t, "bytesscribble")
		case "Next":
			op.N = pickInt(t, "bignext", []int{1, 100, 65536, l / 2, l - 1, l}, 0, l)
			op.X = rapid.SampledFrom([]uint8{0, 0xff, 0x01}).Draw(t, "nextscribble")
		case "Read":
			op.L = pickInt(t, "bigread", []int{1, 100, 65536, 1 << 20, l / 2, l - 1, l, l + 1}, 0, maxBig)
		case "Truncate":
			op.N = pickInt(t, "bigtrunc", []int{1, l / 2, l - 1, l, 1 << 20, 1<<20 + 1}, 0, l)
		case "Write":
			op.P, op.S = genPattern(t)
			op.L = rapid.SampledFrom([]int{1, 1000, 65536, 1<<20 + 1}).Draw(t, "bigwlen")
		case "WriteSelf":
			op.L = pickInt(t, "bigself", []int{1, 65536, l / 2, l}, 0, l)
			if rapid.Bool().Draw(t, "selfend") {
				op.N = l - op.L
			}
		case "ReWrite":
			op.P, op.S = genPattern(t)
			off := g.d.sh.off
			op.L = pickInt(t, "bigrwlen", []int{1, 4, 100, 65536, l}, 0, l)
			op.N = off + pickInt(t, "bigrwpos", []int{0, l / 2, l - op.L}, 0, l-op.L)
		case "Side":
			op.P, op.S = genPattern(t)
			op.L = rapid.SampledFrom([]int{1, 8, 64, 100}).Draw(t, "sidelen")
		case "Grow":
			op.N = rapid.SampledFrom([]int{1, 65536, 1 << 20, 1<<20 + 1, 2 << 20}).Draw(t, "biggrow")
		case "WriteByte":
			op.S = rapid.Byte().Draw(t, "byte")
		}
		emit(op)
	}
	for i, n := 0, rapid.IntRange(0, 3).Draw(t, "prelude"); i < n; i++ {
		emit(g.genLongOp(t, i, false))
	}
	switch rapid.SampledFrom([]string{"single", "single", "accumulate", "accumulate", "double"}).Draw(t, "bigshape") {
	case "single":
		write(rapid.SampledFrom(bigSizes).Draw(t, "bigsize"))
		for i, n := 0, rapid.IntRange(2, 8).Draw(t, "bigtail"); i < n; i++ {
			follow(false)
		}
	case "accumulate":
		chunk := rapid.SampledFrom(bigChunks).Draw(t, "chunk")
		target := rapid.SampledFrom([]int{1<<20 + 5000, 2<<20 + 5000, 3 << 20}).Draw(t, "target")
		for len(c.Ops) < 70 && g.ref.Len() < target {
			write(chunk)
			if rapid.IntRange(0, 2).Draw(t, "between") == 0 {
				follow(false)
			}
		}
		follow(false)
	default: // double
		write(rapid.SampledFrom([]int{40000, 65536, 70000, 100000}).Draw(t, "first"))
		for i := 0; i < 7 && g.ref.Len() <= maxBig/2; i++ {
			emit(Op{K: "WriteSelf", N: 0, L: maxBig})
			if rapid.IntRange(0, 2).Draw(t, "between") == 0 {
				follow(true)
			}
		}
		follow(false)
	}
	return c
}

func hasClass(res *vkit.Result, c string) bool {
	for _, x := range res.Classes {
		if x == c {
			return true
		}
	}
	return false
}

// ExecLong is Exec; only what counts as non-trivial differs.
func ExecLong(c Case) *vkit.Result {
	res := Exec(c)
	if res.Fail != nil {
		return res
	}
	if c.Big {
		res.Class("long:big")
		res.NonTrivial = hasClass(res, "len:>1MiB")
		return res
	}
	res.Class("long:kept")
	res.NonTrivial = len(c.Ops)-len(res.Skipped) >= 40 && hasClass(res, "side:written") &&
		(hasClass(res, "kept:String-result") || hasClass(res, "kept:WriteString-argument"))
	return res
}

var PartLong = &vkit.Part[Case]{
	Property: Property, Name: "long",
	Rule:  "rapid: executor and oracle of part differential on few long histories of one instance: any constructor, two bystander tex.Buffers from the same constructor call, 2-70 batches of 1-40 operations (some 10 to 500, mostly 60-300) out of the differential set plus Side (a write of 0-100 bytes to a bystander, which must then and at the end hold exactly what was written to it, while the buffer under test must not change) and WriteSelf (Write of a part of the buffer's own Bytes(): whole, prefix, suffix, middle, one byte more than the spare tail; issued while nothing was consumed since construction / Reset / Truncate(0), so that no growth policy can slide the argument away; bytes.Buffer is given the same part of its own Bytes()); Write / WriteString lengths also 65-5000; String 9%, WriteString 10% (a zero-value buffer mostly starts with a WriteString of 65-5000 bytes), and after such a call 45% an operation that changes stored bytes in place (write through Bytes / Next, ReWrite, Reset, Truncate, a write). Every string handed to WriteString / NewBufferString (heap strings of the call's own) or returned by String is kept with a private copy of its bytes and compared after every later step (the latest 16; the constructor's always). One case in 16 (thorough: 8) is big (size guard 4 MiB instead of 64 KiB): a single Write / WriteString of 2^20-1 .. 3*2^20 bytes followed by 2-8 operations (String, Bytes and Next written through, Read, Truncate, ReWrite, Grow up to 2 MiB, more writes), or growth in chunks of 64 KiB - 500 KB past 1 / 2 / 3 MiB with such operations in between, or 40000-100000 bytes doubled by whole self writes up to 4 MiB. Non-trivial: >= 40 executed operations with a kept string and a bystander write; big: the contents passed 1 MiB; distinct = distinct case JSON",
	Quick: 300, Thorough: 1500,
	Gen: GenLong, Exec: ExecLong,
}
