package c11texbuf

import (
	"testing"

	"verifharness/vkit"
)

func TestMain(m *testing.M) { vkit.Main(m) }

func TestProp_Differential(t *testing.T) { Part.Run(t) }

func TestProp_Long(t *testing.T) { PartLong.Run(t) }

func TestReplay(t *testing.T) {
	Part.Replay(t, 1)
	PartLong.Replay(t, 1)
}

// FuzzDifferential hands the generator's bit stream to the native,
// coverage-guided fuzzer (thorough tier): the same generator, executor and
// oracle as TestProp_Differential, but the search is steered by coverage of
// tex/buffer.go instead of by the seed.
func FuzzDifferential(f *testing.F) {
	if vkit.SeedCorpus() {
		f.Add([]byte{})
		f.Add([]byte{0x00, 0x01, 0x02, 0x03, 0x04, 0x05, 0x06, 0x07, 0x08, 0x09, 0x0a, 0x0b, 0x0c, 0x0d, 0x0e, 0x0f})
		f.Add([]byte("tex.Buffer is a hand-modified copy of bytes.Buffer: Write Read ReadRune UnreadRune Grow Next Truncate ReadFrom WriteTo"))
		seed := make([]byte, 512)
		for i := range seed {
			seed[i] = byte(i*37 + i/7)
		}
		f.Add(seed)
		ff := make([]byte, 256)
		for i := range ff {
			ff[i] = 0xff
		}
		f.Add(ff)
	}
	Part.FuzzRapid(f)
}
