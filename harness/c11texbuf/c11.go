// Package c11texbuf decides property C11: tex.Buffer is observationally
// identical to the standard bytes.Buffer (of the toolchain the harness is built
// with), ReWrite overwrites exactly the addressed bytes and NewSizedBuffer
// yields an empty buffer of at least the requested capacity.
//
// The check is a stateful, step-by-step differential: one generated history of
// buffer operations is applied to a bytes.Buffer and to a tex.Buffer through
// the same code path (apply), and after every step the results, the error
// (nil-ness; identity for io.EOF, io.ErrShortWrite and the scripted errors of
// the harness's own reader and writer), the panic (or its absence, equal string
// values, ErrTooLarge on both sides or on neither) and the observable state
// (Len, Bytes) of both are compared. The harness also writes through the slices
// that Bytes and Next return (documented to alias the contents) and scribbles
// over every slice it handed to Write after the call returned. Strings that
// went into or came out of tex.Buffer are kept and compared after every later
// step (keeper); further tex.Buffers from the same constructor call stand by
// and must keep their own contents (bystander). Part "long" (long.go) runs the
// same executor on few long or multi-megabyte histories.
package c11texbuf

import (
	"bytes"
	"errors"
	"fmt"
	"io"
	"math"
	"runtime"
	"unicode/utf8"

	"github.com/pinealctx/neptune/tex"
	"pgregory.net/rapid"

	"verifharness/vkit"
)

const Property = "C11"

// ---------------------------------------------------------------------------
// case = data

// Case is one history: a constructor and a list of operations with concrete
// arguments (payloads are given as a short pattern tiled to a length, so that
// kilobyte payloads stay readable in a replay file).
type Case struct {
	Ctor Ctor `json:"ctor"`
	Ops  []Op `json:"ops"`
	// Side: number of bystander tex.Buffers built by the same constructor call (at least one is always built);
	// the "Side" operations write to them. Big: the executor admits payloads, reads and Grow up to maxBig
	// instead of maxPayload (part "long").
	Side int  `json:"side,omitempty"`
	Big  bool `json:"big,omitempty"`
}

// Ctor says how both buffers are made.
//
//	zero   : var b Buffer
//	nil    : a nil *Buffer; only String is defined on it ("<nil>"), other operations are skipped
//	bytes  : NewBuffer(payload with Spare bytes of spare capacity); an empty payload without spare is NewBuffer(nil)
//	string : NewBufferString(payload)
//	sized  : tex.NewSizedBuffer(Size)  vs  a bytes.Buffer after Grow(Size)
type Ctor struct {
	Kind  string `json:"kind"`
	P     []byte `json:"p,omitempty"`
	L     int    `json:"l,omitempty"`
	S     uint8  `json:"s,omitempty"`
	Spare int    `json:"spare,omitempty"`
	Size  int    `json:"size,omitempty"`
}

// Op is one call. K is the method name. Which fields are used:
//
//	Write, WriteString : payload(P,L,S)
//	WriteByte          : S
//	WriteRune          : rune(int32(N))
//	Read               : len(p) = L
//	Next, Truncate, Grow : N
//	Next, Bytes        : X != 0: every byte of the returned slice is XORed with X right after the call
//	ReadFrom           : R (scripted reader)
//	WriteTo            : W (scripted writer)
//	ReWrite            : pos N, payload(P,L,S)
//	WriteSelf          : Write(b.Bytes()[lo:hi]) with lo = min(N, Len), hi = min(lo+L, Len): the argument is a
//	                     part of the buffer's own unread bytes (each buffer is given its own)
//	Side               : payload(P,L,S) is written to bystander N (mod their number), not to the buffers under test
//	ReadByte, ReadRune, UnreadByte, UnreadRune, Reset, Len, Bytes, String : none
type Op struct {
	K string   `json:"k"`
	N int      `json:"n,omitempty"`
	L int      `json:"l,omitempty"`
	S uint8    `json:"s,omitempty"`
	X uint8    `json:"x,omitempty"`
	P []byte   `json:"p,omitempty"`
	R []RStep  `json:"r,omitempty"`
	W *WScript `json:"w,omitempty"`
}

// RStep is one step of the scripted reader handed to ReadFrom: it delivers
// payload(P,L,S) (over several Read calls if the destination is shorter) and
// then E decides what accompanies the last bytes of the step.
type RStep struct {
	L int    `json:"l,omitempty"`
	S uint8  `json:"s,omitempty"`
	P []byte `json:"p,omitempty"`
	E int    `json:"e,omitempty"` // 0 nil, 1 io.EOF together with the data, 2 a non-EOF error together with the data, 3 the Read returns the count -1, 4 an error that wraps io.EOF together with the data (an error, not the end of the stream)
}

const (
	rNil = iota
	rEOF
	rErr
	rNeg
	rWrapEOF
)

// WScript is the scripted writer handed to WriteTo.
type WScript struct {
	Mode int `json:"mode"` // 0 accepts everything; 1 accepts min(N,len) bytes, nil error (short write); 2 accepts min(N,len) bytes and returns an error; 3 accepts everything but reports len+1+N (over-count)
	N    int `json:"n,omitempty"`
}

const (
	wFull = iota
	wShort
	wErr
	wOver
)

const (
	maxPayload  = 1 << 16 // executor guard: larger payloads / read sizes are skipped
	maxBig      = 4 << 20 // the same guard in a Case with Big set
	maxSide     = 1 << 12 // a bystander is not written beyond this length
	maxGrowSane = 1 << 16 // Grow(n) is executed for n <= maxGrowSane or n >= minGrowHuge (fails at once, allocates nothing)
	minGrowHuge = 1 << 62
	sentinel    = 0xA5
	scratch     = 0x5C // what the scripted reader leaves in the part of its destination it did not fill
)

var (
	errScripted = errors.New("scripted failure")
	// bytes.Buffer.ReadFrom ends the stream on err == io.EOF only: this one is returned to the caller
	errWrapsEOF = fmt.Errorf("scripted failure wrapping %w", io.EOF)
)

// fixedErr reports whether bytes.Buffer fixes the identity of e: the sentinels
// it returns itself and the values of the scripted reader / writer, which it
// passes through unchanged. (The errors of UnreadByte / UnreadRune are private
// values of each package: only their presence is compared.)
func fixedErr(e error) bool {
	return e == io.EOF || e == io.ErrShortWrite || e == errScripted || e == errWrapsEOF
}

// payload builds the bytes denoted by (P, L, S): P tiled to length L, or, for
// an empty P, the counter S, S+1, S+2, … (period 256, so a shift by any small
// number of bytes is visible).
func payload(p []byte, l int, s uint8) []byte {
	if l <= 0 {
		return []byte{}
	}
	b := make([]byte, l)
	if len(p) == 0 {
		for i := range b {
			b[i] = s + byte(i)
		}
		return b
	}
	for i := range b {
		b[i] = p[i%len(p)]
	}
	return b
}

// ---------------------------------------------------------------------------
// the two implementations behind one interface, and one code path to call them

type buffer interface {
	Write(p []byte) (int, error)
	WriteString(s string) (int, error)
	WriteByte(c byte) error
	WriteRune(r rune) (int, error)
	Read(p []byte) (int, error)
	ReadByte() (byte, error)
	ReadRune() (rune, int, error)
	UnreadByte() error
	UnreadRune() error
	Next(n int) []byte
	Truncate(n int)
	Reset()
	Grow(n int)
	ReadFrom(r io.Reader) (int64, error)
	WriteTo(w io.Writer) (int64, error)
	Len() int
	Bytes() []byte
	String() string
	Cap() int
}

var (
	_ buffer = (*bytes.Buffer)(nil)
	_ buffer = (*tex.Buffer)(nil)
)

type scriptReader struct {
	steps   []RStep
	i       int
	cur     []byte
	loaded  bool
	calls   int
	minLen  int // smallest len(p) seen, -1 before the first call
	onRead  func()
	runaway bool
}

func (r *scriptReader) Read(p []byte) (int, error) {
	if r.onRead != nil {
		r.onRead()
	}
	r.calls++
	if r.minLen < 0 || len(p) < r.minLen {
		r.minLen = len(p)
	}
	if r.calls > 4096 { // a buffer that keeps offering no room must not hang the harness
		r.runaway = true
		return 0, errScripted
	}
	if r.i >= len(r.steps) {
		return 0, io.EOF
	}
	st := r.steps[r.i]
	if st.E == rNeg {
		r.i++
		r.loaded = false
		return -1, nil
	}
	if !r.loaded {
		r.cur = payload(st.P, st.L, st.S)
		r.loaded = true
	}
	n := copy(p, r.cur)
	r.cur = r.cur[n:]
	// io.Reader: "even if Read returns n < len(p), it may use all of p as scratch space"
	for i := n; i < len(p); i++ {
		p[i] = scratch
	}
	if len(r.cur) > 0 {
		return n, nil
	}
	r.i++
	r.loaded = false
	switch st.E {
	case rEOF:
		return n, io.EOF
	case rErr:
		return n, errScripted
	case rWrapEOF:
		return n, errWrapsEOF
	}
	return n, nil
}

type scriptWriter struct {
	w     WScript
	got   []byte
	calls int
}

func (w *scriptWriter) Write(p []byte) (int, error) {
	w.calls++
	k := len(p)
	switch w.w.Mode {
	case wShort, wErr:
		if w.w.N < k {
			k = w.w.N
		}
		if k < 0 {
			k = 0
		}
	}
	w.got = append(w.got, p[:k]...)
	switch w.w.Mode {
	case wErr:
		return k, errScripted
	case wOver:
		over := w.w.N
		if over < 0 || over > 1<<20 {
			over = 0
		}
		return len(p) + 1 + over, nil
	}
	return k, nil
}

// outcome is everything one call lets its caller observe.
type outcome struct {
	panicked bool
	pv       any
	nums     []int64 // numeric results in declaration order
	hasData  bool
	data     []byte // byte-valued result (destination of Read incl. the untouched tail, Next, Bytes, String)
	str      string // the string itself: the result of String, the argument of WriteString
	hasErr   bool
	err      error
	sink     []byte // what the scripted writer was given
	wcalls   int
	rcalls   int
	minRead  int // smallest destination the scripted reader was offered (-1: never called)
	runaway  bool
}

// apply performs op on b. It is the only place where buffer methods are
// called, for both implementations.
func apply(b buffer, op *Op, onRead func()) (o outcome) {
	o.minRead = -1
	var sr *scriptReader
	var sw *scriptWriter
	defer func() {
		if r := recover(); r != nil {
			o = outcome{panicked: true, pv: r, minRead: -1}
		}
		if sr != nil {
			o.rcalls, o.minRead, o.runaway = sr.calls, sr.minLen, sr.runaway
		}
		if sw != nil {
			o.sink, o.wcalls = sw.got, sw.calls
		}
	}()
	switch op.K {
	case "Write":
		p := payload(op.P, op.L, op.S)
		n, err := b.Write(p)
		o.nums, o.hasErr, o.err = []int64{int64(n)}, true, err
		// Write must have copied: the caller's slice is the caller's again
		for i := range p {
			p[i] = ^p[i]
		}
	case "WriteString":
		s := heapString(payload(op.P, op.L, op.S))
		o.str = s
		n, err := b.WriteString(s)
		o.nums, o.hasErr, o.err = []int64{int64(n)}, true, err
	case "WriteSelf":
		d := b.Bytes()
		lo, hi := selfRange(op, len(d))
		n, err := b.Write(d[lo:hi])
		o.nums, o.hasErr, o.err = []int64{int64(n)}, true, err
	case "WriteByte":
		err := b.WriteByte(op.S)
		o.hasErr, o.err = true, err
	case "WriteRune":
		n, err := b.WriteRune(rune(int32(op.N)))
		o.nums, o.hasErr, o.err = []int64{int64(n)}, true, err
	case "Read":
		p := make([]byte, op.L)
		for i := range p {
			p[i] = sentinel
		}
		n, err := b.Read(p)
		o.nums, o.hasData, o.data, o.hasErr, o.err = []int64{int64(n)}, true, p, true, err
	case "ReadByte":
		c, err := b.ReadByte()
		o.nums, o.hasErr, o.err = []int64{int64(c)}, true, err
	case "ReadRune":
		r, size, err := b.ReadRune()
		o.nums, o.hasErr, o.err = []int64{int64(r), int64(size)}, true, err
	case "UnreadByte":
		o.hasErr, o.err = true, b.UnreadByte()
	case "UnreadRune":
		o.hasErr, o.err = true, b.UnreadRune()
	case "Next":
		d := b.Next(op.N)
		o.hasData, o.data = true, append([]byte{}, d...)
		scribble(d, op.X) // the slice is valid until the next read or write call
	case "Truncate":
		b.Truncate(op.N)
	case "Reset":
		b.Reset()
	case "Grow":
		b.Grow(op.N)
	case "ReadFrom":
		sr = &scriptReader{steps: op.R, minLen: -1, onRead: onRead}
		n, err := b.ReadFrom(sr)
		o.nums, o.hasErr, o.err = []int64{n}, true, err
	case "WriteTo":
		sw = &scriptWriter{}
		if op.W != nil {
			sw.w = *op.W
		}
		n, err := b.WriteTo(sw)
		o.nums, o.hasErr, o.err = []int64{n}, true, err
	case "Len":
		o.nums = []int64{int64(b.Len())}
	case "Bytes":
		d := b.Bytes()
		o.hasData, o.data = true, append([]byte{}, d...)
		scribble(d, op.X) // "the slice aliases the buffer content at least until the next buffer modification"
	case "String":
		o.str = b.String()
		o.hasData, o.data = true, []byte(o.str)
	}
	return o
}

// heapString builds a string whose bytes are in memory of its own on the heap. (The Go runtime serves
// one-byte strings from a static table that it also uses for other purposes: a string of two bytes is built
// and cut, so that a buffer which wrongly adopts the memory of a string it was handed - and then lets the
// harness write through Bytes() into it - changes the one string that the harness watches and nothing else.)
func heapString(b []byte) string {
	if len(b) == 0 {
		return ""
	}
	x := make([]byte, len(b)+1)
	copy(x, b)
	return string(x)[:len(b)]
}

// selfRange is the part of `length` unread bytes that WriteSelf hands to Write.
func selfRange(op *Op, length int) (lo, hi int) {
	lo = min(max(op.N, 0), length)
	hi = min(lo+max(op.L, 0), length)
	return lo, hi
}

// scribble writes through a slice that a buffer returned: every byte changes.
func scribble(d []byte, x uint8) {
	if x == 0 {
		return
	}
	for i := range d {
		d[i] ^= x
	}
}

// growth request of a write-like op as documented for bytes.Buffer (-1: none)
func growRequest(op *Op) int {
	switch op.K {
	case "Write", "WriteString":
		if op.L < 0 {
			return 0
		}
		return op.L
	case "WriteByte":
		return 1
	case "WriteRune":
		if uint32(int32(op.N)) < utf8.RuneSelf {
			return 1
		}
		return utf8.UTFMax
	case "Grow":
		return op.N
	}
	return -1
}

// ---------------------------------------------------------------------------
// what the executor (and the generator, on the reference only) keeps track of

// shape is what can be known from outside about the storage of a buffer that
// follows the documented growth policy: its capacity (measured with Cap() in
// the executor, predicted in the generator) and the number of consumed bytes
// still in front of the unread part (off). It produces class labels and
// generator aims; off additionally tells the ReWrite oracle which unread bytes
// a storage position addresses. Whenever the measurement contradicts the
// bookkeeping, unknown is set and ReWrite is skipped instead of judged until
// the layout is certain again (Reset, Truncate(0), or a measured reallocation).
type shape struct {
	cap, off int
	nilBuf   bool
	unknown  bool
}

// grow classifies a request for n more bytes on a buffer with `length` unread
// bytes. measured is Cap() after the call, or -1 to predict it.
//
// direct says that the request comes from Grow or ReadFrom: those recover the
// space of an emptied buffer before anything else, whereas the Write* methods
// first try to reslice into the spare tail.
func (s *shape) grow(length, n, measured int, direct bool) (labels []string) {
	if length == 0 && s.off != 0 && (direct || n > s.cap-s.off) {
		s.off = 0
		labels = append(labels, "grow:reset-empty")
	}
	path, newCap := "realloc", 2*s.cap+n
	switch {
	case n <= s.cap-(s.off+length):
		path, newCap = "reslice", s.cap
	case s.nilBuf && n <= 64:
		path, newCap = "small", 64
	case n <= s.cap/2-length:
		path, newCap = "slide", s.cap
		if n == s.cap/2-length {
			labels = append(labels, "grow:slide-at-limit")
		}
	case n == s.cap/2-length+1:
		labels = append(labels, "grow:realloc-just-past-slide")
	}
	if measured >= 0 && measured != newCap {
		// the bookkeeping and the measurement disagree: trust the measurement
		labels = append(labels, "grow:unpredicted")
		switch {
		case measured != s.cap:
			path = "realloc"
		case path != "reslice":
			path = "slide"
			s.unknown = true // no new storage, yet not what the policy predicts: off is a guess
		}
		newCap = measured
	}
	if newCap != s.cap {
		s.unknown = false // new storage: the unread part starts at its beginning
	}
	if path != "reslice" {
		s.off = 0
	}
	if newCap > 0 {
		s.nilBuf = false
	}
	s.cap = newCap
	return append(labels, "grow:"+path)
}

// driver holds the admission rules of the executor. The generator runs the
// same driver over the reference alone, so that both agree on which
// operations are executed.
type driver struct {
	sh shape
	// growSince: a Grow was issued since the last call that sets or clears
	// unread-validity (any read, write, Next, Truncate, Reset, ReadFrom,
	// WriteTo). Observers, ReWrite and skipped operations leave it alone.
	growSince bool
	// last: model of the (at most UTFMax) last bytes the latest read (Read,
	// ReadByte, ReadRune, Next) consumed - the harness saw them - as they now are
	// in the storage, at positions off-len(last) .. off-1. Only these can be
	// re-exposed by an Unread*. A write through the slice that Next returned and a ReWrite into
	// the consumed prefix are applied to it. nil after any other call that sets
	// or clears unread-validity and after a successful Unread*.
	last []byte
	// prefixDirty: a ReWrite changed bytes of last. bytes.Buffer has no ReWrite,
	// so its storage still holds the old bytes there: when an Unread* re-exposes
	// them, the harness writes the model's bytes into the reference (through
	// Bytes(), documented to alias) before the states are compared.
	prefixDirty bool
	// clean: nothing was consumed since the construction or the last Reset / Truncate(0): no consumed bytes
	// are in front of the unread part on either side, whatever the growth policy, so no write can slide the
	// contents down. Only then is WriteSelf issued: a slide-down moves the bytes its argument aliases before
	// they are copied, and what bytes.Buffer then appends depends on its growth policy (when it slides).
	clean bool
	// limits of the executor (raised by Case.Big), number of bystanders
	maxLen, maxGrow, sides int
}

// settled is called by every operation that sets or clears unread-validity.
func (d *driver) settled() { d.growSince, d.prefixDirty, d.last = false, false, nil }

// rewrote records an executed ReWrite(op.N, p) and names its class.
func (d *driver) rewrote(op *Op, p []byte) string {
	off := d.sh.off
	if start := off - len(d.last); op.N < off && op.N+len(p) > start {
		for i := range p {
			if j := op.N + i - start; j >= 0 && j < len(d.last) {
				d.last[j] = p[i]
				d.prefixDirty = true
			}
		}
	}
	switch {
	case op.L == 0:
		return "rewrite:empty"
	case op.N+op.L <= off:
		return "rewrite:into-consumed-prefix"
	case op.N < off:
		return "rewrite:straddles-offset"
	case off > 0:
		return "rewrite:after-partial-read"
	}
	return "rewrite:at-offset-0"
}

// reexposed is called between a successful Unread* that put k bytes back and
// the comparison of the states: if a ReWrite changed those bytes while they
// were consumed, the reference (which could not take part in the ReWrite) is
// given the bytes of the model, so that the comparison judges tex.Buffer
// against the model of the consumed prefix.
func (d *driver) reexposed(ref buffer, k int) bool {
	if !d.prefixDirty || k <= 0 {
		return false
	}
	k = min(k, len(d.last))
	if front := ref.Bytes(); k <= len(front) {
		copy(front[:k], d.last[len(d.last)-k:])
	}
	return true
}

// rewriteModel applies ReWrite(pos, p) to a copy of the unread bytes of a
// buffer whose storage holds off consumed bytes in front of them: storage
// position pos+i is unread byte pos+i-off.
func rewriteModel(unread []byte, off, pos int, p []byte) {
	for i := range p {
		if j := pos + i - off; j >= 0 && j < len(unread) {
			unread[j] = p[i]
		}
	}
}

func newDriver(cs *Case, measuredCap int) *driver {
	c := &cs.Ctor
	d := &driver{clean: true, maxLen: maxPayload, maxGrow: maxGrowSane, sides: max(cs.Side, 1)}
	if cs.Big {
		d.maxLen, d.maxGrow = maxBig, maxBig
	}
	switch c.Kind {
	case "bytes":
		d.sh.cap = max(c.L, 0) + max(c.Spare, 0)
		d.sh.nilBuf = d.sh.cap == 0
	case "string":
		d.sh.cap = max(c.L, 0)
	case "sized":
		d.sh.cap = max(c.Size, 0)
	default:
		d.sh.nilBuf = true
	}
	if measuredCap >= 0 {
		d.sh.cap = measuredCap
	}
	return d
}

// admit returns the reason for not executing op, or "".
func (d *driver) admit(op *Op, length int) string {
	switch op.K {
	case "UnreadByte", "UnreadRune":
		if d.growSince {
			return op.K + " after Grow (excluded by the property)"
		}
	case "ReWrite":
		// positions index the storage: consumed bytes not yet slid away (off) come first
		if d.sh.unknown {
			return "ReWrite while the storage layout is not predicted"
		}
		if op.N < 0 || op.L < 0 || op.L > d.maxLen || op.N+op.L > d.sh.off+length {
			return "ReWrite beyond the storage"
		}
	case "Write", "WriteString", "Read":
		if op.L < 0 || op.L > d.maxLen {
			return op.K + " with an oversize or negative length"
		}
	case "WriteSelf":
		lo, hi := selfRange(op, length)
		if hi-lo > d.maxLen {
			return "WriteSelf with an oversize length"
		}
		if hi > lo && !d.clean {
			return "WriteSelf after bytes were consumed (a slide-down would move its argument: the result depends on the growth policy)"
		}
	case "Side":
		if op.L < 0 || op.L > maxSide {
			return "Side with an oversize or negative length"
		}
	case "Grow":
		if op.N > d.maxGrow && op.N < minGrowHuge {
			return "Grow of a size that would really be allocated"
		}
	case "ReadFrom":
		if len(op.R) > 16 {
			return "ReadFrom script too long"
		}
		for _, st := range op.R {
			if st.L < 0 || st.L > 1<<13 {
				return "ReadFrom step oversize"
			}
		}
	case "WriteByte", "WriteRune", "ReadByte", "ReadRune", "Next", "Truncate", "Reset", "WriteTo", "Len", "Bytes", "String":
	default:
		return "unknown operation"
	}
	return ""
}

// after records an executed op: lb/la are the unread lengths before and after,
// o the outcome on the buffer that is being tracked, measured its Cap() (or -1).
// before is Bytes() of the trusted reference taken before the call (the slice
// itself, not a copy: it is only read after calls that consumed from its
// front, which leave the storage where it is, and then shows what is in the
// storage now, including what was written through the slice Next returned).
func (d *driver) after(op *Op, lb, la int, o *outcome, measured int, before []byte) (labels []string) {
	s := &d.sh
	switch op.K {
	case "Read", "ReadByte", "ReadRune", "Next", "WriteTo":
		d.clean = false
	case "Reset":
		d.clean = true
	case "Truncate":
		if op.N == 0 {
			d.clean = true
		}
	}
	switch op.K {
	case "Read", "ReadByte", "ReadRune":
		d.settled()
		if lb == 0 {
			s.off = 0
		} else {
			s.off += lb - la
		}
		if k := lb - la; k > 0 && k <= len(before) {
			d.last = append([]byte{}, before[max(0, k-utf8.UTFMax):k]...) // no Unread* reaches further back
		}
	case "Next":
		d.settled()
		if !o.panicked {
			s.off += lb - la
			if k := lb - la; k > 0 && k <= len(before) {
				d.last = append([]byte{}, before[max(0, k-utf8.UTFMax):k]...)
			}
		}
	case "UnreadByte", "UnreadRune":
		if la > lb {
			d.last, d.prefixDirty = nil, false
		}
		s.off -= la - lb
		if s.off < 0 {
			s.off, s.unknown = 0, true
		}
	case "Reset":
		d.settled()
		s.off, s.unknown = 0, false
	case "Truncate":
		d.settled()
		if op.N == 0 {
			s.off, s.unknown = 0, false
		}
	case "WriteTo":
		d.settled()
		switch {
		case o.panicked:
		case lb == 0, la == 0 && o.err == nil:
			s.off = 0
		default:
			s.off += lb - la
		}
	case "Write", "WriteString", "WriteByte", "WriteRune", "WriteSelf":
		d.settled()
		n := growRequest(op)
		if op.K == "WriteSelf" {
			lo, hi := selfRange(op, lb)
			n = hi - lo
		}
		if n > 0 && !o.panicked {
			labels = s.grow(lb, n, measured, false)
		}
	case "Grow":
		d.growSince = true
		switch {
		case op.N >= 0 && !o.panicked:
			labels = s.grow(lb, op.N, measured, true)
		case op.N >= 0 && lb == 0:
			s.off = 0 // an emptied buffer is reset before the request is found too large
		}
	case "ReadFrom":
		d.settled() // its grow steps were recorded by the reader hook
	}
	if measured >= 0 {
		s.cap = measured
	}
	return labels
}

// ---------------------------------------------------------------------------
// generator

var patterns = [][]byte{
	nil, nil, nil, // counter payloads
	[]byte("a"), []byte("ab"), []byte("hello, world\n"),
	[]byte("é"), []byte("€"), []byte("😀"), []byte("aé€😀"),
	{0xff}, {0x80}, {0xc3}, {0xe2, 0x82}, {0xf0, 0x9f, 0x98},
	{0xed, 0xa0, 0x80}, {0xf4, 0x90, 0x80, 0x80}, {0xc0, 0x80}, {0},
	[]byte("a\xffb€"), []byte("€\x80"),
}

var fixedSizes = []int{0, 1, 2, 3, 4, 5, 7, 8, 15, 16, 31, 32, 33, 60, 63, 64, 65, 66, 100, 127, 128, 129, 200, 255, 256, 257, 300, 511, 512, 513, 600, 1000}

var runeChoices = []int{
	'a', 'Z', 0, 0x7f, // one byte
	0x80, 0xe9, 0x7ff, // two
	0x800, 0x20ac, 0xfffd, 0xffff, // three
	0x10000, 0x1f600, 0x10ffff, // four
	0xd800, 0xdbff, 0xdfff, // surrogates
	0x110000, math.MaxInt32, // beyond MaxRune
	-1, -2, -128, -129, -256, -65, math.MinInt32, -0x10000, // negative
}

var opTable = func() []string {
	w := []struct {
		k string
		n int
	}{
		{"Write", 10}, {"WriteString", 5}, {"WriteByte", 4}, {"WriteRune", 7},
		{"Read", 9}, {"ReadByte", 5}, {"ReadRune", 8}, {"UnreadByte", 6}, {"UnreadRune", 6},
		{"Next", 6}, {"Truncate", 3}, {"Reset", 2}, {"Grow", 6}, {"ReadFrom", 3}, {"WriteTo", 3},
		{"Len", 1}, {"Bytes", 1}, {"String", 1}, {"ReWrite", 3},
	}
	var t []string
	for _, e := range w {
		for i := 0; i < e.n; i++ {
			t = append(t, e.k)
		}
	}
	return t
}()

type genState struct {
	ref  *bytes.Buffer
	d    *driver
	hint string // what the previous op suggests: "read", "readrune", "grow", "unread", "fresh", "written", "slide"
	aim  int    // size the next op should use (-1: draw one)
	plan string // "slide": the op being generated is the consuming half of a slide-down set-up
}

func genPattern(t *rapid.T) ([]byte, uint8) {
	switch k := rapid.IntRange(0, 9).Draw(t, "patkind"); {
	case k == 0:
		return rapid.SliceOfN(rapid.Byte(), 1, 6).Draw(t, "patbytes"), 0
	case k <= 3:
		return nil, rapid.Byte().Draw(t, "salt")
	default:
		return rapid.SampledFrom(patterns).Draw(t, "pat"), rapid.Byte().Draw(t, "salt")
	}
}

func pickInt(t *rapid.T, label string, cands []int, lo, hi int) int {
	var ok []int
	for _, c := range cands {
		if c >= lo && c <= hi {
			ok = append(ok, c)
		}
	}
	if len(ok) == 0 {
		return lo
	}
	return rapid.SampledFrom(ok).Draw(t, label)
}

// genSize draws a growth request: half of the time aimed at the boundaries of
// the predicted storage (exact fit of the tail, one more, the largest request
// that still slides, one more, the 64-byte small buffer), otherwise a fixed
// mixture of sizes around 64, 128, 256 and 512.
func (g *genState) genSize(t *rapid.T, label string) int {
	l := g.ref.Len()
	tail := g.d.sh.cap - (g.d.sh.off + l)
	half := g.d.sh.cap/2 - l
	switch rapid.IntRange(0, 9).Draw(t, label+"kind") {
	case 0, 1, 2, 3, 4:
		return pickInt(t, label+"aim", []int{tail - 1, tail, tail + 1, tail + 2, half - 1, half, half + 1, 63 - l, 64 - l, 65 - l, g.d.sh.cap, g.d.sh.cap + 1}, 0, 1500)
	case 5:
		return rapid.IntRange(0, 80).Draw(t, label+"small")
	default:
		return rapid.SampledFrom(fixedSizes).Draw(t, label+"fixed")
	}
}

// genReadSize draws how much to consume: around Len, around half of the
// predicted capacity (so that a later write can slide), or small.
func (g *genState) genReadSize(t *rapid.T, label string) int {
	l := g.ref.Len()
	push := g.d.sh.cap/2 - g.d.sh.off
	switch rapid.IntRange(0, 9).Draw(t, label+"kind") {
	case 0, 1, 2, 3, 4, 5:
		return pickInt(t, label+"aim", []int{0, 1, 2, 3, 4, l - 2, l - 1, l, l + 1, l / 2, l - l/4, push, push + 1, push + 5, l + 100}, 0, 4000)
	case 6:
		return rapid.IntRange(0, l+3).Draw(t, label+"any")
	default:
		return rapid.SampledFrom(fixedSizes).Draw(t, label+"fixed")
	}
}

// slideRoom reports the requests that would make the predicted storage slide
// down: more than the spare tail, at most half the capacity minus the length.
func (g *genState) slideRoom() (lo, hi int, ok bool) {
	l := g.ref.Len()
	lo, hi = g.d.sh.cap-(g.d.sh.off+l)+1, g.d.sh.cap/2-l
	if lo < 1 {
		lo = 1
	}
	return lo, hi, g.d.sh.cap > 0 && lo <= hi
}

func (g *genState) pickKind(t *rapid.T) string {
	// both values are drawn for every op, whether used or not, so that the
	// draws of an op keep their meaning when the shrinker deletes its
	// predecessors
	table := rapid.SampledFrom(opTable).Draw(t, "op")
	roll := rapid.IntRange(0, 99).Draw(t, "follow")
	g.aim, g.plan = -1, ""
	if lo, hi, ok := g.slideRoom(); ok && (g.hint == "slide" && roll < 75 || roll < 20) {
		// the layout allows a slide-down right now: ask for lo..hi more bytes
		g.aim = pickInt(t, "slideaim", []int{lo, lo, hi, hi, (lo + hi) / 2, hi + 1}, 0, 4000)
		return rapid.SampledFrom([]string{"Write", "Write", "WriteString", "Grow", "WriteByte", "WriteRune"}).Draw(t, "slideop")
	}
	if l, c := g.ref.Len(), g.d.sh.cap; g.hint != "slide" && c >= 8 && roll >= 90 && g.d.sh.off+l > c/2 && l > 1 {
		// set a slide up: consume until less than about a quarter of the capacity is unread
		keep := rapid.IntRange(0, min(l-1, c/4)).Draw(t, "slidekeep")
		g.aim, g.plan = l-keep, "slide"
		return rapid.SampledFrom([]string{"Read", "Next"}).Draw(t, "slideread")
	}
	switch g.hint {
	case "read":
		switch {
		case roll < 36:
			return "UnreadByte"
		case roll < 45:
			return "UnreadRune"
		case roll < 55:
			return "Grow"
		case roll < 67:
			return "ReWrite" // a storage position after a partial read
		}
	case "readrune":
		switch {
		case roll < 40:
			return "UnreadRune"
		case roll < 52:
			return "UnreadByte"
		case roll < 60:
			return "Grow"
		case roll < 68:
			return "ReWrite"
		}
	case "grow":
		switch {
		case roll < 20:
			return "UnreadByte"
		case roll < 35:
			return "UnreadRune"
		case roll < 50:
			return rapid.SampledFrom([]string{"Len", "Bytes", "String"}).Draw(t, "observer")
		}
	case "unread":
		switch {
		case roll < 15:
			return "UnreadByte"
		case roll < 25:
			return "UnreadRune"
		}
	case "fresh":
		if roll < 45 {
			return "Write"
		}
	case "written":
		switch {
		case roll < 12:
			return "ReWrite"
		case roll < 30:
			return "ReadRune"
		}
	}
	k := table
	if k == "ReWrite" && g.d.sh.off+g.ref.Len() == 0 && rapid.IntRange(0, 9).Draw(t, "rewrite-anyway") > 0 {
		// would be skipped: mostly draw something useful instead
		k = rapid.SampledFrom([]string{"Write", "Read", "Reset", "Truncate", "ReadRune"}).Draw(t, "instead")
	}
	return k
}

func (g *genState) genOp(t *rapid.T) Op {
	op := Op{K: g.pickKind(t)}
	g.fill(t, &op)
	return op
}

// fill draws the arguments of an operation whose kind is chosen.
func (g *genState) fill(t *rapid.T, op *Op) {
	l := g.ref.Len()
	switch op.K {
	case "Write", "WriteString":
		op.P, op.S = genPattern(t)
		if op.L = g.aim; op.L < 0 {
			op.L = g.genSize(t, "wlen")
		}
	case "WriteByte":
		op.S = rapid.Byte().Draw(t, "byte")
	case "WriteRune":
		if rapid.IntRange(0, 11).Draw(t, "runekind") == 0 {
			op.N = int(rapid.Int32().Draw(t, "anyrune"))
		} else {
			op.N = rapid.SampledFrom(runeChoices).Draw(t, "rune")
		}
	case "Read":
		if op.L = g.aim; op.L < 0 {
			op.L = g.genReadSize(t, "rlen")
		}
	case "Next":
		if g.aim >= 0 {
			op.N = g.aim
		} else {
			switch rapid.IntRange(0, 19).Draw(t, "nextneg") {
			case 0:
				op.N = rapid.SampledFrom([]int{-1, -2, math.MinInt}).Draw(t, "nextnegv")
			case 1: // far more than there is: off+n must not be computed
				op.N = rapid.SampledFrom([]int{math.MaxInt, math.MaxInt - 1, math.MaxInt32 + 1}).Draw(t, "nexthugev")
			default:
				op.N = g.genReadSize(t, "next")
			}
		}
		// half of the time write through the returned slice (a following UnreadByte shows its last byte again)
		op.X = rapid.SampledFrom([]uint8{0, 0, 0, 0xff, 0x01, 0x80}).Draw(t, "nextscribble")
	case "Bytes":
		op.X = rapid.SampledFrom([]uint8{0, 0, 0xff, 0x01, 0x80, 0x20}).Draw(t, "bytesscribble")
	case "Truncate":
		op.N = pickInt(t, "trunc", []int{0, 0, 1, l / 2, l - 1, l, l, l + 1, l + 2, -1, math.MinInt, math.MaxInt, 64, 63}, math.MinInt, math.MaxInt)
	case "Grow":
		if g.aim >= 0 {
			op.N = g.aim
			break
		}
		switch rapid.IntRange(0, 19).Draw(t, "growkind") {
		case 0, 1:
			op.N = rapid.SampledFrom([]int{-1, -2, math.MinInt}).Draw(t, "grownegv")
		case 2:
			op.N = rapid.SampledFrom([]int{math.MaxInt, math.MaxInt - 1, minGrowHuge, math.MaxInt/2 + 1}).Draw(t, "growhuge")
		default:
			op.N = g.genSize(t, "grow")
		}
	case "ReadFrom":
		n := rapid.IntRange(0, 4).Draw(t, "rsteps")
		for i := 0; i < n; i++ {
			var st RStep
			st.P, st.S = genPattern(t)
			st.L = rapid.SampledFrom([]int{0, 0, 1, 5, 63, 64, 65, 100, 300, 511, 512, 513, 600, 700, 1100}).Draw(t, "rlen")
			st.E = rapid.SampledFrom([]int{rNil, rNil, rNil, rNil, rNil, rNil, rEOF, rEOF, rErr, rErr, rNeg, rWrapEOF}).Draw(t, "rend")
			op.R = append(op.R, st)
		}
	case "WriteTo":
		w := WScript{Mode: rapid.SampledFrom([]int{wFull, wFull, wFull, wShort, wShort, wErr, wErr, wOver}).Draw(t, "wmode")}
		w.N = pickInt(t, "wn", []int{0, 1, l / 2, l - 1, l, l + 1, 7}, 0, math.MaxInt)
		op.W = &w
	case "ReWrite":
		// positions index the storage: the predicted off consumed bytes, then the l unread ones
		op.P, op.S = genPattern(t)
		off := g.d.sh.off
		kind := rapid.IntRange(0, 8).Draw(t, "rwkind")
		if off == 0 && kind >= 6 {
			kind -= 3
		}
		switch kind {
		case 0: // the whole unread part
			op.N, op.L = off, l
		case 1: // its last bytes
			op.L = pickInt(t, "rwlen", []int{1, 4, 8}, 0, l)
			op.N = off + l - op.L
		case 2: // a u32 at its front (the mpb length-prefix use)
			op.N, op.L = off, min(4, l)
		case 6: // inside the consumed prefix
			op.N = rapid.IntRange(0, off-1).Draw(t, "rwpos")
			op.L = rapid.IntRange(1, off-op.N).Draw(t, "rwlen2")
		case 7: // across the read offset
			op.N = rapid.IntRange(max(0, off-8), off-1).Draw(t, "rwpos")
			op.L = off - op.N + rapid.IntRange(0, min(l, 8)).Draw(t, "rwlen2")
		case 8: // from the start of the storage
			op.N, op.L = 0, pickInt(t, "rwlen", []int{1, 4, off, off + 1, off + l}, 0, off+l)
		default: // anywhere in the unread part
			op.N = off + rapid.IntRange(0, l).Draw(t, "rwpos")
			op.L = rapid.IntRange(0, off+l-op.N).Draw(t, "rwlen2")
		}
	}
}

// advance applies op to the reference with the executor's admission rules.
func (g *genState) advance(op *Op) {
	prev := g.hint
	g.hint = ""
	lb := g.ref.Len()
	if g.d.admit(op, lb) != "" {
		return
	}
	if op.K == "Side" {
		g.hint = prev // the buffers under test are not touched
		return
	}
	if op.K == "ReWrite" {
		p := payload(op.P, op.L, op.S)
		rewriteModel(g.ref.Bytes(), g.d.sh.off, op.N, p)
		g.d.rewrote(op, p)
		if prev == "read" || prev == "readrune" {
			g.hint = prev // unread-validity is untouched: an Unread* may still follow
		}
		return
	}
	before := g.ref.Bytes()
	o := apply(g.ref, op, func() { g.d.sh.grow(g.ref.Len(), tex.MinRead, -1, true) })
	la := g.ref.Len()
	if op.K == "UnreadByte" || op.K == "UnreadRune" {
		g.d.reexposed(g.ref, la-lb)
	}
	g.d.after(op, lb, la, &o, -1, before)
	switch op.K {
	case "Read", "ReadByte", "Next":
		if la < lb {
			g.hint = "read"
		}
		if g.plan == "slide" {
			g.hint = "slide"
		}
	case "ReadRune":
		if la < lb {
			g.hint = "readrune"
		}
	case "Grow":
		g.hint = "grow"
	case "UnreadByte", "UnreadRune":
		if o.err == nil {
			g.hint = "unread"
		}
	case "Reset":
		g.hint = "fresh"
	case "Truncate":
		if op.N == 0 {
			g.hint = "fresh"
		}
	case "Write", "WriteString", "WriteSelf":
		g.hint = "written"
	}
}

func genCtor(t *rapid.T) Ctor {
	var c Ctor
	if rapid.IntRange(0, 99).Draw(t, "nilctor") == 57 {
		c.Kind = "nil"
		return c
	}
	switch rapid.IntRange(0, 9).Draw(t, "ctor") {
	case 0, 1, 2:
		c.Kind = "zero"
	case 3, 4, 5:
		c.Kind = "bytes"
		c.P, c.S = genPattern(t)
		c.L = rapid.SampledFrom([]int{0, 0, 1, 5, 30, 63, 64, 65, 100, 200, 600}).Draw(t, "ctorlen")
		c.Spare = rapid.SampledFrom([]int{0, 0, 1, 4, 10, 64, 100, 600}).Draw(t, "spare")
	case 6, 7:
		c.Kind = "string"
		c.P, c.S = genPattern(t)
		c.L = rapid.SampledFrom([]int{0, 1, 5, 30, 63, 64, 65, 100, 200, 600}).Draw(t, "ctorlen")
	default:
		c.Kind = "sized"
		c.Size = rapid.SampledFrom([]int{0, 1, 4, 10, 23, 63, 64, 65, 100, 512, 600, 0, 1, 4, 10, 23, 63, 64, 65, 100, 512, 600, 4096, 4097, 10000, 65536}).Draw(t, "size")
	}
	return c
}

// Gen draws a history by folding over the reference implementation (a real
// bytes.Buffer) and a prediction of the storage layout; the code under test
// is never consulted.
func Gen(t *rapid.T) Case {
	c := Case{Ctor: genCtor(t)}
	if c.Ctor.Kind == "nil" {
		c.Ops = []Op{{K: "String"}}
		return c
	}
	ref, _, _, _ := construct(&c.Ctor, false)
	g := &genState{ref: ref, d: newDriver(&c, -1)}
	if ref.Len() == 0 {
		g.hint = "fresh"
	}
	// rapid's slice lengths average min+5 whatever the maximum: a history is
	// drawn as 1-12 batches of 1-16 operations (average about 35, cut at 80),
	// which keeps long histories (where slides and reallocations pile up)
	// common and still lets the shrinker delete batches and single operations
	opGen := rapid.Custom(func(t *rapid.T) Op {
		op := g.genOp(t)
		g.advance(&op)
		return op
	})
	batches := rapid.SliceOfN(rapid.SliceOfN(opGen, 1, 16), 1, 12).Draw(t, "ops")
	for _, b := range batches {
		c.Ops = append(c.Ops, b...)
	}
	if len(c.Ops) > 80 {
		c.Ops = c.Ops[:80]
	}
	return c
}

// ---------------------------------------------------------------------------
// executor and oracle

// ctorSlice is the argument of NewBuffer: its own array for every call.
func ctorSlice(c *Ctor, data []byte) []byte {
	if len(data) == 0 && c.Spare == 0 {
		return nil
	}
	b := make([]byte, len(data), len(data)+c.Spare)
	copy(b, data)
	return b
}

// constructTex makes one tex.Buffer. arg is the string handed to NewBufferString (a string of this call's own,
// on the heap), "" for the other constructors.
func constructTex(c *Ctor, data []byte) (tb *tex.Buffer, arg string) {
	switch c.Kind {
	case "bytes":
		return tex.NewBuffer(ctorSlice(c, data)), ""
	case "string":
		arg = heapString(data)
		return tex.NewBufferString(arg), arg
	case "sized":
		return tex.NewSizedBuffer(c.Size), ""
	}
	return new(tex.Buffer), ""
}

func construct(c *Ctor, withTex bool) (ref *bytes.Buffer, tb *tex.Buffer, arg, skip string) {
	if c.L < 0 || c.L > maxPayload || c.Spare < 0 || c.Spare > maxPayload || c.Size < 0 || c.Size > maxPayload {
		return new(bytes.Buffer), new(tex.Buffer), "", "constructor arguments out of the harness bounds"
	}
	data := payload(c.P, c.L, c.S)
	switch c.Kind {
	case "bytes":
		ref = bytes.NewBuffer(ctorSlice(c, data))
	case "string":
		ref = bytes.NewBufferString(string(data))
	case "sized":
		ref = new(bytes.Buffer)
		ref.Grow(c.Size)
	default:
		ref = new(bytes.Buffer)
	}
	if withTex {
		tb, arg = constructTex(c, data)
	}
	return ref, tb, arg, ""
}

func panicKind(v any) (kind, text string) {
	switch x := v.(type) {
	case string:
		return "string", x
	case runtime.Error:
		return "runtime error", x.Error()
	case error:
		return "error", x.Error()
	default:
		return "other", fmt.Sprint(x)
	}
}

func show(b []byte) string {
	if len(b) <= 40 {
		return fmt.Sprintf("%q (len %d)", b, len(b))
	}
	return fmt.Sprintf("%q…%q (len %d)", b[:20], b[len(b)-12:], len(b))
}

func diffBytes(want, got []byte) string { return diffNamed("bytes.Buffer", want, got) }

// diffPair names both sides.
func diffPair(wn string, want []byte, gn string, got []byte) string {
	i := 0
	for i < len(want) && i < len(got) && want[i] == got[i] {
		i++
	}
	lo := max(i-4, 0)
	return fmt.Sprintf("first difference at index %d: %s …%q, %s …%q; whole: %s %s, %s %s",
		i, wn, want[lo:min(len(want), i+12)], gn, got[lo:min(len(got), i+12)], wn, show(want), gn, show(got))
}

func diffNamed(ref string, want, got []byte) string {
	i := 0
	for i < len(want) && i < len(got) && want[i] == got[i] {
		i++
	}
	lo := max(i-4, 0)
	return fmt.Sprintf("first difference at index %d: %s …%q, tex.Buffer …%q; whole: %s %s, tex.Buffer %s",
		i, ref, want[lo:min(len(want), i+12)], got[lo:min(len(got), i+12)], ref, show(want), show(got))
}

func describe(op *Op) string {
	switch op.K {
	case "Write", "WriteString":
		return fmt.Sprintf("%s(%s)", op.K, show(payload(op.P, op.L, op.S)))
	case "WriteByte":
		return fmt.Sprintf("WriteByte(%#x)", op.S)
	case "WriteRune":
		return fmt.Sprintf("WriteRune(%d = %#x)", int32(op.N), int32(op.N))
	case "Read":
		return fmt.Sprintf("Read(p[%d])", op.L)
	case "Next", "Truncate", "Grow":
		return fmt.Sprintf("%s(%d)", op.K, op.N)
	case "ReadFrom":
		return fmt.Sprintf("ReadFrom(script %+v)", op.R)
	case "WriteTo":
		if op.W != nil {
			return fmt.Sprintf("WriteTo(script %+v)", *op.W)
		}
	case "ReWrite":
		return fmt.Sprintf("ReWrite(%d, %s)", op.N, show(payload(op.P, op.L, op.S)))
	case "WriteSelf":
		return fmt.Sprintf("Write(b.Bytes()[lo:hi], lo = min(%d, Len), hi = min(lo+%d, Len))", op.N, op.L)
	case "Side":
		return fmt.Sprintf("bystander %d: Write(%s)", op.N, show(payload(op.P, op.L, op.S)))
	}
	return op.K + "()"
}

func errStr(e error) string {
	if e == nil {
		return "nil"
	}
	return fmt.Sprintf("%q", e.Error())
}

// diffOutcome compares what the two calls let the caller observe. The site
// names the method and the kind of observation.
func diffOutcome(k string, ref, got *outcome) (site, msg string) {
	if ref.panicked != got.panicked {
		if ref.panicked {
			kind, text := panicKind(ref.pv)
			return k + "/panic", fmt.Sprintf("bytes.Buffer panics (%s %q), tex.Buffer returns normally", kind, text)
		}
		kind, text := panicKind(got.pv)
		return k + "/panic", fmt.Sprintf("tex.Buffer panics (%s %q), bytes.Buffer returns normally", kind, text)
	}
	if ref.panicked {
		rk, rt := panicKind(ref.pv)
		gk, gt := panicKind(got.pv)
		if rk != gk || (rk == "string" && rt != gt) {
			return k + "/panic", fmt.Sprintf("panic values differ: bytes.Buffer %s %q, tex.Buffer %s %q", rk, rt, gk, gt)
		}
		if ref.pv == any(bytes.ErrTooLarge) && got.pv != any(tex.ErrTooLarge) {
			return k + "/panic", fmt.Sprintf("bytes.Buffer panics with bytes.ErrTooLarge, tex.Buffer with %s %q which is not tex.ErrTooLarge", gk, gt)
		}
		if got.pv == any(tex.ErrTooLarge) && ref.pv != any(bytes.ErrTooLarge) {
			return k + "/panic", fmt.Sprintf("tex.Buffer panics with tex.ErrTooLarge, bytes.Buffer with %s %q which is not bytes.ErrTooLarge", rk, rt)
		}
	} else {
		if len(ref.nums) != len(got.nums) {
			return k + "/result", "internal: result arity differs"
		}
		for i := range ref.nums {
			if ref.nums[i] != got.nums[i] {
				return k + "/result", fmt.Sprintf("result %d: bytes.Buffer %d, tex.Buffer %d (all results: %v vs %v)", i, ref.nums[i], got.nums[i], ref.nums, got.nums)
			}
		}
		if ref.hasData && !bytes.Equal(ref.data, got.data) {
			return k + "/result", "returned bytes differ, " + diffBytes(ref.data, got.data)
		}
		if ref.hasErr {
			if (ref.err == nil) != (got.err == nil) {
				return k + "/error", fmt.Sprintf("error: bytes.Buffer %s, tex.Buffer %s", errStr(ref.err), errStr(got.err))
			}
			if (fixedErr(ref.err) || fixedErr(got.err)) && ref.err != got.err {
				return k + "/error", fmt.Sprintf("error identity: bytes.Buffer returns %s, tex.Buffer %s - not the same error value (io.EOF, io.ErrShortWrite and the errors of the caller's io.Reader / io.Writer are returned as they are)", errStr(ref.err), errStr(got.err))
			}
		}
	}
	if k == "WriteTo" {
		if ref.wcalls != got.wcalls {
			return k + "/writer", fmt.Sprintf("the io.Writer was called %d times by bytes.Buffer, %d times by tex.Buffer", ref.wcalls, got.wcalls)
		}
		if !bytes.Equal(ref.sink, got.sink) {
			return k + "/writer", "the io.Writer received different bytes, " + diffBytes(ref.sink, got.sink)
		}
	}
	if k == "ReadFrom" {
		if got.runaway {
			return k + "/reader", "tex.Buffer called the io.Reader more than 4096 times for a script of at most 16 steps"
		}
		if got.minRead >= 0 && got.minRead < tex.MinRead {
			return k + "/minread", fmt.Sprintf("tex.Buffer.ReadFrom offered the reader a slice of %d bytes, documented minimum is MinRead = %d", got.minRead, tex.MinRead)
		}
	}
	return "", ""
}

// observe reads (Len, Bytes) without letting a corrupted buffer kill the case.
func observe(b buffer) (l int, bs []byte, pv any) {
	defer func() {
		if r := recover(); r != nil {
			pv = r
		}
	}()
	l = b.Len()
	bs = b.Bytes()
	return l, bs, nil
}

func diffState(ref, tb buffer) string {
	rl, rb, rp := observe(ref)
	tl, tbs, tp := observe(tb)
	switch {
	case rp != nil:
		return fmt.Sprintf("internal: observing bytes.Buffer panicked: %v", rp)
	case tp != nil:
		return fmt.Sprintf("Len/Bytes of tex.Buffer panic: %v (bytes.Buffer: Len %d)", tp, rl)
	case rl != tl:
		return fmt.Sprintf("Len: bytes.Buffer %d, tex.Buffer %d", rl, tl)
	case len(tbs) != tl:
		return fmt.Sprintf("tex.Buffer: len(Bytes()) = %d but Len() = %d", len(tbs), tl)
	case !bytes.Equal(rb, tbs):
		return "unread contents differ, " + diffBytes(rb, tbs)
	}
	return ""
}

func isWriteLike(k string) bool {
	switch k {
	case "Write", "WriteString", "WriteSelf", "WriteByte", "WriteRune", "Grow", "ReadFrom":
		return true
	}
	return false
}

// keeper holds every string that tex.Buffer handed out (String) or was handed (WriteString, NewBufferString)
// together with a private copy of its bytes taken at that moment. A Go string never changes: after every later
// step of the case each of them must still read as it did, whatever was done to the buffer since (writes through
// the slices of Bytes and Next, ReWrite, Reset, Truncate and new writes over the old bytes). bytes.Buffer
// copies in all three places. The harness itself never writes through the memory of a string; the slices it
// writes through are the ones Bytes and Next returned.
type keeper struct {
	items []keptString
	size  int
}

type keptString struct {
	s      string
	want   []byte
	site   string
	what   string
	pinned bool // the constructor's argument is kept to the end
}

const (
	maxKept     = 16
	maxKeptSize = 24 << 20
)

func (k *keeper) add(site, what, s string, pinned bool) {
	if len(s) == 0 {
		return
	}
	k.items = append(k.items, keptString{s: s, want: []byte(s), site: site, what: what, pinned: pinned})
	k.size += len(s)
	for len(k.items) > maxKept || k.size > maxKeptSize {
		j := 0
		for j < len(k.items)-1 && k.items[j].pinned {
			j++
		}
		if j == len(k.items)-1 {
			break
		}
		k.size -= len(k.items[j].s)
		k.items = append(k.items[:j], k.items[j+1:]...)
	}
}

func (k *keeper) check() (site, msg string) {
	for i := range k.items {
		it := &k.items[i]
		if it.s != string(it.want) {
			return it.site, fmt.Sprintf("%s has changed (a string never changes; bytes.Buffer copies here): %s", it.what,
				diffPair("then", it.want, "now", []byte(it.s)))
		}
	}
	return "", ""
}

// bystander is one more live tex.Buffer made by the same constructor call as the one under test. It is
// written by the harness only (Side operations) and must hold exactly what was written to it.
type bystander struct {
	b     *tex.Buffer
	model []byte
}

func checkBystanders(bs []bystander) string {
	for i := range bs {
		l, got, pv := observe(bs[i].b)
		switch {
		case pv != nil:
			return fmt.Sprintf("bystander %d: Len/Bytes panic: %v", i, pv)
		case l != len(bs[i].model) || !bytes.Equal(got, bs[i].model):
			return fmt.Sprintf("bystander %d (another tex.Buffer from the same constructor call, written by nobody but the harness's Side operations) no longer holds what was written to it: %s",
				i, diffPair("written", bs[i].model, "holds", got))
		}
	}
	return ""
}

// Exec runs the history on both buffers and compares after every step.
func Exec(c Case) *vkit.Result {
	res := &vkit.Result{}
	if c.Ctor.Kind == "nil" {
		// String is the one method defined on a nil *Buffer ("<nil>", "useful in debugging")
		res.Class("ctor:nil")
		for i := range c.Ops {
			op := &c.Ops[i]
			if op.K != "String" {
				res.Skip(op.K + " on a nil *Buffer")
				continue
			}
			ro := apply((*bytes.Buffer)(nil), op, nil)
			to := apply((*tex.Buffer)(nil), op, nil)
			if site, msg := diffOutcome(op.K, &ro, &to); site != "" {
				return res.Failf("String/nil-receiver", "step %d of %d, String() on a nil *Buffer: %s", i+1, len(c.Ops), msg)
			}
		}
		return res
	}
	ref, tb, ctorArg, why := construct(&c.Ctor, true)
	if why != "" {
		res.Skip(why)
		return res
	}
	res.Class("ctor:" + c.Ctor.Kind)
	var kept keeper
	kept.add("NewBufferString/kept-argument", "the string that was handed to NewBufferString", ctorArg, true)
	// the bystanders: made now, beside the buffer under test, and written a few bytes at once
	sides := make([]bystander, min(max(c.Side, 1), 3))
	for i := range sides {
		data := payload(c.Ctor.P, c.Ctor.L, c.Ctor.S)
		if c.Ctor.Kind != "bytes" && c.Ctor.Kind != "string" {
			data = nil
		}
		sb, _ := constructTex(&c.Ctor, data)
		sides[i] = bystander{b: sb, model: append([]byte{}, data...)}
		first := []byte{0xD0 + byte(i), 0xE0 + byte(i), 0xF0 + byte(i)}
		sb.Write(first)
		sides[i].model = append(sides[i].model, first...)
	}
	if c.Ctor.Kind == "sized" {
		if tb.Len() != 0 {
			return res.Failf("NewSizedBuffer/len", "NewSizedBuffer(%d).Len() = %d, want 0 (contents %s)", c.Ctor.Size, tb.Len(), show(tb.Bytes()))
		}
		if tb.Cap() < c.Ctor.Size {
			return res.Failf("NewSizedBuffer/cap", "NewSizedBuffer(%d).Cap() = %d, want >= %d", c.Ctor.Size, tb.Cap(), c.Ctor.Size)
		}
	}
	if msg := diffState(ref, tb); msg != "" {
		return res.Failf("ctor/state", "after constructor %+v: %s", c.Ctor, msg)
	}
	if msg := checkBystanders(sides); msg != "" {
		return res.Failf("bystander/contents", "after constructor %+v (for every buffer): %s", c.Ctor, msg)
	}
	d := newDriver(&c, tb.Cap())
	paths := map[string]bool{}
	unreads := 0
	lastAt := "the constructor"
	for i := range c.Ops {
		// what the previous step did to the strings in the harness's hands
		if site, msg := kept.check(); site != "" {
			return res.Failf(site, "after %s: %s", lastAt, msg)
		}
		op := &c.Ops[i]
		lb := ref.Len()
		if why := d.admit(op, lb); why != "" {
			res.Skip(why)
			continue
		}
		at := fmt.Sprintf("step %d of %d, %s on %d unread bytes", i+1, len(c.Ops), describe(op), lb)
		lastAt = at

		if op.K == "Side" {
			sb := &sides[max(op.N, 0)%len(sides)]
			if len(sb.model)+op.L > maxSide {
				res.Skip("Side beyond the length a bystander is filled to")
				continue
			}
			p := payload(op.P, op.L, op.S)
			sb.model = append(sb.model, p...)
			if pv := func() (pv any) {
				defer func() { pv = recover() }()
				sb.b.Write(p)
				return nil
			}(); pv != nil {
				return res.Failf("bystander/panic", "%s: Write on the bystander panics: %v", at, pv)
			}
			if msg := checkBystanders(sides); msg != "" {
				return res.Failf("bystander/contents", "%s: %s", at, msg)
			}
			// the buffer under test was not touched
			if msg := diffState(ref, tb); msg != "" {
				return res.Failf("bystander/state", "%s (a write to ANOTHER tex.Buffer): afterwards %s", at, msg)
			}
			res.Class("side:written")
			continue
		}

		if op.K == "ReWrite" {
			// slice model over the storage: position off+j is unread byte j; exactly the
			// addressed unread bytes change, consumed bytes in front of them are not observable
			off := d.sh.off
			at += fmt.Sprintf(" behind %d consumed bytes still in the storage", off)
			p := payload(op.P, op.L, op.S)
			want := append([]byte{}, tb.Bytes()...)
			rewriteModel(want, off, op.N, p)
			if pv := func() (pv any) {
				defer func() { pv = recover() }()
				tb.ReWrite(op.N, p)
				return nil
			}(); pv != nil {
				return res.Failf("ReWrite/panic", "%s: panics: %v", at, pv)
			}
			rewriteModel(ref.Bytes(), off, op.N, p) // bytes.Buffer documents that Bytes() aliases the contents
			if tb.Len() != len(want) || !bytes.Equal(tb.Bytes(), want) {
				return res.Failf("ReWrite/model", "%s: Len %d -> %d; %s", at, len(want), tb.Len(), diffNamed("slice model", want, tb.Bytes()))
			}
			if msg := diffState(ref, tb); msg != "" {
				return res.Failf("ReWrite/state", "%s: %s", at, msg)
			}
			res.Class("rewrite:done")
			res.Class(d.rewrote(op, p))
			if d.prefixDirty {
				res.Class("rewrite:changed-unreadable-bytes")
			}
			if op.L > 0 && op.N > off && op.N+op.L < off+lb {
				res.Class("rewrite:interior")
			}
			continue
		}

		var hookLabels []string
		before := ref.Bytes()
		ro := apply(ref, op, nil)
		to := apply(tb, op, func() { hookLabels = append(hookLabels, d.sh.grow(tb.Len(), tex.MinRead, tb.Cap(), true)...) })
		if site, msg := diffOutcome(op.K, &ro, &to); site != "" {
			return res.Failf(site, "%s: %s", at, msg)
		}
		la := ref.Len()
		stateSite := op.K + "/state"
		switch op.K {
		case "String":
			if !to.panicked && len(to.str) > 0 {
				kept.add("String/kept-result", fmt.Sprintf("the string that String() returned at step %d", i+1), to.str, false)
				res.Class("kept:String-result")
				keptClass(res, len(to.str))
			}
		case "WriteString":
			if len(to.str) > 0 {
				kept.add("WriteString/kept-argument", fmt.Sprintf("the string that was handed to WriteString at step %d", i+1), to.str, false)
				res.Class("kept:WriteString-argument")
				keptClass(res, len(to.str))
				if lb == 0 && d.sh.nilBuf {
					res.Class("kept:WriteString-argument-into-a-buffer-without-storage")
				}
			}
		case "WriteSelf":
			lo, hi := selfRange(op, lb)
			switch {
			case hi == lo:
				res.Class("self:empty")
			case lo == 0 && hi == lb:
				res.Class("self:whole")
			case lo == 0:
				res.Class("self:prefix")
			case hi == lb:
				res.Class("self:suffix")
			default:
				res.Class("self:middle")
			}
			if hi-lo > d.sh.cap-(d.sh.off+lb) {
				res.Class("self:forces-growth")
			}
		case "UnreadByte", "UnreadRune":
			if d.reexposed(ref, la-lb) {
				// the bytes put back were rewritten while consumed: tex.Buffer is judged against the model of them
				stateSite = op.K + "/rewritten-prefix"
				at += fmt.Sprintf(" (a ReWrite changed the consumed bytes it re-exposes: the model has %s there)", show(d.last))
				res.Class("unread:after-rewrite-of-consumed-bytes")
			}
		case "Bytes":
			if op.X != 0 {
				stateSite = "Bytes/alias"
				at += fmt.Sprintf(" (the returned slice was then XORed with %#x)", op.X)
				res.Class("alias:wrote-through-Bytes")
			}
		case "Next":
			if op.X != 0 && len(ro.data) > 0 {
				res.Class("alias:wrote-through-Next")
			}
		}
		if msg := diffState(ref, tb); msg != "" {
			return res.Failf(stateSite, "%s: afterwards %s", at, msg)
		}
		labels := append(hookLabels, d.after(op, lb, la, &ro, tb.Cap(), before)...)
		for _, l := range labels {
			res.Class(l)
			switch l {
			case "grow:small", "grow:reslice", "grow:slide", "grow:realloc", "grow:reset-empty":
				paths[l] = true
			}
		}
		classify(res, op, &ro, lb, la, &unreads)
	}
	if site, msg := kept.check(); site != "" {
		return res.Failf(site, "after %s: %s", lastAt, msg)
	}
	if msg := checkBystanders(sides); msg != "" {
		return res.Failf("bystander/contents", "at the end of the history: %s", msg)
	}
	for _, s := range res.Skipped {
		if s == "UnreadByte after Grow (excluded by the property)" || s == "UnreadRune after Grow (excluded by the property)" {
			res.Class("unread:skipped-after-grow")
		}
	}
	switch n := len(c.Ops); {
	case n <= 10:
		res.Class("ops:1-10")
	case n <= 40:
		res.Class("ops:11-40")
	default:
		res.Class("ops:41-80")
	}
	res.NonTrivial = len(paths) >= 2 && unreads >= 1
	return res
}

func keptClass(res *vkit.Result, n int) {
	switch {
	case n > 1<<20:
		res.Class("kept:len>1MiB")
	case n > 1024:
		res.Class("kept:len>1024")
	case n > 64:
		res.Class("kept:len>64")
	}
}

func classify(res *vkit.Result, op *Op, ro *outcome, lb, la int, unreads *int) {
	if ro.panicked {
		kind, _ := panicKind(ro.pv)
		switch {
		case ro.pv == any(bytes.ErrTooLarge):
			res.Class("panic:" + op.K + "-too-large")
		case op.K == "Grow" || op.K == "Next" || op.K == "Truncate":
			res.Class("panic:" + op.K + "-invalid-argument")
		case op.K == "ReadFrom":
			res.Class("panic:ReadFrom-negative-count")
		case op.K == "WriteTo":
			res.Class("panic:WriteTo-over-count")
		default:
			res.Class("panic:" + op.K + "-" + kind)
		}
		return
	}
	if ro.hasErr && ro.err == io.EOF {
		res.Class("eof:" + op.K)
	}
	if isWriteLike(op.K) && lb <= 64 && la > 64 {
		res.Class("len:crossed-64")
	}
	if la > 512 {
		res.Class("len:>512")
	}
	if la > 1<<20 {
		res.Class("len:>1MiB")
	}
	if la > 2<<20 {
		res.Class("len:>2MiB")
	}
	if (op.K == "Write" || op.K == "WriteString" || op.K == "WriteSelf") && la-lb >= 1<<20 {
		res.Class("write:single>=1MiB")
	}
	switch op.K {
	case "WriteRune":
		r := int32(op.N)
		switch {
		case r < 0:
			res.Class("rune:negative")
		case r > utf8.MaxRune:
			res.Class("rune:>MaxRune")
		case r >= 0xd800 && r <= 0xdfff:
			res.Class("rune:surrogate")
		case r >= utf8.RuneSelf:
			res.Class("rune:multibyte")
		default:
			res.Class("rune:ascii")
		}
	case "ReadRune":
		if ro.err == nil {
			switch {
			case ro.nums[0] == utf8.RuneError && ro.nums[1] == 1:
				res.Class("readrune:invalid-utf8")
			case ro.nums[1] > 1:
				res.Class("readrune:multibyte")
			default:
				res.Class("readrune:ascii")
			}
		}
	case "UnreadByte", "UnreadRune":
		if ro.err == nil {
			*unreads++
			res.Class("unread:" + op.K + "-ok")
			if la-lb > 1 {
				res.Class("unread:multibyte-rune")
			}
		} else {
			res.Class("unread:" + op.K + "-rejected")
		}
	case "Read":
		switch {
		case op.L == 0:
			res.Class("read:len0")
		case lb > 0 && op.L > lb:
			res.Class("read:more-than-len")
		}
	case "Next":
		if op.N > lb {
			res.Class("next:more-than-len")
		}
	case "Truncate":
		if op.N > 0 {
			res.Class("truncate:partial")
		}
	case "ReadFrom":
		if ro.err != nil {
			res.Class("readfrom:error")
		}
		for _, st := range op.R {
			if st.E == rEOF && st.L > 0 {
				res.Class("readfrom:eof-with-data")
			}
			if st.L > tex.MinRead {
				res.Class("readfrom:chunk>MinRead")
			}
		}
		if ro.rcalls > 2 {
			res.Class("readfrom:multi-chunk")
		}
	case "WriteTo":
		switch {
		case ro.err == io.ErrShortWrite:
			res.Class("writeto:short")
		case ro.err != nil:
			res.Class("writeto:error")
		case lb > 0:
			res.Class("writeto:drained")
		default:
			res.Class("writeto:empty")
		}
	}
}

// Part is the one generated check of C11.
var Part = &vkit.Part[Case]{
	Property: Property, Name: "differential",
	Rule:  "rapid: a constructor (zero value | NewBuffer(bytes with spare capacity) | NewBufferString | NewSizedBuffer(k, k up to 65536) vs a bytes.Buffer grown to k | rarely a nil *Buffer, on which String() must give \"<nil>\") and 1-80 operations out of Write, WriteString, WriteByte, WriteRune (ASCII, 2/3/4-byte, surrogates, negative, > MaxRune), Read(len 0..>Len), ReadByte, ReadRune (valid and invalid UTF-8 payload patterns), UnreadByte, UnreadRune, Next(n incl. > Len, negative and MaxInt; half of the time the returned slice is written through), Truncate(n incl. invalid), Reset, Grow(n incl. negative and unallocatably large), ReadFrom(scripted reader: chunks below/at/above MinRead, (0,nil), io.EOF with data, early error, an error wrapping io.EOF, negative count; the reader uses the rest of its destination as scratch space), WriteTo(scripted writer: full, short write, error, over-count), Len, Bytes (sometimes written through), String, ReWrite(pos,p) at storage positions (consumed bytes not yet slid away come first: inside the unread part after partial reads, inside the consumed prefix, across the read offset). The generator folds over a real bytes.Buffer and a prediction of the storage layout, so that sizes aim at the exact fit of the spare tail, one byte more, the largest request that still slides down, one more (reallocate) and the 64-byte small buffer; reads are followed by Unread*/Grow with raised probability. After every step results, error nil-ness and error identity (io.EOF, io.ErrShortWrite, the scripted reader's / writer's own error values), panic-or-not with equal string panic values and ErrTooLarge on both sides or on neither, and (Len, Bytes) of both buffers are compared; the slice handed to Write is overwritten after the call. ReWrite is judged against a slice model over the storage (storage position off+j is unread byte j, off = consumed bytes still in front, known from the same bookkeeping; exactly the addressed unread bytes change). Unread* is skipped (and counted) while a Grow is the latest call that could have moved the data; after a ReWrite changed the consumed bytes that an Unread* re-exposes, they are judged against a model of those bytes (the harness saw them being read); ReWrite is skipped when it would reach beyond the storage or the layout bookkeeping was contradicted by Cap(). Every string handed to WriteString / NewBufferString and every string String() returned is kept with a private copy of its bytes and compared after every later step (a string never changes); one more tex.Buffer from the same constructor call is written three bytes at the start and must hold exactly its own contents at the end. Non-trivial: the history exercised >= 2 different growth paths of tex.Buffer (reset-if-empty, reslice, small allocation, slide down, reallocate; classified from Cap() changes and consumed-byte bookkeeping) and >= 1 successful Unread*; distinct = distinct case JSON",
	Quick: 30000, Thorough: 60000,
	Gen: Gen, Exec: Exec,
}
