module verifharness

go 1.23

toolchain go1.23.5

require (
	github.com/anishathalye/porcupine v1.3.0
	github.com/pinealctx/neptune v0.0.0
	pgregory.net/rapid v1.3.0
)

require (
	github.com/cespare/xxhash/v2 v2.2.0 // indirect
	go.uber.org/atomic v1.11.0 // indirect
)

replace github.com/pinealctx/neptune => /repo
