package c18transact

import (
	"testing"

	"verifharness/vkit"
)

func TestMain(m *testing.M) { vkit.Main(m) }

// TestEnum_Outcomes is the complete fault enumeration for 0..4 steps without a
// context and for 0..3 steps under every context mode.
func TestEnum_Outcomes(t *testing.T) { PartEnum.RunCases(t, EnumCases(4, 3), true) }

// TestProp_Random samples longer lists, Combine trees and other panic values.
func TestProp_Random(t *testing.T) { PartRandom.Run(t) }

func TestReplay(t *testing.T) {
	PartEnum.Replay(t, 1)
	PartRandom.Replay(t, 1)
}
