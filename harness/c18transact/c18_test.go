package c18transact

import (
	"testing"

	"verifharness/vkit"
)

func TestMain(m *testing.M) { vkit.Main(m) }

// TestEnum_Outcomes is the complete fault enumeration for 0..4 steps without a
// context and for 0..3 steps under every context mode.
func TestEnum_Outcomes(t *testing.T) { PartEnum.RunCases(t, EnumCases(4, 3), true) }

// TestProp_Random samples longer lists, Combine trees and other panic values.
func TestProp_Random(t *testing.T) { PartRandom.Run(t) }

// TestProp_SameDB hands one *gorm.DB to several Transact calls in a row: a small complete family (a call that does
// not commit, then calls that must), then drawn sequences.
func TestProp_SameDB(t *testing.T) {
	PartSameDB.RunCases(t, EnumSeqCases(), false)
	PartSameDB.Run(t)
}

func TestReplay(t *testing.T) {
	PartEnum.Replay(t, 1)
	PartRandom.Replay(t, 1)
	PartSameDB.Replay(t, 1)
}
