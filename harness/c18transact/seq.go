package c18transact

// part "samedb": ONE *gorm.DB - opened once, one handle derived from it once - is handed to several Transact calls in
// a row, the way an application uses its global db. Every call is judged like any single call (same oracle, the event
// log of the fake started afresh before each call); in addition the handle must come back from every call as it
// went in (without an error), because a handle that carries an error loses every later transaction begun through it.
// The calls of one case differ in everything a single case varies: step lists (also 65, 129 and 257 steps long),
// faults of begin/commit/rollback, the context of the call (derived from the shared handle with WithContext).

import (
	"fmt"

	"github.com/pinealctx/neptune/store/gormx"
	"pgregory.net/rapid"

	"verifharness/vkit"
)

type SeqCase struct {
	Backend string `json:"backend"`
	// how the db is opened and which handle is handed to every call (the OpenCfg of the calls themselves is ignored)
	OpenCfg
	Calls []Case `json:"calls"`
}

// ExecSeq runs the calls of one case on one db and judges each.
func ExecSeq(sc SeqCase) *vkit.Result {
	res := &vkit.Result{}
	backend := sc.Backend
	if backend != "pool" && backend != "sqldrv" {
		res.Skip("unknown backend (ran on pool)")
		backend = "pool"
	}
	// the configuration is normalised once, against all the calls
	probe := Case{Backend: backend}
	probe.OpenCfg = sc.OpenCfg
	for _, call := range sc.Calls {
		probe.Steps = append(probe.Steps, call.Steps...)
	}
	cfg := normalize(probe, backend, res).OpenCfg

	log := &eventLog{finished: make(chan struct{}), f: faults{exec: map[string]error{}}}
	watch := false
	for _, call := range sc.Calls {
		watch = watch || hasKind(call.Steps, KGoexit)
	}
	sess := openSession(backend, cfg, log, watch)
	defer sess.closeFn()

	res.Class(fmt.Sprintf("calls on one db:%s", bucket(len(sc.Calls))))
	nonTrivial := 0
	prevFailed, prevKind := false, ""
	for k, call := range sc.Calls {
		call.Backend, call.Twice = backend, false
		call.OpenCfg = cfg
		mode := call.Ctx
		switch mode {
		case "":
			mode = CtxNone
		case CtxNone, CtxLive, CtxCancelled, CtxDeadline, CtxStep:
		default:
			res.Skip("unknown context mode (ran without a context)")
			mode = CtxNone
		}
		sub := &vkit.Result{}
		call = normalize(call, backend, sub)
		var leaves []leaf
		leaves = flatten(call.Steps, leaves, &sub.Skipped)
		r := &run{leaves: leaves, cancelAt: -1, goexited: -1}
		fns := r.build(call.Steps)
		if len(fns) == 0 && call.EmptySlice {
			fns = []gormx.GormProcFn{}
		}
		execPass(call, backend, mode, r, fns, sub, sess)
		res.Skipped = append(res.Skipped, sub.Skipped...)
		for _, cl := range sub.Classes {
			res.Class(cl)
		}
		if sub.NonTrivial {
			nonTrivial++
		}
		if sub.Fail != nil {
			return res.Failf(sub.Fail.Site, "call %d of %d on the same *gorm.DB (%s): %s", k+1, len(sc.Calls), describeCalls(sc.Calls[:k]), sub.Fail.Msg)
		}
		failed, kind := callFails(call, leaves)
		if k > 0 && prevFailed && !failed {
			res.Class("same db: a call that must be committed follows a failed one (" + prevKind + ")")
		}
		if k > 0 && !prevFailed && failed {
			res.Class("same db: a failing call follows a committed one")
		}
		prevFailed, prevKind = failed, kind
	}
	res.NonTrivial = len(sc.Calls) >= 2 && nonTrivial >= 1
	return res
}

// callFails: does the call end without a successful commit, and why (model side, for the classes only).
func callFails(c Case, leaves []leaf) (bool, string) {
	if len(leaves) == 0 {
		return false, ""
	}
	if c.BeginFail {
		return true, "begin fails"
	}
	for _, l := range leaves {
		if l.kind != KOk && l.kind != KAddErr {
			if c.RollbackFail {
				return true, l.kind + ", rollback fails"
			}
			return true, l.kind
		}
	}
	if c.CommitFail {
		return true, "commit fails"
	}
	if c.Ctx == CtxCancelled || c.Ctx == CtxDeadline || c.Ctx == CtxStep {
		return true, "context over"
	}
	return false, ""
}

func describeCalls(calls []Case) string {
	if len(calls) == 0 {
		return "the first call"
	}
	s := "earlier calls:"
	for _, c := range calls {
		var leaves []leaf
		var dummy []string
		leaves = flatten(c.Steps, leaves, &dummy)
		failed, kind := callFails(c, leaves)
		if failed {
			s += fmt.Sprintf(" [%d steps, fails: %s]", len(leaves), kind)
		} else {
			s += fmt.Sprintf(" [%d steps, ok]", len(leaves))
		}
	}
	return s
}

// ---------------------------------------------------------------------------
// the complete family: a call that does not commit, then calls that must

// EnumSeqCases: for each fake and each kind of handle, every way the first call ends without a commit, followed by a
// call whose steps all succeed and a third one that succeeds or fails.
func EnumSeqCases() []SeqCase {
	ok, serr := Step{Kind: KOk}, Step{Kind: KErr}
	firsts := []Case{
		{Steps: []Step{ok, serr}},
		{Steps: []Step{serr}, RollbackFail: true},
		{Steps: []Step{serr}, RollbackFail: true, RollbackErr: "badconn"},
		{Steps: []Step{ok, {Kind: KPanic, PV: PVString}}},
		{Steps: []Step{ok, {Kind: KPanic, PV: PVAbortHandler}}, RollbackFail: true},
		{Steps: []Step{{Kind: KExecFail}, ok}},
		{Steps: []Step{{Kind: KExecFail, PV: PVDup}, ok}},
		{Steps: []Step{ok, {Kind: KGoexit}}},
		{Steps: []Step{{Kind: KAddErr}, ok}},
		{Steps: []Step{{Kind: KGroup, Sub: []Step{ok, {Kind: KErr, PV: EVDupKey}}}}},
		{Steps: []Step{{Kind: KErr, PV: EVNilErr}}, RollbackFail: true},
		{Steps: []Step{ok}, BeginFail: true},
		{Steps: []Step{ok}, BeginFail: true, BeginErr: "invalidconn", BeginOnce: true},
		{Steps: []Step{ok, ok}, CommitFail: true},
		{Steps: []Step{ok, ok}, CommitFail: true, CommitErr: "badconn"},
		{Steps: []Step{ok, serr}, Ctx: CtxCancelled},
		{Steps: []Step{ok, serr, ok}, Ctx: CtxStep, CancelAt: 1},
		{Steps: []Step{ok, ok}, Ctx: CtxStep, CancelAt: 0},
		{Steps: []Step{ok, ok}, Ctx: CtxLive},
		{},
	}
	var out []SeqCase
	for _, be := range Backends {
		cfgs := []OpenCfg{{SkipDefTx: true}, {Translate: true}}
		for _, h := range Handles {
			cfgs = append(cfgs, OpenCfg{Handle: h})
		}
		if be == "sqldrv" {
			cfgs = append(cfgs, OpenCfg{PrepareStmt: true})
		}
		for _, cfg := range cfgs {
			for _, first := range firsts {
				for _, third := range []Case{{Steps: []Step{ok, ok}}, {Steps: []Step{ok, serr}}, {Steps: []Step{ok}, Ctx: CtxLive}} {
					sc := SeqCase{Backend: be, Calls: []Case{first, {Steps: []Step{ok, ok, ok}}, third}}
					sc.OpenCfg = cfg
					out = append(out, sc)
				}
			}
		}
	}
	return out
}

// ---------------------------------------------------------------------------
// the random generator

var longLens = []int{65, 129, 257}

func GenSeq(t *rapid.T) SeqCase {
	sc := SeqCase{Backend: rapid.SampledFrom(Backends).Draw(t, "backend")}
	sc.Translate = rapid.IntRange(0, 3).Draw(t, "translate") == 0
	sc.SkipDefTx = rapid.IntRange(0, 3).Draw(t, "skipDefTx") == 3
	if sc.Backend == "sqldrv" {
		sc.PrepareStmt = rapid.IntRange(0, 5).Draw(t, "prepareStmt") == 5
	}
	if rapid.IntRange(0, 1).Draw(t, "derived") == 1 {
		sc.Handle = rapid.SampledFrom(Handles[1:]).Draw(t, "handle")
	}
	maxCalls := 4
	if vkit.Tier() == "thorough" {
		maxCalls = 8
	}
	n := rapid.IntRange(2, maxCalls).Draw(t, "calls")
	dry := rapid.IntRange(0, 15).Draw(t, "dryRun") == 15
	for k := 0; k < n; k++ {
		c := Gen(t)
		c.Backend, c.Twice, c.OpenCfg = "", false, OpenCfg{}
		switch rapid.IntRange(0, 7).Draw(t, "shape") {
		case 0:
			// a long list: 65, 129 or 257 top-level steps, all ok or one failure at a drawn position
			m := rapid.SampledFrom(longLens).Draw(t, "longLen")
			c.Steps = make([]Step, m)
			for i := range c.Steps {
				c.Steps[i] = Step{Kind: KOk}
			}
			if rapid.Bool().Draw(t, "longFails") {
				c.Steps[genPos(t, m)] = genLeaf(t, true)
			}
			if c.Ctx == CtxStep {
				c.CancelAt = genPos(t, m)
			}
		case 1, 2:
			// a call that must simply be committed
			c = Case{Steps: []Step{{Kind: KOk}, {Kind: KOk}}}
		}
		if sc.Backend != "pool" && (c.BeginErr == "badconn" || c.BeginErr == "conndone") {
			c.BeginErr = ""
		}
		dry = dry && !hasKind(c.Steps, KExecFail)
		sc.Calls = append(sc.Calls, c)
	}
	sc.DryRun = dry
	return sc
}

var PartSameDB = &vkit.Part[SeqCase]{
	Property: Property, Name: "samedb",
	Rule:  "one *gorm.DB opened once (TranslateError 1/4, SkipDefaultTransaction 1/4, on the database/sql fake PrepareStmt 1/6, DryRun 1/16) and one handle of it (the db itself, or db.Session(&gorm.Session{}), Session{NewDB}, Session{SkipDefaultTransaction}, db.Debug(), db.Where(...)) handed to 2..4 Transact calls in a row (2..8 in the thorough tier); each call is a case of the random part (1/8: 65, 129 or 257 top-level steps, all ok or one failure; 1/4: two steps that must be committed), its context derived from the shared handle; the event log of the fake starts afresh before each call and each call is judged by the oracle of the other parts; after every call the handle (and the db it was derived from) must carry no error. Enumerated completely beside the drawn cases: 2 fakes x (9..10 ways of opening / kinds of handle) x 20 first calls that end without a commit in every way (step error, panic, Exec failing below gorm, runtime.Goexit, begin / commit / rollback failing, context over) or with one x a call that must be committed x a third call. Non-trivial: at least two calls and at least one of them non-trivial by the rule of the other parts; distinct = distinct case JSON",
	Quick: 1200, Thorough: 5000,
	Gen: GenSeq, Exec: ExecSeq,
}
