// Package c18transact decides property C18: a transaction started by
// gormx.Transact is finished exactly once - committed iff every step returned nil
// without panicking, rolled back otherwise, no step after the first failure, and
// the caller learns the first failure (or a failing commit).
//
// gorm runs on two in-memory fakes, chosen per case:
//
//	"pool"   a gorm.ConnPool implementing gorm.ConnPoolBeginner whose transaction
//	         object implements gorm.TxCommitter; every Begin/Commit/Rollback/Exec
//	         *call* gorm makes is logged, so a second finish is visible;
//	"sqldrv" an in-process database/sql driver (driver.Connector, ConnBeginTx,
//	         ExecerContext, driver.Tx) below a real *sql.DB, which is what
//	         gorm's MySQL dialector normally sits on; the log is what a database
//	         server would see.
//
// The db handed to Transact may carry a context (Case.Ctx): the in-memory pool
// ignores it (like any pool that is not database/sql, it never finishes a
// transaction by itself), database/sql refuses to begin on a finished context and
// rolls a begun transaction back from its own goroutine once the context is over.
//
// Both run under mysql.New(mysql.Config{Conn: …, SkipInitializeWithVersion: true}).
package c18transact

import (
	"context"
	"database/sql"
	"database/sql/driver"
	"errors"
	"fmt"
	"io"
	"net/http"
	"os"
	"runtime"
	"strconv"
	"strings"
	"sync"
	"time"

	mysqldrv "github.com/go-sql-driver/mysql"
	"github.com/pinealctx/neptune/store/gormx"
	"github.com/pinealctx/neptune/ulog"
	"go.uber.org/zap/zapcore"
	"gorm.io/driver/mysql"
	"gorm.io/gorm"
	"gorm.io/gorm/logger"
	"pgregory.net/rapid"

	"verifharness/vkit"
)

const Property = "C18"

func init() { ulog.SetLogLevel(zapcore.FatalLevel + 1) }

// ---------------------------------------------------------------------------
// case = data

// Step kinds. A leaf step first records that it was called, then issues one
// Exec("STEP i") through the *gorm.DB it was handed (i = index of the leaf in
// depth-first order), then behaves as its kind says.
const (
	KOk       = "ok"       // return nil
	KErr      = "err"      // return stepError{i}
	KPanic    = "panic"    // panic(value chosen by PV)
	KExecFail = "execfail" // the fake makes Exec("STEP i") fail; the step returns gorm's error
	KGroup    = "group"    // gormx.Combine(Sub...)
	KGoexit   = "goexit"   // runtime.Goexit(): the goroutine running Transact ends inside the step
	KAddErr   = "adderr"   // leaves an error on the handle (txn.AddError(stepError{i})) and returns nil: not a failure
)

// Error values of an "err" step (Step.PV): besides the injected stepError{i} ("") the
// sentinels and driver errors a real step hands back.
const (
	PVDup         = "dup"         // *mysql.MySQLError 1062, duplicate entry
	EVNotFound    = "notfound"    // gorm.ErrRecordNotFound
	EVNoRows      = "norows"      // sql.ErrNoRows
	EVTxDone      = "txdone"      // sql.ErrTxDone
	EVCanceled    = "canceled"    // context.Canceled (whatever the context of the db)
	EVDeadline    = "deadline"    // context.DeadlineExceeded (whatever the context of the db)
	EVBadConn     = "badconn"     // driver.ErrBadConn
	EVInvalidConn = "invalidconn" // mysql.ErrInvalidConn
	EVDeadlock    = "my1213"      // *mysql.MySQLError 1213, deadlock victim
	EVLockWait    = "my1205"      // *mysql.MySQLError 1205, lock wait timeout
)

// second audit round: more sentinels, and values that must not be touched
const (
	EVDupKey    = "dupkey"    // gorm.ErrDuplicatedKey (what gorm reports for 1062 under TranslateError)
	EVInvalidTx = "invalidtx" // gorm.ErrInvalidTransaction
	EVConnDone  = "conndone"  // sql.ErrConnDone
	EVEOF       = "eof"       // io.EOF
	EVUEOF      = "ueof"      // io.ErrUnexpectedEOF
	EVMy1105    = "my1105"    // *mysql.MySQLError 1105, unknown error
	EVMy1452    = "my1452"    // *mysql.MySQLError 1452, foreign key constraint fails
	// error values whose own Error() method panics: nobody may format them, the caller gets them back as they are
	EVNilErr = "nilerr" // (*mysql.MySQLError)(nil): a non-nil error whose Error() dereferences nil
	EVBadErr = "baderr" // badError{i}: Error() panics
	// prefixes: the value wrapped once more
	EVWrap = "wrap:" // fmt.Errorf("step %d: %w", i, value)
	EVJoin = "join:" // errors.Join(stepError{i}, value)
)

// errKinds: the error values that can be wrapped (their Error() is harmless); errKindsAll adds the two that cannot.
var errKinds = []string{"", PVDup, EVNotFound, EVNoRows, EVTxDone, EVCanceled, EVDeadline, EVBadConn, EVInvalidConn, EVDeadlock, EVLockWait,
	EVDupKey, EVInvalidTx, EVConnDone, EVEOF, EVUEOF, EVMy1105, EVMy1452}

var errKindsAll = append(append([]string(nil), errKinds...), EVNilErr, EVBadErr)

// execFailKinds: what the fake makes Exec("STEP i") report for an "execfail" step ("" = the injected execError{i});
// MySQL errors travel up through gorm, which rewrites 1062 into gorm.ErrDuplicatedKey when the db was opened with
// TranslateError - the step then really returns the translated sentinel.
var execFailKinds = []string{"", PVDup, EVDeadlock, EVLockWait, EVMy1105, EVMy1452}

type badError struct{ N int }

func (b badError) Error() string { panic(fmt.Sprintf("badError %d: Error() called", b.N)) }

// stepErrValue is the error leaf i returns for error kind pv.
func stepErrValue(pv string, i int) error {
	if strings.HasPrefix(pv, EVWrap) {
		return fmt.Errorf("step %d: %w", i, stepErrValue(pv[len(EVWrap):], i))
	}
	if strings.HasPrefix(pv, EVJoin) {
		return errors.Join(stepError{i}, stepErrValue(pv[len(EVJoin):], i))
	}
	switch pv {
	case EVDupKey:
		return gorm.ErrDuplicatedKey
	case EVInvalidTx:
		return gorm.ErrInvalidTransaction
	case EVConnDone:
		return sql.ErrConnDone
	case EVEOF:
		return io.EOF
	case EVUEOF:
		return io.ErrUnexpectedEOF
	case EVMy1105:
		return &mysqldrv.MySQLError{Number: 1105, Message: fmt.Sprintf("Unknown error (step %d)", i)}
	case EVMy1452:
		return &mysqldrv.MySQLError{Number: 1452, Message: fmt.Sprintf("Cannot add or update a child row: a foreign key constraint fails (step %d)", i)}
	case EVNilErr:
		return (*mysqldrv.MySQLError)(nil)
	case EVBadErr:
		return badError{i}
	case PVDup:
		// what a duplicate-key INSERT reports: callers look for it with errors.As / IsDupError
		return &mysqldrv.MySQLError{Number: 1062, Message: fmt.Sprintf("Duplicate entry of step %d", i)}
	case EVDeadlock:
		return &mysqldrv.MySQLError{Number: 1213, Message: fmt.Sprintf("Deadlock found when trying to get lock (step %d)", i)}
	case EVLockWait:
		return &mysqldrv.MySQLError{Number: 1205, Message: fmt.Sprintf("Lock wait timeout exceeded (step %d)", i)}
	case EVNotFound:
		return gorm.ErrRecordNotFound
	case EVNoRows:
		return sql.ErrNoRows
	case EVTxDone:
		return sql.ErrTxDone
	case EVCanceled:
		return context.Canceled
	case EVDeadline:
		return context.DeadlineExceeded
	case EVBadConn:
		return driver.ErrBadConn
	case EVInvalidConn:
		return mysqldrv.ErrInvalidConn
	}
	return stepError{i}
}

// Panic value kinds.
const (
	PVString  = "string"  // panic("pv<i>x")
	PVError   = "error"   // panic(errors.New("pv<i>x"))
	PVInt     = "int"     // panic(7310000+i)
	PVStruct  = "struct"  // panic(struct{Tok string; N int}{"pv<i>x", i})
	PVNil     = "nil"     // panic(nil)  (a *runtime.PanicNilError since Go 1.21)
	PVRuntime = "runtime" // a genuine run-time panic: index out of range
	// values whose own Error()/String() method panics when a handler formats them
	PVNilErr      = "nilerr"      // panic((*mysql.MySQLError)(nil)): an error whose Error() dereferences nil
	PVBadStringer = "badstringer" // panic(badStringer{i}): String() panics
	// well-known sentinel VALUES (by identity) that some conventions treat specially
	PVAbortHandler = "aborthandler" // panic(http.ErrAbortHandler)
	PVCtxCanceled  = "pcanceled"    // panic(context.Canceled)
	PVNotFound     = "pnotfound"    // panic(gorm.ErrRecordNotFound)
	PVEOF          = "peof"         // panic(io.EOF)
	PVNilDeref     = "nilderef"     // a genuine nil pointer dereference (runtime.Error)
)

type badStringer struct{ N int }

func (b badStringer) String() string { panic(fmt.Sprintf("badStringer %d: String() called", b.N)) }

type Step struct {
	Kind string `json:"kind"`
	PV   string `json:"pv,omitempty"`
	Sub  []Step `json:"sub,omitempty"`
}

// Context modes of the *gorm.DB handed to Transact.
const (
	CtxNone      = "none"      // db as opened (context.Background()); also the meaning of ""
	CtxLive      = "live"      // db.WithContext(cancellable context), never cancelled while Transact runs
	CtxCancelled = "cancelled" // cancelled before Transact is called
	CtxDeadline  = "deadline"  // deadline long expired before Transact is called
	CtxStep      = "step"      // leaf CancelAt cancels it right after its Exec, then behaves as its kind
)

var CtxModes = []string{CtxNone, CtxLive, CtxCancelled, CtxDeadline, CtxStep}

type Case struct {
	Backend   string `json:"backend"` // "pool" | "sqldrv"
	Steps     []Step `json:"steps"`   // the fnList handed to Transact
	Ctx       string `json:"ctx,omitempty"`
	CancelAt  int    `json:"cancel_at,omitempty"` // Ctx "step": number of the cancelling leaf
	BeginFail bool   `json:"begin_fail"`
	// BeginErr: what a failing begin reports - "" an injected error value, "invalidconn" the MySQL driver's
	// ErrInvalidConn (the one a dropped connection produces). BeginOnce: only the first begin attempt fails.
	// "badconn" driver.ErrBadConn and "conndone" sql.ErrConnDone only on the "pool" back-end (database/sql retries
	// ErrBadConn by itself, which would show begin attempts that are not Transact's doing).
	BeginErr  string `json:"begin_err,omitempty"`
	BeginOnce bool   `json:"begin_once,omitempty"`
	// CommitErr: what a failing commit reports - "" an injected error value, "invalidconn", "badconn".
	CommitErr string `json:"commit_err,omitempty"`
	// EmptySlice: with no steps, Transact is handed an empty non-nil slice ([]GormProcFn{}...) instead of nothing.
	EmptySlice bool `json:"empty_slice,omitempty"`
	// Twice: Transact is invoked a second time with the SAME step functions / Combine values (fresh fake, fresh
	// event log, same oracle): a GormProcFn that keeps state between invocations shows.
	Twice bool `json:"twice,omitempty"`
	// how the db is opened and which handle of it is handed to Transact
	OpenCfg
	CommitFail   bool `json:"commit_fail"`
	RollbackFail bool `json:"rollback_fail"`
	// RollbackErr: what a failing rollback reports - "" an injected error value, "badconn", "invalidconn", "conndone",
	// "canceled", "deadline"
	RollbackErr string `json:"rollback_err,omitempty"`
}

// OpenCfg: the gorm.Config the db is opened with and the kind of handle handed to Transact.
type OpenCfg struct {
	// Translate: gorm.Config{TranslateError: true} (gorm then rewrites driver errors it adds itself - a step's own
	// error must still come back unchanged)
	Translate bool `json:"translate,omitempty"`
	// SkipDefTx: gorm.Config{SkipDefaultTransaction: true}: gorm no longer wraps single writes; Transact's own
	// transaction is as owed as ever
	SkipDefTx bool `json:"skip_default_tx,omitempty"`
	// PrepareStmt: gorm.Config{PrepareStmt: true} (database/sql fake only: gorm's prepared-statement pool begins
	// transactions on a *sql.DB only); statements then reach the driver through Prepare + Stmt.Exec
	PrepareStmt bool `json:"prepare_stmt,omitempty"`
	// DryRun: gorm.Config{DryRun: true}: gorm builds statements without executing them - Begin/Commit/Rollback are
	// executed all the same, the Exec of a step does not reach the fake
	DryRun bool `json:"dry_run,omitempty"`
	// Handle: "" the db as opened, or a derived handle (see Handles)
	Handle string `json:"handle,omitempty"`
}

// Handles: the kinds of *gorm.DB derived from the opened db that are handed to Transact.
var Handles = []string{"", "session", "newdb", "debug", "where", "sessskip"}

func makeHandle(db *gorm.DB, kind string) *gorm.DB {
	switch kind {
	case "session":
		return db.Session(&gorm.Session{})
	case "newdb":
		return db.Session(&gorm.Session{NewDB: true})
	case "debug":
		return db.Debug() // the logger writes to io.Discard
	case "where":
		return db.Where("a = ?", 1) // a chained handle carrying a condition
	case "sessskip":
		return db.Session(&gorm.Session{SkipDefaultTransaction: true})
	}
	return db
}

var rollbackErrKinds = []string{"", "badconn", "invalidconn", "conndone", "canceled", "deadline"}

// rollbackError is the error a failing rollback reports.
func rollbackError(kind string) error {
	switch kind {
	case "badconn":
		return driver.ErrBadConn
	case "invalidconn":
		return mysqldrv.ErrInvalidConn
	case "conndone":
		return sql.ErrConnDone
	case "canceled":
		return context.Canceled
	case "deadline":
		return context.DeadlineExceeded
	}
	return txError{"rollback"}
}

var Backends = []string{"pool", "sqldrv"}

// ---------------------------------------------------------------------------
// injected errors (comparable values, so errors.Is works by ==; none is global state)

type stepError struct{ Idx int }

func (e stepError) Error() string { return fmt.Sprintf("injected step error #%d", e.Idx) }

type execError struct{ Idx int }

func (e execError) Error() string { return fmt.Sprintf("injected exec failure of STEP %d", e.Idx) }

type txError struct{ Op string }

func (e txError) Error() string { return "injected " + e.Op + " failure" }

// beginError is the error a failing begin reports.
func beginError(kind string) error {
	switch kind {
	case "invalidconn":
		return mysqldrv.ErrInvalidConn
	case "badconn":
		return driver.ErrBadConn
	case "conndone":
		return sql.ErrConnDone
	}
	return txError{"begin"}
}

// commitError is the error a failing commit reports.
func commitError(kind string) error {
	switch kind {
	case "invalidconn":
		return mysqldrv.ErrInvalidConn
	case "badconn":
		return driver.ErrBadConn
	}
	return txError{"commit"}
}

type panicStruct struct {
	Tok string
	N   int
}

// ---------------------------------------------------------------------------
// the event log shared by both fakes

type faults struct {
	begin, commit, rollback bool
	beginErr                error // what a failing begin returns
	commitErr               error // what a failing commit returns
	rollbackErr             error // what a failing rollback returns
	beginOnce               bool  // only the first attempt fails
	beginTries              int
	exec                    map[string]error // query -> what its Exec reports
	quietPrepare            bool             // Prepare calls are expected (PrepareStmt) and not logged
}

// eventLog is written by the goroutine running Transact and, on the database/sql
// fake with a cancelled context, by database/sql's own rollback goroutine.
type eventLog struct {
	mu       sync.Mutex
	ev       []string
	f        faults
	finished chan struct{} // closed by the first Commit/Rollback that reaches the fake
	closed   bool
}

// reset starts a fresh log with new faults on the same fake (several Transact calls on one *gorm.DB).
func (l *eventLog) reset(f faults) {
	l.mu.Lock()
	l.ev, l.f, l.finished, l.closed = nil, f, make(chan struct{}), false
	l.mu.Unlock()
}

func (l *eventLog) done() chan struct{} {
	l.mu.Lock()
	defer l.mu.Unlock()
	return l.finished
}

func (l *eventLog) add(format string, args ...any) {
	l.mu.Lock()
	l.ev = append(l.ev, fmt.Sprintf(format, args...))
	l.mu.Unlock()
}

func (l *eventLog) snapshot() []string {
	l.mu.Lock()
	defer l.mu.Unlock()
	return append([]string(nil), l.ev...)
}

func (l *eventLog) has(ev string) bool {
	for _, e := range l.snapshot() {
		if e == ev {
			return true
		}
	}
	return false
}

func (l *eventLog) finish() {
	l.mu.Lock()
	if !l.closed {
		l.closed = true
		close(l.finished)
	}
	l.mu.Unlock()
}

func (l *eventLog) begin() error {
	l.mu.Lock()
	l.f.beginTries++
	fail := l.f.begin && (!l.f.beginOnce || l.f.beginTries == 1)
	l.mu.Unlock()
	if fail {
		l.add("Begin!fail")
		return l.f.beginErr
	}
	l.add("Begin")
	return nil
}

func (l *eventLog) commit() error {
	defer l.finish()
	if l.f.commit {
		l.add("Commit!fail")
		return l.f.commitErr
	}
	l.add("Commit")
	return nil
}

func (l *eventLog) rollback() error {
	defer l.finish()
	if l.f.rollback {
		l.add("Rollback!fail")
		return l.f.rollbackErr
	}
	l.add("Rollback")
	return nil
}

func (l *eventLog) exec(where, query string) error {
	if e, bad := l.f.exec[query]; bad {
		l.add("%sExec %s!fail", where, query)
		return e
	}
	l.add("%sExec %s", where, query)
	return nil
}

// ---------------------------------------------------------------------------
// fake (a): gorm.ConnPool + ConnPoolBeginner; its transactions are TxCommitters

type memPool struct{ log *eventLog }

var (
	_ gorm.ConnPool         = (*memPool)(nil)
	_ gorm.ConnPoolBeginner = (*memPool)(nil)
	_ gorm.ConnPool         = (*memTx)(nil)
	_ gorm.TxCommitter      = (*memTx)(nil)
)

var errNotSupported = errors.New("c18 fake: operation not supported")

func (p *memPool) PrepareContext(_ context.Context, q string) (*sql.Stmt, error) {
	p.log.add("Pool.Prepare %s", q)
	return nil, errNotSupported
}

// ExecContext on the pool itself is an Exec outside the transaction.
func (p *memPool) ExecContext(_ context.Context, q string, _ ...interface{}) (sql.Result, error) {
	if err := p.log.exec("Pool.", q); err != nil {
		return nil, err
	}
	return driver.RowsAffected(0), nil
}

func (p *memPool) QueryContext(_ context.Context, q string, _ ...interface{}) (*sql.Rows, error) {
	p.log.add("Pool.Query %s", q)
	return nil, errNotSupported
}

func (p *memPool) QueryRowContext(_ context.Context, q string, _ ...interface{}) *sql.Row {
	p.log.add("Pool.QueryRow %s", q)
	return nil
}

func (p *memPool) BeginTx(_ context.Context, _ *sql.TxOptions) (gorm.ConnPool, error) {
	if err := p.log.begin(); err != nil {
		return nil, err
	}
	return &memTx{log: p.log}, nil
}

type memTx struct{ log *eventLog }

func (x *memTx) PrepareContext(_ context.Context, q string) (*sql.Stmt, error) {
	x.log.add("Prepare %s", q)
	return nil, errNotSupported
}

func (x *memTx) ExecContext(_ context.Context, q string, _ ...interface{}) (sql.Result, error) {
	if err := x.log.exec("", q); err != nil {
		return nil, err
	}
	return driver.RowsAffected(0), nil
}

func (x *memTx) QueryContext(_ context.Context, q string, _ ...interface{}) (*sql.Rows, error) {
	x.log.add("Query %s", q)
	return nil, errNotSupported
}

func (x *memTx) QueryRowContext(_ context.Context, q string, _ ...interface{}) *sql.Row {
	x.log.add("QueryRow %s", q)
	return nil
}

func (x *memTx) Commit() error   { return x.log.commit() }
func (x *memTx) Rollback() error { return x.log.rollback() }

// ---------------------------------------------------------------------------
// fake (b): a database/sql driver

type sqlConnector struct{ log *eventLog }

func (c *sqlConnector) Connect(context.Context) (driver.Conn, error) {
	return &sqlConn{log: c.log}, nil
}
func (c *sqlConnector) Driver() driver.Driver { return sqlDriver{c} }

type sqlDriver struct{ c *sqlConnector }

func (d sqlDriver) Open(string) (driver.Conn, error) { return d.c.Connect(context.Background()) }

type sqlConn struct {
	log  *eventLog
	inTx bool
}

var (
	_ driver.ConnBeginTx   = (*sqlConn)(nil)
	_ driver.ExecerContext = (*sqlConn)(nil)
)

func (c *sqlConn) Prepare(q string) (driver.Stmt, error) {
	if c.log.f.quietPrepare {
		return &sqlStmt{c, q}, nil
	}
	c.log.add("Prepare %s", q)
	return nil, errNotSupported
}

// sqlStmt: a prepared statement of the database/sql fake; its Exec is the Exec of its query.
type sqlStmt struct {
	c *sqlConn
	q string
}

func (s *sqlStmt) Close() error  { return nil }
func (s *sqlStmt) NumInput() int { return -1 }
func (s *sqlStmt) Exec([]driver.Value) (driver.Result, error) {
	return s.c.ExecContext(context.Background(), s.q, nil)
}
func (s *sqlStmt) Query([]driver.Value) (driver.Rows, error) {
	s.c.log.add("Query %s", s.q)
	return nil, errNotSupported
}
func (c *sqlConn) Close() error { return nil }
func (c *sqlConn) Begin() (driver.Tx, error) {
	return c.BeginTx(context.Background(), driver.TxOptions{})
}

func (c *sqlConn) BeginTx(context.Context, driver.TxOptions) (driver.Tx, error) {
	if err := c.log.begin(); err != nil {
		return nil, err
	}
	c.inTx = true
	return &sqlTx{c}, nil
}

func (c *sqlConn) ExecContext(_ context.Context, q string, _ []driver.NamedValue) (driver.Result, error) {
	where := ""
	if !c.inTx {
		where = "Pool." // reached the server outside the transaction
	}
	if err := c.log.exec(where, q); err != nil {
		return nil, err
	}
	return driver.RowsAffected(0), nil
}

type sqlTx struct{ c *sqlConn }

func (x *sqlTx) Commit() error   { x.c.inTx = false; return x.c.log.commit() }
func (x *sqlTx) Rollback() error { x.c.inTx = false; return x.c.log.rollback() }

// ---------------------------------------------------------------------------
// opening gorm on a fake

func openGorm(backend string, log *eventLog, cfg OpenCfg) (db *gorm.DB, closeFn func(), err error) {
	closeFn = func() {}
	var pool gorm.ConnPool
	switch backend {
	case "sqldrv":
		sdb := sql.OpenDB(&sqlConnector{log: log})
		closeFn = func() { _ = sdb.Close() }
		pool = sdb
	default:
		pool = &memPool{log: log}
	}
	db, err = gorm.Open(mysql.New(mysql.Config{Conn: pool, SkipInitializeWithVersion: true}),
		&gorm.Config{Logger: logger.Discard, DisableAutomaticPing: true, TranslateError: cfg.Translate,
			SkipDefaultTransaction: cfg.SkipDefTx, PrepareStmt: cfg.PrepareStmt && backend == "sqldrv", DryRun: cfg.DryRun})
	return db, closeFn, err
}

// ---------------------------------------------------------------------------
// the reference: what the statement says must happen

type leaf struct {
	kind, pv string
}

// flatten numbers the leaves depth-first; unknown kinds are dropped (and reported).
func flatten(steps []Step, out []leaf, skipped *[]string) []leaf {
	for _, s := range steps {
		switch s.Kind {
		case KGroup:
			out = flatten(s.Sub, out, skipped)
		case KOk, KErr, KPanic, KExecFail, KGoexit, KAddErr:
			out = append(out, leaf{s.Kind, s.PV})
		default:
			*skipped = append(*skipped, "unknown step kind")
		}
	}
	return out
}

func panicValue(pv string, i int) (v any, token string) {
	tok := fmt.Sprintf("pv%dx", i)
	switch pv {
	case PVError:
		return errors.New(tok), tok
	case PVInt:
		return 7310000 + i, fmt.Sprint(7310000 + i)
	case PVStruct:
		return panicStruct{tok, i}, tok
	case PVNil:
		return nil, ""
	case PVRuntime:
		return nil, "index out of range"
	case PVNilDeref:
		return nil, "nil pointer dereference"
	case PVAbortHandler:
		return http.ErrAbortHandler, http.ErrAbortHandler.Error()
	case PVCtxCanceled:
		return context.Canceled, context.Canceled.Error()
	case PVNotFound:
		return gorm.ErrRecordNotFound, gorm.ErrRecordNotFound.Error()
	case PVEOF:
		return io.EOF, io.EOF.Error()
	case PVNilErr:
		return (*mysqldrv.MySQLError)(nil), ""
	case PVBadStringer:
		return badStringer{i}, ""
	default:
		return tok, tok
	}
}

// run is the per-case recorder the step closures write to.
type run struct {
	log       *eventLog
	leaves    []leaf
	next      int           // next leaf number while building
	returned  map[int]error // what leaf i returned (execfail returns gorm's error)
	cancelAt  int           // leaf that cancels the context after its Exec (-1: none)
	cancel    context.CancelFunc
	cancelled bool // the cancelling step really ran (harness fact, not the model)
	goexited  int  // the leaf that ended the goroutine with runtime.Goexit (-1: none; harness fact)
}

func (r *run) build(steps []Step) []gormx.GormProcFn {
	var fns []gormx.GormProcFn
	for _, s := range steps {
		switch s.Kind {
		case KGroup:
			fns = append(fns, gormx.Combine(r.build(s.Sub)...))
		case KOk, KErr, KPanic, KExecFail, KGoexit, KAddErr:
			fns = append(fns, r.leafFn(r.next, s))
			r.next++
		}
	}
	return fns
}

func (r *run) leafFn(i int, s Step) gormx.GormProcFn {
	return func(txn *gorm.DB) error {
		r.log.add("Call %d", i)
		execErr := txn.Exec(fmt.Sprintf("STEP %d", i)).Error
		if i == r.cancelAt && r.cancel != nil {
			r.cancel() // the context of the db handed to Transact is over from here on
			r.cancelled = true
		}
		switch s.Kind {
		case KErr:
			e := stepErrValue(s.PV, i)
			r.returned[i] = e
			return e
		case KAddErr:
			_ = txn.AddError(stepError{i}) // the handle now carries an error; the step itself succeeds
			return nil
		case KGoexit:
			r.goexited = i
			runtime.Goexit()
		case KPanic:
			if s.PV == PVRuntime {
				var empty []int
				_ = empty[i+5]
			}
			if s.PV == PVNilDeref {
				var np *panicStruct
				_ = np.N
			}
			v, _ := panicValue(s.PV, i)
			panic(v)
		case KExecFail:
			r.returned[i] = execErr
			return execErr
		}
		return nil
	}
}

const never = int(^uint(0) >> 1) // "the context is never cancelled"

// asyncWait bounds the wait for database/sql's own rollback goroutine; running
// into it is an infrastructure outcome (exit 2), never a verdict.
var asyncWait = 60 * time.Second

func infra(format string, args ...any) {
	fmt.Printf("VERIF-INFRA: c18transact: "+format+"\n", args...)
	os.Exit(2)
}

// stepIndex parses "Call 3", "Exec STEP 3", "Exec STEP 3!fail".
func stepIndex(ev string) int {
	ev = strings.TrimSuffix(ev, "!fail")
	i := strings.LastIndexByte(ev, ' ')
	n, err := strconv.Atoi(ev[i+1:])
	if err != nil {
		return -1
	}
	return n
}

// Exec runs one case and judges it.
func Exec(c Case) *vkit.Result {
	res := &vkit.Result{}
	backend := c.Backend
	if backend != "pool" && backend != "sqldrv" {
		res.Skip("unknown backend (ran on pool)")
		backend = "pool"
	}
	mode := c.Ctx
	switch mode {
	case "":
		mode = CtxNone
	case CtxNone, CtxLive, CtxCancelled, CtxDeadline, CtxStep:
	default:
		res.Skip("unknown context mode (ran without a context)")
		mode = CtxNone
	}
	c = normalize(c, backend, res)
	var leaves []leaf
	leaves = flatten(c.Steps, leaves, &res.Skipped)
	r := &run{leaves: leaves, cancelAt: -1, goexited: -1}
	// the step functions and Combine values are built once; a second invocation (Twice) reuses them
	fns := r.build(c.Steps)
	if len(fns) == 0 && c.EmptySlice {
		fns = []gormx.GormProcFn{}
	}
	execPass(c, backend, mode, r, fns, res, nil)
	if c.Twice && res.Fail == nil {
		res.Class("invoked twice with the same step values")
		execPass(c, backend, mode, r, fns, res, nil)
		if res.Fail != nil {
			res.Fail.Msg = "at the SECOND invocation of Transact with the same step functions / Combine values: " + res.Fail.Msg
		}
	}
	return res
}

// normalize drops the combinations the fakes cannot serve (each is counted as skipped).
func normalize(c Case, backend string, res *vkit.Result) Case {
	if backend == "sqldrv" && (c.BeginErr == "badconn" || c.BeginErr == "conndone") {
		// database/sql would retry the begin by itself: those attempts are not Transact's doing
		res.Skip("begin error " + c.BeginErr + " on the database/sql fake (ran with the injected error value)")
		c.BeginErr = ""
	}
	if backend != "sqldrv" && c.PrepareStmt {
		// gorm's prepared-statement pool begins transactions on a *sql.DB only
		res.Skip("PrepareStmt on the in-memory pool (ran without it)")
		c.PrepareStmt = false
	}
	if c.DryRun {
		var leaves []leaf
		var dummy []string
		for _, l := range flatten(c.Steps, leaves, &dummy) {
			if l.kind == KExecFail {
				// no statement reaches the fake, so it cannot make one fail
				res.Skip("DryRun with a step whose Exec is to fail (ran without DryRun)")
				c.DryRun = false
				break
			}
		}
	}
	known := false
	for _, h := range Handles {
		known = known || h == c.Handle
	}
	if !known {
		res.Skip("unknown handle kind (ran on the db as opened)")
		c.Handle = ""
	}
	return c
}

// session: one opened db and the handle of it that is handed to Transact, used for several calls in a row.
type session struct {
	log     *eventLog
	root    *gorm.DB // as opened
	handle  *gorm.DB // as handed to Transact (before the per-call context)
	closeFn func()
	// sched watches the goroutines of the calls that contain a step ending its goroutine. It is made BEFORE the db
	// is opened, so that everything the db and earlier calls on it leave running (database/sql's own rollback of a
	// cancelled transaction, gorm closing a prepared statement) counts as part of the case: a Transact that waits
	// for a mutex such a goroutine still holds is not parked for ever.
	sched *vkit.Sched
}

func openSession(backend string, cfg OpenCfg, log *eventLog, watch bool) *session {
	var sched *vkit.Sched
	if watch {
		sched = vkit.NewSched()
	}
	db, closeFn, err := openGorm(backend, log, cfg)
	if err != nil {
		panic(fmt.Sprintf("harness: gorm.Open on the %s fake failed: %v", backend, err))
	}
	if len(log.snapshot()) != 0 {
		panic(fmt.Sprintf("harness: gorm.Open touched the fake: %v", log.snapshot()))
	}
	return &session{log: log, root: db, handle: makeHandle(db, cfg.Handle), closeFn: closeFn, sched: sched}
}

// execPass invokes Transact once and judges that invocation: on a fresh fake with a
// fresh event log (sess == nil), or as the next call on the db of sess with the log
// started afresh.
func execPass(c Case, backend, mode string, r *run, fns []gormx.GormProcFn, res *vkit.Result, sess *session) *vkit.Result {
	leaves := r.leaves
	f := faults{begin: c.BeginFail, commit: c.CommitFail, rollback: c.RollbackFail, exec: map[string]error{},
		beginErr: beginError(c.BeginErr), beginOnce: c.BeginOnce, commitErr: commitError(c.CommitErr),
		rollbackErr: rollbackError(c.RollbackErr), quietPrepare: c.PrepareStmt && backend == "sqldrv"}
	for i, l := range leaves {
		if l.kind == KExecFail {
			var e error = execError{i}
			if l.pv != "" {
				e = stepErrValue(l.pv, i) // a MySQL error below gorm
			}
			f.exec[fmt.Sprintf("STEP %d", i)] = e
		}
	}
	ownGoroutine := false
	for _, l := range leaves {
		ownGoroutine = ownGoroutine || l.kind == KGoexit
	}
	var log *eventLog
	if sess == nil {
		log = &eventLog{finished: make(chan struct{}), f: f}
		sess = openSession(backend, c.OpenCfg, log, ownGoroutine)
		defer sess.closeFn()
	} else {
		log = sess.log
		log.reset(f)
	}
	r.log, r.returned, r.cancelAt, r.cancel, r.cancelled, r.goexited = log, map[int]error{}, -1, nil, false, -1
	db := sess.handle
	if db.Error != nil || sess.root.Error != nil {
		panic("harness: the handle carries an error before Transact is called")
	}

	// ---- the context of the db handed to Transact ------------------------------
	switch mode {
	case CtxLive, CtxStep, CtxCancelled:
		ctx, cancel := context.WithCancel(context.Background())
		defer cancel()
		if mode == CtxCancelled {
			cancel()
		}
		if mode == CtxStep {
			r.cancelAt, r.cancel = c.CancelAt, cancel
		}
		db = db.WithContext(ctx)
	case CtxDeadline:
		ctx, cancel := context.WithDeadline(context.Background(), time.Unix(1, 0)) // long past: Err() is DeadlineExceeded at once
		defer cancel()
		db = db.WithContext(ctx)
	}

	// Transact must leave the handle it was handed as it found it (without an error): callers keep using it,
	// and a handle that carries an error makes every later Begin through it fail after the transaction was opened.
	// Judged last, when the statement's own clauses found nothing.
	handed := db
	defer func() {
		if res.Fail == nil && (handed.Error != nil || sess.handle.Error != nil || sess.root.Error != nil) {
			res.Failf("handle/error-left", "Transact left an error on the *gorm.DB of its caller (%v): every later transaction through that handle is lost\n backend %s, observed events: %v",
				firstErr(handed.Error, sess.handle.Error, sess.root.Error), backend, log.snapshot())
		}
	}()

	// ---- run -----------------------------------------------------------------
	// When some step ends its goroutine (runtime.Goexit) Transact never returns to its
	// caller: it then runs on a goroutine of its own, and the wait below ends when that
	// goroutine ends, whichever way.
	var got error
	var escaped any
	outcome := "goexit" // "returned" | "panic" | "goexit"
	done := make(chan struct{})
	call := func() {
		defer close(done)
		defer func() {
			if outcome != "returned" {
				if v := recover(); v != nil {
					escaped, outcome = v, "panic"
				}
			}
		}()
		if len(fns) == 0 && !c.EmptySlice {
			got = gormx.Transact(db)
		} else {
			got = gormx.Transact(db, fns...)
		}
		outcome = "returned"
	}
	if ownGoroutine {
		// Nothing may keep Transact from coming to an end: its goroutine is watched through goroutine snapshots
		// (no timer is in play in a case). Once everything the case started is parked or gone, a Transact that
		// has neither returned nor ended can never do so - decided from the snapshot, not waited for.
		sched := sess.sched
		if sched == nil {
			panic("harness: a call with a step that ends its goroutine on a session without a watcher")
		}
		op := sched.Go("Transact", call)
		parked, qerr := sched.Quiesce()
		if qerr != nil {
			vkit.Infra("c18transact: %v", qerr)
		}
		if !op.Done() {
			states := ""
			for _, g := range parked {
				states += fmt.Sprintf(" [goroutine %d: %s]", g.ID, g.State)
			}
			return res.Failf("blocks", "Transact neither returned nor let its goroutine end after a step called runtime.Goexit: it waits for something nobody is left to provide (goroutines of the case, all parked:%s)\n backend %s, observed events: %v",
				states, backend, log.snapshot())
		}
	} else {
		call()
	}
	<-done
	didEscape := outcome == "panic"
	// Under database/sql a transaction whose context is over is rolled back by
	// database/sql's own goroutine (Tx.awaitDone), possibly after Transact returned.
	// That goroutine is certain to finish the transaction whatever Transact did, so
	// this wait always ends; the time limit is only a safety net.
	ctxOver := mode == CtxCancelled || mode == CtxDeadline || r.cancelled
	async := backend == "sqldrv" && ctxOver
	if async && log.has("Begin") {
		select {
		case <-log.done():
		default:
			res.Class("sqldrv: finish still outstanding when Transact returned (database/sql's own rollback)")
		}
		select {
		case <-log.done():
		case <-time.After(asyncWait):
			infra("database/sql did not finish the transaction of a cancelled context within %v (case %+v)", asyncWait, c)
		}
	}
	events := log.snapshot()

	// ---- the model --------------------------------------------------------------
	nTop := len(fns)
	first := -1 // first failing leaf (a step that leaves an error on the handle and returns nil has not failed)
	for i, l := range leaves {
		if l.kind != KOk && l.kind != KAddErr {
			first = i
			break
		}
	}
	last := len(leaves) - 1 // last leaf that must run
	if first >= 0 {
		last = first
	}
	// handleErr: the first leaf <= last that leaves an error on the handle. gorm itself drops every later
	// statement issued through that handle, and hands the error back from Commit: the steps behind it still
	// run, their Exec need not reach the fake, and the result of a committed transaction is unconstrained.
	handleErr := never
	for i := 0; i <= last; i++ {
		if leaves[i].kind == KAddErr {
			handleErr = i
			break
		}
	}
	// cancelIdx: the leaf after whose Exec the context is over (-1: before Transact)
	cancelIdx := never
	switch {
	case mode == CtxCancelled || mode == CtxDeadline:
		cancelIdx = -1
	case mode == CtxStep && c.CancelAt >= 0 && c.CancelAt <= last:
		cancelIdx = c.CancelAt
	}
	ctxDone := cancelIdx != never // over by the time the transaction has to be finished
	wantCommit, wantRollback := "Commit", "Rollback"
	if c.CommitFail {
		wantCommit = "Commit!fail"
	}
	if r.goexited >= 0 && outcome != "goexit" {
		panic(fmt.Sprintf("harness: step %d called runtime.Goexit, yet the goroutine went on (%s)", r.goexited, outcome))
	}
	if c.RollbackFail {
		wantRollback = "Rollback!fail"
	}
	execEvent := func(i int) string {
		if leaves[i].kind == KExecFail {
			return fmt.Sprintf("Exec STEP %d!fail", i)
		}
		return fmt.Sprintf("Exec STEP %d", i)
	}
	// under database/sql a statement issued on a cancelled context need not reach the driver
	// (nor one issued through a handle that carries an error, whatever the fake)
	// (nor any statement when the db was opened with DryRun)
	execOptional := func(i int) bool { return (backend == "sqldrv" && i > cancelIdx) || i > handleErr || c.DryRun }
	wantStepsUpTo := func(j int) []string {
		var w []string
		for i := 0; i <= j; i++ {
			w = append(w, fmt.Sprintf("Call %d", i))
			if !execOptional(i) {
				w = append(w, execEvent(i))
			}
		}
		return w
	}

	// ---- classes and the non-trivial rule ---------------------------------------
	res.Class("backend:" + backend)
	res.Class("ctx:" + mode)
	if c.Handle != "" {
		res.Class("handle:" + c.Handle)
	}
	if c.SkipDefTx {
		res.Class("config: SkipDefaultTransaction")
	}
	if c.PrepareStmt {
		res.Class("config: PrepareStmt")
	}
	if c.DryRun {
		res.Class("config: DryRun")
	}
	res.Class(fmt.Sprintf("top-level steps:%s", bucket(nTop)))
	beginRefused := backend == "sqldrv" && cancelIdx == -1 // database/sql refuses to begin on a finished context
	began := nTop > 0 && !c.BeginFail && !beginRefused
	switch {
	case nTop == 0 && c.EmptySlice:
		res.Class("no steps (empty non-nil list)")
	case nTop == 0:
		res.Class("no steps")
	case beginRefused:
		res.Class("sqldrv: begin refused, context already over")
	case c.BeginFail:
		res.Class("begin fails")
		if c.BeginErr != "" {
			res.Class("begin error: " + c.BeginErr)
		}
	case first < 0 && c.CommitFail:
		res.Class("all steps ok, commit fails")
		if c.CommitErr != "" {
			res.Class("commit error: " + c.CommitErr)
		}
	case first < 0:
		res.Class("all steps ok, commit ok")
	}
	if began && first >= 0 {
		l := leaves[first]
		res.Class("first failure: " + l.kind)
		if l.kind == KPanic {
			pv := l.pv
			if pv == "" {
				pv = PVString
			}
			res.Class("panic value: " + pv)
		}
		if l.kind == KErr && l.pv != "" {
			res.Class("error value: " + l.pv)
		}
		switch {
		case first == 0 && len(leaves) == 1:
			res.Class("failure at the only step")
		case first == 0:
			res.Class("failure at step 0, steps follow")
		case first == len(leaves)-1:
			res.Class("failure at the last step (>=1)")
		default:
			res.Class("failure in the middle")
		}
		if c.RollbackFail {
			res.Class("step fails and rollback fails")
			if c.RollbackErr != "" {
				res.Class("rollback error: " + c.RollbackErr)
			}
		}
		if l.kind == KExecFail && l.pv != "" {
			res.Class("exec fails with MySQL error: " + l.pv)
			if c.Translate && l.pv == PVDup {
				res.Class("exec fails with 1062 under TranslateError (the step returns gorm.ErrDuplicatedKey)")
			}
		}
		laterFail := false
		for _, l := range leaves[first+1:] {
			if l.kind != KOk {
				laterFail = true
			}
		}
		if laterFail {
			res.Class("a second failing step after the first")
		}
	}
	if began && ctxDone {
		switch {
		case first >= 0 && cancelIdx == first:
			res.Class("ctx over + failure: the failing step itself cancels (" + leaves[first].kind + ")")
		case first >= 0 && cancelIdx >= 0:
			res.Class("ctx over + failure: cancelled by an earlier step")
		case first >= 0:
			res.Class("ctx over + failure: over before Transact")
		case backend == "sqldrv":
			res.Class("ctx over + all steps ok (sqldrv: commit may be refused)")
		default:
			res.Class("ctx over + all steps ok (pool: commit owed)")
		}
		if first >= 0 {
			res.Class("ctx over + failure on " + backend)
		}
	}
	if began && handleErr != never {
		res.Class("a step leaves an error on the handle and returns nil")
	}
	if mode == CtxStep && cancelIdx == never {
		res.Class("ctx:step never reached (acts as live)")
	}
	if d := depth(c.Steps); d > 0 {
		res.Class(fmt.Sprintf("Combine depth:%s", bucket(d)))
		if hasEmptyGroup(c.Steps) {
			res.Class("empty Combine()")
		}
		if began && first >= 0 && insideGroup(c.Steps, first) {
			res.Class("first failure inside a Combine")
		}
	}
	res.NonTrivial = began && (first >= 1 || (first < 0 && c.CommitFail) || (first >= 0 && c.RollbackFail) || ctxDone)

	// ---- oracle -------------------------------------------------------------------
	show := func() string {
		ctxTxt := mode
		if mode == CtxStep {
			ctxTxt = fmt.Sprintf("cancelled by step %d after its Exec", c.CancelAt)
		}
		ret := fmt.Sprintf("%v", got)
		if outcome == "goexit" {
			ret = "(Transact did not return: its goroutine ended)"
		}
		return fmt.Sprintf("\n backend %s, context: %s\n observed events: %v\n returned error:  %s", backend, ctxTxt, events, ret)
	}
	if didEscape {
		return res.Failf("panic-escaped", "Transact let a panic escape: %v%s", fmt.Sprintf("%v", escaped), show())
	}
	if outcome == "goexit" && r.goexited < 0 {
		return res.Failf("goexit/unexpected", "the goroutine calling Transact ended inside Transact although no step ended it%s", show())
	}
	// no statement may reach the database outside the transaction, and gorm must not
	// need anything but Begin/Exec/Commit/Rollback here
	for _, e := range events {
		if strings.HasPrefix(e, "Pool.") || strings.HasPrefix(e, "Prepare") || strings.HasPrefix(e, "Query") {
			return res.Failf("events/outside-transaction", "event %q is not a call on the transaction%s", e, show())
		}
	}
	var begins, stepEv, finishes []string
	var calls []int
	for _, e := range events {
		switch {
		case strings.HasPrefix(e, "Begin"):
			begins = append(begins, e)
		case strings.HasPrefix(e, "Commit"), strings.HasPrefix(e, "Rollback"):
			finishes = append(finishes, e)
		case strings.HasPrefix(e, "Call "):
			calls = append(calls, stepIndex(e))
			stepEv = append(stepEv, e)
		default:
			if execOptional(stepIndex(e)) {
				continue
			}
			stepEv = append(stepEv, e)
		}
	}
	if nTop == 0 {
		if len(events) != 0 {
			return res.Failf("no-steps/events", "Transact without steps must not touch the database%s", show())
		}
		if got != nil {
			return res.Failf("no-steps/result", "Transact without steps returned %v, want nil", got)
		}
		return res
	}
	// -- begin
	if len(begins) > 1 {
		return res.Failf("begin/count", "%d begin attempts, want 1%s", len(begins), show())
	}
	if len(begins) == 0 && cancelIdx != -1 {
		return res.Failf("begin/count", "no begin attempt although steps were supplied%s", show())
	}
	// (with a context that is over before Transact is called, not even trying to begin
	// is within the statement: no transaction is started, so none has to be finished)
	if len(begins) == 1 {
		wantBegin := "Begin"
		if c.BeginFail {
			wantBegin = "Begin!fail"
		}
		if begins[0] != wantBegin {
			panic(fmt.Sprintf("harness: begin event %q, the fake should have produced %q", begins[0], wantBegin))
		}
	}
	if len(begins) == 0 || c.BeginFail {
		if len(stepEv) != 0 {
			return res.Failf("begin-fail/step-ran", "a step ran although no transaction was begun%s", show())
		}
		if len(finishes) != 0 {
			return res.Failf("begin-fail/finish", "a transaction that never began was finished%s", show())
		}
		if len(begins) == 1 && !errors.Is(got, beginError(c.BeginErr)) {
			return res.Failf("begin-fail/result", "result is not the begin error%s", show())
		}
		if got == nil {
			return res.Failf("begin-fail/result", "no transaction was begun, no step ran, yet Transact returned nil%s", show())
		}
		return res
	}
	if events[0] != "Begin" {
		return res.Failf("events/order", "Begin must come first%s", show())
	}
	// -- steps: 0..last once each, in order, none after the first failure. Once the
	// context is over, giving up before the remaining steps (and rolling back) is also
	// within the statement; committing without them is not.
	wantSteps := wantStepsUpTo(last)
	aborted := false
	if !equalStrings(stepEv, wantSteps) {
		j := len(calls) - 1
		if ctxDone && j >= cancelIdx && j < last && equalStrings(stepEv, wantStepsUpTo(j)) {
			aborted = true
			res.Class("gave up after the context was over")
		} else {
			site := "steps/order"
			if len(stepEv) > len(wantSteps) && equalStrings(stepEv[:len(wantSteps)], wantSteps) {
				if first >= 0 {
					site = "steps/ran-after-failure"
				} else {
					site = "steps/ran-twice"
				}
			} else if len(stepEv) < len(wantSteps) && equalStrings(stepEv, wantSteps[:len(stepEv)]) {
				site = "steps/missing"
			}
			return res.Failf(site, "steps 0..%d must run once each, in order, and none after the first failure\n expected step events: %v%s", last, wantSteps, show())
		}
	}
	// -- exactly one finish, of the right kind
	allowed := []string{wantRollback}
	if first < 0 && !aborted {
		allowed = []string{wantCommit}
		if backend == "sqldrv" && ctxDone {
			// database/sql refuses to commit on a finished context and rolls back itself
			allowed = []string{wantCommit, wantRollback}
		}
		if ctxDone && leaflessGroupAfter(c.Steps, cancelIdx) {
			// a supplied step without any leaf (an empty Combine()) lies behind the point
			// where the context ended: whether it ran is not observable, so giving up in
			// front of it (rollback, error) cannot be told from running it
			allowed = []string{wantCommit, wantRollback}
			res.Class("ctx over + all leaves ok, an empty Combine() follows (either finish accepted)")
		}
	}
	if len(finishes) != 1 {
		return res.Failf("finish/count", "the transaction was finished %d times (%v), want exactly once (%s)%s", len(finishes), finishes, strings.Join(allowed, " or "), show())
	}
	finish := finishes[0]
	if finish != allowed[0] && finish != allowed[len(allowed)-1] {
		return res.Failf("finish/kind", "the transaction was finished by %s, want %s%s", finish, strings.Join(allowed, " or "), show())
	}
	if !async && events[len(events)-1] != finish {
		return res.Failf("events/order", "the finish must come last%s", show())
	}
	// -- result
	switch {
	case outcome == "goexit":
		// step `first` ended the goroutine (a later one would have been reported above): Transact never
		// returned, there is no result; the transaction was rolled back exactly once, which is all that is owed
		if r.goexited != first {
			panic(fmt.Sprintf("harness: goexit in step %d, first failing step %d%s", r.goexited, first, show()))
		}
	case aborted:
		if got == nil {
			return res.Failf("result/nil-after-abort", "steps %d..%d never ran, the transaction was rolled back, yet Transact returned nil%s", len(calls), last, show())
		}
	case first < 0 && finish == "Commit" && handleErr != never:
		// every step returned nil and the transaction is committed, as the statement demands; a step left an
		// error on the handle, which gorm hands back from Commit: the statement does not say what the caller
		// gets then (nil only if the commit succeeded - it did)
		res.Class("committed with an error left on the handle (result unconstrained)")
	case first < 0 && finish == "Commit":
		if got != nil {
			return res.Failf("result/commit-ok", "every step succeeded and the commit succeeded, but Transact returned an error%s", show())
		}
	case first < 0:
		if got == nil {
			return res.Failf("result/commit-failed", "the transaction was not committed (%s) but Transact returned nil%s", finish, show())
		}
	default:
		if got == nil {
			return res.Failf("result/nil-after-failure", "step %d failed (%s) but Transact returned nil%s", first, leaves[first].kind, show())
		}
		switch leaves[first].kind {
		case KErr, KExecFail:
			wantErr := r.returned[first]
			if wantErr == nil {
				// gorm swallowed the injected Exec failure: the step returned nil, the fake is
				// not doing what the case asked for - not a verdict about Transact
				panic(fmt.Sprintf("harness: step %d did not obtain the injected exec error%s", first, show()))
			}
			if !errors.Is(got, wantErr) {
				site := "result/step-error"
				if c.RollbackFail && errors.Is(got, rollbackError(c.RollbackErr)) {
					site = "result/masked-by-rollback"
				}
				return res.Failf(site, "result must be the error of the first failing step %d (%v)%s", first, wantErr, show())
			}
		case KPanic:
			_, tok := panicValue(leaves[first].pv, first)
			if tok != "" && !strings.Contains(got.Error(), tok) {
				site := "result/panic-mention"
				if c.RollbackFail && errors.Is(got, rollbackError(c.RollbackErr)) {
					site = "result/masked-by-rollback"
				}
				return res.Failf(site, "step %d panicked; the result must mention the panic value (%q)%s", first, tok, show())
			}
		}
	}
	return res
}

func firstErr(es ...error) error {
	for _, e := range es {
		if e != nil {
			return e
		}
	}
	return nil
}

func equalStrings(a, b []string) bool {
	if len(a) != len(b) {
		return false
	}
	for i := range a {
		if a[i] != b[i] {
			return false
		}
	}
	return true
}

func bucket(n int) string {
	switch {
	case n <= 4:
		return fmt.Sprint(n)
	case n <= 8:
		return "5-8"
	case n <= 16:
		return "9-16"
	default:
		return "17+"
	}
}

func depth(steps []Step) int {
	d := 0
	for _, s := range steps {
		if s.Kind == KGroup {
			if x := 1 + depth(s.Sub); x > d {
				d = x
			}
		}
	}
	return d
}

func hasEmptyGroup(steps []Step) bool {
	for _, s := range steps {
		if s.Kind == KGroup && (len(s.Sub) == 0 || hasEmptyGroup(s.Sub)) {
			return true
		}
	}
	return false
}

func countLeaves(steps []Step) int {
	n := 0
	for _, s := range steps {
		switch s.Kind {
		case KGroup:
			n += countLeaves(s.Sub)
		case KOk, KErr, KPanic, KExecFail, KGoexit, KAddErr:
			n++
		}
	}
	return n
}

// leaflessGroupAfter reports whether a Combine without any leaf follows leaf
// number idx in depth-first order (idx -1: anywhere).
func leaflessGroupAfter(steps []Step, idx int) bool {
	n := 0
	var walk func([]Step) bool
	walk = func(ss []Step) bool {
		for _, s := range ss {
			switch s.Kind {
			case KGroup:
				if countLeaves(s.Sub) == 0 {
					if n > idx {
						return true
					}
				} else if walk(s.Sub) {
					return true
				}
			case KOk, KErr, KPanic, KExecFail, KGoexit, KAddErr:
				n++
			}
		}
		return false
	}
	return walk(steps)
}

// insideGroup reports whether leaf number idx lies inside some Combine.
func insideGroup(steps []Step, idx int) bool {
	n := 0
	for _, s := range steps {
		switch s.Kind {
		case KGroup:
			k := countLeaves(s.Sub)
			if idx >= n && idx < n+k {
				return true
			}
			n += k
		case KOk, KErr, KPanic, KExecFail, KGoexit, KAddErr:
			if idx == n {
				return false
			}
			n++
		}
	}
	return false
}

// ---------------------------------------------------------------------------
// the complete enumeration

// EnumCases lists, for each backend, every step list of length 0..maxN over
// {ok, error, panic} combined with begin/commit/rollback each failing or not,
// without a context; and the same for length 0..maxNCtx combined with every
// context mode: live, cancelled before, deadline expired before, cancelled inside
// step k for every k < n.
func EnumCases(maxN, maxNCtx int) []Case {
	base := []Step{{Kind: KOk}, {Kind: KErr}, {Kind: KPanic, PV: PVString}}
	out := enumCases(maxN, false, base, "")
	out = append(out, enumCases(maxNCtx, true, base, "")...)
	// lists that contain a step ending the goroutine (runtime.Goexit), and lists that contain a step leaving
	// an error on the handle: 1..3 steps without a context, 1..2 steps under every context mode
	for _, extra := range []string{KGoexit, KAddErr} {
		kinds := append(append([]Step(nil), base...), Step{Kind: extra})
		out = append(out, enumCases(3, false, kinds, extra)...)
		out = append(out, enumCases(2, true, kinds, extra)...)
	}
	return append(out, enumExtras()...)
}

// allErrValues: every error value of a failing step: the plain ones, each wrappable one wrapped with %w and joined
// with errors.Join, and the two whose Error() panics.
func allErrValues() []string {
	out := append([]string(nil), errKindsAll...)
	for _, k := range errKinds {
		out = append(out, EVWrap+k, EVJoin+k)
	}
	return append(out, EVWrap+EVWrap+EVEOF, EVJoin+EVWrap+EVDupKey)
}

// enumExtras: small complete families beyond the outcome vectors.
func enumExtras() []Case {
	var out []Case
	ok := Step{Kind: KOk}
	for _, be := range Backends {
		// every error value, alone and in the middle, without a context and under a live one, rollback ok/failing
		for _, ev := range allErrValues()[1:] {
			e := Step{Kind: KErr, PV: ev}
			for _, steps := range [][]Step{{e}, {ok, e, ok}} {
				for _, ctx := range []string{"", CtxLive} {
					for _, rf := range []bool{false, true} {
						out = append(out, Case{Backend: be, Steps: steps, Ctx: ctx, RollbackFail: rf})
					}
				}
			}
		}
		// panic values whose own Error()/String() panics
		for _, pv := range []string{PVNilErr, PVBadStringer} {
			p := Step{Kind: KPanic, PV: pv}
			for _, steps := range [][]Step{{p}, {ok, p, ok}} {
				for _, rf := range []bool{false, true} {
					out = append(out, Case{Backend: be, Steps: steps, RollbackFail: rf})
				}
			}
		}
		// three leaves in every Combine shape, each invoked once and twice with the same values
		kinds := []Step{{Kind: KOk}, {Kind: KErr}, {Kind: KPanic, PV: PVString}}
		for code := 0; code < 27; code++ {
			a, b, c3 := kinds[code%3], kinds[code/3%3], kinds[code/9]
			g := func(sub ...Step) Step { return Step{Kind: KGroup, Sub: sub} }
			for _, steps := range [][]Step{{g(a, b), c3}, {a, g(b, c3)}, {g(a, g(b, c3))}, {g(a, b, c3)}} {
				for _, twice := range []bool{false, true} {
					out = append(out, Case{Backend: be, Steps: steps, Twice: twice})
				}
			}
		}
		// second audit round ------------------------------------------------------------------------------
		perr := Step{Kind: KPanic, PV: PVString}
		serr := Step{Kind: KErr}
		// a rollback failing with every error value (a dead connection, a finished context): exactly one Rollback
		for _, rk := range rollbackErrKinds[1:] {
			for _, steps := range [][]Step{{serr}, {ok, perr}, {ok, serr, ok}, {{Kind: KErr, PV: EVBadConn}}, {{Kind: KGoexit}}} {
				for _, ctx := range []string{"", CtxLive, CtxCancelled} {
					out = append(out, Case{Backend: be, Steps: steps, Ctx: ctx, RollbackFail: true, RollbackErr: rk})
				}
			}
		}
		// an Exec failing with a MySQL error below gorm, the db opened with and without TranslateError
		for _, xk := range execFailKinds {
			x := Step{Kind: KExecFail, PV: xk}
			for _, steps := range [][]Step{{x}, {ok, x, ok}, {ok, {Kind: KGroup, Sub: []Step{x, ok}}}} {
				for _, tr := range []bool{false, true} {
					for _, rf := range []bool{false, true} {
						c := Case{Backend: be, Steps: steps, RollbackFail: rf}
						c.Translate = tr
						out = append(out, c)
					}
				}
			}
		}
		// sentinel panic values (by identity) and a genuine nil dereference
		for _, pv := range []string{PVAbortHandler, PVCtxCanceled, PVNotFound, PVEOF, PVNilDeref} {
			p := Step{Kind: KPanic, PV: pv}
			for _, steps := range [][]Step{{p}, {ok, p, ok}, {{Kind: KGroup, Sub: []Step{ok, p}}}} {
				for _, rf := range []bool{false, true} {
					out = append(out, Case{Backend: be, Steps: steps, RollbackFail: rf})
				}
			}
		}
		// every way the db is opened / every kind of handle x a few step lists x commit ok / failing
		var cfgs []OpenCfg
		for _, h := range Handles[1:] {
			cfgs = append(cfgs, OpenCfg{Handle: h}, OpenCfg{Handle: h, SkipDefTx: true})
		}
		cfgs = append(cfgs, OpenCfg{SkipDefTx: true}, OpenCfg{DryRun: true}, OpenCfg{SkipDefTx: true, Translate: true})
		if be == "sqldrv" {
			cfgs = append(cfgs, OpenCfg{PrepareStmt: true}, OpenCfg{PrepareStmt: true, SkipDefTx: true}, OpenCfg{PrepareStmt: true, Handle: "session"})
		}
		for _, cfg := range cfgs {
			for _, steps := range [][]Step{{ok}, {ok, ok, ok}, {serr}, {ok, serr, ok}, {ok, perr, ok}, {ok, {Kind: KExecFail}}, {ok, {Kind: KAddErr}, ok}, {ok, {Kind: KGoexit}}} {
				for _, ctx := range []string{"", CtxLive, CtxCancelled} {
					for _, cf := range []bool{false, true} {
						c := Case{Backend: be, Steps: steps, Ctx: ctx, CommitFail: cf}
						c.OpenCfg = cfg
						out = append(out, c)
					}
				}
			}
		}
		// lists around 64, 128 and 256 steps: all ok; a failure around the boundary and at the end
		for _, n := range []int{64, 65, 66, 129, 257} {
			for _, fail := range []int{-1, 63, 64, 65, n - 1} {
				if fail >= n {
					continue
				}
				steps := make([]Step, n)
				for i := range steps {
					steps[i] = ok
				}
				if fail >= 0 {
					steps[fail] = serr
				}
				out = append(out, Case{Backend: be, Steps: steps})
			}
		}
		// long top-level lists: all ok; a failure at position 16, 17 and at the end
		for _, n := range []int{13, 16, 17, 18, 33, 40} {
			for _, fail := range []int{-1, 16, 17, n - 1} {
				if fail >= n {
					continue
				}
				for _, cf := range []bool{false, true} {
					steps := make([]Step, n)
					for i := range steps {
						steps[i] = ok
					}
					if fail >= 0 {
						steps[fail] = Step{Kind: KErr}
					}
					out = append(out, Case{Backend: be, Steps: steps, CommitFail: cf})
				}
			}
		}
	}
	return out
}

// enumCases: every list of 0..maxN steps over kinds (only those containing kind `must`, if given).
func enumCases(maxN int, withCtx bool, kinds []Step, must string) []Case {
	var out []Case
	for _, be := range Backends {
		for n := 0; n <= maxN; n++ {
			total := 1
			for i := 0; i < n; i++ {
				total *= len(kinds)
			}
			for code := 0; code < total; code++ {
				steps := make([]Step, n)
				has := must == ""
				for i, x := 0, code; i < n; i, x = i+1, x/len(kinds) {
					steps[i] = kinds[x%len(kinds)]
					has = has || steps[i].Kind == must
				}
				if !has {
					continue
				}
				type cm struct {
					mode string
					at   int
				}
				modes := []cm{{"", 0}}
				if withCtx {
					modes = []cm{{CtxLive, 0}, {CtxCancelled, 0}, {CtxDeadline, 0}}
					for k := 0; k < n; k++ {
						modes = append(modes, cm{CtxStep, k})
					}
				}
				for _, m := range modes {
					for f := 0; f < 8; f++ {
						out = append(out, Case{Backend: be, Steps: steps, Ctx: m.mode, CancelAt: m.at,
							BeginFail: f&1 != 0, CommitFail: f&2 != 0, RollbackFail: f&4 != 0})
						if n == 0 {
							// no steps: also as an empty non-nil list
							out = append(out, Case{Backend: be, Steps: steps, Ctx: m.mode, CancelAt: m.at, EmptySlice: true,
								BeginFail: f&1 != 0, CommitFail: f&2 != 0, RollbackFail: f&4 != 0})
						}
						if must != "" {
							continue
						}
						if f == 1 && m.mode == "" {
							// a begin that fails the way a dropped connection does, and one that would work at a second attempt
							out = append(out, Case{Backend: be, Steps: steps, BeginFail: true, BeginErr: "invalidconn"},
								Case{Backend: be, Steps: steps, BeginFail: true, BeginErr: "invalidconn", BeginOnce: true},
								Case{Backend: be, Steps: steps, BeginFail: true, BeginOnce: true})
							if be == "pool" {
								for _, k := range []string{"badconn", "conndone"} {
									out = append(out, Case{Backend: be, Steps: steps, BeginFail: true, BeginErr: k},
										Case{Backend: be, Steps: steps, BeginFail: true, BeginErr: k, BeginOnce: true})
								}
							}
						}
						if f == 2 && m.mode == "" {
							// a commit that fails the way a dead connection does
							out = append(out, Case{Backend: be, Steps: steps, CommitFail: true, CommitErr: "invalidconn"},
								Case{Backend: be, Steps: steps, CommitFail: true, CommitErr: "badconn"})
						}
					}
				}
			}
		}
	}
	return out
}

// ---------------------------------------------------------------------------
// the random generator

const maxLeaves = 12

// maxLong: the longest list of the occasional long cases (13..maxLong steps, mostly all at top level)
const maxLong = 40

var pvKinds = []string{PVString, PVError, PVInt, PVStruct, PVNil, PVRuntime, PVNilErr, PVBadStringer,
	PVAbortHandler, PVCtxCanceled, PVNotFound, PVEOF, PVNilDeref}

func genLeaf(t *rapid.T, failing bool) Step {
	if !failing {
		return Step{Kind: KOk}
	}
	switch rapid.IntRange(0, 7).Draw(t, "failkind") {
	case 0:
		return Step{Kind: KErr}
	case 1, 2:
		ev := rapid.SampledFrom(errKindsAll).Draw(t, "errkind")
		if ev != EVNilErr && ev != EVBadErr {
			switch rapid.IntRange(0, 5).Draw(t, "errwrap") {
			case 4:
				ev = EVWrap + ev
			case 5:
				ev = EVJoin + ev
			}
		}
		return Step{Kind: KErr, PV: ev}
	case 3:
		return Step{Kind: KExecFail, PV: rapid.SampledFrom(execFailKinds).Draw(t, "execfailkind")}
	case 4:
		return Step{Kind: KGoexit}
	default:
		return Step{Kind: KPanic, PV: rapid.SampledFrom(pvKinds).Draw(t, "pv")}
	}
}

// genTree wraps a flat list of leaves into a random Combine tree (depth <= 3),
// sprinkling empty Combine() calls.
func genTree(t *rapid.T, leaves []Step, depthLeft int) []Step {
	var out []Step
	i := 0
	for i < len(leaves) {
		switch {
		case depthLeft > 0 && rapid.IntRange(0, 3).Draw(t, "group") == 3:
			k := rapid.IntRange(1, len(leaves)-i).Draw(t, "groupLen")
			out = append(out, Step{Kind: KGroup, Sub: genTree(t, leaves[i:i+k], depthLeft-1)})
			i += k
		case depthLeft > 0 && rapid.IntRange(0, 11).Draw(t, "emptyGroup") == 11:
			out = append(out, Step{Kind: KGroup})
		default:
			out = append(out, leaves[i])
			i++
		}
	}
	if depthLeft > 0 && rapid.IntRange(0, 11).Draw(t, "emptyGroupTail") == 11 {
		out = append(out, Step{Kind: KGroup})
	}
	return out
}

func Gen(t *rapid.T) Case {
	c := Case{Backend: rapid.SampledFrom(Backends).Draw(t, "backend")}
	n := rapid.IntRange(1, maxLeaves).Draw(t, "n")
	if rapid.IntRange(0, 19).Draw(t, "noLeaves") == 19 {
		n = 0 // no steps at all, or only (nested) empty Combine() calls
	} else if rapid.IntRange(0, 2).Draw(t, "long") == 2 {
		n = rapid.IntRange(5, maxLeaves).Draw(t, "nLong")
	}
	// occasionally a really long list (1/24; 1/8 in the thorough tier)
	huge := n > 0 && rapid.IntRange(1, hugeOneIn()).Draw(t, "huge") == hugeOneIn()
	if huge {
		n = rapid.IntRange(maxLeaves+1, maxLong).Draw(t, "nHuge")
	}
	leaves := make([]Step, n)
	for i := range leaves {
		leaves[i] = Step{Kind: KOk}
	}
	// failure plan: none / one at a drawn position (biased to >=1, the last, the
	// middle) / several
	if n > 0 {
		switch rapid.IntRange(0, 9).Draw(t, "plan") {
		case 0, 1: // all succeed
		case 2, 3, 4, 5: // exactly one failure
			leaves[genPos(t, n)] = genLeaf(t, true)
		case 6, 7: // two failures: the later one must never run
			leaves[genPos(t, n)] = genLeaf(t, true)
			leaves[genPos(t, n)] = genLeaf(t, true)
		default: // each step fails with probability 1/3
			for i := range leaves {
				leaves[i] = genLeaf(t, rapid.IntRange(0, 2).Draw(t, "fails") == 2)
			}
		}
	}
	// a step that leaves an error on the handle and returns nil (not a failure), in 1/12 of the cases
	if n > 0 && rapid.IntRange(0, 11).Draw(t, "addErr") == 0 {
		if p := genPos(t, n); leaves[p].Kind == KOk {
			leaves[p] = Step{Kind: KAddErr}
		}
	}
	if huge && rapid.IntRange(0, 3).Draw(t, "nestHuge") != 0 {
		c.Steps = leaves // 13..40 top-level steps
	} else if rapid.IntRange(0, 3).Draw(t, "nest") == 0 {
		c.Steps = leaves
	} else {
		c.Steps = genTree(t, leaves, 3)
	}
	// context of the db (rapid favours small draws, so "none" comes out near 1/3): none, live, cancelled, deadline, a step cancels
	first, nLeaves := -1, len(leaves)
	for i, l := range leaves {
		if l.Kind != KOk && l.Kind != KAddErr {
			first = i
			break
		}
	}
	switch k := rapid.IntRange(0, 19).Draw(t, "ctx"); {
	case k <= 2:
	case k <= 4:
		c.Ctx = CtxLive
	case k <= 7:
		c.Ctx = CtxCancelled
	case k <= 9:
		c.Ctx = CtxDeadline
	default:
		c.Ctx = CtxStep
		if nLeaves > 0 {
			// mostly at or before the first failing step, so that the cancellation is reached
			switch p := rapid.IntRange(0, 5).Draw(t, "cancelPos"); {
			case p <= 1 && first >= 0:
				c.CancelAt = first
			case p <= 3 && first >= 1:
				c.CancelAt = rapid.IntRange(0, first-1).Draw(t, "cancelBefore")
			default:
				c.CancelAt = rapid.IntRange(0, nLeaves-1).Draw(t, "cancelAt")
			}
		}
	}
	c.BeginFail = rapid.IntRange(0, 11).Draw(t, "beginFail") == 11
	if c.BeginFail {
		kinds := []string{"", "invalidconn"}
		if c.Backend == "pool" {
			kinds = []string{"", "invalidconn", "badconn", "conndone"}
		}
		c.BeginErr = rapid.SampledFrom(kinds).Draw(t, "beginErr")
		c.BeginOnce = rapid.Bool().Draw(t, "beginOnce")
	}
	c.Translate = rapid.IntRange(0, 3).Draw(t, "translate") == 0
	c.CommitFail = rapid.IntRange(0, 2).Draw(t, "commitFail") == 2
	if c.CommitFail {
		c.CommitErr = rapid.SampledFrom([]string{"", "invalidconn", "badconn"}).Draw(t, "commitErr")
	}
	c.RollbackFail = rapid.IntRange(0, 2).Draw(t, "rollbackFail") == 2
	if c.RollbackFail {
		c.RollbackErr = rapid.SampledFrom(rollbackErrKinds).Draw(t, "rollbackErr")
	}
	// how the db is opened, and which handle of it Transact gets (the plain db in about 2/3 of the cases)
	c.SkipDefTx = rapid.IntRange(0, 5).Draw(t, "skipDefTx") == 5
	if c.Backend == "sqldrv" {
		c.PrepareStmt = rapid.IntRange(0, 7).Draw(t, "prepareStmt") == 7
	}
	if rapid.IntRange(0, 15).Draw(t, "dryRun") == 15 && !hasKind(c.Steps, KExecFail) {
		c.DryRun = true
	}
	if rapid.IntRange(0, 2).Draw(t, "derived") == 2 {
		c.Handle = rapid.SampledFrom(Handles[1:]).Draw(t, "handle")
	}
	if len(c.Steps) == 0 {
		c.EmptySlice = rapid.Bool().Draw(t, "emptySlice")
	}
	// 1/8 of the cases: Transact is invoked a second time with the same step values
	c.Twice = rapid.IntRange(0, 7).Draw(t, "twice") == 7
	return c
}

func hasKind(steps []Step, kind string) bool {
	for _, s := range steps {
		if s.Kind == kind || (s.Kind == KGroup && hasKind(s.Sub, kind)) {
			return true
		}
	}
	return false
}

func hugeOneIn() int {
	if vkit.Tier() == "thorough" {
		return 8
	}
	return 24
}

func genPos(t *rapid.T, n int) int {
	switch rapid.IntRange(0, 4).Draw(t, "posKind") {
	case 0:
		return 0
	case 1:
		return n - 1
	default:
		return rapid.IntRange(0, n-1).Draw(t, "pos")
	}
}

// ---------------------------------------------------------------------------
// parts

const ntRule = "Non-trivial: the transaction was begun and (the first failing step has index >= 1, or every step succeeded and the commit fails, or a step failed and the rollback fails, or the context of the db is over by the time the transaction has to be finished); distinct = distinct case JSON"

var PartEnum = &vkit.Part[Case]{
	Property: Property, Name: "outcomes",
	Rule:  "complete enumeration, once per fake (in-memory gorm.ConnPool with ConnPoolBeginner/TxCommitter; in-process database/sql driver under *sql.DB), both below gorm's MySQL dialector: every step list of length 0..4 over {return nil, return an error, panic} x begin {ok, fails} x commit {ok, fails} x rollback {ok, fails} without a context (2 x 968 cases), and every step list of length 0..3 over the same outcomes x the db carrying a context that is {live, cancelled before Transact, past its deadline before Transact, cancelled by step k right after its Exec for every k < n} x the same begin/commit/rollback faults (2 x 1776 cases); each step logs its call and issues Exec(\"STEP i\"); the Begin/Exec/Commit/Rollback calls reaching the fake are compared with the sequence the statement prescribes, the returned error with the first failing step. No steps: handed over as nothing and as an empty non-nil list. Without a context also: a begin failing with mysql.ErrInvalidConn (on the in-memory pool also driver.ErrBadConn, sql.ErrConnDone), at every attempt or only the first; a commit failing with mysql.ErrInvalidConn / driver.ErrBadConn. Further complete families: every list of 1..3 steps (1..2 under every context mode) over the same outcomes plus {the step ends its goroutine with runtime.Goexit} resp. plus {the step leaves an error on the handle with AddError and returns nil} that contains such a step, x the same faults; each of ten well-known error values (gorm.ErrRecordNotFound, sql.ErrNoRows, sql.ErrTxDone, context.Canceled, context.DeadlineExceeded, driver.ErrBadConn, mysql.ErrInvalidConn, MySQL 1062/1213/1205) as the only step and in the middle, no context / live context, rollback ok / failing; panic values whose own Error()/String() panics; every outcome vector of three leaves in four Combine shapes, invoked once and twice with the same step values; 13..40 top-level steps all succeeding or failing at step 16, 17 or the last. Second audit round, each a complete family: every error value - the ten above, gorm.ErrDuplicatedKey, gorm.ErrInvalidTransaction, sql.ErrConnDone, io.EOF, io.ErrUnexpectedEOF, MySQL 1105/1452, each also wrapped with %w and joined with errors.Join, and two values whose own Error() panics (typed-nil *mysql.MySQLError, a custom type) - alone and in the middle, rollback ok / failing; a rollback failing with driver.ErrBadConn, mysql.ErrInvalidConn, sql.ErrConnDone, context.Canceled, context.DeadlineExceeded after an error, a panic and a Goexit; an Exec failing below gorm with MySQL 1062/1213/1205/1105/1452, the db opened with and without TranslateError (1062 then comes back from the step as gorm.ErrDuplicatedKey); panics with the values http.ErrAbortHandler, context.Canceled, gorm.ErrRecordNotFound, io.EOF and a genuine nil dereference; the db opened with SkipDefaultTransaction, DryRun, (database/sql fake) PrepareStmt, and Transact handed db.Session(&gorm.Session{}), Session{NewDB}, Session{SkipDefaultTransaction}, db.Debug(), db.Where(...) - each x eight step lists x {no context, live, cancelled} x commit ok / failing; 64, 65, 66, 129 and 257 top-level steps all succeeding or failing at step 63, 64, 65 or the last. After every call the handle handed in must carry no error. A Transact whose step called runtime.Goexit runs under a goroutine-snapshot guard: parked for ever = violation, not a hang. " + ntRule,
	Quick: 1, Thorough: 1,
	Gen: Gen, Exec: Exec,
}

var PartRandom = &vkit.Part[Case]{
	Property: Property, Name: "random",
	Rule:  "rapid: 1..12 leaf steps (none at all in 1/20 of the cases; all ok / one failure at first, last or drawn position / two failures / each failing with p=1/3; failure = returned error - an injected value or one of ten well-known sentinels / driver errors -, Exec failing inside the fake and handed back through gorm, runtime.Goexit inside the step, or a panic with a string, error, int, struct, nil or run-time-error value or a value whose own Error()/String() panics; in 1/12 of the cases one succeeding step leaves an error on the handle (AddError) and returns nil; about 1/24 of the cases - 1/8 in the thorough tier - have 13..40 steps, mostly all at top level) wrapped into a random gormx.Combine tree of depth <= 3 with empty Combine() calls, x context of the db (none about 1/3, live, cancelled before Transact, deadline expired before Transact, cancelled inside a step about 1/3 - mostly the first failing step or one before it) x backend x begin fails (1/12; injected value, mysql.ErrInvalidConn, on the pool also driver.ErrBadConn / sql.ErrConnDone; always or only at the first attempt) x commit fails (1/3; injected value, mysql.ErrInvalidConn or driver.ErrBadConn) x rollback fails (1/3); no steps: nothing or an empty non-nil list; about 1/8 of the cases invoke Transact a second time with the same step functions / Combine values on a fresh fake; same oracle as the enumeration. Second audit round: the error values of a failing step are drawn from 20 (see the enumeration; 1/3 of the wrappable ones wrapped with %w or errors.Join), the panic values from 13, a failing Exec reports the injected value or one of five MySQL errors below gorm, a failing rollback the injected value or one of five connection / context errors; the db is opened with SkipDefaultTransaction (1/6), PrepareStmt (1/8, database/sql fake), DryRun (1/16) and Transact is handed a derived handle in 1/3 of the cases. " + ntRule,
	Quick: 20000, Thorough: 20000,
	Gen: Gen, Exec: Exec,
}
