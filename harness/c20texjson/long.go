package c20texjson

// part "long": the same statement far from the handful of bytes of part "roundtrip" - few cases, each of them long.
//
//	base64  a byte string of 41 ... 5000 bytes (around 48, 57, 64, 96, 192, 256, 1024, 4096) through Base64Bytes.Value and
//	        back through Scan (string and []byte);
//	list    a JsByte list of 41 ... 5000 elements (around 128, 256, 512, 1024, 4096) through ToString / ToJS / MarshalJSON and
//	        back through FromString / UnmarshalJSON / one library pairing; in a third of the cases one element of the text
//	        handed to the decoders is replaced by something that is no byte (error or exactly the denoted list);
//	retain  ONE encoder called 300 ... 3000 times in a row with values from an arithmetic sequence: every output must denote
//	        its value, the first few outputs are kept (with a private copy) and read again after all the later calls;
//	        then the caller writes over the []byte outputs it was given (they are its own) and encodes the same values
//	        once more: the encoder has to produce the same texts again.

import (
	"bytes"
	"encoding/binary"
	"fmt"
	"math/big"
	"strconv"
	"strings"
	"time"

	"github.com/pinealctx/neptune/tex"
	"pgregory.net/rapid"

	"verifharness/vkit"
)

type LongCase struct {
	Kind string `json:"kind"`           // "base64", "list", "retain"
	Data []byte `json:"data,omitempty"` // base64: the raw bytes; list: the elements
	// list: Bad > 0 replaces element Bad-1 of the text handed to the decoders by BadElem; Pair picks the library pairing
	Bad     int    `json:"bad,omitempty"`
	BadElem string `json:"bad_elem,omitempty"`
	Pair    int    `json:"pair,omitempty"`
	// retain: the encoder, the values Base + k*Step (k = 0 ... Calls-1; byte strings: k*5 mod (Len+1) bytes taken from
	// the value), the number of outputs kept from the start
	Type  string `json:"type,omitempty"`
	Base  int64  `json:"base,omitempty"`
	Step  int64  `json:"step,omitempty"`
	Calls int    `json:"calls,omitempty"`
	Keep  int    `json:"keep,omitempty"`
	Len   int    `json:"len,omitempty"`
}

var (
	longB64Sizes  = []int{48, 57, 63, 64, 65, 96, 128, 192, 255, 256, 257, 1023, 1024, 1025, 4095, 4096, 4097}
	longListSizes = []int{127, 128, 129, 255, 256, 257, 511, 512, 513, 1023, 1024, 1025, 4095, 4096, 4097}
	longBadElems  = []string{"256", "-1", "300", "1000", "", "4294967296", "-256", "511", "+5", "0x10", "1.0", "a", "18446744073709551616"}
)

func genLongSize(t *rapid.T, around []int) int {
	switch pick(t, "sizek", 4) {
	case 0:
		return rapid.IntRange(41, 5000).Draw(t, "size")
	case 1:
		return rapid.IntRange(41, 700).Draw(t, "sizemid")
	default:
		return choose(t, "around", around) + rapid.IntRange(-2, 2).Draw(t, "delta")
	}
}

func GenLong(t *rapid.T) LongCase {
	var c LongCase
	switch k := pick(t, "kind", 10); {
	case k < 3:
		c.Kind = "base64"
		n := genLongSize(t, longB64Sizes)
		c.Data = rapid.SliceOfN(rapid.Byte(), n, n).Draw(t, "raw")
	case k < 6:
		c.Kind = "list"
		n := genLongSize(t, longListSizes)
		c.Data = rapid.SliceOfN(rapid.Byte(), n, n).Draw(t, "elems")
		if pick(t, "bad?", 3) == 0 {
			c.Bad = 1 + rapid.IntRange(0, n-1).Draw(t, "badpos")
			if rapid.Bool().Draw(t, "badlate") { // beyond the sizes a decoder may treat specially
				c.Bad = n - rapid.IntRange(0, (n-1)/4).Draw(t, "badfromend")
			}
			c.BadElem = choose(t, "badelem", longBadElems)
		}
		c.Pair = rapid.IntRange(0, len(codecs)*len(codecs)-1).Draw(t, "pair")
	default:
		c.Kind = "retain"
		c.Type = longEncs[pick(t, "type", len(longEncs))].name
		if pick(t, "i64?", 4) == 0 { // the most used type more often
			c.Type = "JsInt64"
		}
		c.Base = genI64(t, "base")
		c.Step = choose(t, "step", []int64{1, -1, 7, 1000, 1<<32 + 1, 0x0123456789abcdf, -0x0123456789abcdf, 999999999999})
		if pick(t, "steprnd", 3) == 0 {
			c.Step = rapid.Int64().Draw(t, "steprnd")
		}
		c.Calls = rapid.IntRange(300, 3000).Draw(t, "calls")
		c.Keep = rapid.IntRange(1, 8).Draw(t, "keep")
		c.Len = choose(t, "len", []int{0, 1, 2, 3, 7, 8, 20, 70, 200})
	}
	return c
}

// brief renders a long byte list for a message.
func brief(b []byte) string {
	if len(b) <= 24 {
		return fmt.Sprint(b)
	}
	return fmt.Sprintf("[%d bytes: %v ... %v]", len(b), b[:8], b[len(b)-8:])
}

func briefText(s string) string {
	if len(s) <= 120 {
		return strconv.Quote(s)
	}
	return fmt.Sprintf("%q ... %q (%d characters)", s[:50], s[len(s)-50:], len(s))
}

// firstDiff: the first position at which the two lists differ (or the shorter length).
func firstDiff(a, b []byte) int {
	for i := 0; i < len(a) && i < len(b); i++ {
		if a[i] != b[i] {
			return i
		}
	}
	if len(a) < len(b) {
		return len(a)
	}
	return len(b)
}

// --- base64

func execLongB64(res *vkit.Result, c LongCase) {
	raw := append([]byte(nil), c.Data...)
	v, err := tex.Base64Bytes(raw).Value()
	if !checkValue(res, "sql/Base64Bytes", v, err) {
		return
	}
	s, ok := v.(string)
	if !ok {
		res.Failf("sql/Base64Bytes", "Base64Bytes.Value() is a %T, want string", v)
		return
	}
	priv := string(append([]byte(nil), s...))
	for _, in := range []any{s, []byte(s)} {
		back := tex.Base64Bytes{7, 7}
		if err := back.Scan(in); err != nil || !bytes.Equal(back, c.Data) {
			res.Failf("sql/Base64Bytes", "Base64Bytes(%s): Scan(%T %s) = %s, %v (first difference at byte %d)", brief(c.Data), in, briefText(s), brief(back), err, firstDiff(back, c.Data))
			return
		}
		if src, ok := in.([]byte); ok {
			for i := range src {
				src[i] = 'A'
			}
			if !bytes.Equal(back, c.Data) {
				res.Failf("sql/Base64Bytes/input-reused", "Base64Bytes(%s): the value scanned from a []byte reads %s once the source buffer has been overwritten", brief(c.Data), brief(back))
				return
			}
		}
	}
	if den, ok := b64Denotes([]byte(s)); !ok || !bytes.Equal(den, c.Data) || strings.ContainsAny(s, "\r\n") {
		res.Failf("encode/Base64Bytes", "Base64Bytes(%s).Value() = %s, which in the raw standard alphabet denotes %s (%v)", brief(c.Data), briefText(s), brief(den), ok)
		return
	}
	if !bytes.Equal(raw, c.Data) {
		res.Failf("encode/Base64Bytes", "Base64Bytes(%s).Value() changed its receiver", brief(c.Data))
		return
	}
	// another value of the same size through the encoder, then the string handed out first is read again
	o := tex.Base64Bytes(otherBytes(c.Data))
	_, _ = o.Value()
	if s != priv {
		res.Failf("sql/Base64Bytes/Value/retained", "the string Base64Bytes.Value returned was %s; after another Value call the same string reads %s", briefText(priv), briefText(s))
	}
}

// --- list

func listText(elems []byte) string {
	var sb strings.Builder
	for i, e := range elems {
		if i > 0 {
			sb.WriteByte('/')
		}
		sb.WriteString(big.NewInt(int64(e)).String())
	}
	return sb.String()
}

func execLongList(res *vkit.Result, c LongCase) {
	orig := append([]byte(nil), c.Data...)
	b := tex.JsByte(orig)
	want := listText(c.Data)
	s := b.ToString()
	js := b.ToJS()
	tok, err := b.MarshalJSON()
	switch {
	case s != want:
		res.Failf("encode/JsByte/ToString", "JsByte(%s).ToString() = %s, want %s", brief(c.Data), briefText(s), briefText(want))
	case string(js) != want:
		res.Failf("encode/JsByte/ToJS", "JsByte(%s).ToJS() = %s, want %s", brief(c.Data), briefText(string(js)), briefText(want))
	case err != nil || string(tok) != `"`+want+`"`:
		res.Failf("encode/JsByte", "JsByte(%s).MarshalJSON() = %s, %v; want the quoted %s", brief(c.Data), briefText(string(tok)), err, briefText(want))
	case !bytes.Equal(orig, c.Data):
		res.Failf("encode/JsByte", "JsByte(%s): an encoder changed its receiver", brief(c.Data))
	}
	if res.Fail != nil {
		return
	}
	// the text handed to the decoders, and what it denotes
	text := want
	if c.Bad > 0 && c.Bad <= len(c.Data) {
		es := strings.Split(want, "/")
		es[c.Bad-1] = c.BadElem
		text = strings.Join(es, "/")
		res.Class("list-with-one-odd-element")
		if c.Bad > 512 {
			res.Class("odd-element-beyond-512")
		}
	}
	info := tokInfo{kind: tkString, text: text}
	allow := expectBytes(info, "")
	denotes := "nothing (an error is required)"
	if len(allow) > 0 {
		denotes = "another list"
		if allow[renderBytes(c.Data)] {
			denotes = "the list " + brief(c.Data)
		}
	}
	judge := func(site, call string, got tex.JsByte, err error) {
		if res.Fail != nil {
			return
		}
		switch {
		case c.Bad == 0 && (err != nil || !bytes.Equal(got, c.Data)):
			res.Failf("roundtrip/"+site, "JsByte(%s): %s of the encoder's text gives %s, %v (first difference at element %d)", brief(c.Data), call, brief(got), err, firstDiff(got, c.Data))
		case c.Bad > 0 && err == nil && !allow[renderBytes(got)]:
			res.Failf("decode/"+site, "%s of a %d-element list text whose element %d is %q gives %s without error; the text denotes %s", call, len(c.Data), c.Bad-1, c.BadElem, brief(got), denotes)
		}
	}
	back := tex.JsByte{7, 7}
	err = back.FromString(text)
	judge("JsByte/FromString", "FromString", back, err)
	in := []byte(`"` + text + `"`)
	back2 := tex.JsByte{7, 7}
	err = back2.UnmarshalJSON(in)
	judge("JsByte/direct", "UnmarshalJSON", back2, err)
	if err == nil && res.Fail == nil {
		keep := append([]byte(nil), back2...)
		for i := range in {
			in[i] = '8'
		}
		if !bytes.Equal(back2, keep) {
			res.Failf("roundtrip/JsByte/input-reused", "the %d-element list decoded by UnmarshalJSON reads %s once the caller has overwritten its input buffer", len(keep), brief(back2))
		}
	}
	if c.Pair < 0 || c.Pair >= len(codecs)*len(codecs) {
		res.Skip("pair-out-of-range")
		return
	}
	enc, dec := codecs[c.Pair/len(codecs)], codecs[c.Pair%len(codecs)]
	doc := embed([]byte(`"`+text+`"`), false)
	path := dec.name
	if c.Bad == 0 {
		var err error
		if doc, err = enc.marshal(holder[tex.JsByte]{V: b}); err != nil {
			res.Failf("roundtrip/JsByte/"+enc.name, "marshalling {v: %s} failed: %v", brief(c.Data), err)
			return
		}
		if enc.name != dec.name {
			path = enc.name + ">" + dec.name
		}
	}
	h := holder[tex.JsByte]{V: tex.JsByte{7, 7}}
	err = dec.unmarshal(doc, &h)
	judge("JsByte/"+path, dec.name, h.V, err)
	// the decoded lists are the caller's: another list of the same size through the decoders, then they are read again
	if res.Fail == nil && c.Bad == 0 {
		var o1, o2 tex.JsByte
		ot := listText(otherBytes(c.Data))
		_ = o1.FromString(ot)
		_ = o2.UnmarshalJSON([]byte(`"` + ot + `"`))
		if !bytes.Equal(back, c.Data) || !bytes.Equal(back2, c.Data) || !bytes.Equal(h.V, c.Data) {
			res.Failf("decode/JsByte/retained", "a %d-element list a decoder produced reads differently after another list went through the decoders", len(c.Data))
		}
		if s != want || string(js) != want || string(tok) != `"`+want+`"` {
			res.Failf("encode/JsByte/retained", "a text an encoder produced for the %d-element list reads differently after the later calls", len(c.Data))
		}
	}
}

// --- retain

// longEnc is one encoder for part "long", kind retain. enc encodes the value (an integer, or for the byte-string types
// the bytes derived from it); a []byte result is the caller's own, a string result is immutable. denotes: does the text
// (without judging how it was produced) denote the value.
type longEnc struct {
	name    string
	isStr   bool
	enc     func(v int64, b []byte) ([]byte, string, error)
	denotes func(text []byte, v int64, b []byte) bool
}

func jsonIntDenotes(lo, hi *big.Int, render func(int64) string) func([]byte, int64, []byte) bool {
	dec := func(v *big.Int) string { return v.String() }
	return func(text []byte, v int64, _ []byte) bool {
		info, ok := readToken(text)
		return ok && info.kind == tkString && expectInt(info, lo, hi, dec, nil, "")[render(v)]
	}
}

func listDenotes(quoted bool) func([]byte, int64, []byte) bool {
	return func(text []byte, _ int64, b []byte) bool {
		info := tokInfo{kind: tkString, text: string(text)}
		if quoted {
			var ok bool
			if info, ok = readToken(text); !ok || info.kind != tkString {
				return false
			}
		}
		if info.text == "" {
			return len(b) == 0
		}
		return expectBytes(info, "")[renderBytes(b)]
	}
}

func hexDenotes(base int, unsigned bool) func([]byte, int64, []byte) bool {
	return func(text []byte, v int64, _ []byte) bool {
		want := renderI64(v)
		if unsigned {
			want = strconv.FormatUint(uint64(v), 10)
		}
		s := string(text)
		d := baseValue(s, base)
		return d != nil && d.String() == want && strings.Trim(s, blanks) == s
	}
}

func marshalOf(f func(v int64) marshaler) func(int64, []byte) ([]byte, string, error) {
	return func(v int64, _ []byte) ([]byte, string, error) {
		out, err := f(v).MarshalJSON()
		return out, "", err
	}
}

type marshaler = interface{ MarshalJSON() ([]byte, error) }

var longEncs = []longEnc{
	{name: "JsInt64", enc: marshalOf(func(v int64) marshaler { return tex.JsInt64(v) }), denotes: jsonIntDenotes(bigMinI64, bigMaxI64, renderI64)},
	{name: "JsUInt64", enc: marshalOf(func(v int64) marshaler { return tex.JsUInt64(v) }),
		denotes: jsonIntDenotes(bigZero, bigMaxU64, func(v int64) string { return strconv.FormatUint(uint64(v), 10) })},
	{name: "UnixStamp", enc: marshalOf(func(v int64) marshaler { return tex.UnixStamp(v) }), denotes: jsonIntDenotes(bigMinI64, bigMaxI64, renderI64)},
	{name: "JsUnixTime", enc: marshalOf(func(v int64) marshaler { return tex.JsUnixTime(time.Unix(v, 0)) }), denotes: jsonIntDenotes(bigMinI64, bigMaxI64, renderI64)},
	{name: "JsNanoTime", enc: marshalOf(func(v int64) marshaler { return tex.JsNanoTime(time.Unix(0, v)) }), denotes: jsonIntDenotes(bigMinI64, bigMaxI64, renderI64)},
	{name: "Duration", enc: marshalOf(func(v int64) marshaler { return tex.Duration(v) }),
		denotes: func(text []byte, v int64, _ []byte) bool {
			info, ok := readToken(text)
			return ok && info.kind == tkString && expectDuration(info, "")[renderI64(v)]
		}},
	{name: "JsByte.MarshalJSON", enc: func(_ int64, b []byte) ([]byte, string, error) {
		out, err := tex.JsByte(b).MarshalJSON()
		return out, "", err
	}, denotes: listDenotes(true)},
	{name: "JsByte.ToJS", enc: func(_ int64, b []byte) ([]byte, string, error) { return tex.JsByte(b).ToJS(), "", nil }, denotes: listDenotes(false)},
	{name: "JsByte.ToString", isStr: true, enc: func(_ int64, b []byte) ([]byte, string, error) { return nil, tex.JsByte(b).ToString(), nil }, denotes: listDenotes(false)},
	{name: "Base64Bytes.Value", isStr: true, enc: func(_ int64, b []byte) ([]byte, string, error) {
		v, err := tex.Base64Bytes(b).Value()
		s, ok := v.(string)
		if err == nil && !ok {
			err = fmt.Errorf("Value() is a %T, want string", v)
		}
		return nil, s, err
	}, denotes: func(text []byte, _ int64, b []byte) bool {
		d, ok := b64Denotes(text)
		return ok && bytes.Equal(d, b) && !bytes.ContainsAny(text, "\r\n")
	}},
	{name: "I64Hex", isStr: true, enc: func(v int64, _ []byte) ([]byte, string, error) { return nil, tex.I64Hex(v), nil }, denotes: hexDenotes(16, false)},
	{name: "U64Hex", isStr: true, enc: func(v int64, _ []byte) ([]byte, string, error) { return nil, tex.U64Hex(uint64(v)), nil }, denotes: hexDenotes(16, true)},
	{name: "I64HexV2", isStr: true, enc: func(v int64, _ []byte) ([]byte, string, error) { return nil, tex.I64HexV2(v), nil }, denotes: hexDenotes(32, false)},
	{name: "U64HexV2", isStr: true, enc: func(v int64, _ []byte) ([]byte, string, error) { return nil, tex.U64HexV2(uint64(v)), nil }, denotes: hexDenotes(32, true)},
}

// longValue: the k-th value of a retain case and the byte string that goes with it (k = 0: the empty one).
func longValue(c LongCase, k int) (int64, []byte) {
	v := int64(uint64(c.Base) + uint64(k)*uint64(c.Step))
	n := 0
	if c.Len > 0 {
		n = (k * 5) % (c.Len + 1)
	}
	var le [8]byte
	binary.LittleEndian.PutUint64(le[:], uint64(v))
	b := make([]byte, n)
	for j := range b {
		b[j] = le[j%8] + byte(j/8)
	}
	return v, b
}

type longKept struct {
	k         int
	out, copy []byte
	str, priv string
}

func execLongRetain(res *vkit.Result, c LongCase) {
	var e *longEnc
	for i := range longEncs {
		if longEncs[i].name == c.Type {
			e = &longEncs[i]
		}
	}
	if e == nil || c.Calls < 1 || c.Calls > 20000 || c.Keep < 0 || c.Len < 0 || c.Len > 2000 {
		res.Skip("retain-case-outside-domain")
		return
	}
	res.Class("retain " + e.name)
	what := func(k int, v int64, b []byte) string {
		if strings.HasPrefix(e.name, "JsByte") || strings.HasPrefix(e.name, "Base64") {
			return fmt.Sprintf("call %d, %s(%s)", k, e.name, brief(b))
		}
		if strings.HasPrefix(e.name, "U") || e.name == "JsUInt64" {
			return fmt.Sprintf("call %d, %s(%d)", k, e.name, uint64(v))
		}
		return fmt.Sprintf("call %d, %s(%d)", k, e.name, v)
	}
	var kept []longKept
	total := 0
	for k := 0; k < c.Calls; k++ {
		v, b := longValue(c, k)
		bb := append([]byte(nil), b...)
		out, str, err := e.enc(v, bb)
		if err != nil {
			res.Failf("encode/"+e.name, "%s failed: %v", what(k, v, b), err)
			return
		}
		text := out
		if e.isStr {
			text = []byte(str)
		}
		total += len(text)
		if !e.denotes(text, v, b) {
			res.Failf("encode/"+e.name, "%s = %s, a text that does not denote the value", what(k, v, b), briefText(string(text)))
			return
		}
		if k < c.Keep {
			kept = append(kept, longKept{k: k, out: out, copy: append([]byte(nil), out...), str: str, priv: string(append([]byte(nil), str...))})
		}
	}
	switch {
	case total > 1<<16:
		res.Class("retain: 64 KiB+ of texts after the kept ones")
	case total > 1<<12:
		res.Class("retain: 4 KiB+ of texts after the kept ones")
	}
	for _, kp := range kept {
		v, b := longValue(c, kp.k)
		if !bytes.Equal(kp.out, kp.copy) || kp.str != kp.priv {
			res.Failf("encode/"+e.name+"/retained", "%s returned %s; after %d further calls of the encoder the same output reads %s", what(kp.k, v, b),
				briefText(string(kp.copy)+kp.priv), c.Calls-1-kp.k, briefText(string(kp.out)+kp.str))
			return
		}
	}
	if e.isStr {
		return
	}
	// The []byte outputs are the caller's own (json.Marshaler's callers append to them and reuse them): it writes over
	// them; the encoder still has to give the same texts for the same values. The old content is put back afterwards,
	// so that a verdict here says nothing about the cases that follow.
	for _, kp := range kept {
		for i := range kp.out {
			kp.out[i] = 'X'
		}
	}
	defer func() {
		for _, kp := range kept {
			copy(kp.out, kp.copy)
		}
	}()
	for _, kp := range kept {
		v, b := longValue(c, kp.k)
		out, _, err := e.enc(v, append([]byte(nil), b...))
		if err != nil || !bytes.Equal(out, kp.copy) {
			res.Failf("encode/"+e.name+"/output-overwritten", "%s returned %s; once the caller has written over the outputs it was given, the same call returns %s, %v",
				what(kp.k, v, b), briefText(string(kp.copy)), briefText(string(out)), err)
			return
		}
	}
}

func ExecLong(c LongCase) *vkit.Result {
	res := &vkit.Result{NonTrivial: true}
	if len(c.Data) > 1<<14 {
		res.Skip("oversized")
		return res
	}
	switch c.Kind {
	case "base64":
		res.Class("base64 of " + sizeClass(len(c.Data)) + " bytes")
		execLongB64(res, c)
	case "list":
		res.Class("list of " + sizeClass(len(c.Data)) + " elements")
		execLongList(res, c)
	case "retain":
		execLongRetain(res, c)
	default:
		res.NonTrivial = false
		res.Skip("unknown-kind")
	}
	return res
}

func sizeClass(n int) string {
	switch {
	case n <= 64:
		return "<=64"
	case n <= 512:
		return "65-512"
	case n <= 1024:
		return "513-1024"
	case n <= 4096:
		return "1025-4096"
	}
	return "4097+"
}

var PartLong = &vkit.Part[LongCase]{
	Property: Property, Name: "long",
	Rule:  "rapid: few, long cases of three kinds. base64 (30%): 41-5000 random bytes (half of the sizes within 2 of 48, 57, 63-65, 96, 128, 192, 255-257, 1023-1025, 4095-4097) through Base64Bytes.Value (whose text must denote the bytes under the independent reading of part base64-scan) and back through Scan as string and []byte (source overwritten afterwards); the string handed out is read again after another Value call. list (30%): a JsByte list of 41-5000 random elements (half of the sizes within 2 of 127-129, 255-257, 511-513, 1023-1025, 4095-4097): ToString, ToJS and MarshalJSON must give the decimal '/'-list; FromString, UnmarshalJSON and one of the 9 library pairings must give the list back; in a third of the cases one element (any position, half of them in the last quarter) of the text handed to the decoders is 256, -1, 300, 1000, empty, 2^32, -256, 511, +5, 0x10, 1.0, a or 2^64: error or exactly the denoted list; decoded lists and texts are read again after another list of the same size went through. retain (40%): one encoder (MarshalJSON of JsInt64 - a quarter of the cases -, JsUInt64, UnixStamp, JsUnixTime, JsNanoTime, Duration, JsByte; JsByte.ToJS / ToString; Base64Bytes.Value; I64Hex, U64Hex, I64HexV2, U64HexV2) is called 300-3000 times with the values Base + k*Step (Base from the int64 edges, small or uniform; Step 1, -1, 7, 1000, 2^32+1, +-0x123456789abcdf, 999999999999 or uniform; byte strings of k*5 mod (Len+1) bytes taken from the value, Len 0-200, the first one empty): every output must denote its value; the first 1-8 outputs are kept with a private copy and must read the same after all later calls; then the caller writes over the []byte outputs it was given and encodes the same values again, which must give the same texts. Non-trivial: every case; distinct = distinct case JSON",
	Quick: 700, Thorough: 3000,
	Gen: GenLong, Exec: ExecLong,
}
