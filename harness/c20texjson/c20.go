// Package c20texjson decides property C20: the JSON/SQL/text adapted scalar
// types of package tex round-trip through their own encoders, and their
// decoders never mis-decode: on any well-formed JSON scalar token a decoder
// returns an error or exactly the in-range value the text denotes.
//
// Two parts:
//
//	roundtrip  one value of every type per case, through every encoder/decoder
//	           pairing (direct methods, encoding/json, jsonx = jsoniter in two
//	           configurations, crosswise), SQL Value/Scan, hex / base-32 helpers;
//	token      one JSON scalar token per case, given to every UnmarshalJSON
//	           directly and embedded in a document through encoding/json and
//	           jsonx; the verdict comes from an arbitrary-precision (math/big)
//	           reading of the token that is written from the property statement,
//	           not from the decoders.
package c20texjson

import (
	"bytes"
	"database/sql/driver"
	"encoding/json"
	"fmt"
	"math"
	"math/big"
	"math/bits"
	"sort"
	"strconv"
	"strings"
	"time"
	_ "time/tzdata" // the zone database for the process zones of setLocal, independent of the machine
	"unicode/utf8"

	"github.com/pinealctx/neptune/jsonx"
	"github.com/pinealctx/neptune/tex"
	"pgregory.net/rapid"

	"verifharness/vkit"
)

const Property = "C20"

// ---------------------------------------------------------------------------
// what a text denotes (the oracle; arbitrary precision, independent of strconv)

var (
	bigMinI64 = big.NewInt(math.MinInt64)
	bigMaxI64 = big.NewInt(math.MaxInt64)
	bigZero   = big.NewInt(0)
	bigMaxU64 = new(big.Int).SetUint64(math.MaxUint64)
	big255    = big.NewInt(255)
	bigE9     = big.NewInt(1000000000)
)

const blanks = " \t\r\n"

func isDigits(s string) bool {
	if s == "" {
		return false
	}
	for i := 0; i < len(s); i++ {
		if s[i] < '0' || s[i] > '9' {
			return false
		}
	}
	return true
}

// digitsValue is the value of a non-empty string of ASCII digits in base 10.
func digitsValue(s string) *big.Int {
	v := new(big.Int)
	ten := big.NewInt(10)
	for i := 0; i < len(s); i++ {
		v.Mul(v, ten)
		v.Add(v, big.NewInt(int64(s[i]-'0')))
	}
	return v
}

// numeral is the reading of a decimal numeral
// [+-] digits [ . digits ] [ (e|E) [+-] digits ]   (at least one mantissa digit).
type numeral struct {
	ok       bool     // the text is a decimal numeral
	plain    bool     // no fraction and no exponent
	integer  *big.Int // its value, if that is an integer below 10^60 in magnitude; nil otherwise
	sigDigit int      // mantissa digits without leading zeros (plain numerals)
	plus     bool
	leadZero bool
	hasFrac  bool
	hasExp   bool
}

func readNumeral(s string) numeral {
	var n numeral
	neg := false
	if s != "" && (s[0] == '+' || s[0] == '-') {
		neg = s[0] == '-'
		n.plus = s[0] == '+'
		s = s[1:]
	}
	mant, exp := s, ""
	if i := strings.IndexAny(s, "eE"); i >= 0 {
		mant, exp = s[:i], s[i+1:]
		n.hasExp = true
		es := exp
		if es != "" && (es[0] == '+' || es[0] == '-') {
			es = es[1:]
		}
		if !isDigits(es) {
			return numeral{}
		}
	}
	ip, fp := mant, ""
	if i := strings.IndexByte(mant, '.'); i >= 0 {
		ip, fp = mant[:i], mant[i+1:]
		n.hasFrac = true
		if fp != "" && !isDigits(fp) {
			return numeral{}
		}
	}
	if ip != "" && !isDigits(ip) {
		return numeral{}
	}
	if ip == "" && fp == "" {
		return numeral{}
	}
	n.ok = true
	n.plain = !n.hasFrac && !n.hasExp
	n.leadZero = len(ip) > 1 && ip[0] == '0'
	digits := strings.TrimLeft(ip+fp, "0")
	n.sigDigit = len(digits)
	if digits == "" { // the value is zero whatever the exponent says
		n.integer = new(big.Int)
		return n
	}
	// value = digits * 10^(e - len(fp))
	scale := new(big.Int)
	if exp != "" {
		eneg := exp[0] == '-'
		es := strings.TrimLeft(exp, "+-")
		scale = digitsValue(es)
		if eneg {
			scale.Neg(scale)
		}
	}
	scale.Sub(scale, big.NewInt(int64(len(fp))))
	m := digitsValue(digits)
	switch {
	case scale.Sign() >= 0:
		if scale.Cmp(big.NewInt(60)) > 0 || len(digits) > 60 {
			return n // far outside every range of interest
		}
		m.Mul(m, new(big.Int).Exp(big.NewInt(10), scale, nil))
	default:
		k := new(big.Int).Neg(scale)
		if k.Cmp(big.NewInt(int64(len(digits)))) >= 0 {
			return n // 0 < |value| < 1
		}
		q, r := new(big.Int).QuoRem(m, new(big.Int).Exp(big.NewInt(10), k, nil), new(big.Int))
		if r.Sign() != 0 {
			return n // a fraction remains
		}
		m = q
	}
	if neg {
		m.Neg(m)
	}
	n.integer = m
	return n
}

// baseValue reads [+-] digits in base 16 or 32 (letters in either case; for
// base 16 an optional 0x prefix is tolerated). nil if the text is anything else.
func baseValue(s string, base int) *big.Int {
	s = strings.Trim(s, blanks)
	neg := false
	if s != "" && (s[0] == '+' || s[0] == '-') {
		neg = s[0] == '-'
		s = s[1:]
	}
	if base == 16 && len(s) > 2 && s[0] == '0' && (s[1] == 'x' || s[1] == 'X') {
		s = s[2:]
	}
	if s == "" {
		return nil
	}
	v := new(big.Int)
	b := big.NewInt(int64(base))
	for i := 0; i < len(s); i++ {
		c := s[i]
		var d int
		switch {
		case c >= '0' && c <= '9':
			d = int(c - '0')
		case c >= 'a' && c <= 'z':
			d = int(c-'a') + 10
		case c >= 'A' && c <= 'Z':
			d = int(c-'A') + 10
		default:
			return nil
		}
		if d >= base {
			return nil
		}
		v.Mul(v, b)
		v.Add(v, big.NewInt(int64(d)))
	}
	if neg {
		v.Neg(v)
	}
	return v
}

func inRange(v, lo, hi *big.Int) bool { return v != nil && v.Cmp(lo) >= 0 && v.Cmp(hi) <= 0 }

// ---------------------------------------------------------------------------
// JSON scalar tokens

type tokKind int

const (
	tkString tokKind = iota
	tkNumber
	tkNull
	tkBool
)

type tokInfo struct {
	kind    tokKind
	text    string // unescaped content of a string token, else the token itself
	escaped bool   // a string token that uses backslash escapes
}

// readToken accepts exactly the well-formed JSON scalar tokens (no surrounding
// white space), which is what encoding/json and jsoniter hand to UnmarshalJSON.
func readToken(tok []byte) (tokInfo, bool) {
	if len(tok) == 0 || len(tok) > 4096 || !json.Valid(tok) {
		return tokInfo{}, false
	}
	if strings.IndexByte(blanks, tok[0]) >= 0 || strings.IndexByte(blanks, tok[len(tok)-1]) >= 0 {
		return tokInfo{}, false
	}
	switch c := tok[0]; {
	case c == '"':
		var s string
		if err := json.Unmarshal(tok, &s); err != nil {
			return tokInfo{}, false
		}
		return tokInfo{kind: tkString, text: s, escaped: bytes.IndexByte(tok, '\\') >= 0}, true
	case c == 'n':
		return tokInfo{kind: tkNull, text: string(tok)}, true
	case c == 't' || c == 'f':
		return tokInfo{kind: tkBool, text: string(tok)}, true
	case c == '-' || (c >= '0' && c <= '9'):
		return tokInfo{kind: tkNumber, text: string(tok)}, true
	}
	return tokInfo{}, false // object or array
}

// allowed is the set of renderings a decoder may produce *without an error*.
// Empty: the decoder has to fail.
type allowed map[string]bool

func (a allowed) String() string {
	if len(a) == 0 {
		return "nothing (an error is required)"
	}
	var ks []string
	for k := range a {
		ks = append(ks, k)
	}
	sort.Strings(ks)
	return strings.Join(ks, " or ")
}

// intText: the integer a text denotes for the decimal types. Surrounding blanks
// are tolerated (the decoder may also reject them); anything else that is not a
// numeral with an integral value denotes nothing.
func intText(s string) *big.Int {
	return readNumeral(strings.Trim(s, blanks)).integer
}

// expectInt: integer-valued types (JsInt64, JsUInt64, UnixStamp, JsUnixTime,
// JsNanoTime). render turns the denoted integer into the rendering of the type.
func expectInt(info tokInfo, lo, hi *big.Int, render func(*big.Int) string, zero []string, unchanged string) allowed {
	a := allowed{}
	switch info.kind {
	case tkNull:
		a[unchanged] = true // may fail or leave the target as it was
	case tkBool:
	case tkString:
		if strings.Trim(info.text, blanks) == "" { // deliberately open: error or zero
			for _, z := range zero {
				a[z] = true
			}
			return a
		}
		if v := intText(info.text); inRange(v, lo, hi) {
			a[render(v)] = true
		}
	case tkNumber:
		if v := readNumeral(info.text).integer; inRange(v, lo, hi) {
			a[render(v)] = true
		}
	}
	return a
}

func renderBytes(b []byte) string {
	if len(b) == 0 {
		return "[]"
	}
	return fmt.Sprint([]byte(b))
}

// expectBytes: JsByte, a '/'-separated list of decimal bytes.
func expectBytes(info tokInfo, unchanged string) allowed {
	a := allowed{}
	var elems []string
	switch info.kind {
	case tkNull:
		a[unchanged] = true
		return a
	case tkBool:
		return a
	case tkString:
		if strings.Trim(info.text, blanks) == "" {
			a["[]"] = true
			return a
		}
		elems = strings.Split(info.text, "/")
	case tkNumber:
		elems = []string{info.text}
	}
	out := make([]byte, 0, len(elems))
	for _, e := range elems {
		v := intText(e)
		if !inRange(v, bigZero, big255) {
			return a // an element that is no byte: the list denotes nothing
		}
		out = append(out, byte(v.Int64()))
	}
	a[renderBytes(out)] = true
	return a
}

// expectDuration: the type is documented by its encoder (time.Duration.String)
// and time.ParseDuration is Go's definition of what such a text denotes; a
// unit-less integer may at most be read as that many nanoseconds.
func expectDuration(info tokInfo, unchanged string) allowed {
	a := allowed{}
	switch info.kind {
	case tkNull:
		a[unchanged] = true
	case tkBool:
	case tkString:
		t := strings.Trim(info.text, blanks)
		if t == "" {
			a["0"] = true
			return a
		}
		if d, err := time.ParseDuration(info.text); err == nil {
			a[strconv.FormatInt(int64(d), 10)] = true
		}
		if d, err := time.ParseDuration(t); err == nil {
			a[strconv.FormatInt(int64(d), 10)] = true
		}
		if n := readNumeral(t); n.ok && inRange(n.integer, bigMinI64, bigMaxI64) {
			a[n.integer.String()] = true
		}
	case tkNumber:
		if v := readNumeral(info.text).integer; inRange(v, bigMinI64, bigMaxI64) {
			a[v.String()] = true
		}
	}
	return a
}

// ---------------------------------------------------------------------------
// renderings of decoded values (never format a time.Time: extreme instants)

func renderI64(v int64) string { return strconv.FormatInt(v, 10) }

func renderSecTime(t time.Time) string {
	if t.Nanosecond() == 0 {
		return strconv.FormatInt(t.Unix(), 10)
	}
	return fmt.Sprintf("%ds+%dns", t.Unix(), t.Nanosecond())
}

func renderNanoTime(t time.Time) string {
	v := new(big.Int).Mul(big.NewInt(t.Unix()), bigE9)
	v.Add(v, big.NewInt(int64(t.Nanosecond())))
	return v.String() + "ns"
}

func showTime(t time.Time) string {
	return fmt.Sprintf("(unix %d s + %d ns)", t.Unix(), t.Nanosecond())
}

var sentinelTime = time.Unix(7777, 7)

type holder[T any] struct {
	V T `json:"v"`
}

func show(b []byte) string {
	if utf8.Valid(b) && len(b) < 200 {
		return "`" + string(b) + "`"
	}
	return fmt.Sprintf("%q", b)
}

// ---------------------------------------------------------------------------
// part "token"

type TokenCase struct {
	Token string `json:"token"`         // the JSON scalar token (valid UTF-8)
	Raw   []byte `json:"raw,omitempty"` // used instead of Token when set (tokens that are not valid UTF-8; fuzzing only)
	Pad   bool   `json:"pad,omitempty"` // embed with blanks around the token and members before/after it
}

func (c TokenCase) bytes() []byte {
	if len(c.Raw) > 0 {
		return append([]byte(nil), c.Raw...)
	}
	return []byte(c.Token)
}

// MakeTokenCase builds a case from arbitrary bytes (fuzzing entry): a
// well-formed scalar token is taken as it is, anything else becomes the content
// of a string token.
func MakeTokenCase(data []byte, pad bool) TokenCase {
	tok := data
	if _, ok := readToken(data); !ok {
		tok = quoteJSON(data, 0)
	}
	c := TokenCase{Pad: pad}
	if utf8.Valid(tok) {
		c.Token = string(tok)
	} else {
		c.Raw = append([]byte(nil), tok...)
	}
	return c
}

// quoteJSON writes content as a JSON string token. mode 0: escape only what
// JSON requires; 1: every ASCII character as \u00XX; 2: additionally "\/".
func quoteJSON(content []byte, mode int) []byte {
	out := []byte{'"'}
	for _, c := range content {
		switch {
		case mode == 1 && c < 0x80:
			out = append(out, fmt.Sprintf(`\u%04x`, c)...)
		case c == '"' || c == '\\':
			out = append(out, '\\', c)
		case c < 0x20 || c == 0x7f:
			out = append(out, fmt.Sprintf(`\u%04x`, c)...)
		case mode == 2 && c == '/':
			out = append(out, '\\', '/')
		default:
			out = append(out, c)
		}
	}
	return append(out, '"')
}

// rapid's IntRange and SampledFrom are deliberately skewed towards small values
// and early elements; the mixture weights below are meant literally, so choices
// between alternatives are assembled from fair coin flips (which still shrink
// towards alternative 0).
func pick(t *rapid.T, label string, n int) int {
	if n <= 1 {
		return 0
	}
	v := 0
	for i := bits.Len(uint(n-1)) + 3; i > 0; i-- {
		v <<= 1
		if rapid.Bool().Draw(t, label) {
			v |= 1
		}
	}
	return v % n
}

func choose[T any](t *rapid.T, label string, xs []T) T { return xs[pick(t, label, len(xs))] }

// pct is true with probability p/100.
func pct(t *rapid.T, label string, p int) bool { return pick(t, label, 100) < p }

var boundaryDigits = []string{
	"0", "1", "2", "9", "10", "12", "99", "100", "105", "123", "127", "128", "200", "254", "255", "256", "257", "300", "999", "1000",
	"32767", "32768", "65535", "65536", "12121212", "2147483647", "2147483648", "4294967295", "4294967296", "4294967301",
	"9007199254740993", "1000000000000000000",
	"9223372036854775806", "9223372036854775807", "9223372036854775808", "9223372036854775809",
	"18446744073709551614", "18446744073709551615", "18446744073709551616", "18446744073709551617",
	"99999999999999999999", "100000000000000000000", "340282366920938463463374607431768211456", "1000000000000000000000000",
}

func genDigits(t *rapid.T, label string) string {
	var s string
	switch pick(t, label+"kind", 10) {
	case 0, 1, 2:
		s = choose(t, label+"bd", boundaryDigits)
	case 3, 4, 5:
		s = rapid.StringOfN(rapid.RuneFrom([]rune("0123456789")), 1, 25, -1).Draw(t, label+"rnd")
	case 6, 7:
		s = strconv.Itoa(rapid.IntRange(0, 300).Draw(t, label+"small"))
	default: // 2^k - 1, 2^k, 2^k + 1
		k := rapid.IntRange(0, 70).Draw(t, label+"k")
		v := new(big.Int).Lsh(big.NewInt(1), uint(k))
		v.Add(v, big.NewInt(int64(rapid.IntRange(-1, 1).Draw(t, label+"d"))))
		s = v.String()
	}
	if pick(t, label+"lz", 10) == 0 {
		s = strings.Repeat("0", rapid.IntRange(1, 3).Draw(t, label+"nlz")) + s
	}
	return s
}

// oddSigns: what may stand where a sign belongs without being one - doubled signs, something between the sign and
// the digits, zeros or junk before the sign. None of these is part of a numeral: whatever follows, the text denotes
// nothing (or, for "-." / "+.", a fraction).
var oddSigns = []string{"++", "+-", "-+", "--", "+-+", "- ", "+ ", "-x", "+_", "-_", "-.", "+.", "+/", "-:", "-'", "00-", "0-", "0+", "00+", "x", "x-", " -", " +",
	"1-", "1+", "-0-", "+0+", "-0+", "\u2212", "\uff0b"}

func genSign(t *rapid.T, label string) string {
	if pick(t, label+"odd?", 20) == 0 {
		return choose(t, label+"odd", oddSigns) // the last two: U+2212 MINUS SIGN, U+FF0B FULLWIDTH PLUS SIGN
	}
	return choose(t, label, []string{"", "", "", "", "", "", "-", "-", "-", "+"})
}

// nearDigits: characters just below '0' and just above '9' in ASCII (what a hand-rolled digit loop with an off-by-one
// bound lets through), and a few others, to be put at any position of a digit string.
var nearDigits = []string{":", ":", ";", "<", "=", "@", "/", "/", ".", "`", "-", "+", " ", "_", "a", "\x00", "٣"}

// nearBaseDigits: the same for the base-16 / base-32 helpers (G/g are digits in base 32 only, W/w in neither).
var nearBaseDigits = []string{":", "@", "/", "`", "G", "g", "W", "w", "[", "{", "_", " ", "-", "+", "."}

// disturb puts one of chars into s at a drawn position, in place of a character or between two.
func disturb(t *rapid.T, label, s string, chars []string) string {
	pos := rapid.IntRange(0, len(s)).Draw(t, label+"pos")
	ch := choose(t, label+"ch", chars)
	if pos < len(s) && rapid.Bool().Draw(t, label+"repl") {
		return s[:pos] + ch + s[pos+1:]
	}
	return s[:pos] + ch + s[pos:]
}

func genBlank(t *rapid.T, label string) string {
	if pick(t, label+"?", 10) != 0 {
		return ""
	}
	return choose(t, label, []string{" ", "\t", "  ", "\n", "\r\n"})
}

var junkTails = []string{"a", "x", "L", "f", ".", ".0", ".5", ".50", "e3", "E2", "e-1", "e+0", "e", "_", "_000", " 1", "/", "//", ",", "\"", "\\", "é", "٣", "０",
	"\x00", "0x1", "h", "ns", "s", "-", "+", "%", "n", ":", ";", "@", "=", " ", " "}

func genJunk(t *rapid.T, label string) string {
	if !pct(t, label+"?", 30) {
		return ""
	}
	return choose(t, label, junkTails)
}

func genIntText(t *rapid.T, label string) string {
	lead := genBlank(t, label+"lb")
	sign := genSign(t, label+"sg")
	digits := genDigits(t, label+"dg")
	if pick(t, label+"near?", 16) == 0 {
		digits = disturb(t, label+"near", digits, nearDigits)
	}
	return lead + sign + digits + genJunk(t, label+"jk") + genBlank(t, label+"tb")
}

// longLists: element counts around a power of two and well above the usual handful.
var longLists = []int{63, 64, 65, 100, 300}

func genListElem(t *rapid.T, label string) string {
	switch pick(t, label+"ek", 12) {
	case 0:
		return choose(t, label+"big", []string{"256", "257", "300", "511", "512", "1000", "65535", "4294967296", "18446744073709551616", "99999999999999999999"})
	case 1:
		return choose(t, label+"neg", []string{"-1", "-0", "-255", "-256", "-128", "-9223372036854775808"})
	case 2:
		return genIntText(t, label+"it")
	case 3:
		return choose(t, label+"odd", []string{"", "+5", "007", "0255", "00", " 9", "9 ", "1.0", "2e1", "0x10", "a"})
	case 4:
		return choose(t, label+"edge", []string{"0", "255", "254", "1", "128", "127", "10", "100"})
	default:
		return strconv.Itoa(rapid.IntRange(0, 255).Draw(t, label+"b"))
	}
}

func genDurationText(t *rapid.T) string {
	s := choose(t, "dsign", []string{"", "", "", "", "", "", "-", "-", "+", "+", "++", "--", "+-", "-+", "- ", "0-"})
	n := rapid.IntRange(1, 3).Draw(t, "dterms")
	for i := 0; i < n; i++ {
		s += choose(t, "dnum", []string{"0", "1", "2", "10", "59", "60", "100", "1.5", "0.5", ".5", "2562047", "9223372036854775807", "9223372036854775808", "16.854775807", "16.854775808", "1000000", ""})
		s += choose(t, "dunit", []string{"ns", "us", "µs", "μs", "ms", "s", "m", "h", "h", "s", "d", "", "S"})
	}
	if pick(t, "djunk?", 10) == 0 {
		s += choose(t, "djunk", []string{" ", "x", "1", "."})
	}
	return s
}

var hexBoundary = []string{"0", "f", "ff", "100", "7fffffff", "ffffffff", "7fffffffffffffff", "8000000000000000", "8000000000000001", "ffffffffffffffff", "10000000000000000",
	"7FFFFFFFFFFFFFFF", "FFFFFFFFFFFFFFFF", "fffffffffffffffff", "deadbeef", "0x1f", "0Xff", "g", "1g"}
var b32Boundary = []string{"0", "v", "10", "vv", "7vvvvvvvvvvvv", "8000000000000", "8000000000001", "fvvvvvvvvvvvv", "g000000000000", "7VVVVVVVVVVVV", "FVVVVVVVVVVVV", "vvvvvvvvvvvvvv", "w", "1w", "1vvvvvv"}

func genBaseText(t *rapid.T) string {
	s := genSign(t, "bsign")
	switch pick(t, "bkind", 5) {
	case 0:
		s += choose(t, "hexb", hexBoundary)
	case 1:
		s += choose(t, "b32b", b32Boundary)
	case 2:
		s += rapid.StringOfN(rapid.RuneFrom([]rune("0123456789abcdefABCDEF")), 1, 18, -1).Draw(t, "hexr")
	case 3: // a radix prefix as Go's (and C's) literals have it, often with the digit separator of those literals
		digits := choose(t, "pfxd", []string{"0", "1f", "ff", "7fffffff", "ffffffff", "7fffffffffffffff", "8000000000000000", "ffffffffffffffff", "10000000000000000",
			"7FFFFFFFFFFFFFFF", "1000", "deadbeef", "777", "101", "19"})
		if rapid.Bool().Draw(t, "pfxrnd") {
			digits = rapid.StringOfN(rapid.RuneFrom([]rune("0123456789abcdefABCDEF")), 1, 17, -1).Draw(t, "pfxr")
		}
		switch pick(t, "pfxsep", 4) {
		case 0: // one separator between two digits or right after the prefix
			pos := rapid.IntRange(0, len(digits)-1).Draw(t, "pfxpos")
			digits = digits[:pos] + "_" + digits[pos:]
		case 1:
			digits += choose(t, "pfxtail", []string{"_000", "_0", "_f", "_ff_ff", "_", "__0"})
		}
		s += choose(t, "pfx", []string{"0x", "0X", "0x", "0X", "0b", "0o", "0B", "0O", "0", "x", "#", "16r"}) + digits
	default:
		s += rapid.StringOfN(rapid.RuneFrom([]rune("0123456789abcdefghijklmnopqrstuvV")), 1, 15, -1).Draw(t, "b32r")
	}
	if pick(t, "bnear?", 12) == 0 {
		s = disturb(t, "bnear", s, nearBaseDigits)
	}
	return s + genJunk(t, "bjunk")
}

func genBareNumber(t *rapid.T) string {
	s := ""
	if pick(t, "nneg", 4) == 0 {
		s = "-"
	}
	ip := strings.TrimLeft(genDigits(t, "n"), "0")
	if ip == "" {
		ip = "0"
	}
	s += ip
	if pct(t, "frac?", 30) {
		s += choose(t, "frac", []string{".0", ".00", ".5", ".25", ".10", ".000000000000000000001", ".9"})
	}
	if pct(t, "exp?", 30) {
		s += choose(t, "exp", []string{"e0", "E0", "e1", "e2", "E3", "e+2", "e-1", "e-2", "E-3", "e18", "e19", "e20", "e-30", "e400", "e-400"})
	}
	return s
}

// GenToken draws one well-formed JSON scalar token.
func GenToken(t *rapid.T) TokenCase {
	c := TokenCase{Pad: pick(t, "pad", 4) == 3}
	kind := pick(t, "kind", 100)
	var content string
	switch {
	case kind < 24: // bare number
		c.Token = genBareNumber(t)
		return c
	case kind < 27:
		c.Token = choose(t, "lit", []string{"null", "true", "false"})
		return c
	case kind < 30: // the encoders' own output (the trivial class)
		switch pick(t, "enc", 4) {
		case 0:
			content = strconv.FormatInt(rapid.Int64().Draw(t, "i"), 10)
		case 1:
			content = strconv.FormatUint(rapid.Uint64().Draw(t, "u"), 10)
		case 2:
			content = tex.JsByte(rapid.SliceOfN(rapid.Byte(), 0, 6).Draw(t, "b")).ToString()
		default:
			content = time.Duration(rapid.Int64().Draw(t, "d")).String()
		}
	case kind < 60:
		content = genIntText(t, "i")
	case kind < 80: // list
		n := rapid.IntRange(0, 6).Draw(t, "nelem")
		var es []string
		if pick(t, "long?", 60) == 0 { // a long list of bytes with at most one other element
			n = choose(t, "nlong", longLists)
			for i := 0; i < n; i++ {
				es = append(es, strconv.Itoa(rapid.IntRange(0, 255).Draw(t, "lb")))
			}
			if rapid.Bool().Draw(t, "lodd?") {
				es[rapid.IntRange(0, n-1).Draw(t, "loddpos")] = genListElem(t, "le")
			}
			n = 0
		}
		for i := 0; i < n; i++ {
			es = append(es, genListElem(t, "e"))
		}
		n = len(es)
		content = strings.Join(es, "/")
		if n > 0 && pick(t, "trail", 15) == 0 {
			content += "/"
		}
	case kind < 83:
		content = choose(t, "tiny", []string{"", "", " ", "  ", "\t", "-", "+", "/", ".", "e"})
	case kind < 90:
		content = genDurationText(t)
	default:
		content = genBaseText(t)
	}
	mode := 0
	switch pick(t, "esc", 20) {
	case 18:
		mode = 1
	case 19:
		mode = 2
	}
	if len(content) > 600 { // keep the token below readToken's size bound
		mode = 0
	}
	c.Token = string(quoteJSON([]byte(content), mode))
	return c
}

func embed(tok []byte, pad bool) []byte {
	if pad {
		return []byte(`{"u":1,"v": ` + string(tok) + ` ,"w":"x"}`)
	}
	return []byte(`{"v":` + string(tok) + `}`)
}

// checkDecode gives the token to *T directly and inside a document through the
// three JSON libraries; a nil error obliges the decoder to one of `want`.
func checkDecode[T any](res *vkit.Result, name string, tok, doc []byte, init func() T, render func(T) string, want allowed) {
	try := func(path string, v T, err error) {
		if err != nil {
			return
		}
		res.Class("accepted-by-a-decoder")
		if got := render(v); !want[got] && res.Fail == nil {
			res.Failf("decode/"+name+"/"+path, "%s: token %s decoded without error to %s; the text denotes %s", name, show(tok), got, want)
		}
	}
	v := init()
	err := any(&v).(json.Unmarshaler).UnmarshalJSON(append([]byte(nil), tok...))
	try("direct", v, err)
	h := holder[T]{V: init()}
	err = json.Unmarshal(doc, &h)
	try("encoding-json", h.V, err)
	h = holder[T]{V: init()}
	err = jsonx.JSONUnmarshal(doc, &h)
	try("jsonx-std", h.V, err)
	h = holder[T]{V: init()}
	err = jsonx.JSONFastUnmarshal(doc, &h)
	try("jsonx-fast", h.V, err)
}

func checkBase[V int64 | uint64](res *vkit.Result, name, text string, base int, lo, hi *big.Int, f func(string) (V, error)) {
	got, err := f(text)
	if err != nil || res.Fail != nil {
		return
	}
	res.Class("accepted-by-a-hex-helper")
	want := baseValue(text, base)
	gs := fmt.Sprint(got)
	if !inRange(want, lo, hi) || want.String() != gs {
		den := "nothing (an error is required)"
		if inRange(want, lo, hi) {
			den = want.String()
		}
		res.Failf("decode/"+name, "%s(%q) = %s without error; in base %d the text denotes %s", name, text, gs, base, den)
	}
}

var canonInt = func(s string) bool {
	if s == "0" {
		return true
	}
	t := strings.TrimPrefix(s, "-")
	return isDigits(t) && t[0] != '0' && len(t) <= 20 && inRange(readNumeral(s).integer, bigMinI64, bigMaxU64)
}

// encoderOutput: could one of the encoders under test have produced this token?
func encoderOutput(info tokInfo) bool {
	if info.kind != tkString || info.escaped {
		return false
	}
	s := info.text
	if s == "" || canonInt(s) {
		return true
	}
	list := true
	for _, e := range strings.Split(s, "/") {
		if !canonInt(e) || strings.HasPrefix(e, "-") || !inRange(readNumeral(e).integer, bigZero, big255) {
			list = false
			break
		}
	}
	if list {
		return true
	}
	if d, err := time.ParseDuration(s); err == nil && d.String() == s {
		return true
	}
	return false
}

func classifyToken(res *vkit.Result, info tokInfo) {
	switch info.kind {
	case tkNull:
		res.Class("null")
	case tkBool:
		res.Class("true/false")
	case tkNumber:
		n := readNumeral(info.text)
		switch {
		case n.plain && len(strings.TrimPrefix(info.text, "-")) >= 2:
			res.Class("bare-integer>=2digits (F14)")
		case n.plain:
			res.Class("bare-integer-1digit")
		}
		if n.hasFrac {
			res.Class("bare-fraction")
		}
		if n.hasExp {
			res.Class("bare-exponent-form")
		}
		if n.integer != nil && !n.plain {
			res.Class("bare-frac/exp-with-integral-value")
		}
		classifyInt(res, n)
	case tkString:
		s := info.text
		if info.escaped {
			res.Class("string-with-escapes")
		}
		if strings.Trim(s, blanks) == "" {
			res.Class("string-empty-or-blank")
			return
		}
		if strings.Trim(s, blanks) != s {
			res.Class("string-surrounding-blanks")
		}
		n := readNumeral(strings.Trim(s, blanks))
		if ts := strings.Trim(s, blanks); len(ts) >= 3 && strings.IndexByte("+-", ts[0]) >= 0 && strings.IndexByte("+-", ts[1]) >= 0 {
			res.Class("string-doubled-sign")
		}
		if !n.ok && len(s) >= 2 && strings.ContainsAny(s, "0123456789") && strings.ContainsAny(s, ":;<=@`") {
			res.Class("string-digits-with-an-ascii-neighbour-of-the-digits")
		}
		if strings.Count(s, "/") >= 62 {
			res.Class("list-63+-elements")
		}
		switch {
		case n.ok && n.plain:
			res.Class("string-integer")
			if n.leadZero {
				res.Class("string-leading-zeros")
			}
			if n.plus {
				res.Class("string-plus-sign")
			}
			classifyInt(res, n)
		case n.ok:
			res.Class("string-fraction/exponent")
		case strings.Contains(s, "/"):
			res.Class("string-list")
			valid := true
			for _, e := range strings.Split(s, "/") {
				v := intText(e)
				switch {
				case v == nil:
					valid = false
				case v.Sign() < 0:
					res.Class("list-element-negative (F15)")
					valid = false
				case v.Cmp(big255) > 0:
					res.Class("list-element>=256 (F15)")
					valid = false
				}
			}
			if valid {
				res.Class("list-of-bytes")
			} else {
				res.Class("list-denoting-nothing")
			}
		default:
			if _, err := time.ParseDuration(s); err == nil {
				res.Class("string-duration-literal")
			} else if baseValue(s, 16) != nil || baseValue(s, 32) != nil {
				res.Class("string-hex/base32-digits")
			} else {
				res.Class("string-junk")
			}
		}
		if n.ok && n.plain {
			if v := n.integer; v != nil && (v.Sign() < 0 || v.Cmp(big255) > 0) {
				res.Class("single-element-outside-byte (F15)")
			}
		}
	}
}

func classifyInt(res *vkit.Result, n numeral) {
	if n.plain && n.sigDigit >= 20 {
		res.Class("integer-20+digits")
	}
	if v := n.integer; v != nil {
		for _, b := range []*big.Int{bigMinI64, bigMaxI64, bigMaxU64} {
			d := new(big.Int).Sub(v, b)
			if d.CmpAbs(big.NewInt(1)) <= 0 {
				res.Class("integer-at-a-range-boundary")
			}
		}
		if v.Sign() < 0 {
			res.Class("integer-negative")
		}
		if !inRange(v, bigMinI64, bigMaxU64) {
			res.Class("integer-outside-every-range")
		}
	}
}

func ExecToken(c TokenCase) *vkit.Result {
	res := &vkit.Result{}
	tok := c.bytes()
	info, ok := readToken(tok)
	if !ok {
		res.Skip("not-a-well-formed-json-scalar")
		return res
	}
	classifyToken(res, info)
	if encoderOutput(info) {
		res.Class("encoder-output (trivial)")
	} else {
		res.NonTrivial = true
	}
	doc := embed(tok, c.Pad)
	if !json.Valid(doc) {
		res.Skip("embedding-not-valid")
		return res
	}
	dec := func(v *big.Int) string { return v.String() }

	checkDecode(res, "JsInt64", tok, doc,
		func() tex.JsInt64 { return -7777 },
		func(v tex.JsInt64) string { return renderI64(int64(v)) },
		expectInt(info, bigMinI64, bigMaxI64, dec, []string{"0"}, "-7777"))
	checkDecode(res, "JsUInt64", tok, doc,
		func() tex.JsUInt64 { return 7777 },
		func(v tex.JsUInt64) string { return strconv.FormatUint(uint64(v), 10) },
		expectInt(info, bigZero, bigMaxU64, dec, []string{"0"}, "7777"))
	checkDecode(res, "UnixStamp", tok, doc,
		func() tex.UnixStamp { return -7777 },
		func(v tex.UnixStamp) string { return renderI64(int64(v)) },
		expectInt(info, bigMinI64, bigMaxI64, dec, []string{"0"}, "-7777"))
	checkDecode(res, "JsUnixTime", tok, doc,
		func() tex.JsUnixTime { return tex.JsUnixTime(sentinelTime) },
		func(v tex.JsUnixTime) string { return renderSecTime(time.Time(v)) },
		expectInt(info, bigMinI64, bigMaxI64, dec,
			[]string{"0", renderSecTime(time.Time{})}, renderSecTime(sentinelTime)))
	checkDecode(res, "JsNanoTime", tok, doc,
		func() tex.JsNanoTime { return tex.JsNanoTime(sentinelTime) },
		func(v tex.JsNanoTime) string { return renderNanoTime(time.Time(v)) },
		expectInt(info, bigMinI64, bigMaxI64, func(v *big.Int) string { return v.String() + "ns" },
			[]string{"0ns", renderNanoTime(time.Time{})}, renderNanoTime(sentinelTime)))
	checkDecode(res, "JsByte", tok, doc,
		func() tex.JsByte { return tex.JsByte{7, 7} },
		func(v tex.JsByte) string { return renderBytes(v) },
		expectBytes(info, "[7 7]"))
	checkDecode(res, "Duration", tok, doc,
		func() tex.Duration { return 7777 },
		func(v tex.Duration) string { return renderI64(int64(v)) },
		expectDuration(info, "7777"))

	// the same text through the text-level decoders
	text := info.text
	if info.kind == tkString {
		var b tex.JsByte = tex.JsByte{7, 7}
		if err := b.FromString(text); err == nil && res.Fail == nil {
			if want := expectBytes(info, ""); !want[renderBytes(b)] {
				res.Failf("decode/JsByte/FromString", "JsByte.FromString(%q) = %s without error; the text denotes %s", text, renderBytes(b), want)
			}
		}
		var d tex.Duration = 7777
		if err := d.UnmarshalTOML(text); err == nil && res.Fail == nil {
			if want := expectDuration(info, ""); !want[renderI64(int64(d))] {
				res.Failf("decode/Duration/UnmarshalTOML", "Duration.UnmarshalTOML(%q) = %d without error; the text denotes %s", text, int64(d), want)
			}
		}
	}
	checkBase(res, "HexI64", text, 16, bigMinI64, bigMaxI64, tex.HexI64)
	checkBase(res, "HexU64", text, 16, bigZero, bigMaxU64, tex.HexU64)
	checkBase(res, "HexI64V2", text, 32, bigMinI64, bigMaxI64, tex.HexI64V2)
	checkBase(res, "HexU64V2", text, 32, bigZero, bigMaxU64, tex.HexU64V2)
	return res
}

// ---------------------------------------------------------------------------
// part "roundtrip"

type RTCase struct {
	I    int64  `json:"i"`    // JsInt64, UnixStamp, SQLTime2Unix, I64Hex*
	U    uint64 `json:"u"`    // JsUInt64, U64Hex*
	B    []byte `json:"b"`    // JsByte (nil and empty are both kept)
	Sec  int64  `json:"sec"`  // JsUnixTime, Unix2Time: the instant Sec s + Nsec ns
	Nsec int32  `json:"nsec"` // 0..999999999
	Nano int64  `json:"nano"` // JsNanoTime, UnixNano2Time: the instant Nano ns
	Dur  int64  `json:"dur"`  // Duration
	Raw  []byte `json:"raw"`  // Base64Bytes
	Zone int    `json:"zone"` // location of the time values: 0 local, 1 UTC, 2 fixed +08:00
	W32  uint32 `json:"w32"`  // a 32-bit pattern handed to Unix2Time / UnixNano2Time Scan as uint32 and as int32
	// Local, if > 0, is the zone (procZones[Local-1]) the process-local zone time.Local is for the duration of the case
	Local int `json:"local,omitempty"`
}

// The process-local zone. The values of the types are instants (or integers); no round trip may depend on the zone the
// process happens to run in. The machine's zone is UTC, so some cases run in another one: time.Local points at a
// Location inside package time that is filled in lazily from TZ / /etc/localtime, and code that copied the pointer keeps
// seeing that Location. setLocal therefore replaces the CONTENT of that Location (after forcing the lazy
// initialisation), which is exactly the state of a process started in the other zone, and puts the old content back
// afterwards. Cases run one at a time in their process.
var procZoneNames = []string{"America/New_York", "Australia/Lord_Howe", "Europe/Berlin", "Asia/Kolkata", "America/St_Johns", "Pacific/Apia"}

var localForced = time.Local.String()

var procZones = func() []*time.Location {
	var out []*time.Location
	for _, n := range procZoneNames {
		l, err := time.LoadLocation(n)
		if err != nil {
			panic("c20texjson: zone " + n + " not available: " + err.Error())
		}
		out = append(out, l)
	}
	return out
}()

func setLocal(idx int) (restore func()) {
	if idx <= 0 || idx > len(procZones) {
		return func() {}
	}
	saved := *time.Local
	*time.Local = *procZones[idx-1]
	return func() { *time.Local = saved }
}

var i64Edges = []int64{math.MinInt64, math.MinInt64 + 1, -1, 0, 1, math.MaxInt64 - 1, math.MaxInt64, math.MaxInt32, math.MinInt32, math.MaxInt32 + 1,
	math.MaxUint32, math.MaxUint32 + 1, 1 << 53, 1<<53 + 1, -(1 << 53) - 1, 9223372036854775806, 12121212, -12121212, 10, -10, 255, 256}

func genI64(t *rapid.T, label string) int64 {
	switch pick(t, label+"k", 4) {
	case 0:
		return choose(t, label+"edge", i64Edges)
	case 1:
		return rapid.Int64Range(-1000, 1000).Draw(t, label+"small")
	default:
		return rapid.Int64().Draw(t, label)
	}
}

func GenRT(t *rapid.T) RTCase {
	var c RTCase
	c.I = genI64(t, "i")
	switch pick(t, "uk", 4) {
	case 0:
		c.U = choose(t, "uedge", []uint64{0, 1, math.MaxUint64, math.MaxUint64 - 1, math.MaxInt64, math.MaxInt64 + 1, 1 << 32, 1<<53 + 1, 9223372036854775806, 10, 1 << 63})
	case 1:
		c.U = rapid.Uint64Range(0, 1000).Draw(t, "usmall")
	default:
		c.U = rapid.Uint64().Draw(t, "u")
	}
	byteGen := rapid.OneOf(rapid.SampledFrom([]byte{0, 1, 9, 10, 47, 48, 99, 100, 127, 128, 254, 255}), rapid.Byte())
	switch pick(t, "bk", 6) {
	case 0:
		c.B = nil
	case 1:
		c.B = []byte{}
	case 2:
		c.B = []byte{byteGen.Draw(t, "b1")}
	default:
		c.B = rapid.SliceOfN(byteGen, 2, 40).Draw(t, "b")
	}
	if pick(t, "blong?", 40) == 0 {
		n := choose(t, "blong", longLists)
		c.B = rapid.SliceOfN(byteGen, n, n).Draw(t, "bl")
	}
	switch pick(t, "sk", 4) {
	case 0:
		c.Sec = choose(t, "secedge", []int64{0, -1, 1, 1700000000, 1<<31 - 1, 1 << 31, 1 << 32, 253402300799, 253402300800, -62135596800, -62135596801,
			math.MinInt64, math.MaxInt64, math.MinInt64 + 1, -9223372037, 9223372036, 9223372037})
	case 1:
		c.Sec = rapid.Int64Range(-20000000000, 20000000000).Draw(t, "secmid")
	case 2:
		c.Sec = rapid.Int64Range(-100, 100).Draw(t, "secsmall")
	default:
		c.Sec = rapid.Int64().Draw(t, "sec")
	}
	c.Nsec = rapid.OneOf(rapid.SampledFrom([]int32{0, 0, 1, 999999999, 500000000, 999999, 1000000}), rapid.Int32Range(0, 999999999)).Draw(t, "nsec")
	switch pick(t, "nk", 3) {
	case 0:
		c.Nano = choose(t, "nanoedge", []int64{0, 1, -1, math.MinInt64, math.MaxInt64, 999999999, -999999999, 1000000000, -1000000000, -1000000001, 1700000000123456789, math.MinInt64 + 1})
	case 1:
		c.Nano = rapid.Int64Range(-3000000000, 3000000000).Draw(t, "nanosmall")
	default:
		c.Nano = rapid.Int64().Draw(t, "nano")
	}
	switch pick(t, "dk", 4) {
	case 0:
		c.Dur = choose(t, "duredge", []int64{0, 1, -1, math.MinInt64, math.MaxInt64, math.MinInt64 + 1, math.MaxInt64 - 1, 999, 1000, 1001, 1500, -1500000, 999999999, 1000000000,
			60000000000, 3600000000000, 3599999999999, -3600000000001, 86400000000000})
	case 1:
		c.Dur = rapid.Int64Range(-5000000000, 5000000000).Draw(t, "dursmall")
	case 2: // everyday shapes: h/m/s combinations, often with terms that end in 0, and a few sub-second parts
		sub := []int64{0, 1, 10, 100, 500, 999}
		if rapid.Bool().Draw(t, "dursub?") {
			sub = []int64{0}
		}
		h := int64(0)
		if rapid.Bool().Draw(t, "durh?") {
			h = rapid.Int64Range(0, 300).Draw(t, "durh")
		}
		m, sec := int64(0), int64(0)
		if pick(t, "durm?", 4) != 0 {
			m = rapid.Int64Range(0, 59).Draw(t, "durm")
		}
		switch pick(t, "durs?", 4) {
		case 0:
		case 1:
			sec = choose(t, "durs10", []int64{10, 20, 30, 40, 50})
		default:
			sec = rapid.Int64Range(0, 59).Draw(t, "durs")
		}
		c.Dur = (h*3600+m*60+sec)*1000000000 + choose(t, "durms", sub)*1000000 + choose(t, "durus", sub)*1000 + choose(t, "durns", sub)
		if pick(t, "durneg", 5) == 0 {
			c.Dur = -c.Dur
		}
	default:
		c.Dur = rapid.Int64().Draw(t, "dur")
	}
	c.Raw = rapid.SliceOfN(rapid.Byte(), 0, 40).Draw(t, "raw")
	if pick(t, "rawnil", 8) == 0 {
		c.Raw = nil
	}
	c.Zone = rapid.IntRange(0, 2).Draw(t, "zone")
	if pick(t, "local?", 8) == 0 {
		c.Local = 1 + pick(t, "local", len(procZoneNames))
	}
	if rapid.Bool().Draw(t, "w32k") {
		c.W32 = choose(t, "w32edge", []uint32{0, 1, 1<<31 - 1, 1 << 31, 1<<31 + 1, math.MaxUint32, math.MaxUint32 - 1, 1700000000, 3000000000, 4102444800, 1 << 16, 1 << 24, 0xC0000000})
	} else {
		c.W32 = rapid.Uint32().Draw(t, "w32")
	}
	return c
}

type codec struct {
	name      string
	marshal   func(any) ([]byte, error)
	unmarshal func([]byte, any) error
}

var codecs = []codec{
	{"encoding-json", json.Marshal, json.Unmarshal},
	{"jsonx-std", jsonx.JSONMarshal, jsonx.JSONUnmarshal},
	{"jsonx-fast", jsonx.JSONFastMarshal, jsonx.JSONFastUnmarshal},
}

// keptOutputs: every text MarshalJSON / ToJS handed out and every slice-backed value a decoder produced (JsByte lists,
// Base64Bytes) in the current case, with a copy taken at once. Text and value belong to the caller: they must read the
// same after all later encoder and decoder calls of the case (checked at its end).
// Cases run one after the other in a process, so a package variable will do.
type keptOutput struct {
	site, what string
	out, copy  []byte
}

var keptOutputs []keptOutput

func keep(site, what string, b []byte) {
	keptOutputs = append(keptOutputs, keptOutput{site, what, b, append([]byte(nil), b...)})
}

// keptStrings: the same for outputs of type string (JsByte.ToString, Base64Bytes.Value, the hex helpers): a Go string
// is immutable, so the one handed out has to read the same for ever; the copy is a private one (not a second header
// for the same bytes).
type keptString struct {
	site, what string
	out, copy  string
}

var keptStrings []keptString

func keepStr(site, what, s string) {
	keptStrings = append(keptStrings, keptString{site, what, s, string(append([]byte(nil), s...))})
}

// keepValue retains a decoded value if it is backed by a slice.
func keepValue(name, path string, v any) {
	switch x := v.(type) {
	case tex.JsByte:
		keep("decode/"+name+"/retained", "the list "+name+" decoded ("+path+")", x)
	case tex.Base64Bytes:
		keep("decode/"+name+"/retained", "the bytes "+name+" decoded ("+path+")", x)
	}
}

func checkKept(res *vkit.Result) {
	defer func() { keptOutputs, keptStrings = keptOutputs[:0], keptStrings[:0] }()
	if res.Fail != nil {
		return
	}
	for _, k := range keptStrings {
		if k.out != k.copy {
			res.Failf(k.site, "%s was %q; after the later calls of the case the same string reads %q", k.what, k.copy, k.out)
			return
		}
	}
	for _, k := range keptOutputs {
		if !bytes.Equal(k.out, k.copy) {
			if strings.HasPrefix(k.site, "decode/") {
				res.Failf(k.site, "%s was %v; after the later calls of the case the same value reads %v", k.what, k.copy, k.out)
			} else {
				res.Failf(k.site, "%s was %s; after the later calls of the case the same slice reads %s", k.what, show(k.copy), show(k.out))
			}
			return
		}
	}
}

// rtJSON: v through MarshalJSON/UnmarshalJSON directly and as a struct member
// through every library pairing. same(orig, decoded) is the type's equality at
// its resolution; want(info) the renderings the encoder's text may denote.
func rtJSON[T any](res *vkit.Result, name string, v T, init func() T, same func(orig, dec T) bool, render func(T) string, expect func(tokInfo) allowed, wantRender string) {
	if res.Fail != nil {
		return
	}
	out, err := any(v).(json.Marshaler).MarshalJSON()
	if err != nil {
		res.Failf("encode/"+name, "%s(%s).MarshalJSON failed: %v", name, render(v), err)
		return
	}
	keep("encode/"+name+"/retained", "the text "+name+".MarshalJSON returned", out)
	info, ok := readToken(out)
	if !ok || info.kind != tkString {
		res.Failf("encode/"+name, "%s(%s).MarshalJSON = %s: not a JSON string token", name, render(v), show(out))
		return
	}
	if a := expect(info); !a[wantRender] {
		res.Failf("encode/"+name, "%s(%s).MarshalJSON = %s, a text that denotes %s", name, render(v), show(out), a)
		return
	}
	w := init()
	in := append([]byte(nil), out...)
	if err := any(&w).(json.Unmarshaler).UnmarshalJSON(in); err != nil {
		res.Failf("roundtrip/"+name+"/direct", "%s: UnmarshalJSON(MarshalJSON(%s) = %s) failed: %v", name, render(v), show(out), err)
		return
	} else if !same(v, w) {
		res.Failf("roundtrip/"+name+"/direct", "%s: UnmarshalJSON(MarshalJSON(%s) = %s) = %s", name, render(v), show(out), render(w))
		return
	}
	// json.Unmarshaler: "UnmarshalJSON must copy the JSON data if it wishes to retain the data after returning"
	for i := range in {
		in[i] = '8'
	}
	if !same(v, w) {
		res.Failf("roundtrip/"+name+"/input-reused", "%s: the value decoded from %s reads %s once the caller has overwritten its input buffer", name, show(out), render(w))
		return
	}
	keepValue(name, "UnmarshalJSON", w)
	for _, enc := range codecs {
		doc, err := enc.marshal(holder[T]{V: v})
		if err != nil {
			res.Failf("roundtrip/"+name+"/"+enc.name, "%s: marshalling {v: %s} failed: %v", name, render(v), err)
			return
		}
		for _, dec := range codecs {
			h := holder[T]{V: init()}
			path := enc.name
			if dec.name != enc.name {
				path += ">" + dec.name
			}
			if err := dec.unmarshal(doc, &h); err != nil {
				res.Failf("roundtrip/"+name+"/"+path, "%s: %s of %s (= {v: %s}) failed: %v", name, dec.name, show(doc), render(v), err)
				return
			}
			if !same(v, h.V) {
				res.Failf("roundtrip/"+name+"/"+path, "%s: {v: %s} -> %s -> {v: %s}", name, render(v), show(doc), render(h.V))
				return
			}
			keepValue(name, path, h.V)
		}
	}
}

// otherBytes: a list one element longer than b that differs from b at every position.
func otherBytes(b []byte) tex.JsByte {
	o := make(tex.JsByte, len(b)+1)
	for i, x := range b {
		o[i] = ^x
	}
	o[len(b)] = 99
	return o
}

// pairDoc: two lists (and two numbers) as members of one document.
type pairDoc struct {
	A tex.JsByte   `json:"a"`
	N tex.JsInt64  `json:"n"`
	B tex.JsByte   `json:"b"`
	M tex.JsUInt64 `json:"m"`
}

// rtPair: the list of the case and a different one decoded into two fields of one struct; both have to come back,
// neither at the other's expense. Quick tier: one of the 9 library pairings, picked by the case's data; thorough: all 9.
func rtPair(res *vkit.Result, c RTCase) {
	if res.Fail != nil {
		return
	}
	orig := pairDoc{A: tex.JsByte(c.B), N: tex.JsInt64(c.I), B: otherBytes(c.B), M: tex.JsUInt64(c.U)}
	only := int((uint64(c.W32) + uint64(len(c.B))) % uint64(len(codecs)*len(codecs)))
	all := vkit.Tier() == "thorough"
	for i, enc := range codecs {
		if !all && only/len(codecs) != i {
			continue
		}
		doc, err := enc.marshal(orig)
		if err != nil {
			res.Failf("roundtrip/pair/"+enc.name, "marshalling {a: %v, n: %d, b: %v, m: %d} failed: %v", c.B, c.I, []byte(orig.B), c.U, err)
			return
		}
		for j, dec := range codecs {
			if !all && only%len(codecs) != j {
				continue
			}
			path := enc.name
			if j != i {
				path += ">" + dec.name
			}
			got := pairDoc{A: tex.JsByte{7, 7}, N: -7777, B: tex.JsByte{7, 7}, M: 7777}
			if err := dec.unmarshal(doc, &got); err != nil {
				res.Failf("roundtrip/pair/"+path, "%s of %s failed: %v", dec.name, show(doc), err)
				return
			}
			if !bytes.Equal(got.A, orig.A) || !bytes.Equal(got.B, orig.B) || got.N != orig.N || got.M != orig.M {
				res.Failf("roundtrip/pair/"+path, "{a: %v, n: %d, b: %v, m: %d} -> %s -> {a: %v, n: %d, b: %v, m: %d}", c.B, c.I, []byte(orig.B), c.U,
					show(doc), []byte(got.A), int64(got.N), []byte(got.B), uint64(got.M))
				return
			}
			keepValue("JsByte", "member a, "+path, got.A)
			keepValue("JsByte", "member b, "+path, got.B)
		}
	}
}

func zoneOf(z int) *time.Location {
	switch z {
	case 1:
		return time.UTC
	case 2:
		return time.FixedZone("E8", 8*3600)
	}
	return time.Local
}

func checkValue(res *vkit.Result, site string, v driver.Value, err error) bool {
	if res.Fail != nil {
		return false
	}
	if err != nil {
		res.Failf(site, "Value() failed: %v", err)
		return false
	}
	if !driver.IsValue(v) {
		res.Failf(site, "Value() returned a %T, which is no driver.Value", v)
		return false
	}
	return true
}

func checkHexPair[V int64 | uint64](res *vkit.Result, name string, base int, v V, enc func(V) string, dec func(string) (V, error)) {
	if res.Fail != nil {
		return
	}
	s := enc(v)
	keepStr("encode/"+name+"/retained", "the string "+name+" returned", s)
	if d := baseValue(s, base); d == nil || d.String() != fmt.Sprint(v) || strings.Trim(s, blanks) != s {
		res.Failf("encode/"+name, "%s(%d) = %q, which in base %d denotes %v", name, v, s, base, d)
		return
	}
	back, err := dec(s)
	if err != nil || back != v {
		res.Failf("roundtrip/"+name, "%s(%d) = %q decodes to %d, %v", name, v, s, back, err)
	}
}

func ExecRT(c RTCase) *vkit.Result {
	res := &vkit.Result{}
	keptOutputs, keptStrings = keptOutputs[:0], keptStrings[:0]
	defer setLocal(c.Local)()
	if c.Nsec < 0 || c.Nsec > 999999999 {
		res.Skip("nsec-out-of-range")
		c.Nsec = 0
	}
	loc := zoneOf(c.Zone)
	dec := func(v *big.Int) string { return v.String() }

	// --- JSON forms
	rtJSON(res, "JsInt64", tex.JsInt64(c.I), func() tex.JsInt64 { return -7777 },
		func(a, b tex.JsInt64) bool { return a == b }, func(v tex.JsInt64) string { return renderI64(int64(v)) },
		func(i tokInfo) allowed { return expectInt(i, bigMinI64, bigMaxI64, dec, nil, "") }, renderI64(c.I))
	rtJSON(res, "JsUInt64", tex.JsUInt64(c.U), func() tex.JsUInt64 { return 7777 },
		func(a, b tex.JsUInt64) bool { return a == b }, func(v tex.JsUInt64) string { return strconv.FormatUint(uint64(v), 10) },
		func(i tokInfo) allowed { return expectInt(i, bigZero, bigMaxU64, dec, nil, "") }, strconv.FormatUint(c.U, 10))
	rtJSON(res, "UnixStamp", tex.UnixStamp(c.I), func() tex.UnixStamp { return -7777 },
		func(a, b tex.UnixStamp) bool { return a == b }, func(v tex.UnixStamp) string { return renderI64(int64(v)) },
		func(i tokInfo) allowed { return expectInt(i, bigMinI64, bigMaxI64, dec, nil, "") }, renderI64(c.I))
	// nil and empty byte lists both stand for the empty list
	rtJSON(res, "JsByte", tex.JsByte(c.B), func() tex.JsByte { return tex.JsByte{7, 7} },
		func(a, b tex.JsByte) bool { return bytes.Equal(a, b) }, func(v tex.JsByte) string { return renderBytes(v) },
		func(i tokInfo) allowed {
			if i.text == "" && len(c.B) == 0 {
				return allowed{"[]": true}
			}
			return expectBytes(i, "")
		}, renderBytes(c.B))
	rtJSON(res, "Duration", tex.Duration(c.Dur), func() tex.Duration { return 7777 },
		func(a, b tex.Duration) bool { return a == b }, func(v tex.Duration) string { return renderI64(int64(v)) },
		func(i tokInfo) allowed { return expectDuration(i, "") }, renderI64(c.Dur))
	// second resolution: the decoded instant is the original cut to whole seconds
	st := time.Unix(c.Sec, int64(c.Nsec)).In(loc)
	rtJSON(res, "JsUnixTime", tex.JsUnixTime(st), func() tex.JsUnixTime { return tex.JsUnixTime(sentinelTime) },
		func(a, b tex.JsUnixTime) bool { return time.Time(b).Equal(time.Unix(time.Time(a).Unix(), 0)) },
		func(v tex.JsUnixTime) string { return showTime(time.Time(v)) },
		func(i tokInfo) allowed { return expectInt(i, bigMinI64, bigMaxI64, dec, nil, "") }, renderI64(c.Sec))
	nt := time.Unix(0, c.Nano).In(loc)
	rtJSON(res, "JsNanoTime", tex.JsNanoTime(nt), func() tex.JsNanoTime { return tex.JsNanoTime(sentinelTime) },
		func(a, b tex.JsNanoTime) bool { return time.Time(b).Equal(time.Time(a)) },
		func(v tex.JsNanoTime) string { return showTime(time.Time(v)) },
		func(i tokInfo) allowed { return expectInt(i, bigMinI64, bigMaxI64, dec, nil, "") }, renderI64(c.Nano))

	// --- text forms outside JSON
	if res.Fail == nil {
		b := tex.JsByte(c.B)
		s := b.ToString()
		keepStr("encode/JsByte/ToString/retained", "the string JsByte.ToString returned", s)
		js := b.ToJS()
		keep("encode/JsByte/ToJS/retained", "the text JsByte.ToJS returned", js)
		if string(js) != s {
			res.Failf("encode/JsByte/ToJS", "JsByte(%v): ToJS %q differs from ToString %q", c.B, js, s)
		}
		back := tex.JsByte{7, 7}
		if err := back.FromString(s); err != nil || !bytes.Equal(back, c.B) {
			res.Failf("roundtrip/JsByte/FromString", "JsByte(%v).ToString() = %q; FromString gives %v, %v", c.B, s, []byte(back), err)
		}
		keepValue("JsByte", "FromString", back)
	}
	rtPair(res, c)
	if res.Fail == nil {
		var d tex.Duration = 7777
		s := time.Duration(c.Dur).String()
		if err := d.UnmarshalTOML(s); err != nil || int64(d) != c.Dur || d.Duration() != time.Duration(c.Dur) {
			res.Failf("roundtrip/Duration/UnmarshalTOML", "Duration(%d) as %q: UnmarshalTOML gives %d, %v", c.Dur, s, int64(d), err)
		}
	}

	// --- SQL forms
	if v, err := tex.UnixStamp(c.I).Value(); checkValue(res, "sql/UnixStamp", v, err) {
		back := tex.UnixStamp(-7777)
		if err := back.Scan(v); err != nil || int64(back) != c.I {
			res.Failf("sql/UnixStamp", "UnixStamp(%d): Scan(Value()) = %d, %v", c.I, int64(back), err)
		}
	}
	if v, err := tex.SQLTime2Unix(c.I).Value(); checkValue(res, "sql/SQLTime2Unix", v, err) {
		back := tex.SQLTime2Unix(-7777)
		if err := back.Scan(v); err != nil || int64(back) != c.I {
			res.Failf("sql/SQLTime2Unix", "SQLTime2Unix(%d): Scan(Value()) = %d, %v", c.I, int64(back), err)
		}
	}
	// a datetime column hands Scan the instant in whatever location the driver uses
	if res.Fail == nil {
		var us tex.UnixStamp = -7777
		var s2 tex.SQLTime2Unix = -7777
		e1, e2 := us.Scan(st), s2.Scan(st)
		if e1 != nil || e2 != nil || int64(us) != c.Sec || int64(s2) != c.Sec {
			res.Failf("sql/Scan-time", "Scan(instant %s) gives UnixStamp %d (%v), SQLTime2Unix %d (%v), want %d", showTime(st), int64(us), e1, int64(s2), e2, c.Sec)
		}
	}
	if v, err := tex.UnixNano2Time(nt).Value(); checkValue(res, "sql/UnixNano2Time", v, err) {
		back := tex.UnixNano2Time(sentinelTime)
		if n, ok := v.(int64); !ok || n != c.Nano {
			res.Failf("sql/UnixNano2Time", "UnixNano2Time(%d ns).Value() = %v (%T)", c.Nano, v, v)
		} else if err := back.Scan(v); err != nil || !time.Time(back).Equal(nt) {
			res.Failf("sql/UnixNano2Time", "UnixNano2Time(%d ns): Scan(Value() = %v) = %s, %v", c.Nano, v, showTime(time.Time(back)), err)
		}
	}
	if v, err := tex.Unix2Time(st).Value(); checkValue(res, "sql/Unix2Time", v, err) {
		back := tex.Unix2Time(sentinelTime)
		if n, ok := v.(int64); !ok || n != c.Sec {
			res.Failf("sql/Unix2Time", "Unix2Time(%s).Value() = %v (%T), want %d", showTime(st), v, v, c.Sec)
		} else if err := back.Scan(v); err != nil || !time.Time(back).Equal(time.Unix(c.Sec, 0)) {
			res.Failf("sql/Unix2Time", "Unix2Time(%s): Scan(Value() = %v) = %s, %v", showTime(st), v, showTime(time.Time(back)), err)
		}
	}
	// the other integer kinds Scan accepts, where they can hold the value
	if res.Fail == nil {
		small := c.Nano % (1 << 31)
		type scanIn struct {
			in   any
			want int64
		}
		ins := []scanIn{{int(c.Nano), c.Nano}, {int32(small), small}}
		if c.Nano >= 0 {
			ins = append(ins, scanIn{uint64(c.Nano), c.Nano}, scanIn{uint(c.Nano), c.Nano})
		}
		if small >= 0 {
			ins = append(ins, scanIn{uint32(small), small})
		}
		// the whole range of the 32-bit kinds, and the 64-bit kinds once more from the other fields
		ins = append(ins, scanIn{c.W32, int64(c.W32)}, scanIn{int32(c.W32), int64(int32(c.W32))},
			scanIn{c.I, c.I}, scanIn{int(c.I), c.I}, scanIn{int(c.Sec), c.Sec})
		if c.I >= 0 {
			ins = append(ins, scanIn{uint64(c.I), c.I}, scanIn{uint(c.I), c.I})
		}
		if c.U <= math.MaxInt64 {
			ins = append(ins, scanIn{c.U, int64(c.U)}, scanIn{uint(c.U), int64(c.U)})
		}
		for _, si := range ins {
			in, want := si.in, si.want
			n2 := tex.UnixNano2Time(sentinelTime)
			u2 := tex.Unix2Time(sentinelTime)
			e1, e2 := n2.Scan(in), u2.Scan(in)
			if e1 != nil || !time.Time(n2).Equal(time.Unix(0, want)) {
				res.Failf("sql/UnixNano2Time/int-kinds", "UnixNano2Time.Scan(%T(%d)) = %s, %v", in, want, showTime(time.Time(n2)), e1)
			}
			if e2 != nil || !time.Time(u2).Equal(time.Unix(want, 0)) {
				res.Failf("sql/Unix2Time/int-kinds", "Unix2Time.Scan(%T(%d)) = %s, %v", in, want, showTime(time.Time(u2)), e2)
			}
		}
	}
	if v, err := tex.Base64Bytes(c.Raw).Value(); checkValue(res, "sql/Base64Bytes", v, err) {
		s, ok := v.(string)
		if !ok {
			res.Failf("sql/Base64Bytes", "Base64Bytes.Value() is a %T, want string", v)
		} else {
			keepStr("sql/Base64Bytes/Value/retained", "the string Base64Bytes.Value returned", s)
			for _, in := range []any{s, []byte(s)} {
				back := tex.Base64Bytes{7, 7}
				if err := back.Scan(in); err != nil || !bytes.Equal(back, c.Raw) {
					res.Failf("sql/Base64Bytes", "Base64Bytes(%v): Scan(%T %q) = %v, %v", c.Raw, in, s, []byte(back), err)
				}
				if src, ok := in.([]byte); ok { // database/sql: the driver owns a []byte source, a Scanner that keeps it has to copy
					for i := range src {
						src[i] = 'A'
					}
					if !bytes.Equal(back, c.Raw) && res.Fail == nil {
						res.Failf("sql/Base64Bytes/input-reused", "Base64Bytes(%v): the value scanned from []byte %q reads %v once the source buffer has been overwritten", c.Raw, s, []byte(back))
					}
				}
				keepValue("Base64Bytes", fmt.Sprintf("Scan of a %T", in), back)
			}
		}
	}

	// --- hex / base-32 helpers
	checkHexPair(res, "I64Hex", 16, c.I, tex.I64Hex, tex.HexI64)
	checkHexPair(res, "I64HexV2", 32, c.I, tex.I64HexV2, tex.HexI64V2)
	checkHexPair(res, "U64Hex", 16, c.U, tex.U64Hex, tex.HexU64)
	checkHexPair(res, "U64HexV2", 32, c.U, tex.U64HexV2, tex.HexU64V2)
	checkHexPair(res, "U64Hex", 16, uint64(c.I), tex.U64Hex, tex.HexU64)
	checkHexPair(res, "I64Hex", 16, c.Nano, tex.I64Hex, tex.HexI64)
	checkHexPair(res, "I64HexV2", 32, c.Dur, tex.I64HexV2, tex.HexI64V2)
	checkHexPair(res, "U64HexV2", 32, uint64(c.Sec), tex.U64HexV2, tex.HexU64V2)

	// other values through every encoder once more, then the texts handed out earlier are read again
	if res.Fail == nil {
		other := []json.Marshaler{tex.JsInt64(^c.I), tex.JsInt64(c.I / 3), tex.JsUInt64(^c.U), tex.UnixStamp(^c.I),
			tex.JsByte(append([]byte{9, 99, 199}, c.B...)), tex.Duration(^c.Dur), tex.Duration(c.Dur/7 + 1),
			tex.JsUnixTime(sentinelTime), tex.JsNanoTime(sentinelTime)}
		for _, o := range other {
			_, _ = o.MarshalJSON()
		}
		ob := otherBytes(c.B)
		_ = ob.ToJS()
		_ = ob.ToString()
		otok, _ := ob.MarshalJSON()
		var d1, d2 tex.JsByte
		_ = d1.UnmarshalJSON(append([]byte(nil), otok...))
		_ = d2.FromString(ob.ToString())
		for _, dec := range codecs {
			var h holder[tex.JsByte]
			_ = dec.unmarshal(embed(otok, false), &h)
		}
		oraw := tex.Base64Bytes(otherBytes(c.Raw))
		if v, err := oraw.Value(); err == nil {
			if s, ok := v.(string); ok {
				var r1, r2 tex.Base64Bytes
				_, _ = r1.Scan(s), r2.Scan([]byte(s))
			}
		}
		_, _, _, _ = tex.I64Hex(^c.I), tex.I64HexV2(^c.I), tex.U64Hex(^c.U), tex.U64HexV2(^c.U)
	}
	checkKept(res)
	classifyRT(res, c)
	return res
}

func classifyRT(res *vkit.Result, c RTCase) {
	if c.I != 0 || c.U != 0 || len(c.B) != 0 || c.Sec != 0 || c.Nsec != 0 || c.Nano != 0 || c.Dur != 0 || len(c.Raw) != 0 {
		res.NonTrivial = true
	}
	for _, v := range []int64{c.I, c.Sec, c.Nano, c.Dur} {
		switch v {
		case math.MinInt64:
			res.Class("an-int64-at-min")
		case math.MaxInt64:
			res.Class("an-int64-at-max")
		}
	}
	if c.I < 0 {
		res.Class("i-negative")
	}
	switch {
	case c.U == math.MaxUint64:
		res.Class("u64-max")
	case c.U > math.MaxInt64:
		res.Class("u64-above-maxint64")
	}
	switch {
	case c.B == nil:
		res.Class("bytes-nil")
	case len(c.B) == 0:
		res.Class("bytes-empty")
	case len(c.B) == 1:
		res.Class("bytes-1-element")
	default:
		res.Class("bytes-n-elements")
	}
	if len(c.B) >= 63 {
		res.Class("bytes-63+-elements")
	}
	if c.W32 >= 1<<31 {
		res.Class("32-bit-pattern-with-top-bit (uint32 >= 2^31, int32 < 0)")
	}
	if ds := time.Duration(c.Dur).String(); len(ds) >= 3 && strings.HasSuffix(ds, "0s") && ds[len(ds)-3] >= '0' && ds[len(ds)-3] <= '9' {
		res.Class("duration-text-ends-in-a-multiple-of-10s")
	}
	switch {
	case c.Dur == 0:
		res.Class("duration-zero")
	case c.Dur == 1 || c.Dur == -1:
		res.Class("duration-+-1ns")
	case c.Dur < 0:
		res.Class("duration-negative")
	}
	if c.Dur%1000 != 0 {
		res.Class("duration-sub-microsecond-part")
	}
	if c.Sec < 0 && c.Nsec != 0 {
		res.Class("instant-before-1970-with-fraction")
	}
	if c.Sec > 9223372036 || c.Sec < -9223372037 {
		res.Class("seconds-outside-unixnano-range")
	}
	if c.Nano < 0 && c.Nano%1000000000 != 0 {
		res.Class("nano-instant-before-1970-with-fraction")
	}
	if c.Local > 0 && c.Local <= len(procZoneNames) {
		res.Class("process-zone=" + procZoneNames[c.Local-1])
		if c.Zone == 1 {
			res.Class("process-zone-not-utc,value-in-utc")
		}
	}
	res.Class(fmt.Sprintf("base64-len%%3=%d", len(c.Raw)%3))
	if c.Raw == nil {
		res.Class("base64-nil")
	}
}

// ---------------------------------------------------------------------------

var PartRT = &vkit.Part[RTCase]{
	Property: Property, Name: "roundtrip",
	Rule:  "rapid: one value for every type per case - int64/uint64 from edges (min, max, +-1, 2^31, 2^32, 2^53+1, 2^63, the repo tests' literals), small and uniform; byte lists nil / empty / 1 / 2..40 elements biased to 0, 255, '/' and digits, 2.5% with 63, 64, 65, 100 or 300 elements; instants as (seconds over all of int64 incl. year 1/9999/min/max, nanoseconds 0..999999999) and as int64 nanoseconds, in Local/UTC/+08:00; durations 0, +-1ns, min, max, unit boundaries, uniform, and everyday shapes (h 0..300, m and s 0..59 or a multiple of 10 s, ms/us/ns parts from 0, 1, 10, 100, 500, 999, i.e. texts like 10s, 1m30s, 2h45m10s, 100ms, 1.5s); a 32-bit pattern from edges (2^31-1, 2^31, 2^32-1 ...) or uniform; raw bytes of every length mod 3. Each JSON type goes through MarshalJSON (whose text must denote the value under the math/big reading) and UnmarshalJSON directly and as a struct member through all 9 pairings of encoding/json, jsonx std and jsonx fast; JsByte To/FromString; Duration TOML; SQL Value (must be a driver.Value) then Scan for UnixStamp, SQLTime2Unix, UnixNano2Time, Unix2Time (plus every integer kind Scan accepts over its whole range: int32 and uint32 from the 32-bit pattern, int/int64/uint/uint64 from the 64-bit fields), Base64Bytes (string and []byte); the byte list and a second, different one as two members of one document through the libraries; I64Hex/U64Hex/I64HexV2/U64HexV2 and back. Every text MarshalJSON / ToJS returned and every decoded list / byte string is kept and read again at the end of the case, after other values went through all encoders and decoders; a decoded value also has to survive the caller overwriting the input buffer; the strings ToString, Base64Bytes.Value and the hex helpers returned are kept and read again in the same way. One case in eight runs with the process-local zone (content of time.Local, swapped for the case) set to America/New_York, Australia/Lord_Howe, Europe/Berlin, Asia/Kolkata, America/St_Johns or Pacific/Apia. Non-trivial: some field is not the zero value; distinct = distinct case JSON",
	Quick: 36000, Thorough: 60000,
	Gen: GenRT, Exec: ExecRT,
}

var PartToken = &vkit.Part[TokenCase]{
	Property: Property, Name: "token",
	Rule:  "rapid: one well-formed JSON scalar token per case from a grammar - 24% bare numbers -?int[.frac][e[+-]exp] (int from range boundaries of byte/int32/int64/uint64 +-1, 2^k+-1, 1..25 random digits, small), 3% null/true/false, 3% encoder output, the rest strings whose content is [blank][sign]digits[junk][blank] (leading zeros, 20+ digits; 5% malformed signs: doubled, separated from the digits, preceded by zeros or junk; 6% one character next to the digits in ASCII - : ; < = @ / . ` - or another foreign one put at any position), a '/'-list of such elements (with 256, -1, empty and odd elements; now and then 63, 64, 65, 100 or 300 bytes with at most one odd element), empty/blank, duration literals, hex/base-32 digit strings (a fifth of them with a radix prefix 0x 0X 0b 0o 0 x # 16r, half of those with the digit separator _ between digits, after the prefix or as a tail like _000); 10% of strings written with \\u00XX or \\/ escapes. The token is given to UnmarshalJSON of JsInt64, JsUInt64, UnixStamp, JsUnixTime, JsNanoTime, JsByte, Duration directly and embedded in {\"v\":token} (25% padded with blanks and neighbours) through encoding/json, jsonx std and jsonx fast, onto targets preset to a sentinel; its text also to JsByte.FromString, Duration.UnmarshalTOML, HexI64/HexU64/HexI64V2/HexU64V2. Oracle: a math/big reading of the text written from the statement: a nil error obliges the decoder to exactly the denoted in-range value (empty content: zero allowed; null: sentinel unchanged allowed; surrounding blanks may be rejected or ignored); junk, fractions, out-of-range, non-byte elements, true/false require an error. Non-trivial: the token is not something the encoders under test emit (canonical decimal / byte list / Duration.String in an unescaped string); distinct = distinct case JSON",
	Quick: 90000, Thorough: 200000,
	Gen: GenToken, Exec: ExecToken,
}
