package c20texjson

import (
	"testing"

	"verifharness/vkit"
)

func TestMain(m *testing.M) { vkit.Main(m) }

func TestProp_RoundTrip(t *testing.T) { PartRT.Run(t) }
func TestProp_Token(t *testing.T)     { PartToken.Run(t) }
func TestProp_B64Scan(t *testing.T)   { PartB64.Run(t) }
func TestProp_Long(t *testing.T)      { PartLong.Run(t) }

func TestReplay(t *testing.T) {
	PartRT.Replay(t, 1)
	PartToken.Replay(t, 1)
	PartB64.Replay(t, 1)
	PartLong.Replay(t, 1)
}

// FuzzToken is the byte-level, coverage-guided entry of the "token" part: the
// bytes are taken as a JSON scalar token if they are one, otherwise they become
// the content of a string token; the oracle is ExecToken's. The seeds are the
// literals that /repo/tex's own tests decode (jsi64_test.go, jsu64_test.go,
// jsbyte_test.go, jstime_test.go, hex_test.go) plus the bare JSON literals.
func FuzzToken(f *testing.F) {
	if vkit.SeedCorpus() {
		for _, s := range []string{
			`"12121212"`, `"-12121212"`, `"9223372036854775806"`, `9223372036854775806`,
			`"0/128/255"`, `""`, `"0"`, `"1"`, `"0/0"`,
			`"7fffffffffffffff"`, `"-1"`, `"7fffffff"`, `"ffffffffffffffff"`, `"7vvvvvvvvvvvv"`, `"fvvvvvvvvvvvv"`, `"1vvvvvv"`,
			`"1700000000"`, `"1700000000123456789"`,
			`null`, `true`,
		} {
			f.Add([]byte(s), false)
		}
		f.Add([]byte(`"12121212"`), true)
	}
	f.Fuzz(func(t *testing.T, data []byte, pad bool) {
		if len(data) > 512 {
			return
		}
		PartToken.FuzzOne(t, MakeTokenCase(data, pad))
	})
}
