package c20texjson

// part "base64-scan": Base64Bytes.Scan given texts other than the encoder's own
// output - line breaks (which the raw standard alphabet decoder skips), missing or
// surplus characters, padding, characters outside the alphabet - as string and as
// []byte. A nil error obliges Scan to exactly the bytes the text denotes.

import (
	"bytes"
	"fmt"

	"github.com/pinealctx/neptune/tex"
	"pgregory.net/rapid"

	"verifharness/vkit"
)

type B64Case struct {
	Text    []byte `json:"text"`
	AsBytes bool   `json:"as_bytes"`
}

const b64Alphabet = "ABCDEFGHIJKLMNOPQRSTUVWXYZabcdefghijklmnopqrstuvwxyz0123456789+/"

func GenB64(t *rapid.T) B64Case {
	raw := rapid.SliceOfN(rapid.Byte(), 0, 200).Draw(t, "raw")
	big := rapid.IntRange(0, 39).Draw(t, "big?") == 39
	if big { // texts well beyond 1024 characters: 700-5000 bytes, half of them up to 1600
		n := rapid.IntRange(700, 1600).Draw(t, "bign")
		if rapid.Bool().Draw(t, "bigger") {
			n = rapid.IntRange(1600, 5000).Draw(t, "biggern")
		}
		raw = rapid.SliceOfN(rapid.Byte(), n, n).Draw(t, "bigraw")
	}
	// encode by hand (no padding), then disturb
	var txt []byte
	for i := 0; i < len(raw); i += 3 {
		var v uint32
		n := 0
		for j := 0; j < 3; j++ {
			v <<= 8
			if i+j < len(raw) {
				v |= uint32(raw[i+j])
				n++
			}
		}
		for k := 0; k < n+1; k++ {
			txt = append(txt, b64Alphabet[(v>>(18-6*k))&63])
		}
	}
	if big { // as it is, wrapped the MIME way (76, CRLF), the PEM way (64, LF), or with a few single line breaks
		width, brk := 0, "\r\n"
		switch rapid.IntRange(0, 3).Draw(t, "bigwrap") {
		case 1:
			width = 76
		case 2:
			width, brk = 64, "\n"
		case 3:
			for i, k := 0, rapid.IntRange(1, 3).Draw(t, "bigbreaks"); i < k; i++ {
				pos := rapid.IntRange(0, len(txt)).Draw(t, "bigpos")
				txt = append(txt[:pos:pos], append([]byte("\n"), txt[pos:]...)...)
			}
		}
		if width > 0 {
			var out []byte
			for j, ch := range txt {
				if j > 0 && j%width == 0 {
					out = append(out, brk...)
				}
				out = append(out, ch)
			}
			txt = out
		}
	}
	edits := []int{0, 0, 1, 2, 5, 20}
	if big {
		edits = []int{0, 0, 0, 1, 2}
	}
	for i, k := 0, rapid.SampledFrom(edits).Draw(t, "edits"); i < k; i++ {
		pos := rapid.IntRange(0, len(txt)).Draw(t, "pos")
		var ins []byte
		switch rapid.IntRange(0, 9).Draw(t, "edit") {
		case 0, 1, 2:
			ins = []byte("\n")
		case 3, 4:
			ins = []byte("\r\n")
		case 5:
			ins = []byte("=")
		case 6:
			ins = []byte{rapid.SampledFrom([]byte(" \t-_.*\x00\xff")).Draw(t, "junk")}
		case 7:
			ins = []byte{b64Alphabet[rapid.IntRange(0, 63).Draw(t, "extra")]}
		case 8: // MIME style: a line break every 76 characters from here on
			var out []byte
			for j, ch := range txt {
				if j > 0 && j%76 == 0 {
					out = append(out, '\r', '\n')
				}
				out = append(out, ch)
			}
			txt = out
			continue
		default: // drop a character
			if pos < len(txt) {
				txt = append(txt[:pos:pos], txt[pos+1:]...)
			}
			continue
		}
		txt = append(txt[:pos:pos], append(ins, txt[pos:]...)...)
	}
	if rapid.IntRange(0, 4).Draw(t, "trailing") == 0 {
		txt = append(txt, rapid.SampledFrom([]string{"\n", "\r\n", "\r\n\r\n", "\n\n\n"}).Draw(t, "tail")...)
	}
	return B64Case{Text: txt, AsBytes: rapid.Bool().Draw(t, "asbytes")}
}

// denotes reads the text the way the raw standard encoding is defined: CR and LF are skipped, 4 characters give 3
// bytes, a final group of 2 or 3 characters gives 1 or 2 bytes (left-over bits ignored), a final single character,
// padding and characters outside the alphabet denote nothing.
func b64Denotes(text []byte) ([]byte, bool) {
	var out []byte
	var acc uint32
	n := 0
	for _, ch := range text {
		if ch == '\r' || ch == '\n' {
			continue
		}
		i := bytes.IndexByte([]byte(b64Alphabet), ch)
		if i < 0 {
			return nil, false
		}
		acc = acc<<6 | uint32(i)
		n++
		if n == 4 {
			out = append(out, byte(acc>>16), byte(acc>>8), byte(acc))
			acc, n = 0, 0
		}
	}
	switch n {
	case 1:
		return nil, false
	case 2:
		out = append(out, byte(acc>>4))
	case 3:
		out = append(out, byte(acc>>10), byte(acc>>2))
	}
	return out, true
}

func ExecB64(c B64Case) *vkit.Result {
	res := &vkit.Result{}
	if len(c.Text) > 1<<14 {
		res.Skip("oversized")
		return res
	}
	want, ok := b64Denotes(c.Text)
	var src interface{} = string(c.Text)
	kind := "string"
	if c.AsBytes {
		src, kind = append([]byte(nil), c.Text...), "[]byte"
	}
	got := tex.Base64Bytes{7, 7}
	err := got.Scan(src)
	what := fmt.Sprintf("Base64Bytes.Scan(%s %q)", kind, c.Text)
	if len(c.Text) > 300 {
		what = fmt.Sprintf("Base64Bytes.Scan(%s of %d characters: %q ... %q)", kind, len(c.Text), c.Text[:80], c.Text[len(c.Text)-40:])
	}
	switch {
	case err != nil:
		res.Class("rejected")
		if !bytes.Equal(got, []byte{7, 7}) {
			return res.Failf("scan/Base64Bytes", "%s failed (%v) but changed its target to %v", what, err, []byte(got))
		}
	case !ok:
		return res.Failf("scan/Base64Bytes", "%s = %v without error, but the text denotes no byte string in the raw standard alphabet", what, []byte(got))
	case !bytes.Equal(got, want):
		return res.Failf("scan/Base64Bytes", "%s = %v (%d bytes) without error, the text denotes %v (%d bytes)", what, []byte(got), len(got), want, len(want))
	default:
		res.Class("accepted")
	}
	if c.AsBytes && !bytes.Equal(src.([]byte), c.Text) {
		return res.Failf("scan/Base64Bytes", "%s changed its source", what)
	}
	if err == nil {
		// the scanned value is the caller's: it stays what it is when the driver reuses the source buffer (database/sql:
		// a Scanner that keeps a []byte source has to copy it) and when another text is scanned into another target
		if c.AsBytes {
			b := src.([]byte)
			for i := range b {
				b[i] = 'A'
			}
		}
		other := make([]byte, 0, len(c.Text)+4)
		for _, ch := range c.Text {
			if i := bytes.IndexByte([]byte(b64Alphabet), ch); i >= 0 {
				other = append(other, b64Alphabet[63-i])
			}
		}
		other = append(other, "AAAA"...)
		var o tex.Base64Bytes
		_ = o.Scan(string(other))
		_ = o.Scan(other)
		if !bytes.Equal(got, want) {
			return res.Failf("scan/Base64Bytes/retained", "%s gave %v; after the source buffer was overwritten and another text was scanned into another target the same value reads %v", what, want, []byte(got))
		}
	}
	if len(c.Text) > 1024 {
		res.Class("text-over-1024-characters")
	}
	if bytes.ContainsAny(c.Text, "\r\n") {
		res.Class("with-line-breaks")
		res.NonTrivial = true
	}
	if !ok {
		res.NonTrivial = true
	}
	return res
}

var PartB64 = &vkit.Part[B64Case]{
	Property: Property, Name: "base64-scan",
	Rule:  "rapid: the unpadded standard-alphabet text of 0-200 random bytes (a few per cent of the cases: 700-5000 bytes, as it is, MIME-wrapped at 76 with CRLF, PEM-wrapped at 64 with LF, or with 1-3 single line breaks), disturbed by 0-20 edits (LF, CRLF, '=', junk characters, an extra alphabet character, a dropped character, MIME line wrapping every 76 characters) and optionally trailing line breaks, handed to Base64Bytes.Scan as string or []byte on a target preset to a sentinel. Oracle: an independent reading of the raw standard encoding (CR/LF skipped, groups of 4/3/2 characters, a single left-over character / padding / foreign characters denote nothing): nil error obliges Scan to exactly the denoted bytes; a failing Scan leaves the target alone; the scanned value stays the same when the []byte source is overwritten afterwards and another text is scanned into another target. Non-trivial: the text contains line breaks or denotes nothing; distinct = distinct case JSON",
	Quick: 20000, Thorough: 60000,
	Gen: GenB64, Exec: ExecB64,
}
