package c19vcode

import (
	"testing"

	"verifharness/vkit"
)

func TestMain(m *testing.M) { vkit.Main(m) }

func TestProp_History(t *testing.T)  { PartHistory.Run(t) }
func TestProp_Alphabet(t *testing.T) { PartAlphabet.Run(t) }
func TestProp_Nonce(t *testing.T)    { PartNonce.Run(t) }
func TestProp_Long(t *testing.T)     { PartLong.Run(t) }

func TestReplay(t *testing.T) {
	PartHistory.Replay(t, 1)
	PartAlphabet.Replay(t, 1)
	PartNonce.Replay(t, 1)
	PartLong.Replay(t, 1)
}
