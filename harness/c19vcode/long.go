package c19vcode

// part "long": the same statement and the same per-pair model far from the small numbers of part "history" - ONE
// instance that lives through hundreds to thousands of pairs (the configured CacheSize covers them all), thousands
// of send / verify rounds, and hundreds to tens of thousands of attempts against one sent code with the right code
// offered again and again (once the limit is passed it must stay rejected whatever the count; below a limit that is
// out of reach it must stay accepted). A case is a handful of numbers; Expand turns it into a history of part
// "history" (a pure function of the case), which ExecHistory checks call by call.

import (
	"fmt"
	"math"

	"pgregory.net/rapid"

	"verifharness/vkit"
)

// Seg is a stretch of the attempts against one sent code: Wrong attempts with a wrong code, then Right attempts
// with the right code and hash.
type Seg struct {
	Wrong int `json:"wrong"`
	Right int `json:"right"`
}

type LongCase struct {
	Mock           bool  `json:"mock"`
	CodeLen        int   `json:"code_len"`
	MaxCount       int   `json:"max_count"`
	MaxVerifyCount int   `json:"max_verify_count"`
	CounterDur     int64 `json:"counter_duration_ns"` // always (no send is refused for the count) | never
	NPairs         int   `json:"n_pairs"`
	CacheExtra     int64 `json:"cache_extra"` // CacheSize = NPairs + CacheExtra
	// after the fill (a send to every pair, then the right code for every pair): Rounds rounds, round i works on
	// pair (Offset + i*Stride) % NPairs and does Pattern[i % len(Pattern)]:
	// S send then right code | s send | r right code | w wrong code | h right code, wrong hash
	Rounds  int    `json:"rounds"`
	Stride  int    `json:"stride"`
	Offset  int    `json:"offset"`
	Pattern string `json:"pattern"`
	// after HammerAt rounds: a send to pair Target, then the attempts of Hammer against that one code
	HammerAt int   `json:"hammer_at"`
	Target   int   `json:"target"`
	Hammer   []Seg `json:"hammer"`
}

var longAreas = []string{"86", "1", "852", "44", ""}

var longVerifyLimits = []int{1, 2, 3, 5, 12, 100, 127, 128, 255, 256, 300, 65535, 65536, math.MaxInt32, math.MaxInt}

func GenLong(t *rapid.T) LongCase {
	c := LongCase{
		Mock:           rapid.IntRange(0, 3).Draw(t, "mock") == 3,
		CodeLen:        rapid.IntRange(1, 12).Draw(t, "codelen"),
		MaxVerifyCount: rapid.SampledFrom(longVerifyLimits).Draw(t, "maxverify"),
		CounterDur:     always,
		MaxCount:       rapid.IntRange(0, 12).Draw(t, "maxcount"),
		NPairs:         rapid.SampledFrom([]int{200, 255, 256, 257, 300, 500, 1000, 1023, 1024, 1025, 2000}).Draw(t, "npairs"),
		CacheExtra:     rapid.SampledFrom([]int64{0, 0, 1, 100, 100000}).Draw(t, "cacheextra"),
		Rounds:         rapid.SampledFrom([]int{1100, 2000, 3000, 4500, 6000}).Draw(t, "rounds"),
	}
	if rapid.IntRange(0, 3).Draw(t, "window") == 3 { // one never ending window with a count limit that is (mostly) out of reach
		c.CounterDur = never
		c.MaxCount = rapid.SampledFrom([]int{3, 40, 1000, 65535, 65536, math.MaxInt32, math.MaxInt}).Draw(t, "maxcountbig")
	}
	c.Stride = rapid.SampledFrom([]int{1, 1, 3, 7, 64, 255, 256, 1021}).Draw(t, "stride")
	if rapid.IntRange(0, 3).Draw(t, "fewpairs") == 3 { // the rounds stay on five pairs, the others only rest in the cache
		c.Stride = c.NPairs / 5
	}
	c.Offset = rapid.IntRange(0, c.NPairs-1).Draw(t, "offset")
	pat := rapid.SliceOfN(rapid.SampledFrom([]byte("SSSSSsrwh")), 1, 8).Draw(t, "pattern")
	c.Pattern = string(pat)
	c.HammerAt = rapid.IntRange(0, c.Rounds).Draw(t, "hammerat")
	c.Target = rapid.IntRange(0, c.NPairs-1).Draw(t, "target")
	// >= 300 attempts (sometimes, and in the thorough tier mostly, >= 70000), mostly with the right code
	want, maxRight := 300+rapid.IntRange(0, 400).Draw(t, "attempts"), 150
	huge := rapid.IntRange(0, 5).Draw(t, "hugehammer")
	if huge == 5 || (vkit.Tier() == "thorough" && huge >= 2) {
		want, maxRight = 70000, 30000
	}
	for total := 0; total < want; {
		s := Seg{Wrong: rapid.IntRange(0, 3).Draw(t, "wrong"), Right: rapid.IntRange(1, maxRight).Draw(t, "right")}
		c.Hammer = append(c.Hammer, s)
		total += s.Wrong + s.Right
	}
	return c
}

// Expand is the history a LongCase stands for.
func (c LongCase) Expand() Case {
	h := Case{
		Mock: c.Mock, CodeLen: c.CodeLen, MaxCount: c.MaxCount, MaxVerifyCount: c.MaxVerifyCount,
		TTL: never, MinInterval: 0, CounterDur: c.CounterDur, CacheSize: int64(c.NPairs) + c.CacheExtra,
	}
	for k := 0; k < c.NPairs; k++ {
		// twelve digits after the "1": the mock code (the last CodeLen <= 12 digits) differs from pair to pair
		h.Pairs = append(h.Pairs, Pair{Area: longAreas[k%len(longAreas)], Phone: fmt.Sprintf("1%012d", 380000000000+k*7919)})
	}
	right := func(p int, tag string) Op { return Op{Kind: "verify", P: p, Code: "right", Hash: "right", Tag: tag} }
	for k := 0; k < c.NPairs; k++ {
		h.Ops = append(h.Ops, Op{Kind: "send", P: k, Tag: "fill"})
	}
	for k := 0; k < c.NPairs; k++ {
		h.Ops = append(h.Ops, right(k, "after the fill"))
	}
	hammer := func() {
		h.Ops = append(h.Ops, Op{Kind: "send", P: c.Target, Tag: "hammer"})
		for j, s := range c.Hammer {
			if s.Wrong > 0 {
				h.Ops = append(h.Ops, Op{Kind: "verify", P: c.Target, Code: "wrong", Hash: "right", Pos: j % 32, Rep: s.Wrong, Tag: "hammer"})
			}
			if s.Right > 0 {
				o := right(c.Target, "hammer")
				o.Rep = s.Right
				h.Ops = append(h.Ops, o)
			}
		}
	}
	for i := 0; i < c.Rounds; i++ {
		if i == c.HammerAt {
			hammer()
		}
		p := (c.Offset + i*c.Stride) % c.NPairs
		tag := fmt.Sprintf("round %d", i)
		switch c.Pattern[i%len(c.Pattern)] {
		case 'S':
			h.Ops = append(h.Ops, Op{Kind: "send", P: p, Tag: tag}, right(p, tag))
		case 's':
			h.Ops = append(h.Ops, Op{Kind: "send", P: p, Tag: tag})
		case 'r':
			h.Ops = append(h.Ops, right(p, tag))
		case 'w':
			h.Ops = append(h.Ops, Op{Kind: "verify", P: p, Code: "wrong", Hash: "right", Pos: i % 32, Tag: tag})
		default:
			h.Ops = append(h.Ops, Op{Kind: "verify", P: p, Code: "right", Hash: "wrong", Pos: i % 32, Tag: tag})
		}
	}
	if c.HammerAt >= c.Rounds {
		hammer()
	}
	for k := 0; k < c.NPairs; k++ {
		h.Ops = append(h.Ops, right(k, "final sweep"))
	}
	return h
}

func ExecLong(c LongCase) *vkit.Result {
	attempts := 0
	okSegs := true
	for _, s := range c.Hammer {
		if s.Wrong < 0 || s.Right < 0 || s.Wrong > 200000 || s.Right > 200000 {
			okSegs = false
			break
		}
		attempts += s.Wrong + s.Right
	}
	okPattern := len(c.Pattern) > 0
	for i := 0; i < len(c.Pattern); i++ {
		switch c.Pattern[i] {
		case 'S', 's', 'r', 'w', 'h':
		default:
			okPattern = false
		}
	}
	if !okSegs || !okPattern || attempts > 400000 || c.NPairs < 1 || c.NPairs > 20000 || c.Rounds < 0 || c.Rounds > 100000 ||
		c.Stride < 0 || c.Stride > 1<<20 || c.Offset < 0 || c.Offset > 1<<20 || c.Target < 0 || c.Target >= c.NPairs ||
		c.CacheExtra < 0 || c.CacheExtra > 1<<30 || c.HammerAt < 0 || c.CodeLen < 1 || c.CodeLen > 12 {
		res := &vkit.Result{}
		res.Skip("malformed long case")
		return res
	}
	res := ExecHistory(c.Expand())
	if res.Fail != nil {
		return res
	}
	switch {
	case c.NPairs >= 1000:
		res.Class("long:pairs-1000..")
	case c.NPairs > 256:
		res.Class("long:pairs-257..")
	default:
		res.Class("long:pairs-200..256")
	}
	if attempts >= 70000 {
		res.Class("long:attempts-on-one-code-70000..")
	}
	switch {
	case c.MaxVerifyCount >= attempts:
		res.Class("long:limit-never-reached")
	case c.MaxVerifyCount >= 127:
		res.Class("long:limit-127..-passed")
	default:
		res.Class("long:limit-1..100-passed")
	}
	return res
}

var PartLong = vkit.Part[LongCase]{
	Property: Property,
	Name:     "long",
	Rule: "Generated: few long histories on ONE instance, checked call by call against the per-pair model of part history: 200..2000 pairs (CacheSize = pairs + 0..100000), mock or real-sender mode, CodeLen 1..12, " +
		"MaxVerifyCount in {1,2,3,5,12,100,127,128,255,256,300,65535,65536,MaxInt32,MaxInt}, every send opening a new window or one endless window with MaxCount in {3,40,1000,65535,65536,MaxInt32,MaxInt}; " +
		"a send to every pair and the right code for every pair; 1100..6000 rounds (send+right code | send | right code | wrong code | wrong hash, by a drawn pattern of 1..8 such steps) over all pairs or over five of them; " +
		"at a drawn round a send to one pair followed by 300..700 (one case in six, and most thorough cases: >= 70000) attempts against that code, 0..3 wrong ones then 1..150 (1..30000) with the right code, in turn; at the end the right code for every pair. " +
		"Non-trivial: as in part history.",
	Quick:    16,
	Thorough: 12,
	Gen:      GenLong,
	Exec:     ExecLong,
}
