// Package c19vcode decides property C19: a verification code sent to an
// (area code, phone) pair verifies with the returned hash while it is within
// its lifetime and attempt limit and in no other way; attempts and sends are
// bounded; generated codes have the configured length and every character of
// the alphabet can occur.
//
// The reference model below is written from the property statement and the
// field documentation of vcode.Config, not from vlogic.go: per pair it keeps
// the current code, the current hash, the attempts made against that code and
// the accepted sends of the window. Lifetimes, intervals and windows are only
// used in their always/never regimes (1000 h / 0 / -1 ns), so no clock is
// needed to know what must happen.
package c19vcode

import (
	"errors"
	"fmt"
	"math"
	"strings"
	"time"

	"github.com/pinealctx/neptune/idgen/random"
	"github.com/pinealctx/neptune/tex"
	"github.com/pinealctx/neptune/ulog"
	"github.com/pinealctx/neptune/vcode"
	"go.uber.org/zap/zapcore"
	"pgregory.net/rapid"

	"verifharness/vkit"
)

const Property = "C19"

func init() { ulog.SetLogLevel(zapcore.FatalLevel + 1) }

const (
	digits = "0123456789" // the alphabet vcode configures for generated codes

	never  = int64(1000 * time.Hour) // "never elapses during a case"
	always = int64(-1)               // -1 ns: "has always elapsed"

	minAlphabetSample = 20000
)

// ---------------------------------------------------------------------------
// part 1: stateful histories of Send / Verify

type Pair struct {
	Area  string `json:"area"`
	Phone string `json:"phone"`
}

// Op is one call. Arguments of a Verify are symbolic (which code, which hash);
// Exec resolves them against what the sends of this execution returned, so the
// case stays pure data although real-sender codes are random.
type Op struct {
	Kind string `json:"kind"` // send | verify
	P    int    `json:"p"`    // index of the target pair
	// verify only
	// right | wrong | trunc | ext | prefix | pad | fullwidth | arabic | plus | nul | prev | empty | other, or - code and hash together, Hash is
	// then ignored - shl (the last 1..3 characters of the code move to the front of the hash) | shr (the first
	// 1..3 characters of the hash move to the end of the code)
	Code string `json:"code,omitempty"`
	Pos  int    `json:"pos,omitempty"`  // which character a "wrong" code/hash differs in; which stale hash; how many characters move / are added / cut (1 + Pos%3)
	Hash string `json:"hash,omitempty"` // right | stale | prev | wrong | upper | ext | trunc | pad | dashed | empty | other
	From int    `json:"from,omitempty"` // pair whose code/hash "other" takes
	Pad  string `json:"pad,omitempty"`  // code "pad": characters outside the alphabet put before (Pos%3 == 0), after (1) or around (2) the right code
	HPad string `json:"hpad,omitempty"` // hash "pad": blank, tab, newline or dash put before (Pos%3 == 0), after (1) or around (2) the right hash
	Rep  int    `json:"rep,omitempty"`  // the call is made Rep times in a row (0 = once); every repetition is checked against the model
	Tag  string `json:"tag,omitempty"`  // phase of a long history (only printed)
}

type Case struct {
	Mock           bool   `json:"mock"`
	CodeLen        int    `json:"code_len"`
	MaxCount       int    `json:"max_count"`
	MaxVerifyCount int    `json:"max_verify_count"`
	TTL            int64  `json:"ttl_ns"`              // never | always
	MinInterval    int64  `json:"min_interval_ns"`     // 0 | never
	CounterDur     int64  `json:"counter_duration_ns"` // never | always
	CacheSize      int64  `json:"cache_size"`
	Pairs          []Pair `json:"pairs"`
	Ops            []Op   `json:"ops"`
	// Instances > 1: that many instances are built from ONE Config value before any call; the history runs on
	// each, every instance is judged against the limits the caller wrote into the Config.
	Instances int `json:"instances,omitempty"`
}

// fakeSMS is the real-sender mode's SMS module: it records what it is asked to send.
type smsCall struct{ area, phone, code string }

type fakeSMS struct{ calls []smsCall }

func (f *fakeSMS) SendCode(areaCode, phone, code string) error {
	f.calls = append(f.calls, smsCall{areaCode, phone, code})
	return nil
}

func genDigits(t *rapid.T, lo, hi int, label string) string {
	n := rapid.IntRange(lo, hi).Draw(t, label+"len")
	b := make([]byte, n)
	for i := range b {
		b[i] = digits[rapid.IntRange(0, 9).Draw(t, label)]
	}
	return string(b)
}

var areas = []string{"86", "8", "1", "852", "44", "+86", "086", ""}

func isDigit(b byte) bool { return b >= '0' && b <= '9' }

// tailDigits is the length of the run of digits a phone ends with: the mock code
// ("the last CodeLen digits of the phone") is only specified up to that length.
func tailDigits(phone string) int {
	n := 0
	for n < len(phone) && isDigit(phone[len(phone)-1-n]) {
		n++
	}
	return n
}

// bumpDigit replaces the first (last=false) or last digit of the phone by another digit.
func bumpDigit(phone string, last bool, by int) string {
	p := []byte(phone)
	at := -1
	for i := range p {
		if isDigit(p[i]) {
			at = i
			if !last {
				break
			}
		}
	}
	if at < 0 {
		return phone + "5"
	}
	p[at] = digits[(int(p[at]-'0')+by)%10]
	return string(p)
}

// normalised is what a (hypothetical) normaliser would make of a pair: blanks,
// dashes, the plus sign and leading zeros dropped, area code and phone joined.
// Pairs that differ but normalise to the same string are still different pairs.
func normalised(p Pair) string {
	strip := func(s string) string {
		b := make([]byte, 0, len(s))
		for i := 0; i < len(s); i++ {
			if s[i] != ' ' && s[i] != '-' && s[i] != '+' && (s[i] != '0' || len(b) > 0) {
				b = append(b, s[i])
			}
		}
		return string(b)
	}
	return strip(strip(p.Area) + strip(p.Phone))
}

func genPairs(t *rapid.T, mock bool, codeLen int) []Pair {
	// In mock mode every phone ends with at least max(9, CodeLen) digits: the mock code is
	// then "the last CodeLen digits of the phone" without any padding rule and without
	// a question what the "digits" of a phone with other characters are.
	need := 9
	if codeLen > need {
		need = codeLen
	}
	base := Pair{Area: rapid.SampledFrom(areas).Draw(t, "area"), Phone: genDigits(t, need+1, need+2, "phone")}
	if rapid.IntRange(0, 5).Draw(t, "lead0") == 0 {
		base.Phone = "0" + base.Phone[1:]
	}
	ps := []Pair{base}
	n := rapid.IntRange(1, 4).Draw(t, "npairs")
	for len(ps) < n {
		src := ps[rapid.IntRange(0, len(ps)-1).Draw(t, "src")]
		var q Pair
		switch rapid.IntRange(0, 11).Draw(t, "pairkind") {
		case 0, 1: // concatenation collides: one character (never a dash, see ExecHistory) moves from the phone to the area code
			q = Pair{Area: src.Area + src.Phone[:1], Phone: src.Phone[1:]}
			if len(q.Phone) < need || src.Phone[0] == '-' {
				q = Pair{Area: src.Area, Phone: src.Phone + "7"}
			}
		case 2: // same phone, other area code
			q = Pair{Area: rapid.SampledFrom(areas).Draw(t, "area2"), Phone: src.Phone}
		case 3: // same area code, phone differing in the last digit (other mock code)
			q = Pair{Area: src.Area, Phone: bumpDigit(src.Phone, true, rapid.IntRange(1, 9).Draw(t, "d"))}
		case 4: // same area code, phone differing in the first digit (same mock code)
			q = Pair{Area: src.Area, Phone: bumpDigit(src.Phone, false, rapid.IntRange(1, 9).Draw(t, "d"))}
		case 5:
			q = Pair{Area: rapid.SampledFrom(areas).Draw(t, "area3"), Phone: genDigits(t, need, need+2, "phone3")}
		// the remaining derivations differ from src only by what a normaliser would strip
		case 6, 7: // phone with / without leading zeros
			if strings.HasPrefix(src.Phone, "0") && rapid.Bool().Draw(t, "strip0") {
				q = Pair{Area: src.Area, Phone: src.Phone[1:]}
			} else {
				q = Pair{Area: src.Area, Phone: rapid.SampledFrom([]string{"0", "0", "00"}).Draw(t, "zeros") + src.Phone}
			}
		case 8: // surrounding blanks
			switch rapid.IntRange(0, 2).Draw(t, "blank") {
			case 0:
				q = Pair{Area: src.Area, Phone: " " + src.Phone}
			case 1:
				q = Pair{Area: src.Area, Phone: src.Phone + " "}
			default:
				q = Pair{Area: " " + src.Area, Phone: src.Phone}
			}
		case 9: // a dash inside the phone
			at := rapid.IntRange(1, 4).Draw(t, "dash")
			if at > len(src.Phone) {
				at = len(src.Phone)
			}
			q = Pair{Area: src.Area, Phone: src.Phone[:at] + "-" + src.Phone[at:]}
		case 10: // area code with / without leading zeros ("086" vs "86")
			if strings.HasPrefix(src.Area, "0") && rapid.Bool().Draw(t, "strip0") {
				q = Pair{Area: src.Area[1:], Phone: src.Phone}
			} else {
				q = Pair{Area: rapid.SampledFrom([]string{"0", "00"}).Draw(t, "zeros") + src.Area, Phone: src.Phone}
			}
		default: // area code with / without the plus sign
			if strings.HasPrefix(src.Area, "+") {
				q = Pair{Area: src.Area[1:], Phone: src.Phone}
			} else {
				q = Pair{Area: "+" + src.Area, Phone: src.Phone}
			}
		}
		if mock && tailDigits(q.Phone) < need { // the mock code of q would not be specified
			q = Pair{Area: src.Area, Phone: "0" + src.Phone}
		}
		dup := false
		for _, x := range ps {
			if x == q {
				dup = true
			}
		}
		if dup {
			q = Pair{Area: src.Area, Phone: src.Phone + "3"}
			for _, x := range ps {
				if x == q {
					q.Phone += "1"
				}
			}
		}
		ps = append(ps, q)
	}
	return ps
}

var wrongCodes = []string{"wrong", "wrong", "wrong", "trunc", "ext", "prefix", "pad", "pad", "fullwidth", "arabic", "plus", "nul", "prev", "empty", "other"}
var wrongHashes = []string{"stale", "stale", "prev", "wrong", "wrong", "upper", "ext", "trunc", "pad", "pad", "dashed", "empty", "other"}

// what a lenient comparison of hashes might strip
var hpads = []string{" ", " ", "\n", "\t", "-", "\r\n", "  "}

// limits far from the small numbers: nothing is ever refused for the count then
var hugeLimits = []int{math.MaxInt, math.MaxInt - 1, math.MaxInt32, math.MaxInt32 + 1, 65535, 65536}

// respell writes every ASCII digit of the code as the digit of another Unicode block starting at zero.
func respell(code string, zero rune) string {
	var b strings.Builder
	for _, r := range code {
		if r >= '0' && r <= '9' {
			r = r - '0' + zero
		}
		b.WriteRune(r)
	}
	return b.String()
}

// dashed inserts dashes the way a UUID is printed (8-4-4-4-12).
func dashed(h string) string {
	if len(h) < 21 {
		return h[:len(h)/2] + "-" + h[len(h)/2:]
	}
	return h[:8] + "-" + h[8:12] + "-" + h[12:16] + "-" + h[16:20] + "-" + h[20:]
}

// characters outside the code alphabet that a lenient comparison might ignore
var pads = []string{" ", " ", " ", "  ", "\t", "\n", "\r\n", "\x00", "+", "-", ".", "x", "\u00a0", "\u3000"}

// limits are mostly small (short bursts reach them), sometimes up to 12
func genLimit(t *rapid.T, label string) int {
	if rapid.IntRange(0, 15).Draw(t, label+"huge") == 15 {
		return rapid.SampledFrom(hugeLimits).Draw(t, label+"hugeval")
	}
	if rapid.IntRange(0, 5).Draw(t, label+"big") == 0 {
		return rapid.IntRange(5, 12).Draw(t, label)
	}
	return rapid.IntRange(0, 4).Draw(t, label)
}

func GenHistory(t *rapid.T) Case {
	c := Case{
		Mock:           rapid.Bool().Draw(t, "mock"),
		CodeLen:        rapid.IntRange(1, 12).Draw(t, "codelen"),
		MaxCount:       genLimit(t, "maxcount"),
		MaxVerifyCount: genLimit(t, "maxverify"),
		TTL:            rapid.SampledFrom([]int64{never, never, never, never, never, always}).Draw(t, "ttl"),
		MinInterval:    rapid.SampledFrom([]int64{0, 0, 0, never}).Draw(t, "mininterval"),
		CounterDur:     rapid.SampledFrom([]int64{never, never, always}).Draw(t, "counterdur"),
	}
	c.Pairs = genPairs(t, c.Mock, c.CodeLen)
	np := len(c.Pairs)
	c.CacheSize = int64(np) + rapid.SampledFrom([]int64{0, 0, 1, 5, 1000}).Draw(t, "cacheextra")
	if rapid.IntRange(0, 11).Draw(t, "instances") == 11 {
		c.Instances = rapid.IntRange(2, 3).Draw(t, "ninstances")
	}
	// burst lengths are taken around the limits; around 3 when the limit is out of reach
	nearVerify, nearCount := c.MaxVerifyCount, c.MaxCount
	if nearVerify > 12 {
		nearVerify = 3
	}
	if nearCount > 12 {
		nearCount = 3
	}
	focus := rapid.IntRange(0, np-1).Draw(t, "focus")
	pick := func() int {
		if rapid.IntRange(0, 9).Draw(t, "onfocus") < 6 {
			return focus
		}
		return rapid.IntRange(0, np-1).Draw(t, "p")
	}
	verify := func(p int, code, hash string) Op {
		o := Op{Kind: "verify", P: p, Code: code, Hash: hash, Pos: rapid.IntRange(0, 31).Draw(t, "pos")}
		if code == "other" || hash == "other" {
			o.From = rapid.IntRange(0, np-1).Draw(t, "from")
		}
		if code == "pad" {
			o.Pad = rapid.SampledFrom(pads).Draw(t, "pad")
		}
		if hash == "pad" {
			o.HPad = rapid.SampledFrom(hpads).Draw(t, "hpad")
		}
		if code == "shl" || code == "shr" {
			o.Hash = ""
		}
		return o
	}
	// related(p): a pair that differs from p but looks the same after normalising (or, failing that, any pair)
	norm := make([]string, np)
	for i, x := range c.Pairs {
		norm[i] = normalised(x)
	}
	related := func(p int) int {
		q := rapid.IntRange(0, np-1).Draw(t, "q")
		if rapid.IntRange(0, 3).Draw(t, "related") > 0 {
			for j, x := range c.Pairs {
				if x != c.Pairs[p] && norm[j] == norm[p] && (q == p || rapid.Bool().Draw(t, "takerel")) {
					q = j
				}
			}
		}
		return q
	}
	wrongVerify := func(p int) Op {
		switch rapid.IntRange(0, 4).Draw(t, "wrongkind") {
		case 0: // right code, wrong hash
			return verify(p, "right", rapid.SampledFrom(wrongHashes).Draw(t, "whash"))
		case 1: // wrong code and wrong hash
			return verify(p, rapid.SampledFrom(wrongCodes).Draw(t, "wcode"), rapid.SampledFrom(wrongHashes).Draw(t, "whash"))
		case 4: // the right characters, but the boundary between code and hash moved
			return verify(p, rapid.SampledFrom([]string{"shl", "shr"}).Draw(t, "shift"), "")
		default: // wrong code, right hash
			return verify(p, rapid.SampledFrom(wrongCodes).Draw(t, "wcode"), "right")
		}
	}
	if rapid.IntRange(0, 9).Draw(t, "sendfirst") < 9 {
		c.Ops = append(c.Ops, Op{Kind: "send", P: focus})
	}
	// one step = one call or one burst; a slice of steps lets the shrinker delete whole steps
	step := rapid.Custom(func(t *rapid.T) []Op {
		var ops []Op
		p := pick()
		switch k := rapid.IntRange(0, 23).Draw(t, "opkind"); {
		case k < 5:
			ops = append(ops, Op{Kind: "send", P: p})
		case k < 10:
			ops = append(ops, verify(p, "right", "right"))
		case k < 14:
			ops = append(ops, wrongVerify(p))
		case k < 16: // the code and hash of p presented for another pair
			q := related(p) // prefer a pair that a normaliser (or a key without separator) would identify with p
			o := verify(q, "other", "other")
			o.From = p
			ops = append(ops, o)
		case k < 19: // burst around the attempt limit: w wrong attempts, then the right code (twice)
			w := nearVerify + rapid.IntRange(-2, 1).Draw(t, "burst")
			if w < 0 {
				w = 0
			}
			if rapid.Bool().Draw(t, "burstsend") {
				ops = append(ops, Op{Kind: "send", P: p})
			}
			for i := 0; i < w; i++ {
				ops = append(ops, wrongVerify(p))
			}
			ops = append(ops, verify(p, "right", "right"))
			if rapid.Bool().Draw(t, "again") {
				ops = append(ops, verify(p, "right", "right"))
			}
			if rapid.IntRange(0, 2).Draw(t, "resend") == 0 { // a new send must reset the attempts
				ops = append(ops, Op{Kind: "send", P: p}, verify(p, "right", "right"))
			}
		case k < 20: // burst of sends around the count limit
			for i, k := 0, nearCount+rapid.IntRange(0, 2).Draw(t, "sendburst"); i < k; i++ {
				ops = append(ops, Op{Kind: "send", P: p})
			}
			ops = append(ops, verify(p, "right", "right"))
		case k < 22: // after a resend the previous code is dead: with the current hash and with its own
			ops = append(ops, Op{Kind: "send", P: p}, Op{Kind: "send", P: p})
			if rapid.Bool().Draw(t, "prevcur") {
				ops = append(ops, verify(p, "prev", "right"))
			}
			if rapid.Bool().Draw(t, "prevown") {
				ops = append(ops, verify(p, "prev", "prev"))
			}
			ops = append(ops, verify(p, "right", "right"))
		default: // two pairs a normaliser would identify share nothing: sends to and attempts against q leave p's code, hash and counters alone
			q := related(p)
			ops = append(ops, Op{Kind: "send", P: p})
			switch rapid.IntRange(0, 2).Draw(t, "relkind") {
			case 0:
				ops = append(ops, Op{Kind: "send", P: q})
			case 1:
				ops = append(ops, Op{Kind: "send", P: q})
				for i, k := 0, rapid.IntRange(1, nearVerify+1).Draw(t, "relwrong"); i < k; i++ {
					ops = append(ops, wrongVerify(q))
				}
			default:
				o := verify(q, "other", "other")
				o.From = p
				ops = append(ops, o)
			}
			ops = append(ops, verify(p, "right", "right"))
			if rapid.Bool().Draw(t, "relq") {
				ops = append(ops, verify(q, "right", "right"))
			}
		}
		return ops
	})
	for _, ops := range rapid.SliceOfN(step, 1, 16).Draw(t, "steps") {
		c.Ops = append(c.Ops, ops...)
	}
	return c
}

// model of one (area, phone) pair, from the statement
type pairModel struct {
	exists     bool     // a send was accepted: there is a current code
	code, hash string   // current code and the hash returned with it
	attempts   int      // verifications made against the current code
	wrong      int      // of which with a wrong code or hash
	window     int      // accepted sends in the current (never ending) window
	accepted   int      // accepted sends ever
	oldHashes  []string // hashes of earlier sends (now invalid)
	oldCodes   []string // the codes sent with them, same index
	overBefore bool     // the previous code had run over its attempt limit
}

func mockCode(phone string, n int) string {
	if len(phone) >= n {
		return phone[len(phone)-n:]
	}
	return strings.Repeat("0", n-len(phone)) + phone
}

func alter(s string, pos int, alphabet string) string {
	if s == "" {
		return alphabet[:1]
	}
	b := []byte(s)
	i := pos % len(b)
	j := strings.IndexByte(alphabet, b[i])
	b[i] = alphabet[(j+1+pos/len(b))%len(alphabet)]
	if string(b) == s { // only when the step wrapped round to the same character
		b[i] = alphabet[(j+1)%len(alphabet)]
	}
	return string(b)
}

func errName(err error) string {
	switch {
	case err == nil:
		return "nil"
	case errors.Is(err, vcode.ErrSendTooFreq):
		return "ErrSendTooFreq"
	case errors.Is(err, vcode.ErrSendCountLimit):
		return "ErrSendCountLimit"
	case errors.Is(err, vcode.ErrVerifyCodeRetryLimit):
		return "ErrVerifyCodeRetryLimit"
	case errors.Is(err, vcode.ErrVerifyCodeNotExist):
		return "ErrVerifyCodeNotExist"
	case errors.Is(err, vcode.ErrVerifyCodeTimeout):
		return "ErrVerifyCodeTimeout"
	case errors.Is(err, vcode.ErrVerifyCodeNotMatch):
		return "ErrVerifyCodeNotMatch"
	case errors.Is(err, vcode.ErrVerifyCodeHashNotMatch):
		return "ErrVerifyCodeHashNotMatch"
	}
	return err.Error()
}

func collide(ps []Pair) bool {
	first := make(map[string]Pair, len(ps))
	for _, p := range ps {
		if q, ok := first[p.Area+p.Phone]; ok && q != p {
			return true
		} else if !ok {
			first[p.Area+p.Phone] = p
		}
	}
	return false
}

func ExecHistory(c Case) *vkit.Result {
	res := &vkit.Result{}
	regime := func(v int64, allowed ...int64) bool {
		for _, a := range allowed {
			if v == a {
				return true
			}
		}
		return false
	}
	if !regime(c.TTL, never, always) || !regime(c.MinInterval, 0, never) || !regime(c.CounterDur, never, always) ||
		c.CodeLen < 1 || c.CodeLen > 64 || c.MaxCount < 0 || c.MaxVerifyCount < 0 || len(c.Pairs) == 0 {
		res.Skip("case outside the always/never regimes")
		return res
	}
	distinct := map[Pair]bool{}
	for _, p := range c.Pairs {
		distinct[p] = true
		if strings.Contains(p.Area, "-") {
			// ("1-868","5551234") and ("1","868-5551234") are different pairs which the cache key
			// area-phone does not tell apart; area codes with a dash are outside the declared domain
			// (props/C19.json), the observation is reported there.
			res.Skip("area code with a dash (outside the declared domain)")
			return res
		}
		if c.Mock && tailDigits(p.Phone) < c.CodeLen {
			res.Skip("phone ends with fewer digits than the code has (the mock code is not specified)")
			return res
		}
	}
	if c.CacheSize < int64(len(distinct)) {
		res.Skip("cache smaller than the set of phones")
		return res
	}
	if c.Mock {
		res.Class("mode:mock")
	} else {
		res.Class("mode:real")
	}
	if collide(c.Pairs) {
		res.Class("pairs:colliding-concatenation")
	}
	norm := make([]string, len(c.Pairs))
	for i, x := range c.Pairs {
		norm[i] = normalised(x)
	}
	concatOf := make(map[string]string, len(c.Pairs)) // normalised form -> concatenation of the first pair with it
	for i, a := range c.Pairs {
		if cc, ok := concatOf[norm[i]]; ok && cc != a.Area+a.Phone {
			res.Class("pairs:equal-after-normalising")
		} else if !ok {
			concatOf[norm[i]] = a.Area + a.Phone
		}
	}
	if c.CodeLen > 8 {
		res.Class("codelen:9..")
	}
	if c.MaxCount > 4 {
		res.Class("maxcount:5..")
	}
	if c.MaxVerifyCount > 4 {
		res.Class("maxverify:5..")
	}
	if c.MaxCount > 12 {
		res.Class("maxcount:65535..MaxInt")
	}
	if c.MaxVerifyCount > 12 {
		res.Class("maxverify:65535..MaxInt")
	}
	if c.MaxVerifyCount == math.MaxInt {
		res.Class("maxverify:MaxInt")
	}
	if c.TTL == always {
		res.Class("regime:ttl-always-expired")
	}
	if c.MinInterval == never {
		res.Class("regime:min-interval-1000h")
	}
	if c.CounterDur == always {
		res.Class("regime:window-always-new")
	}

	// ONE Config value for all instances of the case; the caller's copy of what it wrote is `configured`
	cfg := &vcode.Config{
		CacheSize:       c.CacheSize,
		Mock:            c.Mock,
		CodeLen:         c.CodeLen,
		TTL:             tex.Duration(c.TTL),
		MinInterval:     tex.Duration(c.MinInterval),
		CounterDuration: tex.Duration(c.CounterDur),
		MaxCount:        c.MaxCount,
		MaxVerifyCount:  c.MaxVerifyCount,
	}
	configured := *cfg
	n := c.Instances
	if n < 1 {
		n = 1
	}
	if n > 4 {
		res.Skip("more than 4 instances")
		n = 4
	}
	if n > 1 {
		res.Class(fmt.Sprintf("instances-from-one-config:%d", n))
	}
	logics := make([]vcode.VCLogic, n)
	smss := make([]*fakeSMS, n)
	for k := range logics {
		smss[k] = &fakeSMS{}
		logics[k] = vcode.NewSimpleLogic(cfg, smss[k], nil)
		if *cfg != configured {
			// not a verdict: the statement speaks of the configured limits, and every instance below is judged against the
			// limits the caller wrote; a constructor that fills in defaults in place breaks nothing
			res.Class("config-changed-by-the-constructor")
		}
	}
	for k := range logics {
		inst := ""
		if n > 1 {
			inst = fmt.Sprintf("instance %d of %d built from one Config, ", k+1, n)
		}
		execHistoryOn(c, res, logics[k], smss[k], norm, inst)
		if res.Fail != nil {
			return res
		}
		if *cfg != configured {
			res.Class("config-changed-by-calls")
		}
	}
	return res
}

// execHistoryOn runs the history of the case on one instance against a fresh model.
func execHistoryOn(c Case, res *vkit.Result, logic vcode.VCLogic, sms *fakeSMS, norm []string, inst string) *vkit.Result {
	model := map[Pair]*pairModel{}
	get := func(p Pair) *pairModel {
		m := model[p]
		if m == nil {
			m = &pairModel{}
			model[p] = m
		}
		return m
	}

	// Failure messages must be identical when the same case is executed again
	// (rapid compares them while shrinking), so the values the implementation
	// draws at random - every hash, and the code in real-sender mode - are
	// described, not printed.
	hashName := map[string]string{}
	showHash := func(h string) string {
		if n, ok := hashName[h]; ok {
			return n
		}
		return fmt.Sprintf("<%d characters>", len(h))
	}
	showCode := func(code string) string {
		if c.Mock {
			return fmt.Sprintf("%q", code)
		}
		return fmt.Sprintf("<%d characters>", len(code))
	}

	calls := 0
	for i, op := range c.Ops {
		if op.P < 0 || op.P >= len(c.Pairs) || op.From < 0 || op.From >= len(c.Pairs) {
			res.Skip("op on a pair that is not in the case")
			continue
		}
		reps := op.Rep
		if reps < 1 {
			reps = 1
		}
		if calls += reps; calls > 4000000 {
			res.Skip("more than 4000000 calls in one history")
			break
		}
		pair := c.Pairs[op.P]
		m := get(pair)
		for r := 0; r < reps; r++ {
			opName := fmt.Sprintf("%sop %d", inst, i)
			if op.Tag != "" {
				opName += " [" + op.Tag + "]"
			}
			if reps > 1 {
				opName += fmt.Sprintf(" (repetition %d of %d)", r+1, reps)
			}
			at := fmt.Sprintf("%s %s(%q,%q)", opName, op.Kind, pair.Area, pair.Phone)
			switch op.Kind {
			case "send":
				// what the statement demands of this send
				mustRefuse, mustAccept, why := false, true, ""
				inWindow := m.window
				if c.CounterDur == always {
					inWindow = 0 // every send opens a new window
				}
				switch {
				case c.MinInterval == never && m.accepted > 0:
					mustRefuse, mustAccept, why = true, false, "interval"
				case inWindow > c.MaxCount:
					mustRefuse, mustAccept, why = true, false, "count"
				case inWindow == c.MaxCount:
					mustAccept = false // the (MaxCount+1)-th send of a window: accepted either way
				}
				before := len(sms.calls)
				hash, err := logic.SendSMSCode(pair.Area, pair.Phone)
				newCalls := sms.calls[before:]
				if err != nil {
					switch {
					case mustAccept:
						return res.Failf("send/refused", "%s refused with %s, but it is send %d of its window (MaxCount %d, window %s) and no earlier send falls inside the minimum interval (%v)",
							at, errName(err), inWindow+1, c.MaxCount, time.Duration(c.CounterDur), time.Duration(c.MinInterval))
					case mustRefuse && why == "interval":
						res.Class("send:refused-interval")
					case mustRefuse:
						res.Class("send:refused-count")
					default:
						res.Class("send:(MaxCount+1)-th-refused")
					}
					if len(newCalls) != 0 {
						return res.Failf("send/refused-but-sent", "%s was refused (%s) but the SMS module was asked to send a code (%s)", at, errName(err), showCode(newCalls[0].code))
					}
					res.NonTrivial = true
					continue
				}
				if mustRefuse {
					if why == "interval" {
						return res.Failf("send/interval-not-enforced", "%s accepted although the pair was sent to before and MinInterval is %v", at, time.Duration(c.MinInterval))
					}
					return res.Failf("send/count-not-enforced", "%s accepted although %d sends were already accepted in this window (MaxCount %d, window %v)", at, inWindow, c.MaxCount, time.Duration(c.CounterDur))
				}
				if !mustAccept {
					res.Class("send:(MaxCount+1)-th-accepted")
				}
				var code string
				if c.Mock {
					code = mockCode(pair.Phone, c.CodeLen)
				} else {
					if len(newCalls) != 1 {
						return res.Failf("send/sms-calls", "%s accepted in real-sender mode but the SMS module was called %d times", at, len(newCalls))
					}
					if newCalls[0].area != pair.Area || newCalls[0].phone != pair.Phone {
						return res.Failf("send/sms-target", "%s: SMS went to (%q,%q)", at, newCalls[0].area, newCalls[0].phone)
					}
					code = newCalls[0].code
					if len(code) != c.CodeLen {
						return res.Failf("send/code-length", "%s: the generated code has length %d, CodeLen is %d", at, len(code), c.CodeLen)
					}
					if strings.Trim(code, digits) != "" {
						return res.Failf("send/code-alphabet", "%s: the generated code has characters outside %q", at, digits)
					}
				}
				if hash == "" {
					return res.Failf("send/empty-hash", "%s accepted but returned an empty hash", at)
				}
				if m.exists {
					res.Class("send:resend")
					if hash == m.hash {
						return res.Failf("send/hash-reused", "%s returned the hash of the previous send again (%s): the old hash is not invalidated", at, showHash(hash))
					}
					m.oldHashes = append(m.oldHashes, m.hash)
					m.oldCodes = append(m.oldCodes, m.code)
				}
				m.overBefore = m.exists && m.attempts > c.MaxVerifyCount
				m.exists, m.code, m.hash = true, code, hash
				if _, dup := hashName[hash]; !dup {
					hashName[hash] = fmt.Sprintf("<hash returned by op %d>", i)
				}
				m.attempts, m.wrong = 0, 0
				m.accepted++
				if c.CounterDur == never {
					m.window++
				}

			case "verify":
				src := get(c.Pairs[op.From])
				rightCode, rightHash := m.code, m.hash
				if !m.exists { // nothing was sent: any code is the wrong one
					rightCode, rightHash = mockCode(pair.Phone, c.CodeLen), strings.Repeat("0", 32)
				}
				var code, hash string
				usedStale := false
				shift := 1 + op.Pos%3
				if op.Pos < 0 {
					shift = 1
				}
				switch op.Code {
				case "right":
					code = rightCode
				case "wrong":
					code = alter(rightCode, op.Pos, digits)
				case "trunc":
					if code = ""; len(rightCode) > 0 {
						code = rightCode[:len(rightCode)-1]
					}
				case "ext":
					code = rightCode + digits[op.Pos%10:op.Pos%10+1]
				case "prefix":
					code = digits[op.Pos%10:op.Pos%10+1] + rightCode
				case "pad":
					pad := op.Pad
					if strings.Trim(pad, digits) == "" { // a replayed case without padding, or with digits: still a wrong code
						pad += " "
					}
					switch op.Pos % 3 {
					case 0:
						code = pad + rightCode
					case 1:
						code = rightCode + pad
					default:
						code = pad + rightCode + pad
					}
				case "fullwidth": // the right digits, written as full-width digits
					code = respell(rightCode, 0xFF10)
				case "arabic": // ... as Arabic-Indic (or, odd Pos, extended Arabic-Indic) digits
					code = respell(rightCode, []rune{0x0660, 0x06F0}[op.Pos&1])
				case "plus":
					code = "+" + rightCode
				case "nul":
					code = rightCode + "\x00"
				case "prev":
					if len(m.oldCodes) == 0 {
						res.Skip("previous code requested before a second send (a wrong code is used)")
						code = alter(rightCode, op.Pos, digits)
					} else {
						code = m.oldCodes[len(m.oldCodes)-1]
					}
				case "shl", "shr": // below, together with the hash
				case "empty":
					code = ""
				case "other":
					code = src.code
					if !src.exists {
						code = mockCode(c.Pairs[op.From].Phone, c.CodeLen)
					}
				default:
					res.Skip("unknown code kind")
					continue
				}
				hashKind := op.Hash
				switch op.Code {
				case "shl": // the concatenation code+hash is the right one, the boundary is not
					k := shift
					if k > len(rightCode) {
						k = len(rightCode)
					}
					code, hash, hashKind = rightCode[:len(rightCode)-k], rightCode[len(rightCode)-k:]+rightHash, "shifted"
				case "shr":
					k := shift
					if k > len(rightHash) {
						k = len(rightHash)
					}
					code, hash, hashKind = rightCode+rightHash[:k], rightHash[k:], "shifted"
				}
				switch hashKind {
				case "shifted":
				case "right":
					hash = rightHash
				case "prev":
					if len(m.oldHashes) == 0 {
						res.Skip("previous hash requested before a second send (a wrong hash is used)")
						hash = alter(rightHash, op.Pos, "0123456789abcdef")
					} else {
						hash = m.oldHashes[len(m.oldHashes)-1]
						usedStale = true
					}
				case "ext":
					hash = rightHash + strings.Repeat("0123456789abcdef"[op.Pos%16:op.Pos%16+1], shift)
				case "trunc":
					if hash = ""; len(rightHash) > shift {
						hash = rightHash[:len(rightHash)-shift]
					}
				case "stale":
					if len(m.oldHashes) == 0 {
						res.Skip("stale hash requested before a second send (a wrong hash is used)")
						hash = alter(rightHash, op.Pos, "0123456789abcdef")
					} else {
						hash = m.oldHashes[op.Pos%len(m.oldHashes)]
						usedStale = true
					}
				case "wrong":
					hash = alter(rightHash, op.Pos, "0123456789abcdef")
				case "upper":
					hash = strings.ToUpper(rightHash)
				case "pad":
					pad := op.HPad
					if pad == "" {
						pad = " "
					}
					switch op.Pos % 3 {
					case 0:
						hash = pad + rightHash
					case 1:
						hash = rightHash + pad
					default:
						hash = pad + rightHash + pad
					}
				case "dashed":
					hash = dashed(rightHash)
				case "empty":
					hash = ""
				case "other":
					hash = src.hash
					if !src.exists {
						hash = strings.Repeat("f", 32)
					}
				default:
					res.Skip("unknown hash kind")
					continue
				}
				at = fmt.Sprintf("%s verify(%q,%q, code %s=%s, hash %s=%s)", opName, pair.Area, pair.Phone, op.Code, showCode(code), hashKind, showHash(hash))

				// expectation
				codeOK := m.exists && code == m.code
				hashOK := m.exists && hash == m.hash
				if m.exists {
					m.attempts++
				}
				over := m.exists && m.attempts > c.MaxVerifyCount
				expired := c.TTL == always
				want := m.exists && !over && codeOK && hashOK && !expired

				err := logic.VerifySMSCode(pair.Area, pair.Phone, code, hash)
				got := err == nil

				state := fmt.Sprintf("model: sent=%v, current code %s, current hash %s, attempt %d of at most %d, TTL %v", m.exists, showCode(m.code), showHash(m.hash), m.attempts, c.MaxVerifyCount, time.Duration(c.TTL))
				if want && !got {
					return res.Failf("verify/right-rejected", "%s returned %s, but the code and hash are the ones of the last send to this pair, inside lifetime and attempt limit (%s)", at, errName(err), state)
				}
				if !want && got {
					switch {
					case !m.exists:
						return res.Failf("verify/accepted-unsent", "%s succeeded although no code was sent to this pair (%s)", at, state)
					case over:
						return res.Failf("verify/accepted-over-limit", "%s succeeded although more than MaxVerifyCount attempts were made against this code (%s)", at, state)
					case !codeOK:
						return res.Failf("verify/accepted-wrong-code", "%s succeeded with a code that is not the current one (%s)", at, state)
					case !hashOK:
						return res.Failf("verify/accepted-wrong-hash", "%s succeeded with a hash that is not the one of the last send (%s)", at, state)
					default:
						return res.Failf("verify/accepted-expired", "%s succeeded after the lifetime (%s)", at, state)
					}
				}

				// classes
				otherPair := op.From != op.P && (op.Code == "other" || op.Hash == "other")
				switch {
				case !m.exists:
					res.Class("verify:unsent-pair")
				case got && m.wrong > 0:
					res.Class("verify:ok-after-wrong-attempts")
					res.NonTrivial = true
				case got:
					res.Class("verify:ok")
				case codeOK && hashOK && over:
					res.Class("verify:right-code-over-limit")
					if m.wrong > 0 {
						res.NonTrivial = true
					}
				case codeOK && hashOK && expired:
					res.Class("verify:right-code-expired")
					if m.wrong > 0 {
						res.NonTrivial = true
					}
				case codeOK && !hashOK && usedStale:
					res.Class("verify:right-code-stale-hash")
				case codeOK && !hashOK:
					res.Class("verify:right-code-wrong-hash")
				case !codeOK:
					res.Class("verify:wrong-code")
				}
				if got && m.overBefore {
					res.Class("verify:ok-after-resend-reset-attempts")
				}
				if got && m.attempts == c.MaxVerifyCount {
					res.Class("verify:ok-on-last-allowed-attempt")
				}
				if m.exists && !(codeOK && hashOK) {
					switch {
					case op.Code == "shl" || op.Code == "shr":
						res.Class("verify:code-hash-boundary-moved")
					case op.Code == "pad" || op.Code == "plus" || op.Code == "nul":
						res.Class("verify:padded-right-code")
					case op.Code == "fullwidth" || op.Code == "arabic":
						res.Class("verify:right-code-other-digit-block")
					case op.Code == "prev" && !codeOK && hashOK:
						res.Class("verify:previous-code-current-hash")
					case op.Code == "prev" && !codeOK && op.Hash == "prev" && usedStale:
						res.Class("verify:previous-code-own-hash")
					}
					if codeOK && (op.Hash == "ext" || op.Hash == "trunc" || op.Hash == "pad" || op.Hash == "dashed") {
						res.Class("verify:right-code-hash-" + op.Hash)
					}
				}
				if otherPair && m.exists {
					res.Class("verify:other-pairs-code-and-hash")
					if c.Pairs[op.From] != pair && norm[op.From] == norm[op.P] {
						res.Class("verify:related-pairs-code-and-hash")
					}
					if c.Pairs[op.From].Area+c.Pairs[op.From].Phone == pair.Area+pair.Phone && c.Pairs[op.From] != pair {
						res.Class("verify:colliding-pairs-code-and-hash")
					}
				}
				if m.exists && !(codeOK && hashOK) {
					m.wrong++
				}
				res.Class("verify-result:" + errName(err))

			default:
				res.Skip("unknown op kind")
			}
		}
	}
	return res
}

var PartHistory = vkit.Part[Case]{
	Property: Property,
	Name:     "history",
	Rule: "Generated: mock or real-sender mode (fake SMS module capturing the code), CodeLen 1..12, MaxCount and MaxVerifyCount 0..12 (5/6 of the cases 0..4), TTL in {1000h, -1ns}, MinInterval in {0, 1000h}, " +
		"CounterDuration in {1000h, -1ns}, CacheSize >= #pairs, 1..4 (area, phone) pairs derived from each other (concatenation collides, same phone other area, last/first digit differs, and pairs that differ only by what a normaliser would strip: " +
		"leading 0/00 of the phone or of the area code, a blank before/after, a dash inside, the plus sign), " +
		"1..16 steps (a call or a burst): Send, Verify(right|wrong|truncated|extended|digit-prefixed|padded with blanks or other non-alphabet characters|previous|empty|other pair's code x right|stale|previous|wrong|upper-cased|extended|truncated|empty|other pair's hash), " +
		"Verify with 1..3 characters moved across the code/hash boundary, bursts of wrong attempts around MaxVerifyCount followed by the right code, bursts of sends around MaxCount, " +
		"resend followed by the previous code (with the current and with its own hash), send to p / sends and attempts on a pair related to p / right code for p. " +
		"Also: the right code respelled (full-width / Arabic-Indic digits, leading '+', trailing NUL), the right hash with a blank, tab, newline or dash before/after/around or dashed the UUID way; " +
		"MaxCount / MaxVerifyCount from {MaxInt, MaxInt-1, MaxInt32, MaxInt32+1, 65535, 65536} in a small share of the cases; one case in twelve runs the history on 2..3 instances built from ONE Config value " +
		"(each judged against the configured limits; the Config must stay as the caller wrote it). " +
		"Oracle: per-pair model {code, hash, attempts, accepted sends in window} from the statement. " +
		"Non-trivial: the history contains a Verify with the right code and hash after >= 1 wrong attempt against the same code, or a refused send.",
	Quick:    20000,
	Thorough: 60000,
	Gen:      GenHistory,
	Exec:     ExecHistory,
}

// ---------------------------------------------------------------------------
// part 2: alphabet coverage of the codes vcode hands to the SMS module

type AlphaCase struct {
	CodeLen int `json:"code_len"`
	Phones  int `json:"phones"`
	Sends   int `json:"sends"` // CodeLen*Sends >= 20 000
}

func GenAlpha(t *rapid.T) AlphaCase {
	c := AlphaCase{CodeLen: rapid.IntRange(1, 12).Draw(t, "codelen"), Phones: rapid.IntRange(1, 3).Draw(t, "phones")}
	c.Sends = (minAlphabetSample+c.CodeLen-1)/c.CodeLen + rapid.IntRange(0, 50).Draw(t, "extra")
	return c
}

func ExecAlpha(c AlphaCase) *vkit.Result {
	res := &vkit.Result{}
	if c.CodeLen < 1 || c.Phones < 1 || c.CodeLen*c.Sends < minAlphabetSample || c.CodeLen*c.Sends > 50*minAlphabetSample {
		res.Skip("sample smaller than 20000 characters")
		return res
	}
	sms := &fakeSMS{}
	logic := vcode.NewSimpleLogic(&vcode.Config{
		CacheSize: int64(c.Phones) + 1, CodeLen: c.CodeLen,
		TTL: tex.Duration(never), MinInterval: 0, CounterDuration: tex.Duration(always), // no send is ever refused
		MaxCount: 3, MaxVerifyCount: 3,
	}, sms, nil)
	var seen [256]int
	for i := 0; i < c.Sends; i++ {
		phone := fmt.Sprintf("1380000%04d", i%c.Phones)
		before := len(sms.calls)
		if _, err := logic.SendSMSCode("86", phone); err != nil {
			return res.Failf("alphabet/send-refused", "send %d to (86,%s) refused with %s although MinInterval is 0 and every send opens a new count window", i, phone, errName(err))
		}
		if len(sms.calls) != before+1 {
			return res.Failf("alphabet/sms-calls", "send %d: SMS module called %d times", i, len(sms.calls)-before)
		}
		code := sms.calls[before].code
		if len(code) != c.CodeLen {
			return res.Failf("alphabet/code-length", "generated code %q has length %d, CodeLen is %d", code, len(code), c.CodeLen)
		}
		for j := 0; j < len(code); j++ {
			seen[code[j]]++
		}
		if len(sms.calls) > 1024 {
			sms.calls = sms.calls[:0]
		}
	}
	total := 0
	for b, n := range seen {
		if n > 0 && strings.IndexByte(digits, byte(b)) < 0 {
			return res.Failf("alphabet/outside", "a generated code contains a character that is not in the alphabet %q", digits)
		}
		total += n
	}
	for i := 0; i < len(digits); i++ {
		if seen[digits[i]] == 0 {
			return res.Failf("alphabet/char-never-generated", "character %q of the alphabet %q did not occur in %d generated characters (%d codes of length %d)",
				digits[i], digits, total, c.Sends, c.CodeLen)
		}
	}
	res.Class(fmt.Sprintf("codelen:%d", c.CodeLen))
	res.NonTrivial = true
	return res
}

var PartAlphabet = vkit.Part[AlphaCase]{
	Property: Property,
	Name:     "alphabet",
	Rule: "Generated: CodeLen 1..12, 1..3 phones, ceil(20000/CodeLen)+0..50 accepted sends in real-sender mode (MinInterval 0, window always new); the fake SMS module collects the codes. " +
		"Oracle: every code has length CodeLen, only characters of 0123456789, and each of the ten occurs among the >= 20000 characters (a uniform generator misses one with probability < 1e-900). " +
		"Non-trivial: every executed case (it always draws >= 20000 characters).",
	Quick:    24,
	Thorough: 40,
	Gen:      GenAlpha,
	Exec:     ExecAlpha,
}

// ---------------------------------------------------------------------------
// part 3: the random-string helper itself, any alphabet

type NonceCase struct {
	Alphabet string `json:"alphabet"` // distinct bytes
	Length   int    `json:"length"`
	Calls    int    `json:"calls"` // Length*Calls >= 20 000
	Sec      bool   `json:"sec"`   // SecGenNonceStr | GenNonceStr
}

const alphaPool = "0123456789abcdefghijklmnopqrstuvwxyzABCDEFGHIJKLMNOPQRSTUVWXYZ-_"

// bigPool: 250 distinct byte values (alphabets longer than 64 characters: index widths of 6 or 7 bits are not enough)
var bigPool = func() string {
	b := make([]byte, 0, 250)
	for v := 1; v <= 250; v++ {
		b = append(b, byte(v))
	}
	return string(b)
}()

func GenNonce(t *rapid.T) NonceCase {
	var c NonceCase
	switch rapid.IntRange(0, 7).Draw(t, "akind") {
	case 6: // more than 64 characters: sizes around the powers of two, the printable ASCII set, everything
		n := rapid.SampledFrom([]int{65, 70, 94, 127, 128, 129, 200, 250}).Draw(t, "big")
		o := rapid.IntRange(0, len(bigPool)-n).Draw(t, "bigoff")
		c.Alphabet = bigPool[o : o+n]
	case 7:
		perm := rapid.Permutation([]byte(bigPool)).Draw(t, "bigperm")
		c.Alphabet = string(perm[:rapid.IntRange(65, len(perm)).Draw(t, "bigalen")])
	case 0:
		c.Alphabet = digits
	case 1: // a one- or two-character alphabet
		n := rapid.IntRange(1, 2).Draw(t, "tiny")
		o := rapid.IntRange(0, len(alphaPool)-n).Draw(t, "off")
		c.Alphabet = alphaPool[o : o+n]
	case 2:
		c.Alphabet = alphaPool
	default:
		perm := rapid.Permutation([]byte(alphaPool)).Draw(t, "perm")
		c.Alphabet = string(perm[:rapid.IntRange(1, len(perm)).Draw(t, "alen")])
	}
	c.Length = rapid.SampledFrom([]int{1, 2, 6, 8, 32, 250, 20000}).Draw(t, "length")
	c.Calls = (minAlphabetSample + c.Length - 1) / c.Length
	c.Sec = rapid.Bool().Draw(t, "sec")
	return c
}

func ExecNonce(c NonceCase) (res *vkit.Result) {
	res = &vkit.Result{}
	var present [256]bool
	for i := 0; i < len(c.Alphabet); i++ {
		if present[c.Alphabet[i]] {
			res.Skip("alphabet with a repeated character")
			return res
		}
		present[c.Alphabet[i]] = true
	}
	if len(c.Alphabet) == 0 || len(c.Alphabet) > 256 || c.Length < 1 || c.Calls < 1 || c.Length*c.Calls < minAlphabetSample || c.Length*c.Calls > 50*minAlphabetSample {
		res.Skip("empty alphabet or sample smaller than 20000 characters")
		return res
	}
	fn, name := random.GenNonceStr, "GenNonceStr"
	if c.Sec {
		fn, name = random.SecGenNonceStr, "SecGenNonceStr"
	}
	defer func() {
		if r := recover(); r != nil {
			res = (&vkit.Result{Classes: res.Classes}).Failf("nonce/panic", "%s(%q, %d) panicked: %v", name, c.Alphabet, c.Length, r)
		}
	}()
	var seen [256]int
	for i := 0; i < c.Calls; i++ {
		s := fn(c.Alphabet, c.Length)
		if len(s) != c.Length {
			return res.Failf("nonce/length", "%s(%q, %d) returned %d characters", name, c.Alphabet, c.Length, len(s))
		}
		for j := 0; j < len(s); j++ {
			seen[s[j]]++
		}
	}
	for b, n := range seen {
		if n > 0 && !present[b] {
			return res.Failf("nonce/outside", "%s(%q, %d) produced a character that is not in the alphabet", name, c.Alphabet, c.Length)
		}
	}
	for i := 0; i < len(c.Alphabet); i++ {
		if seen[c.Alphabet[i]] == 0 {
			return res.Failf("nonce/char-never-generated", "%s: character %q (index %d of %d) of alphabet %q did not occur in %d generated characters (%d calls of length %d)",
				name, c.Alphabet[i], i, len(c.Alphabet), c.Alphabet, c.Length*c.Calls, c.Calls, c.Length)
		}
	}
	switch {
	case len(c.Alphabet) == 1:
		res.Class("alphabet:1")
	case len(c.Alphabet) == 2:
		res.Class("alphabet:2")
	case len(c.Alphabet) <= 16:
		res.Class("alphabet:3..16")
	case len(c.Alphabet) <= 64:
		res.Class("alphabet:17..64")
	default:
		res.Class("alphabet:65..250")
	}
	res.Class("fn:" + name)
	res.NonTrivial = true
	return res
}

var PartNonce = vkit.Part[NonceCase]{
	Property: Property,
	Name:     "nonce",
	Rule: "Generated: alphabets of 1..250 distinct byte values (the digits, one/two-character alphabets, a 64-character pool, random subsets in random order, 65/70/94/127/128/129/200/250 consecutive byte values, random subsets of 250), string lengths {1,2,6,8,32,250,20000}, " +
		"ceil(20000/length) calls of random.GenNonceStr or random.SecGenNonceStr. Oracle: each result has the requested length, only alphabet characters, and every alphabet character " +
		"occurs among the >= 20000 characters (miss probability of a uniform generator <= 250*e^-80). Non-trivial: every executed case.",
	Quick:    100,
	Thorough: 160,
	Gen:      GenNonce,
	Exec:     ExecNonce,
}
