package c14lanes

import (
	"math"

	"pgregory.net/rapid"

	"verifharness/vkit"
)

// part "long": one executor serves hundreds to thousands of calls (the other parts never give one executor more than
// about eighty). The case is a handful of numbers; the callers' programs are derived from them by fixed arithmetic,
// then run and judged exactly as a stress case.

type CaseLong struct {
	Kind    string `json:"kind"`
	Slots   int    `json:"slots"`
	QSize   int    `json:"qsize"`
	Procs   int    `json:"procs"`
	Callers int    `json:"callers"`
	Calls   int    `json:"calls"` // per caller
	// every ErrEvery-th call fails, every CancelEvery-th runs on a context cancelled concurrently (0: none); callees
	// yield 0..Spin times; HashMul spreads the hashes; Shapes: results of all shapes (else the plain int)
	ErrEvery    int  `json:"err_every"`
	CancelEvery int  `json:"cancel_every"`
	Spin        int  `json:"spin"`
	HashMul     int  `json:"hash_mul"`
	Shapes      bool `json:"shapes,omitempty"`
	// StopBefore: Stop comes when all but this many calls have been issued (0: after the last call)
	StopBefore int  `json:"stop_before"`
	NoWG       bool `json:"no_wg,omitempty"`
	// Twin: two executors of the kind, the callers alternate between them
	Twin bool `json:"twin,omitempty"`
}

var longKinds = []string{KLine, KMLine, KRunCall, KRunDeleg, KRunProc, KRunMix, KProcChan}

func GenLong(t *rapid.T) CaseLong {
	c := CaseLong{Kind: rapid.SampledFrom(longKinds).Draw(t, "kind")}
	c.Slots = rapid.SampledFrom([]int{1, 2, 3, 7}).Draw(t, "slots")
	c.QSize = rapid.SampledFrom([]int{0, 0, 8, 64, 2}).Draw(t, "qsize")
	c.Procs = rapid.SampledFrom([]int{1, 2, 4, 8}).Draw(t, "procs")
	c.Callers = rapid.IntRange(2, 6).Draw(t, "callers")
	total := rapid.SampledFrom([]int{300, 400, 600, 1000, 1500, 3000}).Draw(t, "total")
	c.Calls = total / c.Callers
	c.ErrEvery = rapid.SampledFrom([]int{0, 3, 5, 17}).Draw(t, "errevery")
	c.CancelEvery = rapid.SampledFrom([]int{0, 0, 7, 50}).Draw(t, "cancelevery")
	c.Spin = rapid.IntRange(1, 3).Draw(t, "spin")
	c.HashMul = rapid.SampledFrom([]int{1, 3, 7}).Draw(t, "hashmul")
	c.Shapes = rapid.Bool().Draw(t, "shapes")
	c.StopBefore = rapid.SampledFrom([]int{0, 0, 1, 5}).Draw(t, "stopbefore")
	c.NoWG = rapid.Bool().Draw(t, "nowg")
	c.Twin = rapid.IntRange(0, 2).Draw(t, "twin") == 0
	return c
}

func (c CaseLong) expand() CaseStress {
	s := CaseStress{Kind: c.Kind, Slots: c.Slots, QSize: c.QSize, Procs: c.Procs, StopAt: -1, NoWG: c.NoWG, Twin: c.Twin}
	hashes := []int{0, 1, c.Slots, -1, -c.Slots, math.MinInt, math.MaxInt, 5, 2, -2, 6}
	for g := 0; g < c.Callers; g++ {
		prog := make([]StressCall, 0, c.Calls)
		for i := 0; i < c.Calls; i++ {
			k := i*c.Callers + g
			sc := StressCall{Spin: k % (c.Spin + 1)}
			if c.Kind == KMLine {
				sc.Hash = hashes[(k*c.HashMul+g)%len(hashes)]
			}
			if c.ErrEvery > 0 && k%c.ErrEvery == c.ErrEvery-1 {
				sc.Err = true
				sc.CErr = (k / c.ErrEvery) % 3
			}
			if c.CancelEvery > 0 && k%c.CancelEvery == 1 {
				sc.Cancel = true
			}
			if c.Shapes {
				sc.Shape = k % (plainShapes * reflectShapes)
			}
			prog = append(prog, sc)
		}
		s.Callers = append(s.Callers, prog)
	}
	if c.StopBefore > 0 {
		s.StopAt = c.Callers*c.Calls - c.StopBefore
	}
	return s
}

func ExecLong(c CaseLong) *vkit.Result {
	if c.Callers < 1 || c.Callers > 16 || c.Calls < 1 || c.Calls > 20000 || c.Callers*c.Calls > 40000 ||
		c.ErrEvery < 0 || c.CancelEvery < 0 || c.Spin < 0 || c.Spin > 16 || c.HashMul < 0 || c.HashMul > 1000 || c.StopBefore < 0 {
		res := &vkit.Result{}
		res.Skip("malformed-config")
		return res
	}
	res := ExecStress(c.expand())
	if res.Fail == nil {
		res.Class("one-executor-" + map[bool]string{false: "300-to-999-calls", true: "1000-calls-or-more"}[c.Callers*c.Calls >= 1000])
		res.NonTrivial = res.NonTrivial && c.Callers*c.Calls >= 256
	}
	return res
}

var longRule = "rapid: one executor of each kind (in a third of the cases two at once) serves 300-3000 calls from 2-6 free-running callers (programs derived from the case's numbers: every n-th call fails - with an own error, context.Canceled or a wrapped Canceled -, every m-th runs on a context cancelled concurrently, yielding callees, results of all shapes, hashes spread over the lanes); Stop after the last call or a few calls earlier, with a call on the highest lane right after Stop returned. Oracles of the stress part: no overlap per lane, executed at most once, a caller's calls start in issue order per lane, own requests / results / errors only, nothing accepted after Stop, nobody parked and no lane goroutine alive at the end. Non-trivial: >= 256 calls, >= 2 callers, >= 2 successful calls; distinct = distinct case JSON"

var PartLong = &vkit.Part[CaseLong]{
	Property: Property, Name: "long",
	Rule:  longRule,
	Quick: 60, Thorough: 400,
	Gen: GenLong, Exec: ExecLong,
}

var PartLongRace = &vkit.Part[CaseLong]{
	Property: Property, Name: "race-long",
	Rule:  longRule + " (binary built with -race)",
	Quick: 16, Thorough: 100,
	Gen: GenLong, Exec: ExecLong,
}
