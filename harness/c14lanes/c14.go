// Package c14lanes decides property C14: the serial executors (line, hashed
// multi-line, reflective runner queue, proc channel) run every accepted call at
// most once, serially per lane, in acceptance order, route results to their own
// callers, map every integer hash to a lane in range, and honour Stop.
package c14lanes

import (
	"context"
	"errors"
	"fmt"
	"math"
	"runtime"
	"sync"
	"sync/atomic"
	"time"

	"github.com/pinealctx/neptune/syncx/pipe"
	pasync "github.com/pinealctx/neptune/syncx/pipe/async"
	"github.com/pinealctx/neptune/syncx/pipe/line"
	"github.com/pinealctx/neptune/syncx/pipe/mline"
	"github.com/pinealctx/neptune/ulog"
	"go.uber.org/zap/zapcore"
	"pgregory.net/rapid"

	"verifharness/vkit"
)

const Property = "C14"

func init() { ulog.SetLogLevel(zapcore.FatalLevel + 1) }

// ---------------------------------------------------------------------------
// part 1: the pure index function

type CaseIndex struct {
	Hash  int `json:"hash"`
	Slots int `json:"slots"`
}

func genHash(t *rapid.T, slots int) int {
	return rapid.OneOf(
		rapid.SampledFrom([]int{0, 1, -1, 2, -2, math.MinInt, math.MinInt + 1, math.MaxInt, math.MaxInt - 1, math.MinInt32, math.MaxInt32, slots, -slots, slots + 1, -slots - 1, slots - 1, 1 - slots, 2 * slots, -2 * slots, math.MinInt / 2, math.MinInt/2 - 1}),
		rapid.IntRange(-2000, 2000),
		rapid.Int(),
	).Draw(t, "hash")
}

func GenIndex(t *rapid.T) CaseIndex {
	slots := rapid.OneOf(rapid.SampledFrom([]int{1, 2, 3, 7, 509, 1024}), rapid.IntRange(1, 1024)).Draw(t, "slots")
	return CaseIndex{Hash: genHash(t, slots), Slots: slots}
}

func ExecIndex(c CaseIndex) *vkit.Result {
	res := &vkit.Result{}
	if c.Slots < 1 || c.Slots > 1<<20 {
		res.Skip("malformed-config")
		return res
	}
	a := pipe.NormalizeSlotIndex(c.Hash, c.Slots)
	if a < 0 || a >= c.Slots {
		return res.Failf("index-range", "NormalizeSlotIndex(%d, %d) = %d, outside [0,%d)", c.Hash, c.Slots, a, c.Slots)
	}
	if b := pipe.NormalizeSlotIndex(c.Hash, c.Slots); b != a {
		return res.Failf("index-stable", "NormalizeSlotIndex(%d, %d) = %d then %d", c.Hash, c.Slots, a, b)
	}
	ml := mline.NewMultiLine(pipe.WithSlotSize(c.Slots), pipe.WithQSize(1))
	if i := ml.IndexOf(c.Hash); i < 0 || i >= c.Slots {
		return res.Failf("index-range", "MultiLine(%d lanes).IndexOf(%d) = %d, outside [0,%d)", c.Slots, c.Hash, i, c.Slots)
	}
	if c.Hash < 0 {
		res.Class("negative-hash")
	}
	if c.Hash == math.MinInt {
		res.Class("min-int")
	}
	res.NonTrivial = c.Slots >= 2 && (c.Hash < 0 || c.Hash >= c.Slots)
	return res
}

// ---------------------------------------------------------------------------
// executors behind one face

const (
	KLine     = "line"
	KMLine    = "mline"
	KRunCall  = "runner-call"
	KRunDeleg = "runner-delegate"
	KRunProc  = "runner-proc"
	KProcChan = "procchan"
	// KRunMix: one runner queue used through all three entry points (the form of a call is its sequence number mod 3)
	KRunMix = "runner-mixed"
)

var kinds = []string{KLine, KMLine, KMLine, KRunCall, KRunDeleg, KRunProc, KRunMix, KProcChan}

type callee func(ctx context.Context, laneArg int) (int, error)

type executor struct {
	kind  string
	slots int
	// call issues one call (see callSpec) and returns what the caller was handed
	call   func(ctx context.Context, s *callSpec) (interface{}, error)
	stop   func()
	laneOf func(hash int) int
	// reflective: the call with this number goes through the reflective entry point (its result has the type the
	// function declares)
	reflective func(seq int) bool
	// waitStopped blocks until the executor reports that its lane goroutines are gone (WaitGroup / WaitStop)
	waitStopped func()
	// run starts the lane goroutines (Run); started says whether that has happened
	run     func()
	started bool
}

func (e *executor) start() {
	if !e.started {
		e.started = true
		e.run()
	}
}

type procFn func(ctx context.Context) (interface{}, error)

func (p procFn) Do(ctx context.Context) (interface{}, error) { return p(ctx) }

func isRefusal(kind string, err error) (closed, full bool) {
	switch kind {
	case KLine, KMLine:
		return errors.Is(err, pipe.ErrQueueClosed), errors.Is(err, pipe.ErrQueueFull)
	default:
		return errors.Is(err, pasync.ErrClosed), errors.Is(err, pasync.ErrFull)
	}
}

// exOpts: which of the optional constructor options are left out
type exOpts struct {
	NoWG   bool // runner queue, proc channel: built without WithWaitGroup
	NoName bool // line, runner queue, proc channel: built without WithName
}

func newExecutor(kind string, slots, qsize int, lateRun bool, o exOpts) *executor {
	e := &executor{kind: kind, slots: 1, laneOf: func(int) int { return 0 }, reflective: func(int) bool { return false }}
	switch kind {
	case KLine:
		wg := &sync.WaitGroup{}
		lopts := []line.Option{line.WithQSize(qsize)}
		if !o.NoName {
			lopts = append(lopts, line.WithName("verif"))
		}
		l := line.NewLine(wg, lopts...)
		e.run = l.Run
		var sharedL *line.CallCtx
		e.call = func(ctx context.Context, s *callSpec) (interface{}, error) {
			// every call carries a request of its own, which its callee checks
			body, param := s.plain(-1), paramOf(s.seq)
			cc := line.NewCallCtx(func(ctx context.Context, req interface{}) (interface{}, error) {
				if req != interface{}(param) {
					if s.misroute != nil {
						s.misroute(fmt.Sprintf("call %d was run with the request %v, its own is %d", s.seq, req, param))
					}
					_, err := body(ctx)
					return -2000000 - s.seq, err
				}
				return body(ctx)
			}, param)
			if s.reuse && sharedL != nil {
				// the caller fills the object of its earlier call again (its fields are public), with another function
				// and another request - what was accepted then must not change with it
				sharedL.Call, sharedL.Param = cc.Call, cc.Param
				cc = sharedL
			} else if s.reuse {
				sharedL = cc
			}
			return l.AsyncCall(ctx, cc)
		}
		e.stop = l.Stop
		e.waitStopped = wg.Wait
	case KMLine:
		ml := mline.NewMultiLine(pipe.WithSlotSize(slots), pipe.WithQSize(qsize))
		e.run = ml.Run
		e.slots = slots
		e.laneOf = ml.IndexOf
		var sharedM *mline.CallCtx
		e.call = func(ctx context.Context, s *callSpec) (interface{}, error) {
			param := paramOf(s.seq)
			cc := mline.NewCallCtx(s.hash, func(ctx context.Context, sIndex int, req interface{}) (interface{}, error) {
				body := s.plain(sIndex)
				if req != interface{}(param) {
					if s.misroute != nil {
						s.misroute(fmt.Sprintf("call %d was run with the request %v, its own is %d", s.seq, req, param))
					}
					_, err := body(ctx)
					return -2000000 - s.seq, err
				}
				return body(ctx)
			}, param)
			if s.reuse && sharedM != nil {
				*sharedM = *cc
				cc = sharedM
			} else if s.reuse {
				sharedM = cc
			}
			return ml.AsyncCall(ctx, cc)
		}
		e.stop = ml.Stop
		e.waitStopped = func() { _ = ml.WaitStop(context.Background()) }
	case KRunCall, KRunDeleg, KRunProc, KRunMix:
		rwg := &sync.WaitGroup{}
		ropts := []pasync.Option{pasync.WithQSize(qsize)}
		if !o.NoName {
			ropts = append(ropts, pasync.WithName("verif"))
		}
		if !o.NoWG {
			ropts = append(ropts, pasync.WithWaitGroup(rwg))
		}
		r := pasync.NewRunnerQ(ropts...)
		e.run = r.Run
		e.waitStopped = func() { r.WaitStop(); rwg.Wait() }
		formOf := func(seq int) int {
			if kind == KRunMix {
				return seq % 3
			}
			return map[string]int{KRunCall: 0, KRunDeleg: 1, KRunProc: 2}[kind]
		}
		e.reflective = func(seq int) bool { return formOf(seq) == 0 }
		e.call = func(ctx context.Context, s *callSpec) (interface{}, error) {
			switch formOf(s.seq) {
			case 0:
				// the reflective call carries an argument: the callee must be handed exactly the one of its own call
				fn, arg := s.reflectCall()
				v, err := r.AsyncCall(fn, ctx, arg)
				return v, unwrapMyErr(err)
			case 1:
				return r.AsyncDelegate(ctx, s.plain(-1))
			}
			return r.AsyncProc(ctx, procFn(s.plain(-1)))
		}
		e.stop = r.Stop
	case KProcChan:
		pwg := &sync.WaitGroup{}
		popts := []pasync.Option{pasync.WithQSize(qsize)}
		if !o.NoName {
			popts = append(popts, pasync.WithName("verif"))
		}
		if !o.NoWG {
			popts = append(popts, pasync.WithWaitGroup(pwg))
		}
		p := pasync.NewProcChan(popts...)
		e.run = p.Run
		e.waitStopped = func() { p.WaitStop(); pwg.Wait() }
		e.call = func(ctx context.Context, s *callSpec) (interface{}, error) {
			return p.AsyncProc(ctx, procFn(s.plain(-1)))
		}
		e.stop = p.Stop
	default:
		return nil
	}
	if !lateRun {
		e.start()
	}
	return e
}

// event log written by the callees
type event struct {
	call  int
	start bool
	lane  int // lane argument handed to the callee (-1 where the API passes none)
	// bad: the callee side was handed a request / argument that is not the one of its call (no start / end event)
	bad string
}

type evlog struct {
	mu sync.Mutex
	ev []event
}

func (l *evlog) add(e event) {
	l.mu.Lock()
	l.ev = append(l.ev, e)
	l.mu.Unlock()
}

func (l *evlog) snapshot() []event {
	l.mu.Lock()
	defer l.mu.Unlock()
	return append([]event(nil), l.ev...)
}

func value(call int) int { return call*7 + 1 }

// ---------------------------------------------------------------------------
// part 2: controlled schedules (gate technique)

type Step struct {
	Op        string `json:"op"` // call | open | cancel | stop
	Hash      int    `json:"hash,omitempty"`
	Behave    string `json:"behave,omitempty"` // ok | err | gate | ctx | dlerr | cerr | wcerr
	PreCancel bool   `json:"pre_cancel,omitempty"`
	// LateDone (with PreCancel): the context is over (Err() says so) but its Done() method only returns - a closed
	// channel, as it must - once the harness has let the lane have its turn: the caller is held in front of its
	// wait while the executor already deals with the call
	LateDone bool `json:"late_done,omitempty"`
	// Deadline (with PreCancel): the context is over because its deadline passed (Err() is DeadlineExceeded)
	Deadline bool `json:"deadline,omitempty"`
	Target   int  `json:"target,omitempty"` // open / cancel: index of the call (in issue order)
	// Shape (call): what the call returns on success - its own number-derived value, a zero value, nil - and, for
	// the reflective call, the function type (string / pointer / interface arguments and results, a concrete error
	// type as second result, bool): see callSpec.wantResult
	Shape int `json:"shape,omitempty"`
	// Probe (stop): the goroutine that called Stop issues a call on the highest lane as soon as Stop has returned
	Probe bool `json:"probe,omitempty"`
}

// lateDoneCtx is an ended context whose Done() takes its time: whoever asks for the channel is held - the lane (any
// goroutine but the caller's) until releaseLane is closed, the caller until releaseCaller is closed. The harness lets
// the lane go first and the caller only when the lane has come to rest, so the executor has dealt with the call
// (skipped or run it) before its caller starts to wait.
type lateDoneCtx struct {
	context.Context
	callerGID     *atomic.Int64
	releaseLane   chan struct{}
	releaseCaller chan struct{}
}

func (c lateDoneCtx) Done() <-chan struct{} {
	if goid() == c.callerGID.Load() {
		<-c.releaseCaller
	} else {
		<-c.releaseLane
	}
	return c.Context.Done()
}

// goid is the id of the calling goroutine.
func goid() int64 {
	var b [64]byte
	n := runtime.Stack(b[:], false)
	var id int64
	for _, ch := range b[len("goroutine "):n] {
		if ch < '0' || ch > '9' {
			break
		}
		id = id*10 + int64(ch-'0')
	}
	return id
}

type CaseCtl struct {
	Kind  string `json:"kind"`
	Slots int    `json:"slots"`
	QSize int    `json:"qsize"`
	Steps []Step `json:"steps"`
	// LateRun: the executor's Run is not called when it is built but by a "run" step (or, if there is none, at the
	// start of the epilogue): calls are accepted - and Stop may be called - before the lanes run
	LateRun bool `json:"late_run,omitempty"`
	// ReuseCtx (line, mline): a caller whose earlier call has returned to it (e.g. through its context) fills the same
	// CallCtx object again for its next call
	ReuseCtx bool `json:"reuse_ctx,omitempty"`
	// NoWG (runner queue, proc channel) / NoName (line, runner queue, proc channel): the executor is built without
	// WithWaitGroup / WithName
	NoWG   bool `json:"no_wg,omitempty"`
	NoName bool `json:"no_name,omitempty"`
}

func GenCtl(t *rapid.T) CaseCtl {
	c := CaseCtl{Kind: rapid.SampledFrom(kinds).Draw(t, "kind")}
	c.Slots = rapid.SampledFrom([]int{1, 2, 3, 7}).Draw(t, "slots")
	if c.Kind == KMLine && rapid.IntRange(0, 19).Draw(t, "manylanes") == 0 {
		c.Slots = rapid.SampledFrom([]int{257, 300, 509}).Draw(t, "slotsmany") // 509 is the default lane count
	}
	c.QSize = rapid.SampledFrom([]int{0, 0, 1, 2, 8}).Draw(t, "qsize")
	c.ReuseCtx = (c.Kind == KLine || c.Kind == KMLine) && rapid.IntRange(0, 3).Draw(t, "reusectx") == 0
	c.NoWG = rapid.IntRange(0, 2).Draw(t, "nowg") == 0
	c.NoName = rapid.IntRange(0, 3).Draw(t, "noname") == 0
	hashes := []int{0, 1, c.Slots, -1, -c.Slots, math.MinInt, math.MaxInt, 5, c.Slots - 1, 256, 299, -300}
	ncalls := 0
	var gates, live []int
	stopped := false
	n := rapid.IntRange(3, 16).Draw(t, "n")
	for i := 0; i < n; i++ {
		var opts []string
		for j := 0; j < 6; j++ {
			opts = append(opts, "call")
		}
		if len(gates) > 0 {
			opts = append(opts, "open", "open")
		}
		if len(live) > 0 {
			opts = append(opts, "cancel", "cancel")
		}
		if !stopped {
			opts = append(opts, "stop")
		}
		switch rapid.SampledFrom(opts).Draw(t, "op") {
		case "call":
			st := Step{Op: "call", Hash: rapid.SampledFrom(hashes).Draw(t, "hash")}
			if c.Kind != KMLine {
				st.Hash = 0
			}
			// the first call is a gate more often than not: it occupies the lane so that later calls queue up
			w := []string{"ok", "ok", "ok", "err", "gate", "gate", "ctx", "ctx", "dlerr", "cerr", "wcerr"}
			if ncalls == 0 {
				w = []string{"gate", "gate", "gate", "ok", "ctx"}
			}
			st.Behave = rapid.SampledFrom(w).Draw(t, "behave")
			st.PreCancel = rapid.IntRange(0, 9).Draw(t, "pre") == 0
			st.LateDone = st.PreCancel && rapid.Bool().Draw(t, "latedone")
			st.Deadline = st.PreCancel && rapid.Bool().Draw(t, "deadline")
			if rapid.Bool().Draw(t, "shaped") {
				st.Shape = rapid.IntRange(0, plainShapes*reflectShapes-1).Draw(t, "shape")
			}
			if st.Behave == "gate" {
				gates = append(gates, ncalls)
			}
			if !st.PreCancel {
				live = append(live, ncalls)
			}
			ncalls++
			c.Steps = append(c.Steps, st)
		case "open":
			k := rapid.IntRange(0, len(gates)-1).Draw(t, "gate")
			c.Steps = append(c.Steps, Step{Op: "open", Target: gates[k]})
			gates = append(gates[:k:k], gates[k+1:]...)
		case "cancel":
			k := rapid.IntRange(0, len(live)-1).Draw(t, "live")
			c.Steps = append(c.Steps, Step{Op: "cancel", Target: live[k]})
			live = append(live[:k:k], live[k+1:]...)
		default:
			stopped = true
			c.Steps = append(c.Steps, Step{Op: "stop", Probe: rapid.Bool().Draw(t, "probe")})
		}
	}
	if rapid.IntRange(0, 5).Draw(t, "laterun") == 0 {
		c.LateRun = true
		if rapid.Bool().Draw(t, "runstep") {
			at := rapid.IntRange(0, len(c.Steps)).Draw(t, "runat")
			c.Steps = append(c.Steps[:at:at], append([]Step{{Op: "run"}}, c.Steps[at:]...)...)
		}
	}
	// Run called once more, anywhere (also while calls are executing or queued)
	if rapid.IntRange(0, 5).Draw(t, "runagain") == 0 {
		at := rapid.IntRange(0, len(c.Steps)).Draw(t, "runagainat")
		c.Steps = append(c.Steps[:at:at], append([]Step{{Op: "run"}}, c.Steps[at:]...)...)
	}
	return c
}

type callRun struct {
	hash                 int
	behave               string
	ctx                  context.Context
	cancel               context.CancelFunc
	cancelled            bool // by the controller (known, not observed)
	gate                 chan struct{}
	opened               bool
	ownErr               error
	calleeErr            error // the error its callee returns (nil: none)
	spec                 *callSpec
	op                   *vkit.Op
	res                  interface{}
	err                  error
	lane                 int
	afterStop            bool
	cancelledBeforeIssue bool
}

// judge evaluates every oracle at a quiescent point.
func judge(res *vkit.Result, c CaseCtl, ex *executor, calls []*callRun, log *evlog, stopped bool, final bool, what string) bool {
	evs := log.snapshot()
	starts := map[int]int{}
	ended := map[int]bool{}
	running := map[int]int{} // lane -> call currently between start and end
	startOrder := map[int][]int{}
	for _, e := range evs {
		if e.call < 0 || e.call >= len(calls) {
			res.Failf("unknown-call", "%s: the executor ran a call nobody issued", what)
			return false
		}
		cl := calls[e.call]
		if e.bad != "" {
			res.Failf("request-routing", "%s: %s", what, e.bad)
			return false
		}
		if e.start {
			starts[e.call]++
			if starts[e.call] > 1 {
				res.Failf("executed-twice", "%s: call %d was executed %d times", what, e.call, starts[e.call])
				return false
			}
			if other, busy := running[cl.lane]; busy {
				res.Failf("overlap", "%s: call %d started on lane %d while call %d was still running there", what, e.call, cl.lane, other)
				return false
			}
			running[cl.lane] = e.call
			startOrder[cl.lane] = append(startOrder[cl.lane], e.call)
			if c.Kind == KMLine && (e.lane != cl.lane || e.lane < 0 || e.lane >= c.Slots) {
				res.Failf("lane-index", "%s: call %d with hash %d got lane index %d, IndexOf says %d (lanes %d)", what, e.call, cl.hash, e.lane, cl.lane, c.Slots)
				return false
			}
		} else {
			if running[cl.lane] != e.call {
				res.Failf("overlap", "%s: call %d ended on lane %d while the log has call %d running there", what, e.call, cl.lane, running[cl.lane])
				return false
			}
			delete(running, cl.lane)
			ended[e.call] = true
		}
	}
	// acceptance is read off the caller's return value: a queue error means refused
	accepted := func(i int) (acc bool, known bool) {
		cl := calls[i]
		if !cl.op.Done() {
			return true, true // parked in the result wait: its request is in the queue
		}
		if cl.err != nil {
			if closed, full := isRefusal(c.Kind, cl.err); closed || full {
				// the proc channel answers "closed" to callers whose call was accepted (and
				// may even be running) when Stop arrives: there a started call was accepted
				if c.Kind == KProcChan && closed && starts[i] > 0 {
					return true, true
				}
				return false, true
			}
		}
		return true, true
	}
	// per-lane acceptance order and progress
	laneCalls := map[int][]int{}
	for i, cl := range calls {
		if acc, _ := accepted(i); acc {
			laneCalls[cl.lane] = append(laneCalls[cl.lane], i)
		} else if starts[i] > 0 && c.Kind != KProcChan {
			res.Failf("refused-but-executed", "%s: call %d was refused (%v) but executed", what, i, cl.err)
			return false
		}
	}
	for ln, order := range startOrder {
		// started calls must appear in acceptance order
		pos := 0
		acc := laneCalls[ln]
		for _, s := range order {
			for pos < len(acc) && acc[pos] != s {
				pos++
			}
			if pos == len(acc) {
				res.Failf("order", "%s: lane %d started calls in order %v, accepted order was %v", what, ln, order, acc)
				return false
			}
			pos++
		}
	}
	for ln, acc := range laneCalls {
		if _, busy := running[ln]; busy {
			continue // something is (legitimately) blocked inside the callee: later calls wait
		}
		if !ex.started {
			continue // nobody has called Run yet: accepted calls wait in the queue
		}
		for _, i := range acc {
			cl := calls[i]
			if starts[i] > 0 {
				continue
			}
			// "executed at most once": an executor may skip a call whose caller's context ended before it ran
			// (the runner does; a line or multi-line that did would be within the statement too)
			skippable := cl.cancelled
			switch c.Kind {
			case KProcChan:
				skippable = cl.cancelled || stopped // the proc channel drops its backlog at Stop
			}
			if !skippable {
				res.Failf("not-executed", "%s: lane %d is idle but accepted call %d (hash %d) has not been executed", what, ln, i, cl.hash)
				return false
			}
		}
	}
	// callers
	for i, cl := range calls {
		if p := cl.op.Panic(); p != nil {
			res.Failf("panic", "%s: call %d panicked: %v", what, i, p)
			return false
		}
		if !cl.op.Done() {
			if ended[i] {
				res.Failf("result-lost", "%s: call %d has been executed to the end but its caller is still waiting (forever)", what, i)
				return false
			}
			if cl.cancelled {
				res.Failf("cancel-ignored", "%s: the context of call %d is cancelled but its caller is still waiting (forever)", what, i)
				return false
			}
			if c.Kind == KProcChan && stopped {
				res.Failf("stop-ignored", "%s: the proc channel is stopped but the caller of call %d is still waiting (forever)", what, i)
				return false
			}
			continue
		}
		closed, full := false, false
		if cl.err != nil {
			closed, full = isRefusal(c.Kind, cl.err)
		}
		reflective := ex.reflective(i)
		if cl.err != nil && cl.res != nil && cl.res != cl.spec.errResult(reflective) {
			// next to an error a caller gets nil (or what its own callee returned with the error: the zero value of the
			// declared result type of a reflective call) - never a value another call produced
			res.Failf("result-routing", "%s: call %d (%s) returned (%v, %v): the value next to its error is not its own", what, i, cl.behave, cl.res, cl.err)
			return false
		}
		switch {
		case cl.err == nil:
			if want := cl.spec.wantResult(reflective); cl.res != want || cl.calleeErr != nil || cl.behave == "ctx" {
				res.Failf("result-routing", "%s: call %d (%s, shape %d) returned (%#v, nil), want its own result %#v", what, i, cl.behave, cl.spec.shape, cl.res, want)
				return false
			}
			if !ended[i] {
				res.Failf("result-routing", "%s: call %d returned a result although it has not finished executing", what, i)
				return false
			}
		case closed:
			if !cl.afterStop && !(c.Kind == KProcChan && stopped) {
				res.Failf("spurious-closed", "%s: call %d was refused as closed although Stop had not been called when it was issued", what, i)
				return false
			}
		case full:
			if c.QSize == 0 && c.Kind != KProcChan {
				res.Failf("spurious-full", "%s: call %d was refused as full on an unbounded queue", what, i)
				return false
			}
		case cl.calleeErr != nil && cl.err == cl.calleeErr && ended[i]:
			// the callee's own error handed through - also a context error of an inner operation (DeadlineExceeded,
			// Canceled, a wrapped Canceled) while the caller's context may be alive
		case errors.Is(cl.err, context.Canceled) || errors.Is(cl.err, context.DeadlineExceeded):
			if !cl.cancelled {
				res.Failf("result-routing", "%s: call %d (%s) returned the context error %v but its context was never cancelled", what, i, cl.behave, cl.err)
				return false
			}
			// "its own context's error": exactly what its context reports
			if own := cl.ctx.Err(); own != nil && cl.err != own {
				res.Failf("result-routing", "%s: call %d returned the context error %v, its own context reports %v", what, i, cl.err, own)
				return false
			}
		case cl.err == cl.ownErr:
			res.Failf("result-routing", "%s: call %d (%s) returned the error of an 'err' call", what, i, cl.behave)
			return false
		default:
			res.Failf("result-routing", "%s: call %d returned a foreign error: %v", what, i, cl.err)
			return false
		}
		// after Stop has returned no new call is accepted
		if cl.afterStop {
			isCtxErr := cl.err != nil && (errors.Is(cl.err, context.Canceled) || errors.Is(cl.err, context.DeadlineExceeded)) && cl.cancelledBeforeIssue
			if !closed && !(c.Kind == KProcChan && isCtxErr) {
				res.Failf("accepted-after-stop", "%s: call %d was issued after Stop returned but was not refused as closed (got %v, %v)", what, i, cl.res, cl.err)
				return false
			}
			if starts[i] > 0 {
				res.Failf("accepted-after-stop", "%s: call %d was issued after Stop returned and was executed", what, i)
				return false
			}
		}
	}
	return true
}

func ExecCtl(c CaseCtl) *vkit.Result {
	res := &vkit.Result{}
	if c.Slots < 1 || c.Slots > 1024 || c.QSize < 0 || c.QSize > 1024 {
		res.Skip("malformed-config")
		return res
	}
	// the baseline is taken first, so the lane goroutines belong to the tracked set:
	// a quiescent cut covers them too, and their termination shows in the final cut
	sched := vkit.NewSched()
	ex := newExecutor(c.Kind, c.Slots, c.QSize, c.LateRun, exOpts{NoWG: c.NoWG, NoName: c.NoName})
	if ex == nil {
		res.Skip("malformed-config")
		return res
	}
	if c.NoWG && c.Kind != KLine && c.Kind != KMLine {
		res.Class("built-without-wait-group")
	}
	if c.Kind == KMLine && c.Slots > 64 {
		res.Class("more-than-64-lanes")
	}
	log := &evlog{}
	var calls []*callRun
	// stopNow calls Stop on a goroutine of the schedule; with probe that goroutine issues a call on the highest lane
	// as soon as Stop has returned: it must be refused as closed and never run
	stopNow := func(what string, probe bool) bool {
		var (
			stopReturned, probeRan atomic.Bool
			pRes                   interface{}
			pErr                   error
		)
		op := sched.Go("stop", func() {
			ex.stop()
			stopReturned.Store(true)
			if probe {
				seq := 1000000 + len(calls)
				spec := newSpec(seq, ex.slots-1, 0, false, func(context.Context, int) (int, error) {
					probeRan.Store(true)
					return value(seq), nil
				}, nil)
				pRes, pErr = ex.call(context.Background(), spec)
			}
		})
		sched.MustQuiesce()
		if !stopReturned.Load() {
			res.Failf("stop-blocked", "%s: Stop itself is parked forever", what)
			return false
		}
		if !probe {
			return true
		}
		res.Class("call-right-after-stop-returned")
		if probeRan.Load() {
			res.Failf("accepted-after-stop", "%s: a call issued (on the highest lane) right after Stop had returned was executed", what)
			return false
		}
		if !op.Done() {
			res.Failf("accepted-after-stop", "%s: a call issued (on the highest lane) right after Stop had returned was not refused: its caller waits forever", what)
			return false
		}
		if closed, _ := isRefusal(c.Kind, pErr); !closed {
			res.Failf("accepted-after-stop", "%s: a call issued (on the highest lane) right after Stop had returned was not refused as closed (got %v, %v)", what, pRes, pErr)
			return false
		}
		return true
	}
	var lastUser *callRun // ReuseCtx: the call that used the shared CallCtx object last
	stopped := false
	queuedBehindGate := 0
	defer func() {
		for _, cl := range calls {
			cl.cancel()
			if !cl.opened {
				cl.opened = true
				close(cl.gate)
			}
		}
		ex.stop()
	}()
	for si, st := range c.Steps {
		what := fmt.Sprintf("step %d %+v on %s", si, st, c.Kind)
		switch st.Op {
		case "call":
			i := len(calls)
			hash := st.Hash
			if c.Kind != KMLine {
				hash = 0
			}
			cl := &callRun{hash: hash, behave: st.Behave, gate: make(chan struct{}), ownErr: fmt.Errorf("own error of call %d", i), afterStop: stopped}
			cl.lane = ex.laneOf(hash)
			if cl.lane < 0 || cl.lane >= ex.slots {
				return res.Failf("index-range", "%s: IndexOf(%d) = %d, outside [0,%d)", what, hash, cl.lane, ex.slots)
			}
			cl.ctx, cl.cancel = context.WithCancel(context.Background())
			var late *lateDoneCtx
			if st.PreCancel {
				if st.Deadline {
					cl.cancel()
					cl.ctx, cl.cancel = context.WithDeadline(context.Background(), time.Unix(1, 0)) // long past: no timer
					res.Class("expired-deadline-before-enqueue")
				} else {
					cl.cancel()
					res.Class("cancelled-before-enqueue")
				}
				cl.cancelled, cl.cancelledBeforeIssue = true, true
				if st.LateDone {
					late = &lateDoneCtx{cl.ctx, &atomic.Int64{}, make(chan struct{}), make(chan struct{})}
					cl.ctx = *late
					res.Class("cancelled-before-enqueue-done-fires-late")
					if st.Deadline {
						res.Class("expired-deadline-done-fires-late")
					}
				}
			}
			// classes (on what the controller knows)
			for _, o := range calls {
				if o.lane == cl.lane && o.behave == "gate" && !o.opened && !o.afterStop {
					queuedBehindGate++
					break
				}
			}
			if hash < 0 {
				res.Class("negative-hash")
			}
			if hash == math.MinInt {
				res.Class("min-int-hash")
			}
			calls = append(calls, cl)
			fn := func(ctx context.Context, laneArg int) (int, error) {
				log.add(event{call: i, start: true, lane: laneArg})
				defer log.add(event{call: i})
				switch cl.behave {
				case "err":
					return 0, cl.ownErr
				case "gate":
					<-cl.gate
				case "ctx":
					<-ctx.Done()
					return 0, ctx.Err()
				case "dlerr", "cerr", "wcerr":
					// the callee fails with a context error of its own (an inner operation timed out or was cancelled)
					// while the caller's context may be alive: the caller must get exactly this error
					return 0, cl.calleeErr
				}
				return value(i), nil
			}
			switch cl.behave {
			case "err":
				cl.calleeErr = cl.ownErr
			case "dlerr":
				cl.calleeErr = context.DeadlineExceeded
			case "cerr":
				cl.calleeErr = context.Canceled
				res.Class("callee-fails-with-context-canceled")
			case "wcerr":
				cl.calleeErr = fmt.Errorf("inner operation of call %d: %w", i, context.Canceled)
				res.Class("callee-fails-with-wrapped-canceled")
			}
			reuse := false
			if c.ReuseCtx {
				// the shared CallCtx object may be filled again once the caller that used it last has returned
				reuse = lastUser == nil || lastUser.op.Done()
				if reuse {
					if lastUser != nil {
						res.Class("call-context-object-reused")
					}
					lastUser = cl
				}
			}
			cl.spec = newSpec(i, hash, st.Shape, reuse, fn, func(msg string) { log.add(event{call: i, bad: msg}) })
			if cl.behave != "ctx" && cl.calleeErr == nil {
				switch w := cl.spec.wantResult(ex.reflective(i)); {
				case w == nil:
					res.Class("own-result-is-nil")
				case w == interface{}(0) || w == interface{}("") || w == interface{}(false) || w == interface{}((*respT)(nil)):
					res.Class("own-result-is-a-zero-value")
				case w != interface{}(value(i)):
					res.Class("own-result-is-a-string-or-pointer")
				}
				if ex.reflective(i) && st.Shape%reflectShapes == 8 {
					res.Class("reflective-function-with-concrete-error-type")
				}
			}
			cl.op = sched.Go(fmt.Sprintf("caller-%d", i), func() {
				if late != nil {
					late.callerGID.Store(goid())
				}
				cl.res, cl.err = ex.call(cl.ctx, cl.spec)
			})
			if late != nil {
				// the caller is held in front of its wait; the lane has its turn first (if the call is queued behind
				// another one it comes to it later and is not held then)
				sched.MustQuiesce()
				close(late.releaseLane)
				sched.MustQuiesce()
				close(late.releaseCaller)
			}
		case "run":
			if ex.started {
				// a second Run must not put a second consumer on a lane
				res.Class("second-run")
				ex.run()
				break
			}
			if stopped {
				res.Class("run-after-stop")
			}
			ex.start()
		case "open":
			if st.Target < 0 || st.Target >= len(calls) || calls[st.Target].opened {
				res.Skip("open-of-nothing")
				continue
			}
			calls[st.Target].opened = true
			close(calls[st.Target].gate)
		case "cancel":
			if st.Target < 0 || st.Target >= len(calls) || calls[st.Target].cancelled {
				res.Skip("cancel-of-nothing")
				continue
			}
			cl := calls[st.Target]
			switch {
			case cl.op.Done():
				res.Class("cancel-after-completion")
			default:
				res.Class("cancel-while-pending")
				res.NonTrivial = true
			}
			cl.cancelled = true
			cl.cancel()
		case "stop":
			if stopped {
				res.Skip("second-stop")
				continue
			}
			pending := 0
			for _, cl := range calls {
				if !cl.op.Done() {
					pending++
				}
			}
			if pending > 0 {
				res.Class("stop-with-calls-pending")
				res.NonTrivial = true
			}
			if !stopNow(what, st.Probe) {
				return res
			}
			stopped = true
		default:
			res.Skip("unknown-op")
			continue
		}
		sched.MustQuiesce()
		if !judge(res, c, ex, calls, log, stopped, false, what) {
			return res
		}
	}
	if queuedBehindGate >= 2 {
		res.Class("two-or-more-queued-behind-a-gate")
		res.NonTrivial = true
	}
	// epilogue: open every gate, then Stop; everything accepted must run (line, mline, runner)
	if !ex.started {
		if stopped {
			res.Class("run-after-stop")
		}
		res.Class("run-in-the-epilogue")
		ex.start()
		sched.MustQuiesce()
	}
	for _, cl := range calls {
		if !cl.opened {
			cl.opened = true
			close(cl.gate)
		}
	}
	sched.MustQuiesce()
	if !judge(res, c, ex, calls, log, stopped, false, "epilogue: all gates open") {
		return res
	}
	if !stopped {
		if !stopNow("epilogue: Stop", true) {
			return res
		}
		stopped = true
		if !judge(res, c, ex, calls, log, stopped, false, "epilogue: after Stop") {
			return res
		}
	}
	// calls that only wait for their context: cancel them so that the lanes can drain
	for _, cl := range calls {
		if !cl.cancelled && cl.behave == "ctx" {
			cl.cancelled = true
			cl.cancel()
		}
	}
	parked := sched.MustQuiesce()
	if !judge(res, c, ex, calls, log, stopped, true, "epilogue: drained") {
		return res
	}
	for i, cl := range calls {
		if !cl.op.Done() {
			return res.Failf("caller-stuck", "epilogue: after Stop, open gates and cancelled waits the caller of call %d is still parked", i)
		}
	}
	if len(parked) > 0 {
		return res.Failf("goroutine-left", "epilogue: goroutines of the case are still parked after Stop and drain: %+v", parked)
	}
	// the executor's own notion of "stopped" (wait group / WaitStop) must agree: the waiter returns
	if ex.waitStopped != nil {
		w := sched.Go("wait-stopped", ex.waitStopped)
		sched.MustQuiesce()
		if !w.Done() {
			return res.Failf("wait-stop-never-returns", "epilogue: every lane goroutine is gone, but waiting for the executor to stop (wait group / WaitStop) blocks forever")
		}
	}
	// the lane goroutines themselves (started before the baseline): none may survive
	if n := laneGoroutines(); n > 0 {
		// give exiting goroutines a moment: they are runnable, not parked
		for spin := 0; spin < 2000 && n > 0; spin++ {
			runtime.Gosched()
			n = laneGoroutines()
		}
		if n > 0 {
			return res.Failf("lane-not-terminated", "epilogue: %d lane goroutines (popLoop) are still alive after Stop and drain", n)
		}
	}
	return res
}

// laneGoroutines counts goroutines currently inside one of the executors' pop
// loops (the lane goroutines).
func laneGoroutines() int {
	buf := make([]byte, 1<<18)
	for {
		n := runtime.Stack(buf, true)
		if n < len(buf) {
			buf = buf[:n]
			break
		}
		buf = make([]byte, 2*len(buf))
	}
	cnt := 0
	for _, blk := range splitBlocks(string(buf)) {
		if containsAny(blk, "line.(*Line).popLoop", "mline.(*MultiLine).popLoop", "async.(*RunnerQ).popLoop", "async.(*ProcChan).popLoop", "mline.(*MultiLine).signalDone",
			// created but not yet run: only the compiler's go-statement wrapper is on the stack
			"line.(*Line).Run.func", "mline.(*MultiLine).Run.gowrap", "mline.(*MultiLine).stop.gowrap", "async.(*RunnerQ).Run.func", "async.(*ProcChan).Run.func") {
			cnt++
		}
	}
	return cnt
}

func splitBlocks(s string) []string {
	var out []string
	for len(s) > 0 {
		i := indexOf(s, "\n\n")
		if i < 0 {
			out = append(out, s)
			break
		}
		out = append(out, s[:i])
		s = s[i+2:]
	}
	return out
}

func indexOf(s, sub string) int {
	for i := 0; i+len(sub) <= len(s); i++ {
		if s[i:i+len(sub)] == sub {
			return i
		}
	}
	return -1
}

func containsAny(s string, subs ...string) bool {
	for _, sub := range subs {
		if indexOf(s, sub) >= 0 {
			return true
		}
	}
	return false
}

// ---------------------------------------------------------------------------
// part 3: stress - free-running callers

type StressCall struct {
	Hash   int  `json:"hash"`
	Err    bool `json:"err,omitempty"`
	Spin   int  `json:"spin"`
	Cancel bool `json:"cancel,omitempty"` // on a context the canceller cancels concurrently
	// CErr (with Err): 1 the callee fails with context.Canceled itself, 2 with a wrapped context.Canceled (0: an error of its own)
	CErr int `json:"cerr,omitempty"`
	// Shape: see Step.Shape
	Shape int `json:"shape,omitempty"`
}

type CaseStress struct {
	Kind    string         `json:"kind"`
	Slots   int            `json:"slots"`
	QSize   int            `json:"qsize"`
	Procs   int            `json:"procs"`
	Callers [][]StressCall `json:"callers"`
	StopAt  int            `json:"stop_at"` // Stop after this many calls have been issued overall (-1: only at the end)
	// Twin: two executors of the kind work at the same time, the callers alternate between them (state that a package
	// shares between its executors is then contended)
	Twin bool `json:"twin,omitempty"`
	// see CaseCtl
	NoWG   bool `json:"no_wg,omitempty"`
	NoName bool `json:"no_name,omitempty"`
}

func GenStress(t *rapid.T) CaseStress {
	c := CaseStress{Kind: rapid.SampledFrom(kinds).Draw(t, "kind")}
	c.Slots = rapid.SampledFrom([]int{1, 2, 3, 7}).Draw(t, "slots")
	c.QSize = rapid.SampledFrom([]int{0, 1, 2, 8}).Draw(t, "qsize")
	c.Procs = rapid.SampledFrom([]int{1, 2, 4, 8}).Draw(t, "procs")
	hashes := []int{0, 1, c.Slots, -1, -c.Slots, math.MinInt, math.MaxInt, 5}
	if c.Kind == KMLine && rapid.IntRange(0, 5).Draw(t, "manylanes") == 0 {
		// many lanes (509 is the default), calls mostly on the high ones
		c.Slots = rapid.SampledFrom([]int{65, 100, 257, 300, 509}).Draw(t, "slotsmany")
		hashes = []int{c.Slots - 1, 1 - c.Slots, c.Slots - 2, 64, 65, -64, c.Slots / 2, 2*c.Slots - 1, 0, math.MinInt, math.MaxInt}
	}
	c.NoWG = rapid.IntRange(0, 2).Draw(t, "nowg") == 0
	c.NoName = rapid.IntRange(0, 3).Draw(t, "noname") == 0
	total := 0
	for g, ng := 0, rapid.IntRange(2, 8).Draw(t, "callers"); g < ng; g++ {
		var prog []StressCall
		for i, n := 0, rapid.IntRange(1, 10).Draw(t, "n"); i < n; i++ {
			sc := StressCall{Hash: rapid.SampledFrom(hashes).Draw(t, "hash"), Err: rapid.IntRange(0, 4).Draw(t, "err") == 0,
				Spin: rapid.IntRange(0, 3).Draw(t, "spin"), Cancel: rapid.IntRange(0, 5).Draw(t, "cancel") == 0}
			if c.Kind != KMLine {
				sc.Hash = 0
			}
			if sc.Err && rapid.IntRange(0, 2).Draw(t, "cerrs") == 0 {
				sc.CErr = rapid.IntRange(1, 2).Draw(t, "cerr")
			}
			if rapid.Bool().Draw(t, "shaped") {
				sc.Shape = rapid.IntRange(0, plainShapes*reflectShapes-1).Draw(t, "shape")
			}
			prog = append(prog, sc)
			total++
		}
		c.Callers = append(c.Callers, prog)
	}
	c.StopAt = rapid.IntRange(-1, total).Draw(t, "stopat")
	c.Twin = rapid.IntRange(0, 2).Draw(t, "twin") == 0
	return c
}

func ExecStress(c CaseStress) *vkit.Result {
	res := &vkit.Result{}
	if c.Slots < 1 || c.Slots > 1024 || c.QSize < 0 || c.QSize > 1024 || len(c.Callers) == 0 || len(c.Callers) > 32 {
		res.Skip("malformed-config")
		return res
	}
	if c.Procs >= 1 && c.Procs <= 64 {
		defer runtime.GOMAXPROCS(runtime.GOMAXPROCS(c.Procs))
	}
	sched := vkit.NewSched()
	xo := exOpts{NoWG: c.NoWG, NoName: c.NoName}
	ex := newExecutor(c.Kind, c.Slots, c.QSize, false, xo)
	if ex == nil {
		res.Skip("malformed-config")
		return res
	}
	defer ex.stop()
	exs := []*executor{ex}
	if c.Twin {
		ex2 := newExecutor(c.Kind, c.Slots, c.QSize, false, xo)
		defer ex2.stop()
		exs = append(exs, ex2)
		res.Class("two-executors-at-once")
	}
	var (
		mu      sync.Mutex
		problem string
		issued  int
		inLane  = make([]int, len(exs)*ex.slots)
		// lastOf[lane slot][caller]: the number of that caller's call that started last on the lane. A caller issues its
		// calls one after the other, so on one lane they were accepted - and must start - in that order
		lastOf  = map[[2]int]int{}
		execs   = map[int]int{}
		okCalls int
	)
	note := func(f string, a ...any) {
		mu.Lock()
		if problem == "" {
			problem = fmt.Sprintf(f, a...)
		}
		mu.Unlock()
	}
	stopCh := make(chan struct{})
	var stopOnce sync.Once
	// doStop stops the executors once; whoever did it issues, as soon as Stop has returned, one call on the highest
	// lane of each executor: it must be refused as closed and never run
	doStop := func() {
		did := false
		stopOnce.Do(func() {
			for _, e := range exs {
				e.stop()
			}
			close(stopCh)
			did = true
		})
		if !did {
			return
		}
		for k, e := range exs {
			pid := 90000000 + k
			spec := newSpec(pid, e.slots-1, 0, false, func(context.Context, int) (int, error) {
				note("a call issued on the highest lane right after Stop had returned was executed")
				return value(pid), nil
			}, nil)
			v, err := e.call(context.Background(), spec)
			if closed, _ := isRefusal(c.Kind, err); !closed {
				note("a call issued on the highest lane right after Stop had returned was not refused as closed (got %v, %v)", v, err)
			}
		}
	}
	start := make(chan struct{})
	for g, prog := range c.Callers {
		g, prog := g, prog
		sched.Go(fmt.Sprintf("caller-%d", g), func() {
			<-start
			for i, sc := range prog {
				id := g*100000 + i
				hash := sc.Hash
				if c.Kind != KMLine {
					hash = 0
				}
				ex := exs[g%len(exs)]
				lane := ex.laneOf(hash)
				if lane < 0 || lane >= ex.slots {
					note("IndexOf(%d) = %d outside [0,%d)", hash, lane, ex.slots)
					return
				}
				laneArgWant := lane
				lane += (g % len(exs)) * ex.slots // bookkeeping slot of this executor's lane
				ctx, cancel := context.WithCancel(context.Background())
				ownErr := fmt.Errorf("own error %d", id)
				switch {
				case sc.Err && sc.CErr == 1:
					ownErr = context.Canceled
				case sc.Err && sc.CErr == 2:
					ownErr = fmt.Errorf("inner operation of call %d: %w", id, context.Canceled)
				}
				mu.Lock()
				issued++
				now := issued
				mu.Unlock()
				if c.StopAt >= 0 && now > c.StopAt {
					doStop()
				}
				stoppedBefore := false
				select {
				case <-stopCh:
					stoppedBefore = true
				default:
				}
				if sc.Cancel {
					go func() { runtime.Gosched(); cancel() }()
				}
				spec := newSpec(id, hash, sc.Shape, false, nil, func(msg string) { note("%s", msg) })
				spec.fn = func(cctx context.Context, laneArg int) (int, error) {
					mu.Lock()
					execs[id]++
					inLane[lane]++
					bad := inLane[lane] != 1
					last, seen := lastOf[[2]int{lane, g}]
					lastOf[[2]int{lane, g}] = i
					mu.Unlock()
					if seen && last > i {
						note("call %d started on lane %d after call %d of the same caller, which was accepted later", id, lane, g*100000+last)
					}
					if bad {
						note("call %d entered lane %d while another call was running there", id, lane)
					}
					if c.Kind == KMLine && laneArg != laneArgWant {
						note("call %d with hash %d got lane index %d, IndexOf says %d", id, hash, laneArg, laneArgWant)
					}
					for s := 0; s < sc.Spin; s++ {
						runtime.Gosched()
					}
					mu.Lock()
					inLane[lane]--
					mu.Unlock()
					if sc.Err {
						return 0, ownErr
					}
					return value(id), nil
				}
				v, err := ex.call(ctx, spec)
				cancel()
				reflective := ex.reflective(id)
				if err != nil && v != nil && v != spec.errResult(reflective) {
					note("call %d returned (%v, %v): the value next to its error is not its own", id, v, err)
				}
				closed, full := false, false
				if err != nil {
					closed, full = isRefusal(c.Kind, err)
				}
				switch {
				case err == nil:
					if want := spec.wantResult(reflective); v != want || sc.Err {
						note("call %d (shape %d) returned (%#v, nil), want its own result %#v", id, sc.Shape, v, want)
					}
					mu.Lock()
					okCalls++
					mu.Unlock()
					if stoppedBefore {
						note("call %d was issued after Stop had returned and was executed", id)
					}
				case closed || full:
				case err == ownErr:
					if !sc.Err {
						note("call %d returned an error it does not own", id)
					}
				case errors.Is(err, context.Canceled):
					if !sc.Cancel {
						note("call %d returned a context error but its context was never cancelled", id)
					} else if err != context.Canceled {
						note("call %d returned the context error %v, its own context reports %v", id, err, context.Canceled)
					}
				default:
					note("call %d returned a foreign error: %v", id, err)
				}
			}
		})
	}
	close(start)
	sched.MustQuiesce()
	sched.Go("final-stop", doStop)
	parked := sched.MustQuiesce()
	if ops := sched.ParkedOps(); len(ops) > 0 {
		var names []string
		for _, o := range ops {
			names = append(names, o.Name)
		}
		return res.Failf("stress-caller-stuck", "%s: callers parked forever: %v", c.Kind, names)
	}
	for _, op := range sched.Ops() {
		if p := op.Panic(); p != nil {
			return res.Failf("stress-panic", "%s panicked: %v", op.Name, p)
		}
	}
	// the lane goroutines wrote these under mu; quiescence is not a synchronisation
	// edge the race detector knows, so read them under the lock
	mu.Lock()
	prob, twice, nOK := problem, "", okCalls
	for id, n := range execs {
		if n > 1 {
			twice = fmt.Sprintf("call %d executed %d times", id, n)
		}
	}
	mu.Unlock()
	if prob != "" {
		return res.Failf("stress-violation", "%s: %s", c.Kind, prob)
	}
	if twice != "" {
		return res.Failf("stress-executed-twice", "%s: %s", c.Kind, twice)
	}
	if len(parked) > 0 {
		return res.Failf("stress-goroutine-left", "%s: goroutines still parked after Stop: %+v", c.Kind, parked)
	}
	if n := laneGoroutines(); n > 0 {
		for spin := 0; spin < 2000 && n > 0; spin++ {
			runtime.Gosched()
			n = laneGoroutines()
		}
		if n > 0 {
			return res.Failf("stress-lane-not-terminated", "%s: %d lane goroutines alive after Stop", c.Kind, n)
		}
	}
	res.NonTrivial = len(c.Callers) >= 2 && nOK >= 2
	if c.Procs > 1 {
		res.Class("parallel")
	}
	if c.Kind == KMLine && c.Slots > 64 {
		res.Class("more-than-64-lanes")
	}
	if c.StopAt >= 0 {
		res.Class("stop-in-the-middle")
	}
	return res
}

// ---------------------------------------------------------------------------

var PartIndex = &vkit.Part[CaseIndex]{
	Property: Property, Name: "index",
	Rule:  "rapid: hash from {0, +-1, +-2, MinInt, MinInt+1, MaxInt, +-slots, +-slots+-1, +-2*slots, MinInt/2, small range, any int} x lanes 1..1024; NormalizeSlotIndex and MultiLine.IndexOf must lie in [0,lanes) and be stable. Non-trivial: lanes >= 2 and a hash outside [0,lanes); distinct = distinct case JSON",
	Quick: 50000, Thorough: 300000,
	Gen: GenIndex, Exec: ExecIndex,
}

var PartCtl = &vkit.Part[CaseCtl]{
	Property: Property, Name: "controlled",
	Rule:  "rapid: {line | mline (1/2/3/7 lanes) | runner queue (reflective call, delegate, proc) | proc channel} x queue size 0(unbounded)/1/2/8 x 3-16 steps (call with hash incl. negatives, MinInt, MaxInt, and callee behaviour ok / own error / blocks on a harness gate / waits for its context; callee fails with DeadlineExceeded / Canceled / a wrapped Canceled of its own; results of every shape: int, 0, nil, and for the reflective call string, pointer, interface, bool, concrete error type; pre-cancelled contexts and expired deadlines, also with a Done() that fires only after the lane had its turn; open a gate; cancel a pending or finished call; Stop, with a call on the highest lane by the stopping goroutine right after Stop returned); executors built with / without wait group and name; every call carries its own request / argument, checked by the callee. Callers are started one at a time and confirmed parked in the result wait (or returned) at quiescence, so the acceptance order is owned. Oracles from the callee-side event log and the callers' results: executed at most once, no overlap per lane, start order = acceptance order, lane index = IndexOf(hash) in range, own request, own result / own error / own context error only (next to an error nil or the callee's own zero value), idle lane has executed every accepted call (runner may skip cancelled calls, proc channel drops its backlog at Stop), nothing accepted after Stop, everything terminates (no goroutine of the case and no lane goroutine left). Non-trivial: >= 2 calls queued behind a gate, or a cancel / Stop while calls are pending; distinct = distinct case JSON",
	Quick: 2000, Thorough: 12000,
	Gen: GenCtl, Exec: ExecCtl,
}

var stressRule = "rapid: same executors (multi-line also with 65-509 lanes and hashes on the high lanes); 2-8 free-running callers issue 1-10 calls each (hash, own error / Canceled / wrapped Canceled or a value of any shape, spinning callee, contexts cancelled concurrently), Stop after a drawn number of issued calls, followed at once by a call on the highest lane; GOMAXPROCS 1/2/4/8. Oracle: in-lane occupancy counter (no overlap), executed at most once, one caller's calls start in issue order per lane, own requests and results only, nothing accepted once Stop has returned, nobody parked and no lane goroutine alive after Stop. Non-trivial: >= 2 callers and >= 2 successful calls; distinct = distinct case JSON"

var PartStress = &vkit.Part[CaseStress]{
	Property: Property, Name: "stress",
	Rule:  stressRule,
	Quick: 300, Thorough: 3000,
	Gen: GenStress, Exec: ExecStress,
}

var PartStressRace = &vkit.Part[CaseStress]{
	Property: Property, Name: "race-stress",
	Rule:  stressRule + " (binary built with -race)",
	Quick: 100, Thorough: 1000,
	Gen: GenStress, Exec: ExecStress,
}
