// Package c14lanes decides property C14: the serial executors (line, hashed
// multi-line, reflective runner queue, proc channel) run every accepted call at
// most once, serially per lane, in acceptance order, route results to their own
// callers, map every integer hash to a lane in range, and honour Stop.
package c14lanes

import (
	"context"
	"errors"
	"fmt"
	"math"
	"runtime"
	"sync"
	"time"

	"github.com/pinealctx/neptune/syncx/pipe"
	pasync "github.com/pinealctx/neptune/syncx/pipe/async"
	"github.com/pinealctx/neptune/syncx/pipe/line"
	"github.com/pinealctx/neptune/syncx/pipe/mline"
	"github.com/pinealctx/neptune/ulog"
	"go.uber.org/zap/zapcore"
	"pgregory.net/rapid"

	"verifharness/vkit"
)

const Property = "C14"

func init() { ulog.SetLogLevel(zapcore.FatalLevel + 1) }

// ---------------------------------------------------------------------------
// part 1: the pure index function

type CaseIndex struct {
	Hash  int `json:"hash"`
	Slots int `json:"slots"`
}

func genHash(t *rapid.T, slots int) int {
	return rapid.OneOf(
		rapid.SampledFrom([]int{0, 1, -1, 2, -2, math.MinInt, math.MinInt + 1, math.MaxInt, math.MaxInt - 1, math.MinInt32, math.MaxInt32, slots, -slots, slots + 1, -slots - 1, slots - 1, 1 - slots, 2 * slots, -2 * slots, math.MinInt / 2, math.MinInt/2 - 1}),
		rapid.IntRange(-2000, 2000),
		rapid.Int(),
	).Draw(t, "hash")
}

func GenIndex(t *rapid.T) CaseIndex {
	slots := rapid.OneOf(rapid.SampledFrom([]int{1, 2, 3, 7, 509, 1024}), rapid.IntRange(1, 1024)).Draw(t, "slots")
	return CaseIndex{Hash: genHash(t, slots), Slots: slots}
}

func ExecIndex(c CaseIndex) *vkit.Result {
	res := &vkit.Result{}
	if c.Slots < 1 || c.Slots > 1<<20 {
		res.Skip("malformed-config")
		return res
	}
	a := pipe.NormalizeSlotIndex(c.Hash, c.Slots)
	if a < 0 || a >= c.Slots {
		return res.Failf("index-range", "NormalizeSlotIndex(%d, %d) = %d, outside [0,%d)", c.Hash, c.Slots, a, c.Slots)
	}
	if b := pipe.NormalizeSlotIndex(c.Hash, c.Slots); b != a {
		return res.Failf("index-stable", "NormalizeSlotIndex(%d, %d) = %d then %d", c.Hash, c.Slots, a, b)
	}
	ml := mline.NewMultiLine(pipe.WithSlotSize(c.Slots), pipe.WithQSize(1))
	if i := ml.IndexOf(c.Hash); i < 0 || i >= c.Slots {
		return res.Failf("index-range", "MultiLine(%d lanes).IndexOf(%d) = %d, outside [0,%d)", c.Slots, c.Hash, i, c.Slots)
	}
	if c.Hash < 0 {
		res.Class("negative-hash")
	}
	if c.Hash == math.MinInt {
		res.Class("min-int")
	}
	res.NonTrivial = c.Slots >= 2 && (c.Hash < 0 || c.Hash >= c.Slots)
	return res
}

// ---------------------------------------------------------------------------
// executors behind one face

const (
	KLine     = "line"
	KMLine    = "mline"
	KRunCall  = "runner-call"
	KRunDeleg = "runner-delegate"
	KRunProc  = "runner-proc"
	KProcChan = "procchan"
	// KRunMix: one runner queue used through all three entry points (the form of a call is its sequence number mod 3)
	KRunMix = "runner-mixed"
)

var kinds = []string{KLine, KMLine, KMLine, KRunCall, KRunDeleg, KRunProc, KRunMix, KProcChan}

type callee func(ctx context.Context, laneArg int) (int, error)

type executor struct {
	kind  string
	slots int
	// seq numbers the calls of a case (it is the argument of the reflective call and chooses the form on a mixed
	// runner); reuse: the caller re-uses the CallCtx object of an earlier call whose caller has returned (line, mline)
	call   func(ctx context.Context, hash int, fn callee, seq int, reuse bool) (interface{}, error)
	stop   func()
	laneOf func(hash int) int
	// waitStopped blocks until the executor reports that its lane goroutines are gone (WaitGroup / WaitStop)
	waitStopped func()
	// run starts the lane goroutines (Run); started says whether that has happened
	run     func()
	started bool
}

func (e *executor) start() {
	if !e.started {
		e.started = true
		e.run()
	}
}

type procFn func(ctx context.Context) (interface{}, error)

func (p procFn) Do(ctx context.Context) (interface{}, error) { return p(ctx) }

func isRefusal(kind string, err error) (closed, full bool) {
	switch kind {
	case KLine, KMLine:
		return errors.Is(err, pipe.ErrQueueClosed), errors.Is(err, pipe.ErrQueueFull)
	default:
		return errors.Is(err, pasync.ErrClosed), errors.Is(err, pasync.ErrFull)
	}
}

func newExecutor(kind string, slots, qsize int, lateRun bool) *executor {
	e := &executor{kind: kind, slots: 1, laneOf: func(int) int { return 0 }}
	wrap := func(fn callee) func(ctx context.Context) (interface{}, error) {
		return func(ctx context.Context) (interface{}, error) {
			v, err := fn(ctx, -1)
			if err != nil {
				return nil, err
			}
			return v, nil
		}
	}
	switch kind {
	case KLine:
		wg := &sync.WaitGroup{}
		l := line.NewLine(wg, line.WithQSize(qsize), line.WithName("verif"))
		e.run = l.Run
		var sharedL *line.CallCtx
		e.call = func(ctx context.Context, _ int, fn callee, _ int, reuse bool) (interface{}, error) {
			cc := line.NewCallCtx(func(ctx context.Context, req interface{}) (interface{}, error) {
				return wrap(fn)(ctx)
			}, nil)
			if reuse && sharedL != nil {
				// the caller fills the object of its earlier call again (its fields are public) - what was accepted then
				// must not change with it
				sharedL.Call, sharedL.Param = cc.Call, cc.Param
				cc = sharedL
			} else if reuse {
				sharedL = cc
			}
			return l.AsyncCall(ctx, cc)
		}
		e.stop = l.Stop
		e.waitStopped = wg.Wait
	case KMLine:
		ml := mline.NewMultiLine(pipe.WithSlotSize(slots), pipe.WithQSize(qsize))
		e.run = ml.Run
		e.slots = slots
		e.laneOf = ml.IndexOf
		var sharedM *mline.CallCtx
		e.call = func(ctx context.Context, hash int, fn callee, _ int, reuse bool) (interface{}, error) {
			cc := mline.NewCallCtx(hash, func(ctx context.Context, sIndex int, req interface{}) (interface{}, error) {
				v, err := fn(ctx, sIndex)
				if err != nil {
					return nil, err
				}
				return v, nil
			}, nil)
			if reuse && sharedM != nil {
				*sharedM = *cc
				cc = sharedM
			} else if reuse {
				sharedM = cc
			}
			return ml.AsyncCall(ctx, cc)
		}
		e.stop = ml.Stop
		e.waitStopped = func() { _ = ml.WaitStop(context.Background()) }
	case KRunCall, KRunDeleg, KRunProc, KRunMix:
		rwg := &sync.WaitGroup{}
		r := pasync.NewRunnerQ(pasync.WithQSize(qsize), pasync.WithName("verif"), pasync.WithWaitGroup(rwg))
		e.run = r.Run
		e.waitStopped = func() { r.WaitStop(); rwg.Wait() }
		e.call = func(ctx context.Context, _ int, fn callee, seq int, _ bool) (interface{}, error) {
			form := map[string]int{KRunCall: 0, KRunDeleg: 1, KRunProc: 2}[kind]
			if kind == KRunMix {
				form = seq % 3
			}
			switch form {
			case 0:
				// the reflective call carries an argument: the callee must be handed exactly the one of its own call
				want := 1000 + seq
				return r.AsyncCall(func(ctx context.Context, arg int) (int, error) {
					v, err := fn(ctx, -1)
					if arg != want {
						return -1000000 - arg, err
					}
					return v, err
				}, ctx, want)
			case 1:
				return r.AsyncDelegate(ctx, wrap(fn))
			}
			return r.AsyncProc(ctx, procFn(wrap(fn)))
		}
		e.stop = r.Stop
	case KProcChan:
		pwg := &sync.WaitGroup{}
		p := pasync.NewProcChan(pasync.WithQSize(qsize), pasync.WithName("verif"), pasync.WithWaitGroup(pwg))
		e.run = p.Run
		e.waitStopped = func() { p.WaitStop(); pwg.Wait() }
		e.call = func(ctx context.Context, _ int, fn callee, _ int, _ bool) (interface{}, error) {
			return p.AsyncProc(ctx, procFn(wrap(fn)))
		}
		e.stop = p.Stop
	default:
		return nil
	}
	if !lateRun {
		e.start()
	}
	return e
}

// event log written by the callees
type event struct {
	call  int
	start bool
	lane  int // lane argument handed to the callee (-1 where the API passes none)
}

type evlog struct {
	mu sync.Mutex
	ev []event
}

func (l *evlog) add(e event) {
	l.mu.Lock()
	l.ev = append(l.ev, e)
	l.mu.Unlock()
}

func (l *evlog) snapshot() []event {
	l.mu.Lock()
	defer l.mu.Unlock()
	return append([]event(nil), l.ev...)
}

func value(call int) int { return call*7 + 1 }

// ---------------------------------------------------------------------------
// part 2: controlled schedules (gate technique)

type Step struct {
	Op        string `json:"op"` // call | open | cancel | stop
	Hash      int    `json:"hash,omitempty"`
	Behave    string `json:"behave,omitempty"` // ok | err | gate | ctx
	PreCancel bool   `json:"pre_cancel,omitempty"`
	// LateDone (with PreCancel): the context is over (Err() says so) but its Done() method only returns - a closed
	// channel, as it must - once the harness has let the lane have its turn: the caller is held in front of its
	// wait while the executor already deals with the call
	LateDone bool `json:"late_done,omitempty"`
	// Deadline (with PreCancel, not LateDone): the context is over because its deadline passed (Err() is DeadlineExceeded)
	Deadline bool `json:"deadline,omitempty"`
	Target   int  `json:"target,omitempty"` // open / cancel: index of the call (in issue order)
}

// lateDoneCtx is an ended context whose Done() takes its time.
type lateDoneCtx struct {
	context.Context
	release chan struct{}
}

func (c lateDoneCtx) Done() <-chan struct{} {
	<-c.release
	return c.Context.Done()
}

type CaseCtl struct {
	Kind  string `json:"kind"`
	Slots int    `json:"slots"`
	QSize int    `json:"qsize"`
	Steps []Step `json:"steps"`
	// LateRun: the executor's Run is not called when it is built but by a "run" step (or, if there is none, at the
	// start of the epilogue): calls are accepted - and Stop may be called - before the lanes run
	LateRun bool `json:"late_run,omitempty"`
	// ReuseCtx (line, mline): a caller whose earlier call has returned to it (e.g. through its context) fills the same
	// CallCtx object again for its next call
	ReuseCtx bool `json:"reuse_ctx,omitempty"`
}

func GenCtl(t *rapid.T) CaseCtl {
	c := CaseCtl{Kind: rapid.SampledFrom(kinds).Draw(t, "kind")}
	c.Slots = rapid.SampledFrom([]int{1, 2, 3, 7}).Draw(t, "slots")
	if c.Kind == KMLine && rapid.IntRange(0, 19).Draw(t, "manylanes") == 0 {
		c.Slots = rapid.SampledFrom([]int{257, 300, 509}).Draw(t, "slotsmany") // 509 is the default lane count
	}
	c.QSize = rapid.SampledFrom([]int{0, 0, 1, 2, 8}).Draw(t, "qsize")
	c.ReuseCtx = (c.Kind == KLine || c.Kind == KMLine) && rapid.IntRange(0, 3).Draw(t, "reusectx") == 0
	hashes := []int{0, 1, c.Slots, -1, -c.Slots, math.MinInt, math.MaxInt, 5, c.Slots - 1, 256, 299, -300}
	ncalls := 0
	var gates, live []int
	stopped := false
	n := rapid.IntRange(3, 16).Draw(t, "n")
	for i := 0; i < n; i++ {
		var opts []string
		for j := 0; j < 6; j++ {
			opts = append(opts, "call")
		}
		if len(gates) > 0 {
			opts = append(opts, "open", "open")
		}
		if len(live) > 0 {
			opts = append(opts, "cancel", "cancel")
		}
		if !stopped {
			opts = append(opts, "stop")
		}
		switch rapid.SampledFrom(opts).Draw(t, "op") {
		case "call":
			st := Step{Op: "call", Hash: rapid.SampledFrom(hashes).Draw(t, "hash")}
			if c.Kind != KMLine {
				st.Hash = 0
			}
			// the first call is a gate more often than not: it occupies the lane so that later calls queue up
			w := []string{"ok", "ok", "err", "gate", "ctx", "dlerr"}
			if ncalls == 0 {
				w = []string{"gate", "gate", "gate", "ok", "ctx"}
			}
			st.Behave = rapid.SampledFrom(w).Draw(t, "behave")
			st.PreCancel = rapid.IntRange(0, 9).Draw(t, "pre") == 0
			st.LateDone = st.PreCancel && rapid.Bool().Draw(t, "latedone")
			st.Deadline = st.PreCancel && !st.LateDone && rapid.Bool().Draw(t, "deadline")
			if st.Behave == "gate" {
				gates = append(gates, ncalls)
			}
			if !st.PreCancel {
				live = append(live, ncalls)
			}
			ncalls++
			c.Steps = append(c.Steps, st)
		case "open":
			k := rapid.IntRange(0, len(gates)-1).Draw(t, "gate")
			c.Steps = append(c.Steps, Step{Op: "open", Target: gates[k]})
			gates = append(gates[:k:k], gates[k+1:]...)
		case "cancel":
			k := rapid.IntRange(0, len(live)-1).Draw(t, "live")
			c.Steps = append(c.Steps, Step{Op: "cancel", Target: live[k]})
			live = append(live[:k:k], live[k+1:]...)
		default:
			stopped = true
			c.Steps = append(c.Steps, Step{Op: "stop"})
		}
	}
	if rapid.IntRange(0, 5).Draw(t, "laterun") == 0 {
		c.LateRun = true
		if rapid.Bool().Draw(t, "runstep") {
			at := rapid.IntRange(0, len(c.Steps)).Draw(t, "runat")
			c.Steps = append(c.Steps[:at:at], append([]Step{{Op: "run"}}, c.Steps[at:]...)...)
		}
	}
	// Run called once more, anywhere (also while calls are executing or queued)
	if rapid.IntRange(0, 5).Draw(t, "runagain") == 0 {
		at := rapid.IntRange(0, len(c.Steps)).Draw(t, "runagainat")
		c.Steps = append(c.Steps[:at:at], append([]Step{{Op: "run"}}, c.Steps[at:]...)...)
	}
	return c
}

type callRun struct {
	hash                 int
	behave               string
	ctx                  context.Context
	cancel               context.CancelFunc
	cancelled            bool // by the controller (known, not observed)
	gate                 chan struct{}
	opened               bool
	ownErr               error
	op                   *vkit.Op
	res                  interface{}
	err                  error
	lane                 int
	afterStop            bool
	cancelledBeforeIssue bool
}

// judge evaluates every oracle at a quiescent point.
func judge(res *vkit.Result, c CaseCtl, ex *executor, calls []*callRun, log *evlog, stopped bool, final bool, what string) bool {
	evs := log.snapshot()
	starts := map[int]int{}
	ended := map[int]bool{}
	running := map[int]int{} // lane -> call currently between start and end
	startOrder := map[int][]int{}
	for _, e := range evs {
		if e.call < 0 || e.call >= len(calls) {
			res.Failf("unknown-call", "%s: the executor ran a call nobody issued", what)
			return false
		}
		cl := calls[e.call]
		if e.start {
			starts[e.call]++
			if starts[e.call] > 1 {
				res.Failf("executed-twice", "%s: call %d was executed %d times", what, e.call, starts[e.call])
				return false
			}
			if other, busy := running[cl.lane]; busy {
				res.Failf("overlap", "%s: call %d started on lane %d while call %d was still running there", what, e.call, cl.lane, other)
				return false
			}
			running[cl.lane] = e.call
			startOrder[cl.lane] = append(startOrder[cl.lane], e.call)
			if c.Kind == KMLine && (e.lane != cl.lane || e.lane < 0 || e.lane >= c.Slots) {
				res.Failf("lane-index", "%s: call %d with hash %d got lane index %d, IndexOf says %d (lanes %d)", what, e.call, cl.hash, e.lane, cl.lane, c.Slots)
				return false
			}
		} else {
			if running[cl.lane] != e.call {
				res.Failf("overlap", "%s: call %d ended on lane %d while the log has call %d running there", what, e.call, cl.lane, running[cl.lane])
				return false
			}
			delete(running, cl.lane)
			ended[e.call] = true
		}
	}
	// acceptance is read off the caller's return value: a queue error means refused
	accepted := func(i int) (acc bool, known bool) {
		cl := calls[i]
		if !cl.op.Done() {
			return true, true // parked in the result wait: its request is in the queue
		}
		if cl.err != nil {
			if closed, full := isRefusal(c.Kind, cl.err); closed || full {
				// the proc channel answers "closed" to callers whose call was accepted (and
				// may even be running) when Stop arrives: there a started call was accepted
				if c.Kind == KProcChan && closed && starts[i] > 0 {
					return true, true
				}
				return false, true
			}
		}
		return true, true
	}
	// per-lane acceptance order and progress
	laneCalls := map[int][]int{}
	for i, cl := range calls {
		if acc, _ := accepted(i); acc {
			laneCalls[cl.lane] = append(laneCalls[cl.lane], i)
		} else if starts[i] > 0 && c.Kind != KProcChan {
			res.Failf("refused-but-executed", "%s: call %d was refused (%v) but executed", what, i, cl.err)
			return false
		}
	}
	for ln, order := range startOrder {
		// started calls must appear in acceptance order
		pos := 0
		acc := laneCalls[ln]
		for _, s := range order {
			for pos < len(acc) && acc[pos] != s {
				pos++
			}
			if pos == len(acc) {
				res.Failf("order", "%s: lane %d started calls in order %v, accepted order was %v", what, ln, order, acc)
				return false
			}
			pos++
		}
	}
	for ln, acc := range laneCalls {
		if _, busy := running[ln]; busy {
			continue // something is (legitimately) blocked inside the callee: later calls wait
		}
		if !ex.started {
			continue // nobody has called Run yet: accepted calls wait in the queue
		}
		for _, i := range acc {
			cl := calls[i]
			if starts[i] > 0 {
				continue
			}
			// "executed at most once": an executor may skip a call whose caller's context ended before it ran
			// (the runner does; a line or multi-line that did would be within the statement too)
			skippable := cl.cancelled
			switch c.Kind {
			case KProcChan:
				skippable = cl.cancelled || stopped // the proc channel drops its backlog at Stop
			}
			if !skippable {
				res.Failf("not-executed", "%s: lane %d is idle but accepted call %d (hash %d) has not been executed", what, ln, i, cl.hash)
				return false
			}
		}
	}
	// callers
	for i, cl := range calls {
		if p := cl.op.Panic(); p != nil {
			res.Failf("panic", "%s: call %d panicked: %v", what, i, p)
			return false
		}
		if !cl.op.Done() {
			if ended[i] {
				res.Failf("result-lost", "%s: call %d has been executed to the end but its caller is still waiting (forever)", what, i)
				return false
			}
			if cl.cancelled {
				res.Failf("cancel-ignored", "%s: the context of call %d is cancelled but its caller is still waiting (forever)", what, i)
				return false
			}
			if c.Kind == KProcChan && stopped {
				res.Failf("stop-ignored", "%s: the proc channel is stopped but the caller of call %d is still waiting (forever)", what, i)
				return false
			}
			continue
		}
		closed, full := false, false
		if cl.err != nil {
			closed, full = isRefusal(c.Kind, cl.err)
		}
		switch {
		case cl.err == nil:
			v, ok := cl.res.(int)
			if !ok || v != value(i) || cl.behave == "err" || cl.behave == "ctx" || cl.behave == "dlerr" {
				res.Failf("result-routing", "%s: call %d (%s) returned (%v, nil), want its own result %d", what, i, cl.behave, cl.res, value(i))
				return false
			}
			if !ended[i] {
				res.Failf("result-routing", "%s: call %d returned a result although it has not finished executing", what, i)
				return false
			}
		case closed:
			if !cl.afterStop && !(c.Kind == KProcChan && stopped) {
				res.Failf("spurious-closed", "%s: call %d was refused as closed although Stop had not been called when it was issued", what, i)
				return false
			}
		case full:
			if c.QSize == 0 && c.Kind != KProcChan {
				res.Failf("spurious-full", "%s: call %d was refused as full on an unbounded queue", what, i)
				return false
			}
		case cl.behave == "dlerr" && cl.err == context.DeadlineExceeded && ended[i]:
			// the callee's own error (a context error of an inner operation), handed through
		case errors.Is(cl.err, context.Canceled) || errors.Is(cl.err, context.DeadlineExceeded):
			if !cl.cancelled {
				res.Failf("result-routing", "%s: call %d returned a context error but its context was never cancelled", what, i)
				return false
			}
			// "its own context's error": exactly what its context reports
			if own := cl.ctx.Err(); own != nil && cl.err != own && !(cl.behave == "ctx" || cl.behave == "dlerr") {
				res.Failf("result-routing", "%s: call %d returned the context error %v, its own context reports %v", what, i, cl.err, own)
				return false
			}
		case cl.err == cl.ownErr:
			if cl.behave != "err" || !ended[i] {
				res.Failf("result-routing", "%s: call %d (%s) returned the error of an 'err' call", what, i, cl.behave)
				return false
			}
		default:
			res.Failf("result-routing", "%s: call %d returned a foreign error: %v", what, i, cl.err)
			return false
		}
		// after Stop has returned no new call is accepted
		if cl.afterStop {
			isCtxErr := cl.err != nil && (errors.Is(cl.err, context.Canceled) || errors.Is(cl.err, context.DeadlineExceeded)) && cl.cancelledBeforeIssue
			if !closed && !(c.Kind == KProcChan && isCtxErr) {
				res.Failf("accepted-after-stop", "%s: call %d was issued after Stop returned but was not refused as closed (got %v, %v)", what, i, cl.res, cl.err)
				return false
			}
			if starts[i] > 0 {
				res.Failf("accepted-after-stop", "%s: call %d was issued after Stop returned and was executed", what, i)
				return false
			}
		}
	}
	return true
}

func ExecCtl(c CaseCtl) *vkit.Result {
	res := &vkit.Result{}
	if c.Slots < 1 || c.Slots > 1024 || c.QSize < 0 || c.QSize > 1024 {
		res.Skip("malformed-config")
		return res
	}
	// the baseline is taken first, so the lane goroutines belong to the tracked set:
	// a quiescent cut covers them too, and their termination shows in the final cut
	sched := vkit.NewSched()
	ex := newExecutor(c.Kind, c.Slots, c.QSize, c.LateRun)
	if ex == nil {
		res.Skip("malformed-config")
		return res
	}
	log := &evlog{}
	var calls []*callRun
	var lastUser *callRun // ReuseCtx: the call that used the shared CallCtx object last
	stopped := false
	queuedBehindGate := 0
	defer func() {
		for _, cl := range calls {
			cl.cancel()
			if !cl.opened {
				cl.opened = true
				close(cl.gate)
			}
		}
		ex.stop()
	}()
	for si, st := range c.Steps {
		what := fmt.Sprintf("step %d %+v on %s", si, st, c.Kind)
		switch st.Op {
		case "call":
			i := len(calls)
			hash := st.Hash
			if c.Kind != KMLine {
				hash = 0
			}
			cl := &callRun{hash: hash, behave: st.Behave, gate: make(chan struct{}), ownErr: fmt.Errorf("own error of call %d", i), afterStop: stopped}
			cl.lane = ex.laneOf(hash)
			if cl.lane < 0 || cl.lane >= ex.slots {
				return res.Failf("index-range", "%s: IndexOf(%d) = %d, outside [0,%d)", what, hash, cl.lane, ex.slots)
			}
			cl.ctx, cl.cancel = context.WithCancel(context.Background())
			var lateRelease chan struct{}
			if st.PreCancel && st.Deadline && !st.LateDone {
				cl.ctx, cl.cancel = context.WithDeadline(context.Background(), time.Unix(1, 0)) // long past: no timer
				cl.cancelled, cl.cancelledBeforeIssue = true, true
				res.Class("expired-deadline-before-enqueue")
			} else if st.PreCancel {
				cl.cancel()
				cl.cancelled, cl.cancelledBeforeIssue = true, true
				res.Class("cancelled-before-enqueue")
				if st.LateDone {
					lateRelease = make(chan struct{})
					cl.ctx = lateDoneCtx{cl.ctx, lateRelease}
					res.Class("cancelled-before-enqueue-done-fires-late")
				}
			}
			// classes (on what the controller knows)
			for _, o := range calls {
				if o.lane == cl.lane && o.behave == "gate" && !o.opened && !o.afterStop {
					queuedBehindGate++
					break
				}
			}
			if hash < 0 {
				res.Class("negative-hash")
			}
			if hash == math.MinInt {
				res.Class("min-int-hash")
			}
			calls = append(calls, cl)
			fn := func(ctx context.Context, laneArg int) (int, error) {
				log.add(event{call: i, start: true, lane: laneArg})
				defer log.add(event{call: i})
				switch cl.behave {
				case "err":
					return 0, cl.ownErr
				case "gate":
					<-cl.gate
				case "ctx":
					<-ctx.Done()
					return 0, ctx.Err()
				case "dlerr":
					// the callee fails with a context error of its own (an inner operation timed out) while the
					// caller's context may be alive: the caller must get exactly this error
					return 0, context.DeadlineExceeded
				}
				return value(i), nil
			}
			reuse := false
			if c.ReuseCtx {
				// the shared CallCtx object may be filled again once the caller that used it last has returned
				reuse = lastUser == nil || lastUser.op.Done()
				if reuse {
					if lastUser != nil {
						res.Class("call-context-object-reused")
					}
					lastUser = cl
				}
			}
			cl.op = sched.Go(fmt.Sprintf("caller-%d", i), func() { cl.res, cl.err = ex.call(cl.ctx, hash, fn, i, reuse) })
			if lateRelease != nil {
				// whoever asks this context for its Done channel is held until the executor has had its turn
				sched.MustQuiesce()
				close(lateRelease)
			}
		case "run":
			if ex.started {
				// a second Run must not put a second consumer on a lane
				res.Class("second-run")
				ex.run()
				break
			}
			if stopped {
				res.Class("run-after-stop")
			}
			ex.start()
		case "open":
			if st.Target < 0 || st.Target >= len(calls) || calls[st.Target].opened {
				res.Skip("open-of-nothing")
				continue
			}
			calls[st.Target].opened = true
			close(calls[st.Target].gate)
		case "cancel":
			if st.Target < 0 || st.Target >= len(calls) || calls[st.Target].cancelled {
				res.Skip("cancel-of-nothing")
				continue
			}
			cl := calls[st.Target]
			switch {
			case cl.op.Done():
				res.Class("cancel-after-completion")
			default:
				res.Class("cancel-while-pending")
				res.NonTrivial = true
			}
			cl.cancelled = true
			cl.cancel()
		case "stop":
			if stopped {
				res.Skip("second-stop")
				continue
			}
			pending := 0
			for _, cl := range calls {
				if !cl.op.Done() {
					pending++
				}
			}
			if pending > 0 {
				res.Class("stop-with-calls-pending")
				res.NonTrivial = true
			}
			op := sched.Go("stop", ex.stop)
			sched.MustQuiesce()
			if !op.Done() {
				return res.Failf("stop-blocked", "%s: Stop itself is parked forever", what)
			}
			stopped = true
		default:
			res.Skip("unknown-op")
			continue
		}
		sched.MustQuiesce()
		if !judge(res, c, ex, calls, log, stopped, false, what) {
			return res
		}
	}
	if queuedBehindGate >= 2 {
		res.Class("two-or-more-queued-behind-a-gate")
		res.NonTrivial = true
	}
	// epilogue: open every gate, then Stop; everything accepted must run (line, mline, runner)
	if !ex.started {
		if stopped {
			res.Class("run-after-stop")
		}
		res.Class("run-in-the-epilogue")
		ex.start()
		sched.MustQuiesce()
	}
	for _, cl := range calls {
		if !cl.opened {
			cl.opened = true
			close(cl.gate)
		}
	}
	sched.MustQuiesce()
	if !judge(res, c, ex, calls, log, stopped, false, "epilogue: all gates open") {
		return res
	}
	if !stopped {
		op := sched.Go("stop", ex.stop)
		sched.MustQuiesce()
		if !op.Done() {
			return res.Failf("stop-blocked", "epilogue: Stop itself is parked forever")
		}
		stopped = true
		if !judge(res, c, ex, calls, log, stopped, false, "epilogue: after Stop") {
			return res
		}
	}
	// calls that only wait for their context: cancel them so that the lanes can drain
	for _, cl := range calls {
		if !cl.cancelled && cl.behave == "ctx" {
			cl.cancelled = true
			cl.cancel()
		}
	}
	parked := sched.MustQuiesce()
	if !judge(res, c, ex, calls, log, stopped, true, "epilogue: drained") {
		return res
	}
	for i, cl := range calls {
		if !cl.op.Done() {
			return res.Failf("caller-stuck", "epilogue: after Stop, open gates and cancelled waits the caller of call %d is still parked", i)
		}
	}
	if len(parked) > 0 {
		return res.Failf("goroutine-left", "epilogue: goroutines of the case are still parked after Stop and drain: %+v", parked)
	}
	// the executor's own notion of "stopped" (wait group / WaitStop) must agree: the waiter returns
	if ex.waitStopped != nil {
		w := sched.Go("wait-stopped", ex.waitStopped)
		sched.MustQuiesce()
		if !w.Done() {
			return res.Failf("wait-stop-never-returns", "epilogue: every lane goroutine is gone, but waiting for the executor to stop (wait group / WaitStop) blocks forever")
		}
	}
	// the lane goroutines themselves (started before the baseline): none may survive
	if n := laneGoroutines(); n > 0 {
		// give exiting goroutines a moment: they are runnable, not parked
		for spin := 0; spin < 2000 && n > 0; spin++ {
			runtime.Gosched()
			n = laneGoroutines()
		}
		if n > 0 {
			return res.Failf("lane-not-terminated", "epilogue: %d lane goroutines (popLoop) are still alive after Stop and drain", n)
		}
	}
	return res
}

// laneGoroutines counts goroutines currently inside one of the executors' pop
// loops (the lane goroutines).
func laneGoroutines() int {
	buf := make([]byte, 1<<18)
	for {
		n := runtime.Stack(buf, true)
		if n < len(buf) {
			buf = buf[:n]
			break
		}
		buf = make([]byte, 2*len(buf))
	}
	cnt := 0
	for _, blk := range splitBlocks(string(buf)) {
		if containsAny(blk, "line.(*Line).popLoop", "mline.(*MultiLine).popLoop", "async.(*RunnerQ).popLoop", "async.(*ProcChan).popLoop", "mline.(*MultiLine).signalDone",
			// created but not yet run: only the compiler's go-statement wrapper is on the stack
			"line.(*Line).Run.func", "mline.(*MultiLine).Run.gowrap", "mline.(*MultiLine).stop.gowrap", "async.(*RunnerQ).Run.func", "async.(*ProcChan).Run.func") {
			cnt++
		}
	}
	return cnt
}

func splitBlocks(s string) []string {
	var out []string
	for len(s) > 0 {
		i := indexOf(s, "\n\n")
		if i < 0 {
			out = append(out, s)
			break
		}
		out = append(out, s[:i])
		s = s[i+2:]
	}
	return out
}

func indexOf(s, sub string) int {
	for i := 0; i+len(sub) <= len(s); i++ {
		if s[i:i+len(sub)] == sub {
			return i
		}
	}
	return -1
}

func containsAny(s string, subs ...string) bool {
	for _, sub := range subs {
		if indexOf(s, sub) >= 0 {
			return true
		}
	}
	return false
}

// ---------------------------------------------------------------------------
// part 3: stress - free-running callers

type StressCall struct {
	Hash   int  `json:"hash"`
	Err    bool `json:"err,omitempty"`
	Spin   int  `json:"spin"`
	Cancel bool `json:"cancel,omitempty"` // on a context the canceller cancels concurrently
}

type CaseStress struct {
	Kind    string         `json:"kind"`
	Slots   int            `json:"slots"`
	QSize   int            `json:"qsize"`
	Procs   int            `json:"procs"`
	Callers [][]StressCall `json:"callers"`
	StopAt  int            `json:"stop_at"` // Stop after this many calls have been issued overall (-1: only at the end)
	// Twin: two executors of the kind work at the same time, the callers alternate between them (state that a package
	// shares between its executors is then contended)
	Twin bool `json:"twin,omitempty"`
}

func GenStress(t *rapid.T) CaseStress {
	c := CaseStress{Kind: rapid.SampledFrom(kinds).Draw(t, "kind")}
	c.Slots = rapid.SampledFrom([]int{1, 2, 3, 7}).Draw(t, "slots")
	c.QSize = rapid.SampledFrom([]int{0, 1, 2, 8}).Draw(t, "qsize")
	c.Procs = rapid.SampledFrom([]int{1, 2, 4, 8}).Draw(t, "procs")
	hashes := []int{0, 1, c.Slots, -1, -c.Slots, math.MinInt, math.MaxInt, 5}
	total := 0
	for g, ng := 0, rapid.IntRange(2, 8).Draw(t, "callers"); g < ng; g++ {
		var prog []StressCall
		for i, n := 0, rapid.IntRange(1, 10).Draw(t, "n"); i < n; i++ {
			sc := StressCall{Hash: rapid.SampledFrom(hashes).Draw(t, "hash"), Err: rapid.IntRange(0, 4).Draw(t, "err") == 0,
				Spin: rapid.IntRange(0, 3).Draw(t, "spin"), Cancel: rapid.IntRange(0, 5).Draw(t, "cancel") == 0}
			if c.Kind != KMLine {
				sc.Hash = 0
			}
			prog = append(prog, sc)
			total++
		}
		c.Callers = append(c.Callers, prog)
	}
	c.StopAt = rapid.IntRange(-1, total).Draw(t, "stopat")
	c.Twin = rapid.IntRange(0, 2).Draw(t, "twin") == 0
	return c
}

func ExecStress(c CaseStress) *vkit.Result {
	res := &vkit.Result{}
	if c.Slots < 1 || c.Slots > 64 || c.QSize < 0 || c.QSize > 1024 || len(c.Callers) == 0 || len(c.Callers) > 32 {
		res.Skip("malformed-config")
		return res
	}
	if c.Procs >= 1 && c.Procs <= 64 {
		defer runtime.GOMAXPROCS(runtime.GOMAXPROCS(c.Procs))
	}
	sched := vkit.NewSched()
	ex := newExecutor(c.Kind, c.Slots, c.QSize, false)
	if ex == nil {
		res.Skip("malformed-config")
		return res
	}
	defer ex.stop()
	exs := []*executor{ex}
	if c.Twin {
		ex2 := newExecutor(c.Kind, c.Slots, c.QSize, false)
		defer ex2.stop()
		exs = append(exs, ex2)
		res.Class("two-executors-at-once")
	}
	var (
		mu      sync.Mutex
		problem string
		issued  int
		inLane  = make([]int, len(exs)*ex.slots)
		execs   = map[int]int{}
		okCalls int
	)
	note := func(f string, a ...any) {
		mu.Lock()
		if problem == "" {
			problem = fmt.Sprintf(f, a...)
		}
		mu.Unlock()
	}
	stopCh := make(chan struct{})
	var stopOnce sync.Once
	doStop := func() {
		stopOnce.Do(func() {
			for _, e := range exs {
				e.stop()
			}
			close(stopCh)
		})
	}
	start := make(chan struct{})
	for g, prog := range c.Callers {
		g, prog := g, prog
		sched.Go(fmt.Sprintf("caller-%d", g), func() {
			<-start
			for i, sc := range prog {
				id := g*1000 + i
				hash := sc.Hash
				if c.Kind != KMLine {
					hash = 0
				}
				ex := exs[g%len(exs)]
				lane := ex.laneOf(hash)
				if lane < 0 || lane >= ex.slots {
					note("IndexOf(%d) = %d outside [0,%d)", hash, lane, ex.slots)
					return
				}
				laneArgWant := lane
				lane += (g % len(exs)) * ex.slots // bookkeeping slot of this executor's lane
				ctx, cancel := context.WithCancel(context.Background())
				ownErr := fmt.Errorf("own error %d", id)
				mu.Lock()
				issued++
				now := issued
				mu.Unlock()
				if c.StopAt >= 0 && now > c.StopAt {
					doStop()
				}
				stoppedBefore := false
				select {
				case <-stopCh:
					stoppedBefore = true
				default:
				}
				if sc.Cancel {
					go func() { runtime.Gosched(); cancel() }()
				}
				v, err := ex.call(ctx, hash, func(cctx context.Context, laneArg int) (int, error) {
					mu.Lock()
					execs[id]++
					inLane[lane]++
					bad := inLane[lane] != 1
					mu.Unlock()
					if bad {
						note("call %d entered lane %d while another call was running there", id, lane)
					}
					if c.Kind == KMLine && laneArg != laneArgWant {
						note("call %d with hash %d got lane index %d, IndexOf says %d", id, hash, laneArg, laneArgWant)
					}
					for s := 0; s < sc.Spin; s++ {
						runtime.Gosched()
					}
					mu.Lock()
					inLane[lane]--
					mu.Unlock()
					if sc.Err {
						return 0, ownErr
					}
					return value(id), nil
				}, id, false)
				cancel()
				closed, full := false, false
				if err != nil {
					closed, full = isRefusal(c.Kind, err)
				}
				switch {
				case err == nil:
					if iv, ok := v.(int); !ok || iv != value(id) || sc.Err {
						note("call %d returned (%v, nil), want its own result %d", id, v, value(id))
					}
					mu.Lock()
					okCalls++
					mu.Unlock()
					if stoppedBefore {
						note("call %d was issued after Stop had returned and was executed", id)
					}
				case closed || full:
				case errors.Is(err, context.Canceled):
					if !sc.Cancel {
						note("call %d returned a context error but its context was never cancelled", id)
					}
				case err == ownErr:
					if !sc.Err {
						note("call %d returned an error it does not own", id)
					}
				default:
					note("call %d returned a foreign error: %v", id, err)
				}
			}
		})
	}
	close(start)
	sched.MustQuiesce()
	doStop()
	parked := sched.MustQuiesce()
	if ops := sched.ParkedOps(); len(ops) > 0 {
		var names []string
		for _, o := range ops {
			names = append(names, o.Name)
		}
		return res.Failf("stress-caller-stuck", "%s: callers parked forever: %v", c.Kind, names)
	}
	for _, op := range sched.Ops() {
		if p := op.Panic(); p != nil {
			return res.Failf("stress-panic", "%s panicked: %v", op.Name, p)
		}
	}
	// the lane goroutines wrote these under mu; quiescence is not a synchronisation
	// edge the race detector knows, so read them under the lock
	mu.Lock()
	prob, twice, nOK := problem, "", okCalls
	for id, n := range execs {
		if n > 1 {
			twice = fmt.Sprintf("call %d executed %d times", id, n)
		}
	}
	mu.Unlock()
	if prob != "" {
		return res.Failf("stress-violation", "%s: %s", c.Kind, prob)
	}
	if twice != "" {
		return res.Failf("stress-executed-twice", "%s: %s", c.Kind, twice)
	}
	if len(parked) > 0 {
		return res.Failf("stress-goroutine-left", "%s: goroutines still parked after Stop: %+v", c.Kind, parked)
	}
	if n := laneGoroutines(); n > 0 {
		for spin := 0; spin < 2000 && n > 0; spin++ {
			runtime.Gosched()
			n = laneGoroutines()
		}
		if n > 0 {
			return res.Failf("stress-lane-not-terminated", "%s: %d lane goroutines alive after Stop", c.Kind, n)
		}
	}
	res.NonTrivial = len(c.Callers) >= 2 && nOK >= 2
	if c.Procs > 1 {
		res.Class("parallel")
	}
	if c.StopAt >= 0 {
		res.Class("stop-in-the-middle")
	}
	return res
}

// ---------------------------------------------------------------------------

var PartIndex = &vkit.Part[CaseIndex]{
	Property: Property, Name: "index",
	Rule:  "rapid: hash from {0, +-1, +-2, MinInt, MinInt+1, MaxInt, +-slots, +-slots+-1, +-2*slots, MinInt/2, small range, any int} x lanes 1..1024; NormalizeSlotIndex and MultiLine.IndexOf must lie in [0,lanes) and be stable. Non-trivial: lanes >= 2 and a hash outside [0,lanes); distinct = distinct case JSON",
	Quick: 50000, Thorough: 300000,
	Gen: GenIndex, Exec: ExecIndex,
}

var PartCtl = &vkit.Part[CaseCtl]{
	Property: Property, Name: "controlled",
	Rule:  "rapid: {line | mline (1/2/3/7 lanes) | runner queue (reflective call, delegate, proc) | proc channel} x queue size 0(unbounded)/1/2/8 x 3-16 steps (call with hash incl. negatives, MinInt, MaxInt, and callee behaviour ok / own error / blocks on a harness gate / waits for its context; pre-cancelled contexts; open a gate; cancel a pending or finished call; Stop). Callers are started one at a time and confirmed parked in the result wait (or returned) at quiescence, so the acceptance order is owned. Oracles from the callee-side event log and the callers' results: executed at most once, no overlap per lane, start order = acceptance order, lane index = IndexOf(hash) in range, own result / own error / own context error only, idle lane has executed every accepted call (runner may skip cancelled calls, proc channel drops its backlog at Stop), nothing accepted after Stop, everything terminates (no goroutine of the case and no lane goroutine left). Non-trivial: >= 2 calls queued behind a gate, or a cancel / Stop while calls are pending; distinct = distinct case JSON",
	Quick: 2000, Thorough: 12000,
	Gen: GenCtl, Exec: ExecCtl,
}

var stressRule = "rapid: same executors; 2-8 free-running callers issue 1-10 calls each (hash, own error or value, spinning callee, contexts cancelled concurrently), Stop after a drawn number of issued calls; GOMAXPROCS 1/2/4/8. Oracle: in-lane occupancy counter (no overlap), executed at most once, own results only, nobody parked and no lane goroutine alive after Stop. Non-trivial: >= 2 callers and >= 2 successful calls; distinct = distinct case JSON"

var PartStress = &vkit.Part[CaseStress]{
	Property: Property, Name: "stress",
	Rule:  stressRule,
	Quick: 300, Thorough: 3000,
	Gen: GenStress, Exec: ExecStress,
}

var PartStressRace = &vkit.Part[CaseStress]{
	Property: Property, Name: "race-stress",
	Rule:  stressRule + " (binary built with -race)",
	Quick: 100, Thorough: 1000,
	Gen: GenStress, Exec: ExecStress,
}
