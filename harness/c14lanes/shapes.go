package c14lanes

import (
	"context"
	"fmt"
)

// callSpec is one call as the harness hands it to an executor.
type callSpec struct {
	seq   int // number of the call within the case: argument / request and result are derived from it
	hash  int
	reuse bool // line, mline: fill the shared CallCtx object of an earlier, returned call again
	// shape chooses what the call returns on success and, for the reflective call, the function type
	// (see wantResult / reflectCall)
	shape int
	fn    callee
	// misroute is told when the callee side is handed a request / argument that is not the one of this call
	misroute func(msg string)
	req      *reqT  // the pointer argument of this call (pointer shapes)
	resp     *respT // the pointer result of this call (pointer shapes)
}

func newSpec(seq, hash, shape int, reuse bool, fn callee, misroute func(string)) *callSpec {
	if shape < 0 {
		shape = 0
	}
	return &callSpec{seq: seq, hash: hash, reuse: reuse, shape: shape, fn: fn, misroute: misroute,
		req: &reqT{N: 1000 + seq}, resp: &respT{N: value(seq)}}
}

type reqT struct{ N int }
type respT struct{ N int }

// myErr: a concrete error type a reflective function may declare as its second result
type myErr struct{ inner error }

func (e *myErr) Error() string { return "myErr: " + e.inner.Error() }

type strArg int

func (a strArg) String() string { return fmt.Sprintf("s%d", int(a)) }

func paramOf(seq int) int { return 500000 + 3*seq }

const (
	plainShapes   = 3
	reflectShapes = 10
)

// wantResult is what the caller of a successful call must be handed. Plain forms (line, mline, delegate, proc, proc
// channel) return an interface value: the call's number-derived int, the int 0, or nil. The reflective call returns
// what its function type declares: int / 0 / string / "" / *respT / (*respT)(nil) / interface holding an int / nil
// interface / int next to a concrete error type / false.
func (s *callSpec) wantResult(reflective bool) interface{} {
	if !reflective {
		switch s.shape % plainShapes {
		case 1:
			return 0
		case 2:
			return nil
		}
		return value(s.seq)
	}
	switch s.shape % reflectShapes {
	case 1:
		return 0
	case 2:
		return fmt.Sprintf("r%d", s.seq)
	case 3:
		return ""
	case 4:
		return s.resp
	case 5:
		return (*respT)(nil)
	case 7:
		return nil
	case 9:
		return false
	}
	return value(s.seq) // 0, 6, 8
}

// errResult is the value the harness's own callee returns next to an error (the reflective call hands it through):
// the zero value of the declared result type. A caller that gets an error gets this or nil.
func (s *callSpec) errResult(reflective bool) interface{} {
	if !reflective {
		return nil
	}
	switch s.shape % reflectShapes {
	case 2, 3:
		return ""
	case 4, 5:
		return (*respT)(nil)
	case 6, 7:
		return nil
	case 9:
		return false
	}
	return 0
}

// plain builds the body of a plain-form call.
func (s *callSpec) plain(laneArg int) func(ctx context.Context) (interface{}, error) {
	return func(ctx context.Context) (interface{}, error) {
		v, err := s.fn(ctx, laneArg)
		if err != nil {
			return nil, err
		}
		if v != value(s.seq) {
			return v, nil
		}
		return s.wantResult(false), nil
	}
}

// reflectCall builds function and argument of a reflective call. Every function checks that it was handed the
// argument of its own call.
func (s *callSpec) reflectCall() (fn interface{}, arg interface{}) {
	wrongArg := func(got interface{}) {
		if s.misroute != nil {
			s.misroute(fmt.Sprintf("the reflective call %d was handed the argument %v, not its own", s.seq, got))
		}
	}
	wantInt := 1000 + s.seq
	switch s.shape % reflectShapes {
	case 2, 3:
		wantStr := fmt.Sprintf("a%d", s.seq)
		return func(ctx context.Context, a string) (string, error) {
			_, err := s.fn(ctx, -1)
			if a != wantStr {
				wrongArg(a)
				return "BADARG " + a, err
			}
			if err != nil {
				return "", err
			}
			return s.wantResult(true).(string), nil
		}, wantStr
	case 4, 5:
		return func(ctx context.Context, a *reqT) (*respT, error) {
			_, err := s.fn(ctx, -1)
			if a != s.req {
				wrongArg(a)
				return &respT{N: -1}, err
			}
			if err != nil {
				return nil, err
			}
			return s.wantResult(true).(*respT), nil
		}, s.req
	case 6, 7:
		// an interface-typed parameter (the argument is a concrete value that implements it) and an interface result
		return func(ctx context.Context, a fmt.Stringer) (interface{}, error) {
			_, err := s.fn(ctx, -1)
			if sa, ok := a.(strArg); !ok || int(sa) != wantInt {
				wrongArg(a)
				return "BADARG", err
			}
			if err != nil {
				return nil, err
			}
			return s.wantResult(true), nil
		}, strArg(wantInt)
	case 8:
		// a concrete error type as second result: nil of that type on success
		return func(ctx context.Context, a int) (int, *myErr) {
			v, err := s.fn(ctx, -1)
			if a != wantInt {
				wrongArg(a)
				v = -1000000 - a
			}
			if err != nil {
				return 0, &myErr{inner: err}
			}
			return v, nil
		}, wantInt
	case 9:
		return func(ctx context.Context, a int) (bool, error) {
			_, err := s.fn(ctx, -1)
			if a != wantInt {
				wrongArg(a)
				return true, err
			}
			return false, err
		}, wantInt
	}
	zero := s.shape%reflectShapes == 1
	return func(ctx context.Context, a int) (int, error) {
		v, err := s.fn(ctx, -1)
		if a != wantInt {
			wrongArg(a)
			return -1000000 - a, err
		}
		if err == nil && zero && v == value(s.seq) {
			v = 0
		}
		return v, err
	}, wantInt
}

// unwrapMyErr undoes what shape 8 did to the callee's error.
func unwrapMyErr(err error) error {
	if me, ok := err.(*myErr); ok && me != nil {
		return me.inner
	}
	return err
}
