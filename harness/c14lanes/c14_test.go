package c14lanes

import (
	"testing"

	"verifharness/vkit"
)

func TestMain(m *testing.M) { vkit.Main(m) }

func TestProp_Index(t *testing.T)      { PartIndex.Run(t) }
func TestProp_Controlled(t *testing.T) { PartCtl.Run(t) }
func TestProp_Stress(t *testing.T)     { PartStress.Run(t) }
func TestProp_Long(t *testing.T)       { PartLong.Run(t) }
func TestRace_Stress(t *testing.T)     { PartStressRace.Run(t) }
func TestRace_Long(t *testing.T)       { PartLongRace.Run(t) }

func TestReplay(t *testing.T) {
	PartIndex.Replay(t, 1)
	PartCtl.Replay(t, 1)
	PartStress.Replay(t, 50)
	PartStressRace.Replay(t, 50)
	PartLong.Replay(t, 3)
	PartLongRace.Replay(t, 3)
}
