package c07snowcodec

import (
	"math"
	"os"
	"testing"

	"verifharness/vkit"
)

func TestMain(m *testing.M) { vkit.Main(m) }

func TestProp_Codec(t *testing.T)  { PartCodec.Run(t) }
func TestProp_Ranges(t *testing.T) { PartRange.Run(t) }
func TestProp_Setup(t *testing.T)  { PartSetup.Run(t) }

// One longer history of string conversions per case: harness-built strings, kept strings, malformed strings.
func TestProp_Strings(t *testing.T) { PartStrings.Run(t) }

// The codec functions from several goroutines at once: judged by their answers here, and run once more from the
// binary built with -race (the driver runs TestRace_* from that binary only).
func TestProp_Concurrent(t *testing.T) { PartConc.Run(t) }
func TestRace_Concurrent(t *testing.T) {
	if os.Getenv("VERIF_RACE") != "1" && os.Getenv("VERIF_REPLAY") == "" {
		t.Skip("runs from the -race binary")
	}
	PartConcRace.Run(t)
}

// TestEnum_Grid runs the boundary grid completely (it is a complete enumeration
// of the grid, not of the property's domain, hence exhaustive=false).
func TestEnum_Grid(t *testing.T) { PartGrid.RunCases(t, GridCases(), false) }

// TestEnum_Calendar runs the calendar grid completely (again a complete enumeration of a grid, not of the domain).
func TestEnum_Calendar(t *testing.T) { PartCalendar.RunCases(t, CalendarCases(), false) }

func TestReplay(t *testing.T) {
	PartCodec.Replay(t, 1)
	PartGrid.Replay(t, 1)
	PartRange.Replay(t, 1)
	PartSetup.Replay(t, 1)
	PartCalendar.Replay(t, 1)
	PartStrings.Replay(t, 1)
	PartConc.Replay(t, 50)
	PartConcRace.Replay(t, 50)
}

// FuzzCodec is the raw entry: any two non-negative int64 ids under any layout
// and any epoch of the domain, mutated by the native fuzzer; the oracle is the
// one of part codec.
func FuzzCodec(f *testing.F) {
	if vkit.SeedCorpus() {
		f.Add(int64(0), int64(1), int64(0), uint8(0), false)
		f.Add(int64(math.MaxInt64), int64(math.MaxInt64-1), int64(0), uint8(0), true)
		f.Add(int64(1)<<62|0xfffff, int64(1)<<62, int64(epochDefault-epoch2000UTC), uint8(2), false)
		f.Add(int64(431359554560000000), int64(431359554560004097), int64(epochToday-epoch2000UTC), uint8(1), true)
	}
	f.Fuzz(func(t *testing.T, a, b, epochOff int64, nb uint8, low bool) {
		c := Cfg{NodeBits: 8 + nb%3, NodeLow: low}
		a &= math.MaxInt64
		b &= math.MaxInt64
		epochOff &= math.MaxInt64
		c.EpochMs = epoch2000UTC + epochOff%(epochMaxGen-epoch2000UTC+1)
		PartCodec.FuzzOne(t, CaseCodec{Cfg: c,
			A: IDSpec{TS: a >> c.shift(), Low: a & c.lowMax()},
			B: IDSpec{TS: b >> c.shift(), Low: b & c.lowMax()}})
	})
}
