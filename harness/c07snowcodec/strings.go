package c07snowcodec

import (
	"fmt"

	"github.com/pinealctx/neptune/idgen/snowflake"
	"pgregory.net/rapid"

	"verifharness/vkit"
)

// part 6: the 24-character form over a longer history of one process - strings that were not produced by a CnStyle
// call (built by the harness from the documented form, as if read from storage), strings kept from earlier CnStyle
// calls and converted back later and in another order, and malformed strings in between. The statement fixes one
// thing for all of them: the 24-character form of an id converts back to the identical id - whatever was converted
// before, failed calls included. What FromChStyle answers for a malformed string is not fixed (it is not documented)
// and not asserted.

// StrOp is one call of a history.
type StrOp struct {
	// Op: "from-built"  FromChStyle(harness-built string of id I) == id
	//     "cn"          CnStyle(id I): 24 digits; the string is kept (and its bytes copied)
	//     "from-kept"   FromChStyle(the string CnStyle handed out for id I last; the built one if there is none) == id
	//     "damaged"     FromChStyle(string of id I with the character at Pos replaced by Ch): answer not asserted
	//     "length"      FromChStyle(string of id I cut to Pos characters, or extended by Ch if Pos > 24): not asserted
	Op  string `json:"op"`
	I   int    `json:"i"`
	Pos int    `json:"pos,omitempty"`
	Ch  string `json:"ch,omitempty"`
}

type CaseStrings struct {
	Cfg
	IDs []IDSpec `json:"ids"`
	Ops []StrOp  `json:"ops"`
	// Local: as in CaseCodec - the zone the process-local zone is during the case (0: untouched).
	Local int `json:"local_zone,omitempty"`
}

const dayMs = 86400000

var damageChars = []string{"x", " ", "-", "+", ".", ":", "a", "/", "\x00", "_"}

func GenStrings(t *rapid.T) CaseStrings {
	c := CaseStrings{Cfg: genCfg(t)}
	if rapid.IntRange(0, 5).Draw(t, "localKind") == 0 {
		c.Local = firstDSTLoc + rapid.IntRange(0, len(dstNames)-1).Draw(t, "localZone")
	}
	n := rapid.IntRange(3, 16).Draw(t, "nIDs")
	for i := 0; i < n; i++ {
		s := genID(t, c.Cfg, "id")
		if i > 0 {
			// a relative of an earlier id: another time of the same Shanghai day, the neighbouring day at the same
			// time, the same millisecond with other low bits
			p := c.IDs[rapid.IntRange(0, i-1).Draw(t, "relOf")]
			abs := p.TS + c.EpochMs
			dayStart := (abs+8*3600000)/dayMs*dayMs - 8*3600000
			switch rapid.IntRange(0, 9).Draw(t, "relKind") {
			case 0, 1:
				s.TS = dayStart + rapid.Int64Range(0, dayMs-1).Draw(t, "sameDay") - c.EpochMs
			case 2:
				s.TS = p.TS + dayMs*int64(rapid.SampledFrom([]int{-1, 1}).Draw(t, "nextDay"))
			case 3:
				s.TS = p.TS
			}
			if !c.Cfg.has(s) {
				s.TS = p.TS
			}
		}
		c.IDs = append(c.IDs, s)
	}
	add := func(op StrOp) { c.Ops = append(c.Ops, op) }
	// a first pass of harness-built strings, before CnStyle has seen any id of the case
	if rapid.IntRange(0, 3).Draw(t, "builtFirst") > 0 {
		for _, i := range rapid.Permutation(indices(n)).Draw(t, "builtOrder") {
			add(StrOp{Op: "from-built", I: i})
		}
	}
	for k, m := 0, rapid.IntRange(8, 70).Draw(t, "nOps"); k < m; k++ {
		i := rapid.IntRange(0, n-1).Draw(t, "i")
		switch rapid.IntRange(0, 10).Draw(t, "op") {
		case 0, 1, 2:
			add(StrOp{Op: "cn", I: i})
		case 3, 4, 5:
			add(StrOp{Op: "from-kept", I: i})
		case 6, 7:
			add(StrOp{Op: "from-built", I: i})
		case 8, 9:
			// mostly behind the day digits: the string still names the day of the valid one that follows
			pos := rapid.IntRange(8, 23).Draw(t, "damagePos")
			if rapid.IntRange(0, 3).Draw(t, "damageInDay") == 0 {
				pos = rapid.IntRange(0, 7).Draw(t, "damagePosDay")
			}
			add(StrOp{Op: "damaged", I: i, Pos: pos, Ch: rapid.SampledFrom(damageChars).Draw(t, "damageCh")})
			if rapid.IntRange(0, 3).Draw(t, "validAfter") > 0 {
				add(StrOp{Op: rapid.SampledFrom([]string{"from-kept", "from-built"}).Draw(t, "validKind"), I: i})
			}
		default:
			pos := rapid.IntRange(0, 23).Draw(t, "cutTo")
			ch := ""
			if rapid.IntRange(0, 2).Draw(t, "longer") == 0 {
				pos, ch = 25, rapid.SampledFrom([]string{"0", "9", "00", "x", "1234567"}).Draw(t, "extra")
			}
			add(StrOp{Op: "length", I: i, Pos: pos, Ch: ch})
			if rapid.Bool().Draw(t, "validAfterLength") {
				add(StrOp{Op: "from-kept", I: i})
			}
		}
	}
	return c
}

func indices(n int) []int {
	out := make([]int, n)
	for i := range out {
		out[i] = i
	}
	return out
}

func ExecStrings(c CaseStrings) *vkit.Result {
	res := &vkit.Result{}
	if !c.Cfg.valid() || len(c.IDs) < 1 || len(c.IDs) > 64 || len(c.Ops) > 400 {
		res.Skip("case-outside-domain")
		return res
	}
	for _, s := range c.IDs {
		if !c.Cfg.has(s) {
			res.Skip("case-outside-domain")
			return res
		}
	}
	for _, op := range c.Ops {
		if op.I < 0 || op.I >= len(c.IDs) || op.Pos < 0 || op.Pos > 64 || len(op.Ch) > 16 {
			res.Skip("case-outside-domain")
			return res
		}
	}
	restore := snowflake.VerifSetConfig(c.EpochMs, c.NodeBits, c.NodeLow)
	defer restore()
	defer setLocal(c.Local)()
	// Whatever way the case ends (a failing one stops in the middle of its history), two valid strings of two fixed
	// days are converted afterwards, answers not looked at: the next case - in particular the next candidate of the
	// shrinker - does not start from what a failed or wrongly answered call left behind, so that a failing case fails
	// by its own history and replays on its own.
	defer func() {
		_, _ = snowflake.FromChStyle(cnForm(c.Cfg, IDSpec{TS: 3 * dayMs}))
		_, _ = snowflake.FromChStyle(cnForm(c.Cfg, IDSpec{TS: 0}))
	}()

	type handed struct {
		i    int
		s    string // the string value CnStyle returned
		copy []byte // its bytes at that moment
	}
	var (
		retained   []handed
		kept       = make([]string, len(c.IDs))
		cnSeen     = make([]bool, len(c.IDs))
		lastOK     = -1 // id index of the last successful conversion of a string
		failedOn   = -1 // id index whose string was given malformed in the call before (-1: the call before was not a failed one)
		days       = map[int64]bool{}
		nCn, nFrom int
	)
	str := func(i int) string {
		if kept[i] != "" {
			return kept[i]
		}
		return cnForm(c.Cfg, c.IDs[i])
	}
	day := func(i int) int64 { return (c.IDs[i].TS + c.EpochMs + 8*3600000) / dayMs }
	// A history that would end on a malformed string gets one closing call: the valid string of that id. Every case
	// thus ends with a successful conversion of a valid string, and what a failed call may have left behind is met
	// inside the case that made it (the case replays on its own).
	ops := c.Ops
	for k := len(ops) - 1; k >= 0 && ops[k].Op != "from-built" && ops[k].Op != "from-kept"; k-- {
		if ops[k].Op == "damaged" || ops[k].Op == "length" {
			ops = append(append([]StrOp(nil), ops...), StrOp{Op: "from-built", I: ops[k].I})
			break
		}
	}
	for k, op := range ops {
		s := c.IDs[op.I]
		id := c.Cfg.id(s)
		ctx := fmt.Sprintf("%v, call %d of the history (%s), id=%d (ts=%d low=%d)", c.Cfg, k+1, op.Op, id, s.TS, s.Low)
		if k >= len(c.Ops) {
			ctx += " [closing call added by the executor: the history ended on a malformed string]"
		}
		switch op.Op {
		case "cn":
			out := snowflake.CnStyle(id)
			if len(out) != 24 || !allDigits(out) {
				return res.Failf("CnStyle/form", "%s: CnStyle = %q, want 24 digits", ctx, out)
			}
			retained = append(retained, handed{op.I, out, append([]byte(nil), out...)})
			kept[op.I], cnSeen[op.I] = out, true
			nCn++
		case "from-built", "from-kept":
			in, how := cnForm(c.Cfg, s), "built by the harness from the documented form"
			if op.Op == "from-kept" && kept[op.I] != "" {
				in, how = kept[op.I], "handed out by an earlier CnStyle(id) of this history"
			}
			got, err := snowflake.FromChStyle(in)
			if err != nil || got != id {
				prev := "first conversion of the history"
				if failedOn >= 0 {
					prev = fmt.Sprintf("the FromChStyle call before was given a malformed string of id #%d and failed", failedOn)
				} else if lastOK >= 0 {
					prev = fmt.Sprintf("the last string converted before was the one of id #%d = %d", lastOK, c.Cfg.id(c.IDs[lastOK]))
				}
				site := "FromChStyle/history"
				if failedOn >= 0 {
					site = "FromChStyle/after-failed-call"
				}
				return res.Failf(site, "%s: FromChStyle(%q) = %d, %v, want %d; the string is the 24-character form of the id, %s; %s", ctx, in, got, err, id, how, prev)
			}
			if !cnSeen[op.I] {
				res.Class("string-converted-before-any-CnStyle-of-its-id")
			}
			if failedOn >= 0 {
				res.Class("valid-string-right-after-a-failed-call")
				if failedOn == op.I || day(failedOn) == day(op.I) {
					res.Class("valid-string-right-after-a-failed-call-on-the-same-day")
				}
			}
			if lastOK >= 0 && lastOK != op.I && day(lastOK) == day(op.I) {
				res.Class("string-of-the-same-day-as-the-one-before")
			}
			days[day(op.I)] = true
			lastOK, failedOn = op.I, -1
			nFrom++
		case "damaged", "length":
			in := str(op.I)
			if op.Op == "damaged" {
				if op.Pos >= len(in) {
					res.Skip("damage-position-outside-string")
					continue
				}
				in = in[:op.Pos] + op.Ch + in[op.Pos+1:]
			} else if op.Pos <= len(in) {
				in = in[:op.Pos]
			} else {
				in += op.Ch
			}
			// nothing is asserted about the answer: the library does not document what it does with other strings
			if _, err := snowflake.FromChStyle(in); err != nil {
				res.Class("malformed-string-rejected (not asserted)")
				failedOn = op.I
			} else {
				res.Class("malformed-string-accepted (not asserted)")
				failedOn = -1
			}
		default:
			res.Skip("unknown-op")
			continue
		}
		// every string handed out so far still reads what it read when it was handed out
		for _, h := range retained {
			if h.s != string(h.copy) {
				return res.Failf("CnStyle/retained", "%s: the string CnStyle handed out for id #%d = %d read %q then; after this call the same string value reads %q",
					ctx, h.i, c.Cfg.id(c.IDs[h.i]), h.copy, h.s)
			}
		}
	}
	classifyCfg(res, c.Cfg)
	classifyLocal(res, c.Local)
	if len(retained) >= 2 {
		res.Class("kept-strings>=2")
	}
	if len(days) >= 2 {
		res.Class("days>=2")
	}
	res.NonTrivial = nCn >= 1 && nFrom >= 2 && len(days) >= 2
	return res
}

var PartStrings = &vkit.Part[CaseStrings]{
	Property: Property, Name: "strings",
	Rule:  "rapid: configuration as part codec (one case in six with the process-local zone replaced), 3-16 ids (mixture of part codec; seven of ten later ids are independent, the others relatives of an earlier one: another time of the same Shanghai day, the neighbouring day, the same millisecond) and ONE history of 8-100 calls on them: in three of four cases first FromChStyle of the harness-built string (documented form: Shanghai calendar digits of timestamp+epoch, 3 ms digits, 7 digits of the low bits; CnStyle has not seen the id) of every id in a drawn order, then drawn calls - CnStyle(id) (24 digits; the string is kept), FromChStyle(kept string of an id, handed out any number of calls ago), FromChStyle(harness-built string), FromChStyle(string with a non-digit at a drawn position, three of four behind the day digits, mostly followed by the valid string of the same id), FromChStyle(string cut to 0-23 characters or extended); a history that would end on a malformed string is closed by the valid string of that id. Oracle: every valid string converts back to the identical id whatever was converted before (failed calls included); after every call all strings handed out so far read what they read when handed out. The answer for malformed strings is not asserted. Non-trivial: at least one CnStyle, two conversions of valid strings, ids on two days; distinct = distinct case JSON",
	Quick: 3000, Thorough: 10000,
	Gen: GenStrings, Exec: ExecStrings,
}
