// Package c07snowcodec decides property C07: the snowflake id codec. Splitting
// an id into (timestamp, node, step) and recombining gives back the id, ids
// order as their (timestamp, remaining bits) pairs, the 24-character date form
// converts back to the identical id, and the id interval computed for a time
// interval contains / excludes exactly what the statement says - for every
// layout (node width 8/9/10, node at lowest on/off) and every epoch from 2000 on.
//
// The layout used by the oracle is the documented one (package comment of
// snowflake.go): [0][timestamp][node][step], or [0][timestamp][step][node] with
// node-at-lowest; step is always 12 bits. It is written down here on its own,
// it does not call figureShift.
package c07snowcodec

import (
	"fmt"
	"math"
	"sync"
	"time"
	_ "time/tzdata"

	"github.com/pinealctx/neptune/idgen/snowflake"
	"pgregory.net/rapid"

	"verifharness/vkit"
)

const Property = "C07"

const (
	stepBits = 12
	stepMax  = 1<<stepBits - 1

	// Epoch domain of the generators (milliseconds since 1970, UTC).
	epoch2000UTC = 946684800000  // 2000-01-01T00:00:00Z, the lower bound of the property
	epochDefault = 1609430400000 // the package default (2021-01-01 Asia/Shanghai)
	epochToday   = 1791072000000 // 2026-10-04T00:00:00Z - a constant, the wall clock is never read
	epochMaxGen  = 7258118400000 // 2200-01-01T00:00:00Z, upper bound of generated epochs

	// The last millisecond whose nanosecond count still fits an int64
	// (2262-04-11T23:47:16.854Z): behind it time.Time.UnixNano is undefined.
	nanoLimitMs = math.MaxInt64 / 1000000
)

// Cfg is one package configuration.
type Cfg struct {
	EpochMs  int64 `json:"epoch_ms"`
	NodeBits uint8 `json:"node_bits"`
	NodeLow  bool  `json:"node_at_lowest"`
}

func (c Cfg) valid() bool {
	return (c.NodeBits == 8 || c.NodeBits == 9 || c.NodeBits == 10) && c.EpochMs >= epoch2000UTC && c.EpochMs <= epochMaxGen
}

func (c Cfg) shift() uint   { return uint(c.NodeBits) + stepBits }
func (c Cfg) tsMax() int64  { return int64(1)<<(63-c.shift()) - 1 }
func (c Cfg) lowMax() int64 { return int64(1)<<c.shift() - 1 }
func (c Cfg) nodeMax() int64 {
	return int64(1)<<c.NodeBits - 1
}

// compose builds the low bits from node and step by the documented layout.
func (c Cfg) compose(node, step int64) int64 {
	if c.NodeLow {
		return step<<c.NodeBits | node
	}
	return node<<stepBits | step
}

// split is the inverse of compose (harness side).
func (c Cfg) split(low int64) (node, step int64) {
	if c.NodeLow {
		return low & c.nodeMax(), low >> c.NodeBits
	}
	return low >> stepBits, low & stepMax
}

func (c Cfg) String() string {
	return fmt.Sprintf("epoch=%d nodeBits=%d nodeAtLowest=%v", c.EpochMs, c.NodeBits, c.NodeLow)
}

// IDSpec is an id given by its two documented halves.
type IDSpec struct {
	TS  int64 `json:"ts"`  // timestamp field: ms since the epoch, 0 <= TS < 2^(63-nodeBits-12)
	Low int64 `json:"low"` // remaining nodeBits+12 bits
}

func (c Cfg) has(s IDSpec) bool {
	return s.TS >= 0 && s.TS <= c.tsMax() && s.Low >= 0 && s.Low <= c.lowMax()
}

func (c Cfg) id(s IDSpec) int64 { return s.TS<<c.shift() | s.Low }

// ---------------------------------------------------------------------------
// generators

func genCfg(t *rapid.T) Cfg {
	c := Cfg{NodeBits: rapid.SampledFrom([]uint8{8, 9, 10}).Draw(t, "nodeBits"), NodeLow: rapid.Bool().Draw(t, "nodeAtLowest")}
	switch rapid.IntRange(0, 7).Draw(t, "epochKind") {
	case 0:
		c.EpochMs = epoch2000UTC
	case 1:
		c.EpochMs = epochDefault
	case 2:
		c.EpochMs = epochToday
	case 3, 4: // second-aligned, 2000..today
		c.EpochMs = rapid.Int64Range(epoch2000UTC/1000, epochToday/1000).Draw(t, "epochSec") * 1000
	case 5, 6: // any millisecond, 2000..today
		c.EpochMs = rapid.Int64Range(epoch2000UTC, epochToday).Draw(t, "epochMs")
	default: // an epoch in the future (legal configuration; puts the top of every width behind 2262)
		c.EpochMs = rapid.Int64Range(epochToday, epochMaxGen).Draw(t, "epochFuture")
	}
	return c
}

func clamp(v, lo, hi int64) int64 {
	if v < lo {
		return lo
	}
	if v > hi {
		return hi
	}
	return v
}

// genSpread draws a value of [0,max] that is spread evenly over the range:
// rapid's own integer generators favour small values and the two ends, so the
// drawn word is passed through a fixed bijective mixer (splitmix64 finaliser)
// first. The result is still a pure function of what rapid drew.
func genSpread(t *rapid.T, label string, max int64) int64 {
	z := rapid.Uint64().Draw(t, label) + 0x9e3779b97f4a7c15
	z = (z ^ (z >> 30)) * 0xbf58476d1ce4e5b9
	z = (z ^ (z >> 27)) * 0x94d049bb133111eb
	z ^= z >> 31
	return int64(z % uint64(max+1))
}

// genTS draws a timestamp field inside the configured width from a mixture
// that makes 0, 1, 2^k+-1, the top of the width and both sides of the
// nanosecond horizon (year 2262) common.
func genTS(t *rapid.T, c Cfg, label string) int64 {
	max := c.tsMax()
	w := 63 - int(c.shift())
	horizon := nanoLimitMs - c.EpochMs // last field value whose instant has an int64 nanosecond count
	switch rapid.IntRange(0, 12).Draw(t, label+"Kind") {
	case 0:
		return rapid.Int64Range(0, 1).Draw(t, label+"Zero")
	case 1:
		return rapid.Int64Range(0, max).Draw(t, label+"Any")
	case 2:
		k := rapid.IntRange(1, w-1).Draw(t, label+"Pow")
		return clamp(int64(1)<<uint(k)+int64(rapid.IntRange(-1, 1).Draw(t, label+"PowD")), 0, max)
	case 3: // top of the width
		return max - rapid.SampledFrom([]int64{0, 0, 1, 2, 999, 1000}).Draw(t, label+"TopD")
	case 4: // close to the top
		return max - rapid.Int64Range(0, 100000).Draw(t, label+"TopR")
	case 5: // both sides of the nanosecond horizon, if the width reaches it
		if horizon+4 <= max {
			return horizon + int64(rapid.IntRange(-3, 4).Draw(t, label+"HorD"))
		}
		return max
	case 6: // anywhere behind the horizon, if the width reaches it
		if horizon < max {
			return rapid.Int64Range(horizon+1, max).Draw(t, label+"Behind")
		}
		return rapid.Int64Range(max/2, max).Draw(t, label+"Upper")
	case 7: // around "today" (or small, when the epoch is later)
		d := epochToday - c.EpochMs
		if d < 0 {
			d = 0
		}
		return clamp(d+rapid.Int64Range(-100000000, 100000000).Draw(t, label+"Today"), 0, max)
	default:
		return genSpread(t, label+"Spread", max)
	}
}

func genNode(t *rapid.T, c Cfg, label string) int64 {
	switch rapid.IntRange(0, 7).Draw(t, label+"NodeKind") {
	case 0:
		return 0
	case 1:
		return 1
	case 2:
		return c.nodeMax()
	case 3:
		return int64(1) << (c.NodeBits - 1)
	case 4:
		return rapid.Int64Range(0, c.nodeMax()).Draw(t, label+"Node")
	default:
		return genSpread(t, label+"NodeSpread", c.nodeMax())
	}
}

func genStep(t *rapid.T, label string) int64 {
	switch rapid.IntRange(0, 7).Draw(t, label+"StepKind") {
	case 0:
		return 0
	case 1:
		return 1
	case 2:
		return stepMax
	case 3:
		return 1 << (stepBits - 1)
	case 4:
		return rapid.Int64Range(0, stepMax).Draw(t, label+"Step")
	default:
		return genSpread(t, label+"StepSpread", stepMax)
	}
}

// genLow draws the node+step bits: extremes of both fields, all ones, the
// values around 10^6 (where the 7-digit decimal form needs its padding).
func genLow(t *rapid.T, c Cfg, label string) int64 {
	switch rapid.IntRange(0, 9).Draw(t, label+"LowKind") {
	case 0:
		return c.lowMax()
	case 1:
		return 0
	case 2:
		return clamp(rapid.SampledFrom([]int64{9, 99, 999, 9999, 99999, 999999, 1000000, 1000001}).Draw(t, label+"Dec"), 0, c.lowMax())
	case 3:
		return rapid.Int64Range(0, c.lowMax()).Draw(t, label+"LowAny")
	case 4:
		return genSpread(t, label+"LowSpread", c.lowMax())
	default:
		return c.compose(genNode(t, c, label), genStep(t, label))
	}
}

func genID(t *rapid.T, c Cfg, label string) IDSpec {
	return IDSpec{TS: genTS(t, c, label+"TS"), Low: genLow(t, c, label)}
}

// ---------------------------------------------------------------------------
// part 1: single ids and pairs of ids

type CaseCodec struct {
	Cfg
	A IDSpec `json:"a"`
	B IDSpec `json:"b"`
	// Local, if > 0, is the index (in locs) of the zone the process-local zone (time.Local) is for the duration of the
	// case; 0 leaves the process zone alone (UTC in the checks). The codec must not depend on it.
	Local int `json:"local_zone,omitempty"`
}

func GenCodec(t *rapid.T) CaseCodec {
	c := CaseCodec{Cfg: genCfg(t)}
	c.A = genID(t, c.Cfg, "a")
	switch rapid.IntRange(0, 11).Draw(t, "special") {
	case 0, 1: // the process zone is a daylight-saving zone; every second such id lies around one of ITS fall-back instants
		k := rapid.IntRange(0, len(dstNames)-1).Draw(t, "localZone")
		c.Local = firstDSTLoc + k
		if rapid.Bool().Draw(t, "aAtFallback") {
			if ts, ok := genFallbackTS(t, c.Cfg, k, "a", c.A.TS%1000); ok {
				c.A.TS = ts
			}
		}
	case 2, 3: // a rare calendar day (Shanghai time); the configuration is moved so that the day lies inside its width
		genCalendar(t, &c)
	}
	c.B = c.A
	switch rapid.IntRange(0, 7).Draw(t, "pairKind") {
	case 0: // equal
	case 1: // same timestamp, other low bits
		c.B.Low = genLow(t, c.Cfg, "b")
	case 2: // same low bits, other timestamp
		c.B.TS = genTS(t, c.Cfg, "bTS")
	case 3: // numerically adjacent ids
		id := c.id(c.A)
		if id < math.MaxInt64 {
			id++
		} else {
			id--
		}
		c.B = IDSpec{TS: id >> c.shift(), Low: id & c.lowMax()}
	case 4: // adjacent timestamps, low bits pulling the other way
		if c.A.TS < c.tsMax() {
			c.B.TS = c.A.TS + 1
			c.A.Low, c.B.Low = c.lowMax(), 0
		}
	case 5: // node and step exchanged (orders differently in the two layouts)
		n, s := genNode(t, c.Cfg, "x"), genStep(t, "x")
		c.A.Low = c.compose(n, s&c.nodeMax())
		c.B.Low = c.compose(s&c.nodeMax(), n)
	default:
		c.B = genID(t, c.Cfg, "b")
	}
	return c
}

// genFallbackTS draws a timestamp field within an hour of an instant at which the clocks of dst location k are set
// back (both passes through the repeated wall-clock interval); false if none lies inside the width.
func genFallbackTS(t *rapid.T, c Cfg, k int, label string, msPart int64) (int64, bool) {
	fb := fallBacks[k]
	if len(fb) == 0 {
		return 0, false
	}
	u := rapid.SampledFrom(fb).Draw(t, label+"Transition") + rapid.Int64Range(-3600, 3599).Draw(t, label+"AroundFallback")
	if o := u*1000 - c.EpochMs + msPart; o >= 0 && o <= c.tsMax() {
		return o, true
	}
	return 0, false
}

// Calendar days that are rare among sampled instants. Day 0 of month m+1 is the last day of month m.
var (
	calCenturies = []int{2000, 2100, 2200, 2300, 2400}
	calLeap      = []int{2004, 2024, 2028, 2096, 2104, 2196, 2204, 2296, 2304, 2396, 2404, 2476}
	calNonLeap   = []int{2001, 2023, 2026, 2027, 2099, 2101, 2199, 2201, 2299, 2301, 2399, 2401}
	calDays      = [][2]int{{2, 28}, {2, 29}, {2, 29}, {3, 1}, {12, 31}, {1, 1}}
	calClock     = [][4]int{{0, 0, 0, 0}, {23, 59, 59, 999}, {0, 0, 0, 0}, {23, 59, 59, 999}, {0, 0, 0, 1}, {23, 59, 59, 0}, {12, 0, 0, 500}}
)

// shanghaiMs is the absolute millisecond count of a wall-clock reading in Asia/Shanghai (the zone of the 24-character
// form; no transitions from 1992 on, so the reading is unambiguous).
func shanghaiMs(y, m, d int, clock [4]int) int64 {
	return time.Date(y, time.Month(m), d, clock[0], clock[1], clock[2], clock[3]*1000000, locs[1]).UnixMilli()
}

// genCalendar puts the first id on Feb 28/29, Mar 1, Dec 31, Jan 1 or a month end of a century, leap, non-leap or
// any year, at the first or last millisecond of the day (Shanghai time). If the day is outside the width of the drawn
// configuration the epoch is moved (inside 2000..2200), then the node width reduced to 8; if it still does not fit the
// id stays as drawn.
func genCalendar(t *rapid.T, c *CaseCodec) {
	var y int
	switch rapid.IntRange(0, 4).Draw(t, "calYearKind") {
	case 0, 1:
		y = rapid.SampledFrom(calCenturies).Draw(t, "calCentury")
	case 2:
		y = rapid.SampledFrom(calLeap).Draw(t, "calLeap")
	case 3:
		y = rapid.SampledFrom(calNonLeap).Draw(t, "calNonLeap")
	default:
		y = rapid.IntRange(2000, 2478).Draw(t, "calYear")
	}
	var m, d int
	if k := rapid.IntRange(0, len(calDays)+1).Draw(t, "calDayKind"); k < len(calDays) {
		m, d = calDays[k][0], calDays[k][1]
	} else if k == len(calDays) { // last day of a month
		m, d = rapid.IntRange(1, 12).Draw(t, "calMonthEnd")+1, 0
	} else { // first day of a month
		m, d = rapid.IntRange(1, 12).Draw(t, "calMonthStart"), 1
	}
	abs := shanghaiMs(y, m, d, rapid.SampledFrom(calClock).Draw(t, "calClock"))
	back := genSpread(t, "calEpochBack", Cfg{NodeBits: 8}.tsMax())
	fits := func() bool { o := abs - c.EpochMs; return o >= 0 && o <= c.tsMax() }
	if !fits() {
		c.EpochMs = clamp(abs-back%(c.tsMax()+1), epoch2000UTC, epochMaxGen)
	}
	if !fits() {
		c.NodeBits = 8
		c.A.Low &= c.lowMax()
		c.EpochMs = clamp(abs-back, epoch2000UTC, epochMaxGen)
	}
	if fits() {
		c.A.TS = abs - c.EpochMs
	}
}

func sign(a, b int64) int {
	switch {
	case a < b:
		return -1
	case a > b:
		return 1
	}
	return 0
}

func allDigits(s string) bool {
	for i := 0; i < len(s); i++ {
		if s[i] < '0' || s[i] > '9' {
			return false
		}
	}
	return true
}

// instantOfMs is the harness's own conversion of an absolute millisecond count.
func instantOfMs(ms int64) time.Time {
	sec, rem := ms/1000, ms%1000
	if rem < 0 {
		sec, rem = sec-1, rem+1000
	}
	return time.Unix(sec, rem*1000000)
}

// cnForm is the documented 24-character form of an id, written down on the harness side: year, month, day, hour,
// minute, second (2 digits each, 4 for the year) and millisecond (3 digits) of timestamp+epoch in Asia/Shanghai, then
// the remaining low bits as 7 decimal digits. It does not call CnStyle.
func cnForm(c Cfg, s IDSpec) string {
	abs := s.TS + c.EpochMs
	t := instantOfMs(abs).In(locs[1])
	y, m, d := t.Date()
	hh, mm, ss := t.Clock()
	return fmt.Sprintf("%04d%02d%02d%02d%02d%02d%03d%07d", y, int(m), d, hh, mm, ss, abs%1000, s.Low)
}

// checkOne runs every single-id clause on one id. It returns the fields the
// code reported (used by the ordering clause).
func checkOne(res *vkit.Result, c Cfg, s IDSpec) (ts, node, step int64) {
	id := c.id(s)
	ctx := fmt.Sprintf("%v id=%d (ts=%d low=%d)", c, id, s.TS, s.Low)

	ts, node, step = snowflake.IDFields(id)
	if ts < 0 || ts > c.tsMax() || node < 0 || node > c.nodeMax() || step < 0 || step > stepMax {
		res.Failf("IDFields/range", "%s: IDFields = (%d,%d,%d), outside the field widths (%d,%d,%d)", ctx, ts, node, step, c.tsMax(), c.nodeMax(), stepMax)
		return
	}
	if back := ts<<c.shift() | c.compose(node, step); back != id {
		res.Failf("IDFields/recombine", "%s: IDFields = (%d,%d,%d) recombines to %d", ctx, ts, node, step, back)
		return
	}
	if ts != s.TS {
		res.Failf("IDFields/timestamp", "%s: IDFields timestamp %d, want %d", ctx, ts, s.TS)
		return
	}
	abs := s.TS + c.EpochMs
	if ms, n2, s2 := snowflake.IDParse(id); ms != abs || n2 != node || s2 != step {
		res.Failf("IDParse", "%s: IDParse = (%d,%d,%d), want (%d,%d,%d) = (field+epoch, node, step)", ctx, ms, n2, s2, abs, node, step)
		return
	}
	if tt, n3, s3 := snowflake.IDParseEx(id); !tt.Equal(instantOfMs(abs)) || n3 != node || s3 != step {
		res.Failf("IDParseEx", "%s: IDParseEx = (%v,%d,%d), want (%v,%d,%d)", ctx, tt, n3, s3, instantOfMs(abs).UTC(), node, step)
		return
	}
	// the 24 characters written down by the harness from the documented form (a string that comes from storage, not
	// from a CnStyle call of this process) convert to the id - asked BEFORE CnStyle sees the id
	built := cnForm(c, s)
	if got, err := snowflake.FromChStyle(built); err != nil {
		res.Failf("FromChStyle/built-error", "%s: FromChStyle(%q) fails: %v (the string is the documented form of the id - 17 digits of Shanghai time, 7 digits of the low bits - built by the harness, CnStyle has not been called for the id)", ctx, built, err)
		return
	} else if got != id {
		res.Failf("FromChStyle/built", "%s: FromChStyle(%q) = %d, want %d (the string is the documented form of the id - 17 digits of Shanghai time, 7 digits of the low bits - built by the harness, CnStyle has not been called for the id)", ctx, built, got, id)
		return
	}
	str := snowflake.CnStyle(id)
	if len(str) != 24 {
		res.Failf("CnStyle/len", "%s: CnStyle = %q has %d characters, want 24", ctx, str, len(str))
		return
	}
	if !allDigits(str) {
		res.Failf("CnStyle/digits", "%s: CnStyle = %q is not all digits", ctx, str)
		return
	}
	back, err := snowflake.FromChStyle(str)
	if err != nil {
		res.Failf("FromChStyle/error", "%s: FromChStyle(CnStyle(id)=%q) fails: %v", ctx, str, err)
		return
	}
	if back != id {
		res.Failf("FromChStyle/roundtrip", "%s: FromChStyle(CnStyle(id)=%q) = %d, want %d (instant %s)", ctx, str, back, id, instantOfMs(abs).UTC().Format("2006-01-02T15:04:05.000Z"))
	}
	return
}

func classifyID(res *vkit.Result, c Cfg, s IDSpec) {
	switch {
	case s.TS == 0:
		res.Class("ts=0")
	case s.TS == c.tsMax():
		res.Class("ts=max-of-width")
	case s.TS > c.tsMax()-100000:
		res.Class("ts-near-max")
	}
	if s.TS&(s.TS-1) == 0 || (s.TS+1)&s.TS == 0 || (s.TS-1)&(s.TS-2) == 0 {
		res.Class("ts=2^k+-1")
	}
	if s.TS+c.EpochMs > nanoLimitMs {
		res.Class("instant-after-2262")
	} else if s.TS+c.EpochMs > nanoLimitMs-4 {
		res.Class("instant-at-2262-horizon")
	}
	if (s.TS+c.EpochMs)%1000 != 0 {
		res.Class("ms-part!=0")
	}
	classifyDay(res, s.TS+c.EpochMs)
	switch {
	case s.Low == 0:
		res.Class("low=0")
	case s.Low == c.lowMax():
		res.Class("low=all-ones")
	}
	if s.Low < 1000000 {
		res.Class("low<10^6 (decimal needs padding)")
	}
	if s.Low&(int64(1)<<(c.shift()-1)) != 0 {
		res.Class("low-top-bit-set")
	}
}

// classifyDay counts the rare calendar days (Shanghai time) an id falls on.
func classifyDay(res *vkit.Result, abs int64) {
	t := instantOfMs(abs).In(locs[1])
	y, m, d := t.Date()
	switch {
	case m == 2 && d == 29:
		res.Class("day=Feb-29")
		if y%100 == 0 {
			res.Class(fmt.Sprintf("day=Feb-29-of-%d", y))
		}
	case m == 2 && d == 28:
		res.Class("day=Feb-28")
	case m == 3 && d == 1:
		res.Class("day=Mar-1")
		if y%100 == 0 && y%400 != 0 {
			res.Class("day=Mar-1-of-a-non-leap-century-year")
		}
	case m == 12 && d == 31:
		res.Class("day=Dec-31")
	case m == 1 && d == 1:
		res.Class("day=Jan-1")
	case t.AddDate(0, 0, 1).Day() == 1:
		res.Class("day=month-end")
	}
	hh, mm, ss := t.Clock()
	if hh == 0 && mm == 0 && ss == 0 && t.Nanosecond() == 0 {
		res.Class("clock=00:00:00.000")
	} else if hh == 23 && mm == 59 && ss == 59 && t.Nanosecond() == 999000000 {
		res.Class("clock=23:59:59.999")
	}
}

// The process-local zone. time.Local points at a Location inside package time that is filled in lazily from TZ /
// /etc/localtime; a package that copied the pointer at its own initialisation (var loc = time.Local) keeps seeing
// that Location. setLocal therefore replaces the CONTENT of that Location (after forcing the lazy initialisation), which
// is exactly the state of a process started in the other zone, and puts the old content back afterwards. Cases run one
// at a time in their process; the concurrent part does not touch it.
var localForced = time.Local.String()

func setLocal(idx int) (restore func()) {
	if idx <= 0 || idx >= len(locs) || locs[idx] == time.Local {
		return func() {}
	}
	saved := *time.Local
	*time.Local = *locs[idx]
	return func() { *time.Local = saved }
}

func classifyLocal(res *vkit.Result, idx int) {
	if idx > 0 && idx < len(locs) {
		res.Class(locClass[idx])
	}
}

// locClass / locOddOffset: class label of a process zone, and whether a location's offset has a seconds part.
var locClass, locOddOffset = func() ([]string, []bool) {
	names, odd := make([]string, len(locs)), make([]bool, len(locs))
	for i, l := range locs {
		names[i] = "process-zone=" + l.String()
		_, off := time.Unix(epochToday/1000, 0).In(l).Zone()
		odd[i] = off%60 != 0
	}
	return names, odd
}()

// inFallback reports whether the instant lies in the second pass through a repeated wall-clock interval of locs[idx].
func inFallback(idx int, absMs int64) bool {
	if idx < firstDSTLoc || idx >= firstDSTLoc+len(dstNames) {
		return false
	}
	u := absMs / 1000
	for _, f := range fallBacks[idx-firstDSTLoc] {
		if u >= f && u < f+1800 {
			return true
		}
	}
	return false
}

func classifyCfg(res *vkit.Result, c Cfg) {
	res.Class(fmt.Sprintf("nodeBits=%d", c.NodeBits))
	if c.NodeLow {
		res.Class("node-at-lowest")
	}
	switch {
	case c.EpochMs == epoch2000UTC:
		res.Class("epoch=2000")
	case c.EpochMs > epochToday:
		res.Class("epoch-in-future")
	}
	if c.EpochMs%1000 != 0 {
		res.Class("epoch-not-second-aligned")
	}
}

func ExecCodec(c CaseCodec) *vkit.Result {
	res := &vkit.Result{}
	if !c.Cfg.valid() || !c.Cfg.has(c.A) || !c.Cfg.has(c.B) {
		res.Skip("case-outside-domain")
		return res
	}
	restore := snowflake.VerifSetConfig(c.EpochMs, c.NodeBits, c.NodeLow)
	defer restore()
	defer setLocal(c.Local)()

	ta, na, sa := checkOne(res, c.Cfg, c.A)
	if res.Fail != nil {
		return res
	}
	tb, nb, sb := checkOne(res, c.Cfg, c.B)
	if res.Fail != nil {
		return res
	}
	// id order == lexicographic order of (timestamp, remaining bits), the pair
	// taken from what the code itself reports as the fields.
	ida, idb := c.id(c.A), c.id(c.B)
	want := sign(ta, tb)
	if want == 0 {
		want = sign(c.compose(na, sa), c.compose(nb, sb))
	}
	if got := sign(ida, idb); got != want {
		return res.Failf("order", "%v: ids %d / %d compare %d, their (timestamp, remaining bits) pairs (%d,%d) / (%d,%d) compare %d",
			c.Cfg, ida, idb, got, ta, c.compose(na, sa), tb, c.compose(nb, sb), want)
	}

	classifyCfg(res, c.Cfg)
	classifyID(res, c.Cfg, c.A)
	classifyLocal(res, c.Local)
	if inFallback(c.Local, c.A.TS+c.EpochMs) {
		res.Class("id-in-repeated-wall-clock-interval-of-the-process-zone")
	}
	switch {
	case c.A == c.B:
		res.Class("pair-equal")
	case c.A.TS == c.B.TS:
		res.Class("pair-same-timestamp")
	case c.A.TS-c.B.TS == 1 || c.B.TS-c.A.TS == 1:
		res.Class("pair-adjacent-timestamps")
	}
	if c.A.TS != c.B.TS && sign(c.A.TS, c.B.TS) != sign(c.A.Low, c.B.Low) && c.A.Low != c.B.Low {
		res.Class("pair-low-bits-pull-the-other-way")
	}
	n, s := c.Cfg.split(c.A.Low)
	res.NonTrivial = n != 0 && s != 0 && c.A.TS >= 1<<20
	return res
}

// GridCases is a complete enumeration of a boundary grid: every layout x three
// epochs x {0,1,2^k-1,2^k,2^k+1, top of the width, both sides of the 2262
// horizon} x eight low-bit patterns. Deterministic, independent of the seed.
func GridCases() []CaseCodec {
	var out []CaseCodec
	for _, nb := range []uint8{8, 9, 10} {
		for _, low := range []bool{false, true} {
			for _, ep := range []int64{epoch2000UTC, epochDefault, epochToday} {
				c := Cfg{EpochMs: ep, NodeBits: nb, NodeLow: low}
				var tss []int64
				add := func(v int64) {
					if v >= 0 && v <= c.tsMax() {
						tss = append(tss, v)
					}
				}
				add(0)
				for k := 0; k < 63-int(c.shift()); k++ {
					add(int64(1)<<uint(k) - 1)
					add(int64(1) << uint(k))
					add(int64(1)<<uint(k) + 1)
				}
				add(c.tsMax() - 1)
				add(c.tsMax())
				for d := int64(-2); d <= 2; d++ {
					add(nanoLimitMs - ep + d)
				}
				lows := []int64{0, 1, c.lowMax(), 999999, 1000000, int64(1) << (c.shift() - 1), c.compose(c.nodeMax(), 0), c.compose(0, stepMax)}
				for _, ts := range tss {
					for i, l := range lows {
						a := IDSpec{TS: ts, Low: l}
						b := IDSpec{TS: ts, Low: lows[(i+1)%len(lows)]}
						out = append(out, CaseCodec{Cfg: c, A: a, B: b})
					}
				}
			}
		}
	}
	return out
}

// ---------------------------------------------------------------------------
// part 2: id intervals of time intervals

// Instant is a point in time given relative to the epoch of the case.
type Instant struct {
	Off int64 `json:"off_ms"` // whole milliseconds since the epoch, inside the timestamp width
	Ns  int32 `json:"ns"`     // nanoseconds inside that millisecond, 0..999999
	Loc int   `json:"loc"`    // location the time.Time value carries (irrelevant to the instant)
}

type CaseRange struct {
	Cfg
	Begin  Instant  `json:"begin"`
	End    Instant  `json:"end"`
	Probes []IDSpec `json:"probes"` // extra ids, on top of the ones constructed on every edge
	// Local: as in CaseCodec - the zone the process-local zone is during the case (0: untouched).
	Local int `json:"local_zone,omitempty"`
}

var locs = func() []*time.Location {
	sh, err := time.LoadLocation("Asia/Shanghai")
	if err != nil {
		sh = time.FixedZone("CST", 8*3600)
	}
	out := []*time.Location{time.UTC, sh, time.FixedZone("west", -(11*3600 + 1800)), time.FixedZone("east", 14*3600)}
	// locations with daylight-saving time (zone data embedded through time/tzdata): wall-clock readings repeat in the
	// fall-back hour, so anything that rebuilds a time from its calendar fields goes wrong there
	for _, name := range dstNames {
		if l, err := time.LoadLocation(name); err == nil {
			out = append(out, l)
		} else {
			out = append(out, time.UTC)
		}
	}
	// offsets with a seconds part (the textual forms of an offset have none) and the process-local zone itself
	out = append(out, time.FixedZone("lmt-east", 8*3600+5*60+43), time.FixedZone("lmt-west", -1), time.Local)
	return out
}()

var dstNames = []string{"America/New_York", "Europe/Berlin", "Australia/Lord_Howe"}

const firstDSTLoc = 4

// fallBacks[k] lists the instants (unix seconds) at which the clocks of locs[firstDSTLoc+k] are set back, 1990..2045.
var fallBacks = func() [][]int64 {
	out := make([][]int64, len(dstNames))
	for k := range dstNames {
		l := locs[firstDSTLoc+k]
		start := time.Date(1990, 1, 1, 0, 0, 0, 0, time.UTC).Unix()
		end := time.Date(2045, 1, 1, 0, 0, 0, 0, time.UTC).Unix()
		// day steps find the days on which the offset drops, half-hour steps inside such a day find the instant
		// (transitions of these zones fall on whole half hours)
		_, prevDay := time.Unix(start, 0).In(l).Zone()
		for d := start; d < end; d += 86400 {
			_, offDay := time.Unix(d+86400, 0).In(l).Zone()
			if offDay < prevDay {
				prev := prevDay
				for u := d + 1800; u <= d+86400; u += 1800 {
					_, off := time.Unix(u, 0).In(l).Zone()
					if off < prev {
						out[k] = append(out[k], u)
					}
					prev = off
				}
			}
			prevDay = offDay
		}
	}
	return out
}()

func (c Cfg) timeOf(i Instant) time.Time {
	abs := c.EpochMs + i.Off
	l := locs[0]
	if i.Loc >= 0 && i.Loc < len(locs) {
		l = locs[i.Loc]
	}
	return time.Unix(abs/1000, (abs%1000)*1000000+int64(i.Ns)).In(l)
}

func (c Cfg) hasInstant(i Instant) bool {
	return i.Off >= 0 && i.Off <= c.tsMax() && i.Ns >= 0 && i.Ns <= 999999
}

// genInstant draws an instant; localK >= 0 names the daylight-saving location that is the process zone of the case:
// every second instant then lies around one of its fall-back moments.
func genInstant(t *rapid.T, c Cfg, label string, localK int) Instant {
	off := genTS(t, c, label)
	// choose the position inside the second (of the absolute time, which is what
	// gets truncated)
	abs := c.EpochMs + off
	var r int64 = -1
	switch rapid.IntRange(0, 5).Draw(t, label+"Align") {
	case 0:
		r = 0
	case 1:
		r = 999
	case 2:
		r = 1
	case 3:
		r = rapid.Int64Range(0, 999).Draw(t, label+"MsPart")
	}
	if r >= 0 {
		if o := off - abs%1000 + r; o >= 0 && o <= c.tsMax() {
			off = o
		}
	}
	ns := rapid.SampledFrom([]int32{0, 0, 1, 999999, 500000}).Draw(t, label+"Ns")
	if rapid.IntRange(0, 3).Draw(t, label+"NsKind") == 0 {
		ns = rapid.Int32Range(0, 999999).Draw(t, label+"NsAny")
	}
	in := Instant{Off: off, Ns: ns, Loc: rapid.IntRange(0, len(locs)-1).Draw(t, label+"Loc")}
	// one instant in eight lies around a moment at which a daylight-saving location sets its clocks back (first or
	// second pass through the repeated wall-clock interval), carried in that location
	if localK >= 0 {
		if rapid.Bool().Draw(t, label+"LocalFallback") {
			if o, ok := genFallbackTS(t, c, localK, label, off%1000); ok {
				in.Off = o // carried in any location: the process zone is not the one of the value
			}
		}
		return in
	}
	if rapid.IntRange(0, 7).Draw(t, label+"Fallback") == 0 {
		k := rapid.IntRange(0, len(dstNames)-1).Draw(t, label+"DstLoc")
		if o, ok := genFallbackTS(t, c, k, label, off%1000); ok {
			in.Off, in.Loc = o, firstDSTLoc+k
		}
	}
	return in
}

func GenRange(t *rapid.T) CaseRange {
	c := CaseRange{Cfg: genCfg(t)}
	max := c.tsMax()
	localK := -1
	if rapid.IntRange(0, 5).Draw(t, "localKind") == 0 {
		localK = rapid.IntRange(0, len(dstNames)-1).Draw(t, "localZone")
		c.Local = firstDSTLoc + localK
	}
	c.Begin = genInstant(t, c.Cfg, "begin", localK)
	c.End = c.Begin
	switch rapid.IntRange(0, 7).Draw(t, "endKind") {
	case 0: // the same instant
	case 1: // later inside the same millisecond / second
		c.End.Ns = rapid.Int32Range(c.Begin.Ns, 999999).Draw(t, "endNs")
		abs := c.EpochMs + c.Begin.Off
		c.End.Off = clamp(c.Begin.Off+rapid.Int64Range(0, 999-abs%1000).Draw(t, "endSameSec"), 0, max)
	case 2: // the next few seconds
		c.End.Off = clamp(c.Begin.Off+rapid.Int64Range(1, 5000).Draw(t, "endNear"), 0, max)
	case 3: // up to the top of the width
		c.End.Off = max - rapid.SampledFrom([]int64{0, 1, 999, 1000, 1001}).Draw(t, "endTop")
		if c.End.Off < c.Begin.Off {
			c.End.Off = c.Begin.Off
		}
	default:
		e := genInstant(t, c.Cfg, "end", localK)
		if e.Off < c.Begin.Off || (e.Off == c.Begin.Off && e.Ns < c.Begin.Ns) {
			c.Begin, e = e, c.Begin
		}
		c.End = e
	}
	if c.End.Off == c.Begin.Off && c.End.Ns < c.Begin.Ns {
		c.End.Ns = c.Begin.Ns
	}
	c.End.Loc = rapid.IntRange(0, len(locs)-1).Draw(t, "endLoc")
	bEdge := (c.EpochMs+c.Begin.Off)/1000*1000 - c.EpochMs
	eEdge := (c.EpochMs+c.End.Off)/1000*1000 - c.EpochMs
	for i, k := 0, rapid.IntRange(0, 6).Draw(t, "nProbes"); i < k; i++ {
		var ts int64
		switch rapid.IntRange(0, 4).Draw(t, "probeKind") {
		case 0:
			ts = bEdge + rapid.SampledFrom([]int64{-1001, -1000, -999, -2, -1, 0, 1, 999, 1000}).Draw(t, "probeBD")
		case 1:
			ts = eEdge + rapid.SampledFrom([]int64{-1, 0, 1, 2, 500, 998, 999, 1000, 1001, 2000}).Draw(t, "probeED")
		case 2:
			ts = rapid.SampledFrom([]int64{bEdge, eEdge}).Draw(t, "probeEdge") + rapid.Int64Range(-5000, 5000).Draw(t, "probeD")
		case 3:
			ts = rapid.Int64Range(c.Begin.Off, c.End.Off).Draw(t, "probeInside")
		default:
			ts = genTS(t, c.Cfg, "probeTS")
		}
		c.Probes = append(c.Probes, IDSpec{TS: clamp(ts, 0, max), Low: genLow(t, c.Cfg, "probe")})
	}
	return c
}

// checkInterval decides one (min,max) answer against the statement: every id
// whose absolute millisecond timestamp lies in [bSec*1000, eSec*1000] is inside,
// every id whose timestamp is < bSec*1000 or >= eSec*1000+1000 is outside;
// the rest of the last second is left open by the statement and not asserted.
func checkInterval(res *vkit.Result, api string, c Cfg, min, max, bSec, eSec int64, probes []IDSpec, what string) {
	if res.Fail != nil {
		return
	}
	lo, hi := bSec*1000, eSec*1000
	for _, p := range probes {
		if !c.has(p) {
			res.Class("some-edge-probe-not-constructible-inside-the-width")
			continue
		}
		id := c.id(p)
		abs := p.TS + c.EpochMs
		in := min <= id && id <= max
		switch {
		case abs >= lo && abs <= hi:
			if !in {
				res.Failf(api+"/contains", "%v %s = [%d,%d]: id %d (timestamp %d ms = field %d, low %d) lies in the second-truncated interval [%d,%d] ms but outside the id interval",
					c, what, min, max, id, abs, p.TS, p.Low, lo, hi)
				return
			}
			res.Class("probe-inside")
		case abs < lo || abs >= hi+1000:
			if in {
				res.Failf(api+"/excludes", "%v %s = [%d,%d]: id %d (timestamp %d ms = field %d, low %d) lies outside the seconds [%d,%d] ms but inside the id interval",
					c, what, min, max, id, abs, p.TS, p.Low, lo, hi+999)
				return
			}
			res.Class("probe-outside")
		default:
			res.Class("probe-in-open-rest-of-last-second (not asserted)")
		}
	}
}

// edgeProbes constructs the ids just inside and just outside each edge.
func edgeProbes(c Cfg, bSec, eSec int64) []IDSpec {
	b, e := bSec*1000-c.EpochMs, eSec*1000-c.EpochMs
	ones := c.lowMax()
	mid := c.compose(c.nodeMax()/2+1, stepMax/2+1)
	return []IDSpec{
		{b, 0}, {b, ones}, {b, mid}, // first millisecond of the first second
		{b - 1, ones}, {b - 1, 0}, {b - 1, mid}, // the millisecond before it
		{b - 1000, ones},
		{e, ones}, {e, 0}, {e, mid}, // first millisecond of the last second
		{e + 1000, 0}, {e + 1000, ones}, {e + 1000, mid}, // first millisecond of the second after
		{e + 1, 0}, {e + 999, ones}, // open zone (counted, not asserted)
		{b + (e-b)/2, mid}, {b + (e-b)/2 + 1, 0},
		{0, 0}, {c.tsMax(), ones}, // the smallest and the largest id
	}
}

func ExecRange(c CaseRange) *vkit.Result {
	res := &vkit.Result{}
	if !c.Cfg.valid() || !c.Cfg.hasInstant(c.Begin) || !c.Cfg.hasInstant(c.End) {
		res.Skip("case-outside-domain")
		return res
	}
	if c.End.Off < c.Begin.Off || (c.End.Off == c.Begin.Off && c.End.Ns < c.Begin.Ns) {
		res.Skip("begin-after-end")
		return res
	}
	restore := snowflake.VerifSetConfig(c.EpochMs, c.NodeBits, c.NodeLow)
	defer restore()
	defer setLocal(c.Local)()

	bAbs, eAbs := c.EpochMs+c.Begin.Off, c.EpochMs+c.End.Off
	bSec, eSec := bAbs/1000, eAbs/1000 // both positive: floor
	bt, et := c.timeOf(c.Begin), c.timeOf(c.End)

	min, max := snowflake.TimeBetweenID(bt, et)
	probes := append(edgeProbes(c.Cfg, bSec, eSec), c.Probes...)
	checkInterval(res, "TimeBetweenID", c.Cfg, min, max, bSec, eSec, probes,
		fmt.Sprintf("TimeBetweenID(%s, %s)", bt.UTC().Format(time.RFC3339Nano), et.UTC().Format(time.RFC3339Nano)))

	// TimeIDRange(t) is the same with begin = end = t
	for _, x := range []struct {
		t   time.Time
		sec int64
	}{{bt, bSec}, {et, eSec}} {
		mn, mx := snowflake.TimeIDRange(x.t)
		probes = append(edgeProbes(c.Cfg, x.sec, x.sec), c.Probes...)
		checkInterval(res, "TimeIDRange", c.Cfg, mn, mx, x.sec, x.sec, probes, fmt.Sprintf("TimeIDRange(%s)", x.t.UTC().Format(time.RFC3339Nano)))
	}
	if res.Fail != nil {
		return res
	}

	classifyCfg(res, c.Cfg)
	sub := bAbs%1000 != 0 || c.Begin.Ns != 0 || eAbs%1000 != 0 || c.End.Ns != 0
	if sub {
		res.Class("sub-second-part!=0")
	}
	switch {
	case c.Begin.Off == c.End.Off && c.Begin.Ns == c.End.Ns:
		res.Class("begin=end")
	case bSec == eSec:
		res.Class("begin,end-in-one-second")
	}
	if bSec*1000 < c.EpochMs {
		res.Class("begin-second-starts-before-epoch")
	}
	if eAbs > nanoLimitMs {
		res.Class("instant-after-2262")
	}
	if eSec*1000+1000-c.EpochMs > c.tsMax() {
		res.Class("end-in-last-second-of-width")
	}
	if c.Begin.Off == 0 {
		res.Class("begin=epoch")
	}
	classifyLocal(res, c.Local)
	if inFallback(c.Local, bAbs) || inFallback(c.Local, eAbs) {
		res.Class("instant-in-repeated-wall-clock-interval-of-the-process-zone")
	}
	for _, l := range []int{c.Begin.Loc, c.End.Loc} {
		if l >= 0 && l < len(locs) {
			if locOddOffset[l] {
				res.Class("instant-carried-with-an-offset-that-has-seconds")
			}
			if locs[l] == time.Local {
				res.Class("instant-carried-in-the-process-zone")
			}
		}
	}
	res.NonTrivial = sub
	return res
}

// ---------------------------------------------------------------------------
// part 3: Setup / UseEpoch / UseNodeMode / NodeAtLowest reach the codec

type CaseSetup struct {
	Base      Cfg     `json:"base"` // configuration in force before Setup
	UseEpoch  bool    `json:"use_epoch"`
	Epoch     Instant `json:"epoch"` // Off is relative to 2000-01-01T00:00:00Z here
	UseMode   bool    `json:"use_mode"`
	Mode      uint8   `json:"mode"` // 8, 9, 10
	UseLowest bool    `json:"use_lowest"`
	Reverse   bool    `json:"reverse"` // options given in reverse order
	Probe     IDSpec  `json:"probe"`   // low bits are cut to the resulting width
	// Local: as in CaseCodec - the zone the process-local zone is during the case (0: untouched). The configured epoch
	// is the instant the caller passed, whatever wall-clock reading it has in the process zone.
	Local int `json:"local_zone,omitempty"`
}

func GenSetup(t *rapid.T) CaseSetup {
	c := CaseSetup{Base: genCfg(t)}
	c.UseEpoch = rapid.Bool().Draw(t, "useEpoch")
	c.UseMode = rapid.Bool().Draw(t, "useMode")
	c.UseLowest = rapid.Bool().Draw(t, "useLowest")
	c.Reverse = rapid.Bool().Draw(t, "reverse")
	c.Mode = rapid.SampledFrom([]uint8{8, 9, 10}).Draw(t, "mode")
	e := genCfg(t).EpochMs
	c.Epoch = Instant{Off: e - epoch2000UTC, Ns: rapid.SampledFrom([]int32{0, 1, 999999}).Draw(t, "epochNs"), Loc: rapid.IntRange(0, len(locs)-1).Draw(t, "epochLoc")}
	// one case in four runs with a daylight-saving process zone; two of three epochs then lie within an hour of an
	// instant at which THAT zone sets its clocks back (both passes through the repeated wall-clock interval)
	if rapid.IntRange(0, 3).Draw(t, "localKind") == 0 {
		k := rapid.IntRange(0, len(dstNames)-1).Draw(t, "localZone")
		c.Local = firstDSTLoc + k
		if rapid.IntRange(0, 2).Draw(t, "epochAtFallback") > 0 {
			if o, ok := genFallbackTS(t, Cfg{EpochMs: epoch2000UTC, NodeBits: 8}, k, "epoch", e%1000); ok && epoch2000UTC+o <= epochMaxGen {
				c.Epoch.Off = o
			}
		}
	}
	exp := c.expected()
	c.Probe = genID(t, exp, "probe")
	return c
}

func (c CaseSetup) expected() Cfg {
	exp := c.Base
	if c.UseEpoch {
		exp.EpochMs = epoch2000UTC + c.Epoch.Off
	}
	if c.UseMode {
		exp.NodeBits = c.Mode
	}
	if c.UseLowest {
		exp.NodeLow = true
	}
	return exp
}

func ExecSetup(c CaseSetup) *vkit.Result {
	res := &vkit.Result{}
	exp := c.expected()
	if !c.Base.valid() || !exp.valid() || c.Epoch.Ns < 0 || c.Epoch.Ns > 999999 || (c.Mode != 8 && c.Mode != 9 && c.Mode != 10) {
		res.Skip("case-outside-domain")
		return res
	}
	p := IDSpec{TS: c.Probe.TS, Low: c.Probe.Low & exp.lowMax()}
	if !exp.has(p) {
		res.Skip("probe-outside-width")
		return res
	}
	restore := snowflake.VerifSetConfig(c.Base.EpochMs, c.Base.NodeBits, c.Base.NodeLow)
	defer restore()
	defer setLocal(c.Local)()

	var opts []snowflake.Option
	if c.UseEpoch {
		opts = append(opts, snowflake.UseEpoch(Cfg{EpochMs: epoch2000UTC}.timeOf(c.Epoch)))
	}
	if c.UseMode {
		opts = append(opts, snowflake.UseNodeMode(snowflake.NodeBitsMode(c.Mode)))
	}
	if c.UseLowest {
		opts = append(opts, snowflake.NodeAtLowest())
	}
	if c.Reverse {
		for i, j := 0, len(opts)-1; i < j; i, j = i+1, j-1 {
			opts[i], opts[j] = opts[j], opts[i]
		}
	}
	snowflake.Setup(opts...)

	id := exp.id(p)
	node, step := exp.split(p.Low)
	if ms, n, s := snowflake.IDParse(id); ms != p.TS+exp.EpochMs || n != node || s != step {
		return res.Failf("Setup", "base %v, Setup(epoch:%v %s, mode:%v %d, lowest:%v): IDParse(%d) = (%d,%d,%d), want (%d,%d,%d) of layout %v",
			c.Base, c.UseEpoch, Cfg{EpochMs: epoch2000UTC}.timeOf(c.Epoch).UTC().Format(time.RFC3339Nano), c.UseMode, c.Mode, c.UseLowest,
			id, ms, n, s, p.TS+exp.EpochMs, node, step, exp)
	}
	if c.UseEpoch {
		res.Class("UseEpoch")
		if c.Epoch.Ns != 0 {
			res.Class("UseEpoch-with-sub-ms-part")
		}
		if inFallback(c.Local, exp.EpochMs) {
			res.Class("UseEpoch-in-repeated-wall-clock-interval-of-the-process-zone")
		}
	}
	if c.UseMode {
		res.Class(fmt.Sprintf("UseNodeMode(%d)", c.Mode))
	}
	if c.UseLowest {
		res.Class("NodeAtLowest")
	}
	if c.Base.NodeLow && !c.UseLowest {
		res.Class("node-at-lowest-inherited")
	}
	if len(opts) == 0 {
		res.Class("no-option")
	}
	classifyLocal(res, c.Local)
	res.NonTrivial = len(opts) > 0 && node != 0 && step != 0 && p.TS >= 1<<20
	return res
}

// ---------------------------------------------------------------------------
// part 4: every year of the width on its rare calendar days (complete enumeration of that grid)

// CalendarCases enumerates, for every node width and the epochs 2000 / 2026 / 2200, every calendar year the width
// reaches on Jan 1, Feb 28, Feb 29 (leap years), Mar 1 and Dec 31, and the century, first, last and every 25th year
// on all twelve month ends; the first id of a case is the first millisecond of that day in Shanghai time, the second
// the last one. Days that do not lie completely inside the width are left out.
func CalendarCases() []CaseCodec {
	var out []CaseCodec
	for i, nb := range []uint8{8, 9, 10} {
		for j, ep := range []int64{epoch2000UTC, epochToday, epochMaxGen} {
			c := Cfg{EpochMs: ep, NodeBits: nb, NodeLow: (i+j)%2 == 1}
			y0 := instantOfMs(ep).In(locs[1]).Year()
			y1 := instantOfMs(ep + c.tsMax()).In(locs[1]).Year()
			n := 0
			add := func(y, m, d int) {
				a := IDSpec{TS: shanghaiMs(y, m, d, [4]int{0, 0, 0, 0}) - ep}
				b := IDSpec{TS: shanghaiMs(y, m, d, [4]int{23, 59, 59, 999}) - ep}
				if a.TS < 0 || b.TS > c.tsMax() {
					return
				}
				lows := []int64{0, c.lowMax(), 999999, c.compose(c.nodeMax(), 1)}
				a.Low, b.Low = lows[n%4], lows[(n+1)%4]
				n++
				out = append(out, CaseCodec{Cfg: c, A: a, B: b})
			}
			for y := y0; y <= y1; y++ {
				add(y, 1, 1)
				add(y, 2, 28)
				if y%4 == 0 && (y%100 != 0 || y%400 == 0) {
					add(y, 2, 29)
				}
				add(y, 3, 1)
				add(y, 12, 31)
				if y%100 == 0 || y%25 == 0 || y <= y0+1 || y >= y1-1 {
					for m := 1; m <= 12; m++ {
						add(y, m+1, 0)
						add(y, m, 1)
					}
				}
			}
		}
	}
	return out
}

// ---------------------------------------------------------------------------
// part 5: the codec functions called from several goroutines at once

// CaseConc is one configuration and, per goroutine, the ids it converts. The codec functions only read the
// configuration, so calling them concurrently (the configuration is not changed meanwhile) must give every goroutine
// the answers it gets alone.
type CaseConc struct {
	Cfg
	IDs    [][]IDSpec `json:"ids"`    // one list per goroutine
	Rounds int        `json:"rounds"` // every goroutine walks its list this many times
}

func GenConc(t *rapid.T) CaseConc {
	c := CaseConc{Cfg: genCfg(t), Rounds: rapid.IntRange(1, 4).Draw(t, "rounds")}
	g := rapid.IntRange(4, 8).Draw(t, "goroutines")
	for i := 0; i < g; i++ {
		var ids []IDSpec
		for j, n := 0, rapid.IntRange(4, 16).Draw(t, "nIDs"); j < n; j++ {
			ids = append(ids, genID(t, c.Cfg, "id"))
		}
		c.IDs = append(c.IDs, ids)
	}
	return c
}

func ExecConc(c CaseConc) *vkit.Result {
	res := &vkit.Result{}
	if !c.Cfg.valid() || len(c.IDs) < 1 || len(c.IDs) > 16 || c.Rounds < 1 || c.Rounds > 16 {
		res.Skip("case-outside-domain")
		return res
	}
	for _, ids := range c.IDs {
		for _, s := range ids {
			if !c.Cfg.has(s) {
				res.Skip("case-outside-domain")
				return res
			}
		}
	}
	restore := snowflake.VerifSetConfig(c.EpochMs, c.NodeBits, c.NodeLow)
	defer restore()

	results := make([]*vkit.Result, len(c.IDs))
	start := make(chan struct{})
	var wg sync.WaitGroup
	for g := range c.IDs {
		results[g] = &vkit.Result{}
		wg.Add(1)
		go func(r *vkit.Result, ids []IDSpec) {
			defer wg.Done()
			defer func() {
				if p := recover(); p != nil {
					r.Failf("panic", "panic: %v", p)
				}
			}()
			<-start
			kept := make([]string, len(ids))   // the string CnStyle handed out for each own id in this round
			copies := make([][]byte, len(ids)) // its bytes, copied at once
			for round := 0; round < c.Rounds && r.Fail == nil; round++ {
				for j, s := range ids {
					// fields / recombination, IDParse, IDParseEx, CnStyle 24 digits, FromChStyle(CnStyle(id)) == id
					if checkOne(r, c.Cfg, s); r.Fail != nil {
						return
					}
					// TimeIDRange of the id's own instant: the id of the first millisecond of that second is inside,
					// the millisecond before and the following second are outside
					abs := s.TS + c.EpochMs
					at := instantOfMs(abs)
					mn, mx := snowflake.TimeIDRange(at)
					checkInterval(r, "TimeIDRange", c.Cfg, mn, mx, abs/1000, abs/1000, edgeProbes(c.Cfg, abs/1000, abs/1000),
						fmt.Sprintf("TimeIDRange(%s)", at.UTC().Format(time.RFC3339Nano)))
					if r.Fail != nil {
						return
					}
					// TimeBetweenID of an interval of its own: from the earlier to the later of (first own id, this id).
					// The begin instant stays the same for many calls of a goroutine while the other goroutines ask
					// for theirs.
					bAbs, eAbs := ids[0].TS+c.EpochMs, abs
					if bAbs > eAbs {
						bAbs, eAbs = eAbs, bAbs
					}
					bt, et := instantOfMs(bAbs), instantOfMs(eAbs)
					mn, mx = snowflake.TimeBetweenID(bt, et)
					checkInterval(r, "TimeBetweenID", c.Cfg, mn, mx, bAbs/1000, eAbs/1000, edgeProbes(c.Cfg, bAbs/1000, eAbs/1000),
						fmt.Sprintf("TimeBetweenID(%s, %s)", bt.UTC().Format(time.RFC3339Nano), et.UTC().Format(time.RFC3339Nano)))
					if r.Fail != nil {
						return
					}
					kept[j] = snowflake.CnStyle(c.Cfg.id(s))
					copies[j] = append(copies[j][:0], kept[j]...)
				}
				// the strings of the whole walk, kept: still what was handed out, and converting back to their ids in
				// the opposite order (after all the other conversions)
				for j := len(ids) - 1; j >= 0; j-- {
					id := c.Cfg.id(ids[j])
					if kept[j] != string(copies[j]) {
						r.Failf("CnStyle/retained", "%v id=%d: the string CnStyle handed out was %q, after later conversions the same string value reads %q", c.Cfg, id, copies[j], kept[j])
						return
					}
					if got, err := snowflake.FromChStyle(kept[j]); err != nil || got != id {
						r.Failf("FromChStyle/kept", "%v id=%d: FromChStyle(%q) = %d, %v for the string CnStyle(id) handed out earlier (other ids converted in between), want %d", c.Cfg, id, kept[j], got, err, id)
						return
					}
				}
			}
		}(results[g], c.IDs[g])
	}
	close(start)
	wg.Wait()
	for g, r := range results {
		if r.Fail != nil {
			return res.Failf(r.Fail.Site, "goroutine %d of %d (all converting their own ids under one configuration): %s", g+1, len(results), r.Fail.Msg)
		}
	}
	classifyCfg(res, c.Cfg)
	res.Class(fmt.Sprintf("goroutines=%d", len(c.IDs)))
	res.NonTrivial = len(c.IDs) >= 2
	return res
}

// ---------------------------------------------------------------------------

const codecRule = "rapid: configuration (node bits 8/9/10 x node-at-lowest x epoch: 2000-01-01, package default, 2026, any second / any millisecond in 2000..2026, or a future epoch up to 2200) through VerifSetConfig; two ids built from (timestamp, low bits): timestamp from {0, 1, 2^k-1/2^k/2^k+1, top of the width and the 100 000 ms below it, both sides of the year-2262 nanosecond horizon, anywhere behind it, around today, rapid-uniform, evenly spread}, low bits from {0, all ones, around 10^6, rapid-uniform, evenly spread, node x step with each from {0,1,max,top bit,rapid-uniform,evenly spread}}; one case in six runs with the process-local zone replaced by New York / Berlin / Lord Howe (every second first id then within an hour of a fall-back instant of that zone), one in six has the first id on a rare calendar day in Shanghai time (Feb 28/29, Mar 1, Dec 31, Jan 1, month ends/starts of century 2000-2400, leap, non-leap or any year, first/last millisecond of the day; epoch moved or node width reduced so that the day is inside the width); the second id is equal / same timestamp / same low bits / numerically adjacent / adjacent timestamp with opposing low bits / node and step exchanged / independent. Oracle per id: IDFields in range and recombining to the id by the documented layout, IDParse = field+epoch, IDParseEx the same instant, FromChStyle(the 24 characters the harness builds from the documented form: Shanghai calendar digits of timestamp+epoch, 3 ms digits, 7 digits of the low bits) == id asked before CnStyle sees the id, CnStyle 24 digits, FromChStyle(CnStyle(id)) == id; per pair: id order == (timestamp, remaining bits) order. Non-trivial: first id has non-zero node and step bits and timestamp >= 2^20; distinct = distinct case JSON"

var PartCodec = &vkit.Part[CaseCodec]{
	Property: Property, Name: "codec",
	Rule:  codecRule,
	Quick: 80000, Thorough: 200000,
	Gen: GenCodec, Exec: ExecCodec,
}

var PartGrid = &vkit.Part[CaseCodec]{
	Property: Property, Name: "codec-grid",
	Rule: "complete enumeration of a boundary grid (not of the property's domain): 3 node widths x 2 layouts x epochs {2000, default 2021, 2026} x timestamps {0, 2^k-1, 2^k, 2^k+1 for every k inside the width, max-1, max, year-2262 horizon -2..+2} x 8 low-bit patterns {0, 1, all ones, 999999, 1000000, top bit, node max/step 0, node 0/step max}, each paired with the next pattern at the same timestamp; same oracle as part codec. Non-trivial: as part codec",
	Gen:  GenCodec, Exec: ExecCodec,
}

var PartRange = &vkit.Part[CaseRange]{
	Property: Property, Name: "ranges",
	Rule:  "rapid: configuration as part codec; begin <= end instants given as millisecond offset from the epoch inside the width (same mixture as the timestamps, then moved to .000/.001/.999/any position of the absolute second) plus 0..999999 ns, carried in one of ten locations (UTC, Shanghai, -11:30, +14, New York, Berlin, Lord Howe, +08:05:43, -00:00:01, the process-local zone), one in eight within an hour of a fall-back instant of a daylight-saving location and carried in it; one case in six runs with the process-local zone replaced by New York / Berlin / Lord Howe and every second instant within an hour of a fall-back instant of that zone; end = begin / same second / next seconds / top of the width / independent; 0-6 extra probe ids around both edges. TimeBetweenID(begin,end), TimeIDRange(begin), TimeIDRange(end) are each decided on 19 constructed ids (first ms of the first second with low 0/ones/mixed, the ms before it, first ms of the last second, first ms of the second after it, the middle, id 0 and the largest id) plus the probes: timestamp in [floor(b) s, floor(e) s] => inside, timestamp < floor(b) s or >= floor(e) s + 1000 ms => outside, rest of the last second not asserted. Non-trivial: begin or end has a non-zero sub-second part; distinct = distinct case JSON",
	Quick: 80000, Thorough: 200000,
	Gen: GenRange, Exec: ExecRange,
}

var PartCalendar = &vkit.Part[CaseCodec]{
	Property: Property, Name: "codec-calendar",
	Rule: "complete enumeration of a calendar grid (not of the property's domain): 3 node widths x epochs {2000, 2026, 2200} (alternating field order) x every calendar year the timestamp width reaches x {Jan 1, Feb 28, Feb 29 in leap years, Mar 1, Dec 31}, plus all twelve month ends and month starts of the century years, every 25th year and the first and last two years of the width; Shanghai time; first id at 00:00:00.000, second id at 23:59:59.999 of that day, low bits rotating through {0, all ones, 999999, node max/step 1}; same oracle as part codec. Non-trivial: as part codec",
	Gen:  GenCodec, Exec: ExecCodec,
}

const concRule = "rapid: configuration as part codec, fixed for the case; 4-8 goroutines, each with 4-16 ids of its own (same mixture as part codec), walk their lists 1-4 times after a common start signal: per id the single-id oracle of part codec (IDFields in range / recombine, IDParse, IDParseEx, FromChStyle(harness-built string) == id, CnStyle 24 digits, FromChStyle(CnStyle(id)) == id), TimeIDRange of the id's instant and TimeBetweenID(earlier, later of the goroutine's first id and this id) decided on the 19 constructed edge ids of part ranges; the strings CnStyle handed out during a walk are kept, re-read (unchanged) and converted back in the opposite order at its end. The verdict is the answers, not the timing: every goroutine must get what it gets alone. Non-trivial: at least two goroutines"

var PartConc = &vkit.Part[CaseConc]{
	Property: Property, Name: "concurrent",
	Rule:  concRule,
	Quick: 600, Thorough: 3000,
	Gen: GenConc, Exec: ExecConc,
}

// PartConcRace is the same part run from the binary built with -race (a data race inside the codec is reported by the
// detector and ends the process with exit code 66).
var PartConcRace = &vkit.Part[CaseConc]{
	Property: Property, Name: "race-concurrent",
	Rule:  concRule + "; run under the Go race detector",
	Quick: 150, Thorough: 800,
	Gen: GenConc, Exec: ExecConc,
}

var PartSetup = &vkit.Part[CaseSetup]{
	Property: Property, Name: "setup",
	Rule:  "rapid: a base configuration (VerifSetConfig), then Setup with any subset of UseEpoch(instant 2000..2200 with sub-ms part, any zone) / UseNodeMode(8|9|10) / NodeAtLowest in either order; one case in four runs with the process-local zone replaced by New York / Berlin / Lord Howe and two of three of its epochs lie within an hour of a fall-back instant of that zone (first or second pass through the repeated wall-clock interval) - the configured epoch is the instant that was passed; IDParse of a probe id built for the expected layout (unset options keep the base value, node-at-lowest is sticky) must give field+epoch, node, step. Non-trivial: at least one option and a probe with non-zero node and step and timestamp >= 2^20",
	Quick: 12000, Thorough: 20000,
	Gen: GenSetup, Exec: ExecSetup,
}
