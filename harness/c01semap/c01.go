// Package c01semap decides property C01: per-key reader/writer exclusion,
// FIFO hand-off and absence of residue of the semaphore maps, for the single
// map and both sharded variants.
package c01semap

import (
	"context"
	"fmt"
	"math"
	"runtime"
	"sync"
	"sync/atomic"
	"time"

	"github.com/pinealctx/neptune/syncx/semap"
	"pgregory.net/rapid"

	"verifharness/vkit"
)

const Property = "C01"

// ---------------------------------------------------------------------------
// configuration shared by both modes

type KeySpec struct {
	Kind string `json:"kind"` // int | int64 | string
	Int  int64  `json:"int,omitempty"`
	Str  string `json:"str,omitempty"`
}

func (k KeySpec) value() interface{} {
	switch k.Kind {
	case "int64":
		return k.Int
	case "int32":
		return int32(k.Int)
	case "uint64":
		return uint64(k.Int)
	case "uint8":
		return uint8(k.Int)
	case "string":
		return k.Str
	}
	return int(k.Int)
}

type Config struct {
	Variant string    `json:"variant"` // single | wide | xwide
	Shards  uint64    `json:"shards"`
	RW      int       `json:"rw"`
	Keys    []KeySpec `json:"keys"`
	// Defaults: build the container without options (rwRatio 10, 73 shards); RW and Shards then hold those values
	Defaults bool `json:"defaults,omitempty"`
	// Opts (sharded variants): "" = WithRwRatio then WithPrime; "reversed" = the other order; "ratio-only" (Shards is
	// then the default 73); "prime-only" (RW is then the default ratio)
	Opts string `json:"opts,omitempty"`
}

func (c Config) valid() bool {
	if c.RW < 1 || len(c.Keys) == 0 || c.Shards < 1 || c.Shards > 100000 {
		return false
	}
	seen := map[interface{}]bool{}
	for _, k := range c.Keys {
		if seen[k.value()] {
			return false
		}
		seen[k.value()] = true
	}
	switch c.Opts {
	case "", "reversed":
	case "ratio-only":
		if c.Shards != 73 {
			return false
		}
	case "prime-only":
		if c.RW != semap.DefaultRWRatio {
			return false
		}
	default:
		return false
	}
	return c.Variant == "single" || c.Variant == "wide" || c.Variant == "xwide"
}

func (c Config) build() semap.SemMapper {
	if c.Defaults && c.RW == semap.DefaultRWRatio && c.Shards == 73 {
		switch c.Variant {
		case "wide":
			return semap.NewWideSemMap()
		case "xwide":
			return semap.NewWideXHashSemMap()
		}
		return semap.NewSemMap()
	}
	opts := []semap.Option{semap.WithRwRatio(c.RW), semap.WithPrime(c.Shards)}
	switch c.Opts {
	case "reversed":
		opts = []semap.Option{semap.WithPrime(c.Shards), semap.WithRwRatio(c.RW)}
	case "ratio-only":
		opts = []semap.Option{semap.WithRwRatio(c.RW)}
	case "prime-only":
		opts = []semap.Option{semap.WithPrime(c.Shards)}
	}
	switch c.Variant {
	case "wide":
		return semap.NewWideSemMap(opts...)
	case "xwide":
		return semap.NewWideXHashSemMap(opts...)
	}
	return semap.NewSemMap(semap.WithRwRatio(c.RW))
}

func genConfig(t *rapid.T) Config {
	c := Config{
		Variant: rapid.SampledFrom([]string{"single", "single", "wide", "xwide"}).Draw(t, "variant"),
		Shards:  rapid.SampledFrom([]uint64{1, 2, 3, 7, 73}).Draw(t, "shards"),
		RW:      rapid.SampledFrom([]int{1, 2, 3, 3, 5, 10, 2, 3, 127, 128, 256, 65537, math.MaxInt32, math.MaxInt/2 + 1, math.MaxInt - 3, math.MaxInt}).Draw(t, "rw"),
	}
	if rapid.IntRange(0, 11).Draw(t, "defaults") == 0 {
		c.Defaults, c.RW, c.Shards = true, semap.DefaultRWRatio, 73
	} else if c.Variant != "single" {
		switch rapid.IntRange(0, 7).Draw(t, "opts") {
		case 0:
			c.Opts = "reversed"
		case 1:
			c.Opts, c.Shards = "ratio-only", 73
		case 2:
			c.Opts, c.RW = "prime-only", semap.DefaultRWRatio
		}
	}
	nk := rapid.SampledFrom([]int{1, 1, 2, 2, 3}).Draw(t, "nkeys")
	base := rapid.Int64Range(-5, 50).Draw(t, "basekey")
	for i := 0; i < nk; i++ {
		var k KeySpec
		switch rapid.IntRange(0, 5).Draw(t, "keykind") {
		case 0: // same shard as the base key under modulo routing, different key
			k = KeySpec{Kind: "int", Int: base + int64(i)*int64(c.Shards)}
		case 1: // same value, different dynamic type: same shard, different map key
			k = KeySpec{Kind: "int64", Int: base + int64(i/2)}
		case 2:
			k = KeySpec{Kind: "string", Str: rapid.SampledFrom([]string{"", "a", "b", "key", "k\x00"}).Draw(t, "strkey")}
		case 3:
			k = KeySpec{Kind: rapid.SampledFrom([]string{"int32", "uint64", "uint8"}).Draw(t, "intkind"), Int: (base + int64(i)) & 0x7f}
		default:
			k = KeySpec{Kind: "int", Int: base + int64(i)}
		}
		dup := false
		for _, o := range c.Keys {
			if o.value() == k.value() {
				dup = true
			}
		}
		if dup {
			k = KeySpec{Kind: "string", Str: fmt.Sprintf("uniq-%d", i)}
		}
		c.Keys = append(c.Keys, k)
	}
	return c
}

// ---------------------------------------------------------------------------
// the reference model (per key): weighted FIFO semaphore as the statement reads

type mwaiter struct {
	actor, n int
}

type keyModel struct {
	size    int
	held    map[int]int // actor -> weight
	queue   []mwaiter
	readers int // holders by class, for classification only
}

func (k *keyModel) cur() int {
	s := 0
	for _, n := range k.held {
		s += n
	}
	return s
}

// admitHeads admits queue heads while they fit; returns the admitted actors.
func (k *keyModel) admitHeads() []int {
	var out []int
	for len(k.queue) > 0 && k.size-k.cur() >= k.queue[0].n {
		w := k.queue[0]
		k.queue = k.queue[1:]
		k.held[w.actor] = w.n
		out = append(out, w.actor)
	}
	return out
}

func (k *keyModel) idle() bool { return len(k.held) == 0 && len(k.queue) == 0 }

// ---------------------------------------------------------------------------
// controlled mode

type Step struct {
	Op        string `json:"op"` // acq | rel | cancel
	Actor     int    `json:"actor"`
	Write     bool   `json:"write,omitempty"`
	Key       int    `json:"key,omitempty"`
	PreCancel bool   `json:"pre_cancel,omitempty"` // acq with an already cancelled context
	// Deadline (with PreCancel): the context is over because its deadline has passed (ctx.Err() is DeadlineExceeded)
	Deadline bool `json:"deadline,omitempty"`
	// Ctx: the kind of context the acquire is given. "" = context.WithCancel (or, with PreCancel+Deadline, an expired
	// WithDeadline); "background" | "todo" | "value" (WithValue over Background) | "nocancel" (WithoutCancel over a
	// parent that the cancel step does cancel): contexts whose Done() is nil - once queued such an acquire cannot be
	// cancelled, a cancel step aimed at it changes nothing; "live" = a context owned by the harness (ctx.go) with a
	// deadline that the cancel step FIRES while the acquire is queued (Err() is then DeadlineExceeded; with PreCancel
	// it has fired before the call)
	Ctx string `json:"ctx,omitempty"`
}

// uncancellable: the step's context can never end
func (s Step) uncancellable() bool {
	switch s.Ctx {
	case "background", "todo", "value", "nocancel":
		return true
	}
	return false
}

type CaseCtl struct {
	Config
	Steps []Step `json:"steps"`
}

type mstatus int

const (
	stNone mstatus = iota
	stWaiting
	stHolding
	stReleased
	stCancelled
)

func (s mstatus) String() string {
	return [...]string{"none", "waiting", "holding", "released", "cancelled"}[s]
}

// ctlModel is the whole-model view used both by the generator (to draw only
// meaningful steps) and by the executor (as the oracle).
type ctlModel struct {
	keys   []*keyModel
	status map[int]mstatus
	key    map[int]int
	write  map[int]bool
	// fixed: actors whose context can never end (cancel steps do not touch them)
	fixed map[int]bool
	next  int
}

func newCtlModel(c Config) *ctlModel {
	m := &ctlModel{status: map[int]mstatus{}, key: map[int]int{}, write: map[int]bool{}, fixed: map[int]bool{}}
	for range c.Keys {
		m.keys = append(m.keys, &keyModel{size: c.RW, held: map[int]int{}})
	}
	return m
}

// acquireStep books an acq step (generator and executor go through here, so that both read the step the same way)
func (m *ctlModel) acquireStep(st Step, rw int) {
	if st.uncancellable() {
		m.fixed[st.Actor] = true
	}
	m.acquire(st.Actor, st.Key, st.Write, st.PreCancel && !st.uncancellable(), rw)
}

func (m *ctlModel) acquire(actor, key int, write, preCancel bool, rw int) {
	k := m.keys[key]
	n := 1
	if write {
		n = rw
	}
	m.key[actor], m.write[actor] = key, write
	if len(k.queue) == 0 && k.size-k.cur() >= n {
		k.held[actor] = n
		m.status[actor] = stHolding
		return
	}
	if preCancel {
		m.status[actor] = stCancelled
		return
	}
	k.queue = append(k.queue, mwaiter{actor, n})
	m.status[actor] = stWaiting
}

func (m *ctlModel) release(actor int) {
	k := m.keys[m.key[actor]]
	delete(k.held, actor)
	m.status[actor] = stReleased
	for _, a := range k.admitHeads() {
		m.status[a] = stHolding
	}
}

func (m *ctlModel) cancel(actor int) {
	if m.status[actor] != stWaiting || m.fixed[actor] {
		return // cancelling a holder or a finished actor has no effect; neither has "cancelling" a context that cannot end
	}
	k := m.keys[m.key[actor]]
	for i, w := range k.queue {
		if w.actor == actor {
			k.queue = append(k.queue[:i:i], k.queue[i+1:]...)
			m.status[actor] = stCancelled
			if i == 0 {
				for _, a := range k.admitHeads() {
					m.status[a] = stHolding
				}
			}
			return
		}
	}
}

// cancellableWaiters: the waiters a cancel step can end
func (m *ctlModel) cancellableWaiters() []int {
	var out []int
	for _, a := range m.actorsIn(stWaiting) {
		if !m.fixed[a] {
			out = append(out, a)
		}
	}
	return out
}

// genCtxKind draws the kind of context of an acquire: nearly half of them the plain cancellable one; fixed = the
// kinds that can never end are allowed
func genCtxKind(t *rapid.T, fixed bool) string {
	kinds := []string{"", "", "", "", "", "", "live", "live", "live", "background", "background", "todo", "value", "nocancel"}
	if !fixed {
		kinds = kinds[:9]
	}
	return rapid.SampledFrom(kinds).Draw(t, "ctxkind")
}

func (m *ctlModel) actorsIn(st mstatus) []int {
	var out []int
	for a := 0; a < m.next; a++ {
		if m.status[a] == st {
			out = append(out, a)
		}
	}
	return out
}

func GenCtl(t *rapid.T) CaseCtl {
	c := CaseCtl{Config: genConfig(t)}
	m := newCtlModel(c.Config)
	nsteps := rapid.IntRange(4, 30).Draw(t, "nsteps")
	// one case in eight starts with a deep queue on key 0: a holder, (a writer at the head,) 5-29 (sometimes 33-130) readers queued, then
	// ONE event - the holder's release or the head's cancellation - that has to admit everything that fits at once
	if rapid.IntRange(0, 7).Draw(t, "deep") == 0 {
		add := func(st Step) {
			if st.Op == "acq" {
				m.next++
				m.acquireStep(st, c.RW)
			}
			c.Steps = append(c.Steps, st)
		}
		k := rapid.IntRange(5, 29).Draw(t, "deepreaders")
		if rapid.IntRange(0, 3).Draw(t, "deeper") == 0 {
			k = rapid.SampledFrom([]int{33, 40, 65, 70, 130}).Draw(t, "deeperreaders")
		}
		if rapid.Bool().Draw(t, "deepcancel") {
			add(Step{Op: "acq", Actor: m.next}) // a reader holds
			// a writer waits at the head; its context ends by cancellation or by its deadline firing
			add(Step{Op: "acq", Actor: m.next, Write: true, Ctx: rapid.SampledFrom([]string{"", "live"}).Draw(t, "deepheadctx")})
			for i := 0; i < k; i++ {
				add(Step{Op: "acq", Actor: m.next, Ctx: genCtxKind(t, false)})
			}
			m.cancel(1)
			c.Steps = append(c.Steps, Step{Op: "cancel", Actor: 1})
		} else {
			add(Step{Op: "acq", Actor: m.next, Write: true}) // a writer holds
			for i := 0; i < k; i++ {
				add(Step{Op: "acq", Actor: m.next, Ctx: genCtxKind(t, false)})
			}
			m.release(0)
			c.Steps = append(c.Steps, Step{Op: "rel", Actor: 0})
		}
		nsteps = rapid.IntRange(0, 8).Draw(t, "deepmore")
	}
	for i := 0; i < nsteps; i++ {
		holders, waiters := m.actorsIn(stHolding), m.cancellableWaiters()
		// weights: acquire 5, release 4 (if any holder), cancel waiter 2 (if any), cancel other 1 (rare)
		var opts []string
		for j := 0; j < 5; j++ {
			opts = append(opts, "acq")
		}
		if len(holders) > 0 {
			opts = append(opts, "rel", "rel", "rel", "rel")
		}
		if len(waiters) > 0 {
			opts = append(opts, "cancel", "cancel")
		}
		if m.next > 0 {
			opts = append(opts, "cancel-any")
		}
		switch rapid.SampledFrom(opts).Draw(t, "op") {
		case "acq":
			st := Step{Op: "acq", Actor: m.next,
				Write:     rapid.IntRange(0, 9).Draw(t, "write") < 4,
				Key:       rapid.IntRange(0, len(c.Keys)-1).Draw(t, "key"),
				PreCancel: rapid.IntRange(0, 11).Draw(t, "pre") == 0}
			st.Deadline = st.PreCancel && rapid.Bool().Draw(t, "deadline")
			// at most 4 contexts that can never end per case (a failing case cannot get rid of their waiters)
			st.Ctx = genCtxKind(t, len(m.fixed) < 4)
			if st.uncancellable() {
				st.PreCancel, st.Deadline = false, false
			}
			if st.Ctx == "live" {
				st.Deadline = false
			}
			m.next++
			m.acquireStep(st, c.RW)
			c.Steps = append(c.Steps, st)
		case "rel":
			a := rapid.SampledFrom(holders).Draw(t, "holder")
			m.release(a)
			c.Steps = append(c.Steps, Step{Op: "rel", Actor: a})
		case "cancel":
			a := rapid.SampledFrom(waiters).Draw(t, "waiter")
			m.cancel(a)
			c.Steps = append(c.Steps, Step{Op: "cancel", Actor: a})
		default:
			a := rapid.IntRange(0, m.next-1).Draw(t, "anyactor")
			m.cancel(a)
			c.Steps = append(c.Steps, Step{Op: "cancel", Actor: a})
		}
	}
	return c
}

type actorRun struct {
	op     *vkit.Op
	pre    bool // acquired with an already cancelled context
	live   bool // the context is the harness's live-deadline context
	cancel context.CancelFunc
	w      *semap.Weighted
	err    error
	relOp  *vkit.Op
}

func ExecCtl(c CaseCtl) *vkit.Result {
	res := &vkit.Result{}
	if !c.Config.valid() {
		res.Skip("malformed-config")
		return res
	}
	sm := c.build()
	sched := vkit.NewSched()
	m := newCtlModel(c.Config)
	runs := map[int]*actorRun{}
	keyOf := func(i int) interface{} { return c.Keys[i].value() }

	defer func() {
		// best-effort cleanup so that a failing case leaks as little as possible
		for _, r := range runs {
			r.cancel()
		}
		if res.Fail != nil {
			// release whatever has been acquired, and again what that admitted, until nothing moves: waiters on
			// contexts that never end leave only by being admitted
			for round := 0; round < 300; round++ {
				sched.Quiesce()
				moved := false
				for a, r := range runs {
					if r.op.Done() && r.err == nil && r.relOp == nil && r.w != nil {
						a, r := a, r
						moved = true
						r.relOp = sched.Go(fmt.Sprintf("cleanup-rel-%d", a), func() {
							if m.write[a] {
								sm.ReleaseWrite(keyOf(m.key[a]), r.w)
							} else {
								sm.ReleaseRead(keyOf(m.key[a]), r.w)
							}
						})
					}
				}
				if !moved {
					break
				}
			}
		}
	}()

	// compare checks, at quiescence, the observed state of every actor with the model
	compare := func(stepNo int, what string) bool {
		sched.MustQuiesce()
		inside := make([]struct{ r, w int }, len(c.Keys)) // independent monitor: observed holders per key
		for a := 0; a < m.next; a++ {
			r := runs[a]
			if r == nil {
				continue
			}
			want := m.status[a]
			var got string
			switch {
			case !r.op.Done():
				got = "parked"
			case r.op.Panic() != nil:
				res.Failf("panic", "step %d (%s): acquire of actor %d panicked: %v", stepNo, what, a, r.op.Panic())
				return false
			case r.err != nil:
				got = "failed"
			default:
				got = "acquired"
			}
			if r.relOp != nil && !r.relOp.Done() {
				res.Failf("release-blocked", "step %d (%s): release by actor %d is parked forever", stepNo, what, a)
				return false
			}
			if r.relOp != nil && r.relOp.Panic() != nil {
				res.Failf("release-panic", "step %d (%s): release by actor %d panicked: %v", stepNo, what, a, r.relOp.Panic())
				return false
			}
			if got == "acquired" && r.relOp == nil {
				if m.write[a] {
					inside[m.key[a]].w++
				} else {
					inside[m.key[a]].r++
				}
			}
			switch want {
			case stWaiting:
				if got == "acquired" {
					res.Failf("admitted-out-of-turn", "step %d (%s): actor %d (%s on key %d) acquired although the model has it waiting (holders %v, queue %v)",
						stepNo, what, a, rwName(m.write[a]), m.key[a], m.keys[m.key[a]].held, m.keys[m.key[a]].queue)
					return false
				}
				if got == "failed" {
					res.Failf("spurious-failure", "step %d (%s): actor %d failed with %v though its context was not cancelled", stepNo, what, a, r.err)
					return false
				}
			case stHolding, stReleased:
				if got == "parked" {
					res.Failf("not-admitted", "step %d (%s): actor %d (%s on key %d) is parked forever although it fits and is first in line (holders %v, queue %v)",
						stepNo, what, a, rwName(m.write[a]), m.key[a], m.keys[m.key[a]].held, m.keys[m.key[a]].queue)
					return false
				}
				if got == "failed" && r.pre && want == stHolding && r.relOp == nil {
					// the statement does not say whether an acquire whose context had already ended may still
					// succeed when it fits (the code says "may"): failing fast is accepted too - it then holds nothing
					delete(m.keys[m.key[a]].held, a)
					m.status[a] = stCancelled
					res.Class("pre-cancelled-acquire-refused-although-it-fits")
					continue
				}
				if got == "failed" {
					res.Failf("spurious-failure", "step %d (%s): actor %d failed with %v though the model admits it", stepNo, what, a, r.err)
					return false
				}
				if r.w == nil {
					res.Failf("nil-handle", "step %d (%s): actor %d acquired but got a nil handle", stepNo, what, a)
					return false
				}
			case stCancelled:
				if got == "parked" {
					res.Failf("cancel-ignored", "step %d (%s): actor %d is still parked after its context was cancelled", stepNo, what, a)
					return false
				}
				if got == "acquired" {
					res.Failf("acquired-after-cancel", "step %d (%s): actor %d acquired although it was cancelled while it could not be admitted", stepNo, what, a)
					return false
				}
			}
		}
		for ki, in := range inside {
			okState := (in.w == 1 && in.r == 0) || (in.w == 0 && in.r <= c.RW)
			if !okState {
				res.Failf("exclusion", "step %d (%s): key %d is held by %d writers and %d readers at once (rwRatio %d)", stepNo, what, ki, in.w, in.r, c.RW)
				return false
			}
		}
		for ki, k := range m.keys {
			if k.idle() {
				if _, _, present := semap.VerifKeyState(sm, keyOf(ki)); present {
					res.Failf("residue", "step %d (%s): key %d has no holder and no waiter but the container still keeps an entry", stepNo, what, ki)
					return false
				}
			}
		}
		return true
	}

	doRelease := func(a int) {
		r := runs[a]
		key, write := keyOf(m.key[a]), m.write[a]
		r.relOp = sched.Go(fmt.Sprintf("rel-%d", a), func() {
			if write {
				sm.ReleaseWrite(key, r.w)
			} else {
				sm.ReleaseRead(key, r.w)
			}
		})
	}

	for i, st := range c.Steps {
		switch st.Op {
		case "acq":
			if st.Key < 0 || st.Key >= len(c.Keys) {
				res.Skip("bad-acq")
				continue
			}
			st.Actor = m.next // actors are numbered by arrival, so a shrunk step list stays meaningful
			km := m.keys[st.Key]
			// classes, decided on the model state before the step
			if st.Write && len(km.held) > 0 && !anyWriter(m, km) {
				res.Class("writer-behind-readers")
			}
			if !st.Write && len(km.queue) > 0 && m.write[km.queue[0].actor] {
				res.Class("reader-arrives-while-writer-waits")
			}
			if c.RW == 1 {
				res.Class("rwRatio-1")
			}
			if c.RW > 100 {
				res.Class("rwRatio>100")
			}
			if c.Defaults {
				res.Class("default-options")
			}
			ctx, cancel := context.WithCancel(context.Background())
			switch {
			case st.uncancellable():
				st.PreCancel = false
				ctx = fixedContext(st.Ctx, ctx) // cancel still ends the parent of a "nocancel" context
			case st.Ctx == "live":
				lc := newLiveDeadline()
				ctx, cancel = lc, lc.fire
				if st.PreCancel {
					lc.fire()
					res.Class("acquire-with-fired-live-deadline")
				}
			case st.Ctx != "":
				res.Skip("unknown-ctx-kind")
				continue
			case st.PreCancel && st.Deadline:
				ctx, cancel = context.WithDeadline(context.Background(), time.Unix(1, 0)) // long past: no timer involved
				res.Class("acquire-with-expired-deadline")
			case st.PreCancel:
				cancel()
				res.Class("pre-cancelled-acquire")
			}
			r := &actorRun{cancel: cancel, pre: st.PreCancel, live: st.Ctx == "live"}
			runs[st.Actor] = r
			key, write := keyOf(st.Key), st.Write
			m.next++
			m.acquireStep(st, c.RW)
			if m.status[st.Actor] == stWaiting && st.uncancellable() {
				res.Class("uncancellable-acquire-queues:" + st.Ctx)
			}
			r.op = sched.Go(fmt.Sprintf("acq-%d", st.Actor), func() {
				if write {
					r.w, r.err = sm.AcquireWrite(ctx, key)
				} else {
					r.w, r.err = sm.AcquireRead(ctx, key)
				}
			})
			if m.status[st.Actor] == stWaiting {
				res.NonTrivial = true
			}
		case "rel":
			if m.status[st.Actor] != stHolding || runs[st.Actor] == nil {
				res.Skip("rel-of-non-holder")
				continue
			}
			km := m.keys[m.key[st.Actor]]
			if len(km.held) > 1 {
				res.Class("release-with-holders-remaining")
			}
			if len(km.queue) > 0 {
				res.Class("release-with-waiters")
			}
			m.release(st.Actor)
			doRelease(st.Actor)
		case "cancel":
			r := runs[st.Actor]
			if r == nil {
				res.Skip("cancel-of-unknown")
				continue
			}
			switch m.status[st.Actor] {
			case stWaiting:
				km := m.keys[m.key[st.Actor]]
				if m.fixed[st.Actor] {
					res.Class("cancel-aimed-at-uncancellable-waiter")
				} else if km.queue[0].actor == st.Actor {
					if r.live {
						res.Class("live-deadline-fires-at-head")
					}
					if len(km.queue) > 1 {
						res.Class("cancel-head-with-followers")
					} else {
						res.Class("cancel-head-alone")
					}
				} else {
					res.Class("cancel-mid-queue")
					if r.live {
						res.Class("live-deadline-fires-mid-queue")
					}
				}
			case stHolding:
				res.Class("cancel-of-holder")
			default:
				res.Class("cancel-of-finished")
			}
			m.cancel(st.Actor)
			r.cancel()
		default:
			res.Skip("unknown-op")
			continue
		}
		if !compare(i, fmt.Sprintf("%+v", st)) {
			return res
		}
	}
	if len(c.Keys) > 1 {
		res.Class("multi-key")
	}
	// drain: release every holder (queue heads get admitted and are released in turn)
	for guard := 0; guard < 10000; guard++ {
		hs := m.actorsIn(stHolding)
		if len(hs) == 0 {
			break
		}
		m.release(hs[0])
		doRelease(hs[0])
		if !compare(len(c.Steps)+guard, fmt.Sprintf("drain release of actor %d", hs[0])) {
			return res
		}
	}
	if ws := m.actorsIn(stWaiting); len(ws) > 0 {
		res.Failf("harness", "model left waiters %v without holders", ws)
		return res
	}
	if n := semap.VerifEntries(sm); n != 0 {
		res.Failf("residue", "all holders released and nobody waits, but the container keeps %d entries", n)
	}
	return res
}

func rwName(w bool) string {
	if w {
		return "writer"
	}
	return "reader"
}

func anyWriter(m *ctlModel, k *keyModel) bool {
	for a := range k.held {
		if m.write[a] {
			return true
		}
	}
	return false
}

// ---------------------------------------------------------------------------
// stress mode: free-running goroutines; in-section monitors and end-state
// invariants are the oracle; the quiescence detector decides deadlock exactly.

type StressOp struct {
	Key   int  `json:"key"`
	Write bool `json:"write,omitempty"`
	Ctx   int  `json:"ctx"`  // -1: background context; else index into the cancellable contexts
	Hold  int  `json:"hold"` // scheduler yields while holding
}

type CaseStress struct {
	Config
	Procs   int          `json:"procs"`
	Progs   [][]StressOp `json:"progs"`
	NCtx    int          `json:"nctx"`
	Cancels []int        `json:"cancels"` // order in which the canceller cancels contexts
	Gap     int          `json:"gap"`     // yields between cancellations
	// Repeat > 1: every worker runs its program that many times (a hammer: long loops on few keys); a cancellable
	// operation then gets a context of its own that a helper cancels a few scheduler yields later
	Repeat int `json:"repeat,omitempty"`
}

func GenStress(t *rapid.T) CaseStress {
	c := CaseStress{Config: genConfig(t)}
	c.Procs = rapid.SampledFrom([]int{1, 2, 4, 8}).Draw(t, "procs")
	ng := rapid.IntRange(4, 16).Draw(t, "goroutines")
	c.NCtx = rapid.IntRange(1, 12).Draw(t, "nctx")
	for g := 0; g < ng; g++ {
		var prog []StressOp
		n := rapid.IntRange(1, 8).Draw(t, "proglen")
		for i := 0; i < n; i++ {
			op := StressOp{
				Key:   rapid.IntRange(0, len(c.Keys)-1).Draw(t, "key"),
				Write: rapid.IntRange(0, 9).Draw(t, "write") < 4,
				Ctx:   -1,
				Hold:  rapid.IntRange(0, 3).Draw(t, "hold"),
			}
			if rapid.IntRange(0, 2).Draw(t, "cancellable") == 0 {
				op.Ctx = rapid.IntRange(0, c.NCtx-1).Draw(t, "ctx")
			}
			prog = append(prog, op)
		}
		c.Progs = append(c.Progs, prog)
	}
	c.Cancels = rapid.Permutation(seq(c.NCtx)).Draw(t, "cancelorder")
	c.Gap = rapid.IntRange(0, 20).Draw(t, "gap")
	if rapid.IntRange(0, 7).Draw(t, "hammer") == 0 {
		c.Repeat = rapid.SampledFrom([]int{50, 200, 500}).Draw(t, "repeat")
	}
	return c
}

func seq(n int) []int {
	s := make([]int, n)
	for i := range s {
		s[i] = i
	}
	return s
}

type monitor struct {
	readers, writers atomic.Int32
}

func ExecStress(c CaseStress) *vkit.Result {
	res := &vkit.Result{}
	if !c.Config.valid() || c.NCtx < 1 || c.NCtx > 1000 || len(c.Progs) == 0 {
		res.Skip("malformed-config")
		return res
	}
	if c.Procs >= 1 && c.Procs <= 64 {
		defer runtime.GOMAXPROCS(runtime.GOMAXPROCS(c.Procs))
	}
	sm := c.build()
	sched := vkit.NewSched()
	mons := make([]monitor, len(c.Keys))
	ctxs := make([]context.Context, c.NCtx)
	cancels := make([]context.CancelFunc, c.NCtx)
	for i := range ctxs {
		ctxs[i], cancels[i] = context.WithCancel(context.Background())
	}
	var (
		mu        sync.Mutex
		violation string
		acquired  atomic.Int64
		failed    atomic.Int64
	)
	report := func(format string, args ...any) {
		mu.Lock()
		if violation == "" {
			violation = fmt.Sprintf(format, args...)
		}
		mu.Unlock()
	}
	start := make(chan struct{})
	for g, prog := range c.Progs {
		g, prog := g, prog
		sched.Go(fmt.Sprintf("worker-%d", g), func() {
			<-start
			for rep := 0; rep < max(1, min(c.Repeat, 5000)); rep++ {
				for i, op := range prog {
					if op.Key < 0 || op.Key >= len(c.Keys) || op.Ctx >= c.NCtx {
						continue
					}
					ctx := context.Background()
					if op.Ctx >= 0 {
						ctx = ctxs[op.Ctx]
						if c.Repeat > 1 {
							var cancel context.CancelFunc
							ctx, cancel = context.WithCancel(context.Background())
							go func(y int) {
								for ; y >= 0; y-- {
									runtime.Gosched()
								}
								cancel()
							}(op.Hold + rep%3)
						}
					}
					key := c.Keys[op.Key].value()
					var (
						w   *semap.Weighted
						err error
					)
					if op.Write {
						w, err = sm.AcquireWrite(ctx, key)
					} else {
						w, err = sm.AcquireRead(ctx, key)
					}
					if err != nil {
						failed.Add(1)
						if op.Ctx < 0 {
							report("worker %d op %d: acquire with a background context failed: %v", g, i, err)
						} else if ctx.Err() == nil {
							report("worker %d op %d: acquire failed with %v although its context is not cancelled", g, i, err)
						}
						continue
					}
					acquired.Add(1)
					mon := &mons[op.Key]
					if op.Write {
						ws := mon.writers.Add(1)
						rs := mon.readers.Load()
						if ws != 1 || rs != 0 {
							report("worker %d op %d: writer inside key %d together with %d other writers and %d readers", g, i, op.Key, ws-1, rs)
						}
					} else {
						rs := mon.readers.Add(1)
						ws := mon.writers.Load()
						if ws != 0 || int(rs) > c.RW {
							report("worker %d op %d: reader inside key %d with %d writers and %d readers (rwRatio %d)", g, i, op.Key, ws, rs, c.RW)
						}
					}
					for h := 0; h < op.Hold; h++ {
						runtime.Gosched()
					}
					if op.Write {
						mon.writers.Add(-1)
						sm.ReleaseWrite(key, w)
					} else {
						mon.readers.Add(-1)
						sm.ReleaseRead(key, w)
					}
				}
			}
		})
	}
	if c.Repeat > 1 {
		res.Class("hammer")
	}
	sched.Go("canceller", func() {
		<-start
		for _, ci := range c.Cancels {
			for y := 0; y < c.Gap; y++ {
				runtime.Gosched()
			}
			if ci >= 0 && ci < len(cancels) {
				cancels[ci]()
			}
		}
	})
	close(start)
	sched.MustQuiesce()
	for _, cf := range cancels {
		cf()
	}
	if parked := sched.ParkedOps(); len(parked) > 0 {
		// every cancellable context has been cancelled by now; acquires on background
		// contexts can only wait for holders, and holders always release: a parked
		// goroutine at quiescence is a deadlock (lost hand-off), decided exactly.
		sched.MustQuiesce()
		if parked = sched.ParkedOps(); len(parked) > 0 {
			names := ""
			for _, p := range parked {
				names += p.Name + " "
			}
			res.Failf("stress-deadlock", "goroutines parked forever with no holder left to wake them: %s", names)
			return res
		}
	}
	for _, op := range sched.Ops() {
		if p := op.Panic(); p != nil {
			res.Failf("stress-panic", "%s panicked: %v", op.Name, p)
			return res
		}
	}
	if violation != "" {
		res.Failf("stress-exclusion", "%s", violation)
		return res
	}
	if n := semap.VerifEntries(sm); n != 0 {
		res.Failf("stress-residue", "every goroutine finished but the container keeps %d entries", n)
		return res
	}
	if failed.Load() > 0 {
		res.Class("some-acquire-cancelled")
	}
	if c.Procs > 1 {
		res.Class("parallel")
	}
	res.NonTrivial = len(c.Progs) >= 2 && acquired.Load() >= 2
	return res
}

// ---------------------------------------------------------------------------
// tie stress: the one window the controlled mode cannot own - a grant racing a
// cancellation. Each round has one holder and one waiter on a key; the holder's
// release and the waiter's cancel are fired together. Whatever wins, the books
// must balance: a waiter that got nil holds its tokens until it releases, a
// waiter that got an error holds nothing, and afterwards the key has no entry.

type CaseTie struct {
	Config
	Procs       int  `json:"procs"`
	Rounds      int  `json:"rounds"`
	HolderWrite bool `json:"holder_write"`
	WaiterWrite bool `json:"waiter_write"`
	CancelFirst bool `json:"cancel_first"` // which of the two racing goroutines is started first
}

func GenTie(t *rapid.T) CaseTie {
	c := CaseTie{Config: genConfig(t)}
	c.Procs = rapid.SampledFrom([]int{2, 4, 8}).Draw(t, "procs")
	c.Rounds = rapid.SampledFrom([]int{500, 2000, 4000}).Draw(t, "rounds")
	c.HolderWrite = rapid.Bool().Draw(t, "hw")
	c.WaiterWrite = rapid.Bool().Draw(t, "ww")
	c.CancelFirst = rapid.Bool().Draw(t, "cf")
	return c
}

func ExecTie(c CaseTie) *vkit.Result {
	res := &vkit.Result{}
	if !c.Config.valid() || c.Rounds < 1 || c.Rounds > 100000 {
		res.Skip("malformed-config")
		return res
	}
	if c.Procs >= 1 && c.Procs <= 64 {
		defer runtime.GOMAXPROCS(runtime.GOMAXPROCS(c.Procs))
	}
	// the waiter must have to wait: a reader only waits behind a writer (or when rwRatio is 1)
	holderWrite := c.HolderWrite
	if !c.WaiterWrite && c.RW > 1 {
		holderWrite = true
	}
	sm := c.build()
	key := c.Keys[0].value()
	acquire := func(ctx context.Context, write bool) (*semap.Weighted, error) {
		if write {
			return sm.AcquireWrite(ctx, key)
		}
		return sm.AcquireRead(ctx, key)
	}
	release := func(w *semap.Weighted, write bool) {
		if write {
			sm.ReleaseWrite(key, w)
		} else {
			sm.ReleaseRead(key, w)
		}
	}
	sched := vkit.NewSched()
	var (
		problem  string
		site     string
		granted  int
		rejected int
	)
	op := sched.Go("tie-rounds", func() {
		for r := 0; r < c.Rounds && problem == ""; r++ {
			hw, err := acquire(context.Background(), holderWrite)
			if err != nil {
				site, problem = "tie-spurious-failure", fmt.Sprintf("round %d: the holder's acquire on an idle key failed: %v", r, err)
				return
			}
			ctx, cancel := context.WithCancel(context.Background())
			var ww *semap.Weighted
			var werr error
			var wg sync.WaitGroup
			wg.Add(1)
			go func() { defer wg.Done(); ww, werr = acquire(ctx, c.WaiterWrite) }()
			for { // until the waiter is queued (hook)
				if _, waiters, _ := semap.VerifKeyState(sm, key); waiters == 1 {
					break
				}
				runtime.Gosched()
			}
			start := make(chan struct{})
			var rg sync.WaitGroup
			rg.Add(2)
			fire := []func(){func() { defer rg.Done(); <-start; cancel() }, func() { defer rg.Done(); <-start; release(hw, holderWrite) }}
			if !c.CancelFirst {
				fire[0], fire[1] = fire[1], fire[0]
			}
			go fire[0]()
			go fire[1]()
			close(start)
			rg.Wait()
			wg.Wait()
			cancel()
			if werr == nil {
				granted++
				held, _, present := semap.VerifKeyState(sm, key)
				want := 1
				if c.WaiterWrite {
					want = c.RW
				}
				if !present || held != want {
					site, problem = "tie-grant-not-booked", fmt.Sprintf("round %d: the waiter's acquire returned nil, but the key's entry shows present=%v held=%d (want %d)", r, present, held, want)
					return
				}
				release(ww, c.WaiterWrite)
			} else {
				rejected++
			}
			if held, waiters, present := semap.VerifKeyState(sm, key); present {
				site, problem = "tie-residue", fmt.Sprintf("round %d (waiter %s): every holder has released and nobody waits, but the key keeps an entry (held %d, waiters %d)", r, map[bool]string{true: "was admitted", false: "failed with its context error"}[werr == nil], held, waiters)
				return
			}
		}
	})
	sched.MustQuiesce()
	if !op.Done() {
		return res.Failf("tie-deadlock", "a cancel and a release fired together left somebody parked forever (after %d grants, %d cancellations)", granted, rejected)
	}
	if p := op.Panic(); p != nil {
		return res.Failf("tie-panic", "%v", p)
	}
	if problem != "" {
		return res.Failf(site, "%s", problem)
	}
	if n := semap.VerifEntries(sm); n != 0 {
		return res.Failf("tie-residue", "after %d rounds the container keeps %d entries", c.Rounds, n)
	}
	if granted > 0 && rejected > 0 {
		res.Class("both-outcomes-seen")
	}
	res.NonTrivial = granted > 0 && rejected > 0
	return res
}

// ---------------------------------------------------------------------------

var PartCtl = &vkit.Part[CaseCtl]{
	Property: Property, Name: "controlled",
	Rule:  "rapid: {variant single|wide-modulo|wide-xxhash, shards 1/2/3/7/73, rwRatio 1/2/3/5/10/127/128/256/65537/MaxInt32/MaxInt/2+1/MaxInt-3/MaxInt or the option-less defaults, 1-3 keys incl. same-shard and same-value-different-type pairs} + 4-30 steps drawn by folding the reference model (acquire R/W incl. pre-cancelled contexts; context kind per acquire: WithCancel, expired WithDeadline, Background/TODO/WithValue/WithoutCancel - which a cancel step cannot end, at most 4 per case - or a harness-owned context whose deadline the cancel step fires while the acquire is queued; release by a current holder, cancel of head / mid-queue waiters, holders, finished actors); every acquire on its own goroutine, quiescence (stop-the-world goroutine-state cut) after every step, observed {acquired, failed, parked} per actor compared with the weighted-FIFO model, an independent per-key holder count checks exclusion, idle keys must have no entry, final drain must leave 0 entries. Non-trivial: at least one acquire had to wait; distinct = distinct case JSON",
	Quick: 3000, Thorough: 20000,
	Gen: GenCtl, Exec: ExecCtl,
}

var stressRule = "rapid: same configurations; 4-16 free-running goroutines each run 1-8 acquire/hold/release ops over the keys, a third of them on cancellable contexts which a canceller goroutine cancels concurrently in a drawn order; GOMAXPROCS 1/2/4/8. Oracle: in-section atomic reader/writer counters per key, acquire fails only with a cancelled context, quiescence with unfinished goroutines = deadlock, 0 entries at the end. Non-trivial: >= 2 goroutines and >= 2 successful acquires; distinct = distinct case JSON"

var PartStress = &vkit.Part[CaseStress]{
	Property: Property, Name: "stress",
	Rule:  stressRule,
	Quick: 400, Thorough: 3000,
	Gen: GenStress, Exec: ExecStress,
}

var PartStressRace = &vkit.Part[CaseStress]{
	Property: Property, Name: "race-stress",
	Rule:  stressRule + " (binary built with -race)",
	Quick: 150, Thorough: 1500,
	Gen: GenStress, Exec: ExecStress,
}

var tieRule = "rapid: same configurations; per case 500-4000 rounds on one key: a holder acquires, a waiter is confirmed queued (hook), then the holder's release and the waiter's cancel are fired together from two goroutines (GOMAXPROCS 2/4/8). Oracle, whatever wins: nil means the tokens are booked until released, an error means nothing is held, afterwards the key has no entry; nobody stays parked. Non-trivial: both outcomes (granted, cancelled) were seen in the case; distinct = distinct case JSON"

var PartTie = &vkit.Part[CaseTie]{
	Property: Property, Name: "tie-stress",
	Rule:  tieRule,
	Quick: 40, Thorough: 300,
	Gen: GenTie, Exec: ExecTie,
}

var PartTieRace = &vkit.Part[CaseTie]{
	Property: Property, Name: "race-tie-stress",
	Rule:  tieRule + " (binary built with -race)",
	Quick: 10, Thorough: 60,
	Gen: GenTie, Exec: ExecTie,
}
