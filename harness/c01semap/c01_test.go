package c01semap

import (
	"testing"

	"verifharness/vkit"
)

func TestMain(m *testing.M) { vkit.Main(m) }

func TestProp_Controlled(t *testing.T) { PartCtl.Run(t) }
func TestProp_Stress(t *testing.T)     { PartStress.Run(t) }
func TestRace_Stress(t *testing.T)     { PartStressRace.Run(t) }
func TestProp_Tie(t *testing.T)        { PartTie.Run(t) }
func TestRace_Tie(t *testing.T)        { PartTieRace.Run(t) }
func TestProp_Mass(t *testing.T)       { PartMass.Run(t) }
func TestRace_Mass(t *testing.T)       { PartMassRace.Run(t) }
func TestProp_Long(t *testing.T)       { PartLong.Run(t) }

func TestReplay(t *testing.T) {
	PartCtl.Replay(t, 1)
	PartStress.Replay(t, 50)
	PartStressRace.Replay(t, 50)
	PartTie.Replay(t, 20)
	PartTieRace.Replay(t, 20)
	PartMass.Replay(t, 20)
	PartMassRace.Replay(t, 20)
	PartLong.Replay(t, 1)
}
