package c01semap

// part "long": ONE container lives through tens of thousands of calls. One key is HELD (by a writer or by 1-3
// readers, sometimes with a contender already queued behind them) while 3000-50000 create/delete cycles of other keys
// pass through the same map (the churn keys land in the held key's shard); after every call the number of entries is
// compared with the sequence model (more entries than live keys = residue), every few cycles a contender for the held
// key knocks with a context that has already ended (it returns at once: an error, or - the violation - nil), and at
// the end a blocking contender must stay out until the holders release, get in then, and leave an empty container.
//
// The history is sequential and runs on one goroutine of the schedule; a call that does not return is decided at
// quiescence.

import (
	"context"
	"fmt"
	"runtime"
	"sync/atomic"

	"github.com/pinealctx/neptune/syncx/semap"
	"pgregory.net/rapid"

	"verifharness/vkit"
)

type CaseLong struct {
	Config // Keys[0] is the held key
	// HoldWrite: a writer holds the key; else HoldReaders readers do
	HoldWrite   bool `json:"hold_write,omitempty"`
	HoldReaders int  `json:"hold_readers,omitempty"`
	// Queued: a writer is queued behind the holders before the churn starts (and stays parked through all of it)
	Queued bool `json:"queued,omitempty"`
	Cycles int  `json:"cycles"`
	// Span distinct churn keys are used round robin, Overlap (< Span) of them are held at any time
	Span    int `json:"span"`
	Overlap int `json:"overlap"`
	// ChurnStr: the churn keys are strings (else ints; in a sharded map spaced by the shard count)
	ChurnStr bool `json:"churn_str,omitempty"`
	// WriteEvery: every n-th churn acquire is a write (0: none)
	WriteEvery int `json:"write_every,omitempty"`
	// ProbeEvery: a contender with an ended context tries the held key every n-th cycle
	ProbeEvery int `json:"probe_every"`
}

func GenLong(t *rapid.T) CaseLong {
	c := CaseLong{Config: genConfig(t)}
	c.Keys = c.Keys[:1]
	if c.Variant != "single" {
		// few shards, so that one inner map sees the whole churn
		c.Defaults, c.Opts = false, rapid.SampledFrom([]string{"", "reversed"}).Draw(t, "lopts")
		c.Shards = rapid.SampledFrom([]uint64{1, 1, 1, 2, 7}).Draw(t, "lshards")
		if c.Shards > 1 {
			c.Keys[0] = KeySpec{Kind: "int", Int: rapid.Int64Range(0, 50).Draw(t, "lkey")}
		}
	}
	c.HoldWrite = rapid.Bool().Draw(t, "holdwrite")
	if !c.HoldWrite {
		c.HoldReaders = rapid.IntRange(1, min(c.RW, 3)).Draw(t, "holdreaders")
	}
	c.Queued = rapid.IntRange(0, 2).Draw(t, "queued") == 0
	c.Cycles = rapid.SampledFrom([]int{3000, 9000, 17000, 20000, 35000, 50000}).Draw(t, "cycles")
	c.Overlap = rapid.SampledFrom([]int{1, 1, 2, 4}).Draw(t, "overlap")
	c.Span = rapid.SampledFrom([]int{c.Overlap + 1, 16, 1000, c.Cycles}).Draw(t, "span")
	c.ChurnStr = rapid.IntRange(0, 2).Draw(t, "churnstr") == 0 && c.Shards <= 1
	c.WriteEvery = rapid.SampledFrom([]int{0, 1, 2, 3}).Draw(t, "writeevery")
	c.ProbeEvery = rapid.SampledFrom([]int{1, 7, 100, 1000}).Draw(t, "probeevery")
	return c
}

func (c CaseLong) churnKey(j int) interface{} {
	if c.ChurnStr {
		return fmt.Sprintf("churn-%d", j)
	}
	base, stride := int64(1000), int64(1)
	if c.Keys[0].Kind == "int" && c.Keys[0].Int >= 0 {
		base = c.Keys[0].Int
	}
	if c.Variant != "single" {
		stride = int64(c.Shards) // modulo routing: the held key's shard
	}
	return int(base + int64(j+1)*stride)
}

func ExecLong(c CaseLong) *vkit.Result {
	res := &vkit.Result{}
	if !c.Config.valid() || c.Cycles < 1 || c.Cycles > 200000 || c.Overlap < 1 || c.Overlap > 64 || c.Span <= c.Overlap ||
		c.ProbeEvery < 1 || c.WriteEvery < 0 || (!c.HoldWrite && (c.HoldReaders < 1 || c.HoldReaders > c.RW || c.HoldReaders > 64)) ||
		(c.ChurnStr && c.Keys[0].Kind == "string" && len(c.Keys[0].Str) > 5 && c.Keys[0].Str[:6] == "churn-") {
		res.Skip("malformed-config")
		return res
	}
	sm := c.build()
	held := c.Keys[0].value()
	bg := context.Background()
	ended, cancel := context.WithCancel(bg)
	cancel()
	type handle struct {
		key   interface{}
		write bool
		w     *semap.Weighted
	}
	acquire := func(ctx context.Context, key interface{}, write bool) (handle, error) {
		var w *semap.Weighted
		var err error
		if write {
			w, err = sm.AcquireWrite(ctx, key)
		} else {
			w, err = sm.AcquireRead(ctx, key)
		}
		return handle{key, write, w}, err
	}
	release := func(h handle) {
		if h.write {
			sm.ReleaseWrite(h.key, h.w)
		} else {
			sm.ReleaseRead(h.key, h.w)
		}
	}
	sched := vkit.NewSched()
	var (
		site, problem string
		stage         atomic.Value
		cycle         atomic.Int64
		probes        int
	)
	stage.Store("start")
	fail := func(s, format string, args ...any) {
		site, problem = s, fmt.Sprintf("after %d cycles: ", cycle.Load())+fmt.Sprintf(format, args...)
	}
	holdDesc := fmt.Sprintf("%d readers", c.HoldReaders)
	if c.HoldWrite {
		holdDesc = "a writer"
	}
	// the contender: a writer - excluded by any holder
	type contender struct {
		h    handle
		err  error
		done atomic.Bool
		ch   chan struct{}
	}
	startContender := func() *contender {
		ct := &contender{ch: make(chan struct{})}
		go func() {
			defer close(ct.ch)
			defer ct.done.Store(true)
			ct.h, ct.err = acquire(bg, held, true)
		}()
		return ct
	}
	// contender queued (hook), or returned instead (false)
	queued := func(ct *contender) bool {
		for {
			if _, waiters, _ := semap.VerifKeyState(sm, held); waiters == 1 {
				return true
			}
			if ct.done.Load() {
				return false
			}
			runtime.Gosched()
		}
	}
	op := sched.Go("long-history", func() {
		stage.Store("hold")
		var holders, window []handle
		defer func() {
			// a failing case: let go of everything, so that a contender parked behind the holders gets out
			if problem != "" {
				for _, h := range append(window, holders...) {
					func() {
						defer func() { _ = recover() }()
						release(h)
					}()
				}
			}
		}()
		n := c.HoldReaders
		if c.HoldWrite {
			n = 1
		}
		for i := 0; i < n; i++ {
			h, err := acquire(bg, held, c.HoldWrite)
			if err != nil {
				fail("long-spurious-failure", "holder %d's acquire failed: %v", i, err)
				return
			}
			holders = append(holders, h)
		}
		var ct *contender
		if c.Queued {
			stage.Store("contender-queues")
			ct = startContender()
			if !queued(ct) {
				fail("long-exclusion", "a writer's acquire returned (err=%v) while %s hold the key", ct.err, holdDesc)
				return
			}
		}
		// probe: a contender whose context has ended cannot wait, so it says at once whether the key is free for it
		probe := func() bool {
			probes++
			write := !c.HoldWrite || probes%2 == 0
			if !write && c.Queued {
				// a reader behind a queued writer: refused as well (arrival order)
				res.Class("probe-reader-behind-queued-writer")
			}
			h, err := acquire(ended, held, write)
			if err == nil {
				fail("long-exclusion", "a contender (%s, context already ended) acquired the held key while %s hold it (queued writer behind them: %v): the container lost track of the key's entry",
					rwName(write), holdDesc, c.Queued)
				_ = h
				return false
			}
			return true
		}
		stage.Store("churn")
		for i := 0; i < c.Cycles; i++ {
			cycle.Store(int64(i))
			write := c.WriteEvery > 0 && i%c.WriteEvery == 0
			h, err := acquire(bg, c.churnKey(i%c.Span), write)
			if err != nil {
				fail("long-spurious-failure", "acquire (%s) of the idle churn key %v failed: %v", rwName(write), c.churnKey(i%c.Span), err)
				return
			}
			window = append(window, h)
			if len(window) > c.Overlap {
				release(window[0])
				window = window[1:]
			}
			live := 1 + len(window)
			entries := semap.VerifEntries(sm)
			if entries > live {
				fail("long-residue", "%d keys are held or waited for, the container keeps %d entries", live, entries)
				return
			}
			if entries != live || i%c.ProbeEvery == 0 {
				if !probe() {
					return
				}
			}
		}
		cycle.Store(int64(c.Cycles))
		for _, h := range window {
			release(h)
		}
		window = nil
		if entries := semap.VerifEntries(sm); entries > 1 {
			fail("long-residue", "only the held key is in use, the container keeps %d entries", entries)
			return
		}
		if !probe() {
			return
		}
		if ct == nil {
			stage.Store("contender-queues")
			ct = startContender()
			if !queued(ct) {
				fail("long-exclusion", "a writer's acquire returned (err=%v) while %s hold the key", ct.err, holdDesc)
				return
			}
		} else if ct.done.Load() {
			fail("long-exclusion", "the writer queued behind the holders returned (err=%v) while %s hold the key", ct.err, holdDesc)
			return
		}
		for len(holders) > 0 {
			if ct.done.Load() {
				fail("long-exclusion", "the queued writer returned (err=%v) while %d of the holders still hold the key", ct.err, len(holders))
				return
			}
			h := holders[0]
			holders = holders[1:]
			release(h)
		}
		stage.Store("contender-admitted")
		<-ct.ch
		if ct.err != nil {
			fail("long-spurious-failure", "the queued writer failed with %v (its context never ends)", ct.err)
			return
		}
		if h, w, present := semap.VerifKeyState(sm, held); !present || h != c.RW || w != 0 {
			fail("long-books", "a writer holds the key, its entry shows present=%v held=%d (rwRatio %d) waiters=%d", present, h, c.RW, w)
			return
		}
		release(ct.h)
		if n := semap.VerifEntries(sm); n != 0 {
			fail("long-residue", "every holder has released and nobody waits, the container keeps %d entries", n)
		}
	})
	sched.MustQuiesce()
	if !op.Done() {
		st, _ := stage.Load().(string)
		if st == "contender-admitted" {
			return res.Failf("long-not-admitted", "after %d cycles: %s have released the key, the writer queued behind them stays parked for ever", cycle.Load(), holdDesc)
		}
		return res.Failf("long-blocks", "after %d cycles, stage %s: a call on an idle key does not return and nothing is left that could wake it", cycle.Load(), st)
	}
	if p := op.Panic(); p != nil {
		return res.Failf("long-panic", "after %d cycles: %v", cycle.Load(), p)
	}
	if problem != "" {
		return res.Failf(site, "%s", problem)
	}
	if c.Cycles > 16384 {
		res.Class("more-than-16384-deletions")
	}
	if c.Queued {
		res.Class("contender-queued-through-the-churn")
	}
	if c.HoldWrite {
		res.Class("writer-holds")
	} else {
		res.Class("readers-hold")
	}
	res.NonTrivial = true
	return res
}

var PartLong = &vkit.Part[CaseLong]{
	Property: Property, Name: "long",
	Rule:  "rapid: {single map, or sharded with 1/1/1/2/7 shards and churn keys in the held key's shard; rwRatio as everywhere}; ONE container per case: a writer or 1-3 readers hold a key (a third of the cases with a writer queued behind them), then 3000-50000 acquire/release cycles of other keys (int or string, 2 ... cycles distinct ones, 1-4 held at once, reads and writes) pass through the same map; after every call the entry count is compared with the model (more than live keys = residue; fewer triggers a probe), every 1/7/100/1000 cycles a contender with an already ended context tries the held key and must be refused; at the end a blocking writer must queue, be admitted by the holders' release (parked then = verdict at quiescence), and leave 0 entries. Non-trivial: every case; distinct = distinct case JSON",
	Quick: 24, Thorough: 150,
	Gen: GenLong, Exec: ExecLong,
}
