package c01semap

// Contexts of other kinds than context.WithCancel: the ones that can never end (Done() is nil), and a context owned by
// the harness whose deadline the controller fires on demand - no timer is involved, "the deadline fires" is a step of
// the schedule like a cancellation, judged at quiescence like every other step.

import (
	"context"
	"sync"
	"time"
)

type ctxKeyT struct{}

// fixedContext builds a context whose Done() is nil. parent is a cancellable context that the harness does cancel:
// a "nocancel" context is cut off from it.
func fixedContext(kind string, parent context.Context) context.Context {
	switch kind {
	case "todo":
		return context.TODO()
	case "value":
		return context.WithValue(context.Background(), ctxKeyT{}, "v")
	case "nocancel":
		return context.WithoutCancel(parent)
	}
	return context.Background()
}

// liveDeadline is a context with a deadline that passes when fire is called.
type liveDeadline struct {
	done chan struct{}
	mu   sync.Mutex
	err  error
}

func newLiveDeadline() *liveDeadline { return &liveDeadline{done: make(chan struct{})} }

// a fixed instant: nothing reads the clock
var liveInstant = time.Date(2031, 5, 6, 7, 8, 9, 0, time.UTC)

func (c *liveDeadline) Deadline() (time.Time, bool) { return liveInstant, true }
func (c *liveDeadline) Done() <-chan struct{}       { return c.done }
func (c *liveDeadline) Value(any) any               { return nil }

func (c *liveDeadline) Err() error {
	c.mu.Lock()
	defer c.mu.Unlock()
	return c.err
}

// fire lets the deadline pass (idempotent): Err() is DeadlineExceeded before Done() is closed.
func (c *liveDeadline) fire() {
	c.mu.Lock()
	defer c.mu.Unlock()
	if c.err == nil {
		c.err = context.DeadlineExceeded
		close(c.done)
	}
}
