package c01semap

// part "mass-leave": several waiters leave the queue AT ONCE. Readers hold a key, 2-8 waiters that do not fit queue
// behind them ALL ON ONE shared context, followers that would fit once those are gone queue behind on contexts that
// never end, sometimes a writer (that will not fit) behind the followers. Then the shared context ends (cancelled, or
// its deadline fires). Each of the shared waiters is at some moment the head of the queue and leaves it, so - the
// holders still holding - the followers have to be admitted, whichever of the leavers gets the lock in which order;
// the tail writer has to stay out. The rounds of a case sample the interleavings of the leavers' cancel paths.
//
// The rounds run on one goroutine of the schedule; the verdict "follower not admitted" is taken at quiescence (that
// goroutine parked waiting for a follower that is parked inside the library while nothing is left that could wake
// it), never by a wait.

import (
	"context"
	"fmt"
	"runtime"
	"sync"
	"sync/atomic"

	"github.com/pinealctx/neptune/syncx/semap"
	"pgregory.net/rapid"

	"verifharness/vkit"
)

type CaseMass struct {
	Config
	Procs  int `json:"procs"`
	Rounds int `json:"rounds"`
	// Holders readers hold the key during the round
	Holders int `json:"holders"`
	// Shared: the waiters on the shared context, true = writer. The first one is a writer (so all of them queue)
	Shared []bool `json:"shared"`
	// Followers readers queue behind them on contexts that never end; Holders + readers among Shared + Followers <= rwRatio
	Followers int `json:"followers"`
	// Tail: a writer queues behind the followers (on a context of its own, cancelled when the round has been judged)
	Tail bool `json:"tail,omitempty"`
	// Live: the shared context is the harness's deadline context and ends by its deadline firing
	Live bool `json:"live,omitempty"`
	// Fresh: a new container per round (default: one container for the whole case)
	Fresh bool `json:"fresh,omitempty"`
	// Noise: that many goroutines keep taking the key's map lock (through the hook) while the shared waiters leave
	Noise int `json:"noise,omitempty"`
}

func GenMass(t *rapid.T) CaseMass {
	c := CaseMass{Config: genConfig(t)}
	if c.RW < 2 { // with rwRatio 1 nobody fits beside a holder
		c.RW = rapid.SampledFrom([]int{2, 3, 5}).Draw(t, "rw2")
	}
	c.Procs = rapid.SampledFrom([]int{2, 4, 8, 16}).Draw(t, "procs")
	c.Rounds = rapid.SampledFrom([]int{150, 300, 600}).Draw(t, "rounds")
	room := min(c.RW, 8) - 1 // tokens to hand out besides the first holder
	c.Followers = 1 + rapid.IntRange(0, min(room-1, 2)).Draw(t, "followers")
	room -= c.Followers
	c.Holders = 1 + rapid.IntRange(0, min(room, 2)).Draw(t, "holders")
	room -= c.Holders - 1
	n := rapid.IntRange(2, 8).Draw(t, "shared")
	c.Shared = []bool{true}
	for i := 1; i < n; i++ {
		w := true
		if room > 0 && rapid.IntRange(0, 4).Draw(t, "sharedreader") == 0 {
			w = false
			room--
		}
		c.Shared = append(c.Shared, w)
	}
	c.Tail = rapid.IntRange(0, 2).Draw(t, "tail") == 0
	c.Live = rapid.IntRange(0, 2).Draw(t, "live") == 0
	c.Fresh = rapid.IntRange(0, 3).Draw(t, "fresh") == 0
	c.Noise = rapid.SampledFrom([]int{0, 1, 2, 4}).Draw(t, "noise")
	return c
}

type massAcq struct {
	write bool
	w     *semap.Weighted
	err   error
	done  atomic.Bool
	wg    sync.WaitGroup
}

func ExecMass(c CaseMass) *vkit.Result {
	res := &vkit.Result{}
	readers := c.Holders + c.Followers
	for _, w := range c.Shared {
		if !w {
			readers++
		}
	}
	if !c.Config.valid() || c.Rounds < 1 || c.Rounds > 100000 || c.Holders < 1 || c.Followers < 1 || len(c.Shared) < 1 || len(c.Shared) > 64 ||
		!c.Shared[0] || c.RW < 2 || readers > c.RW || readers > 100 {
		res.Skip("malformed-config")
		return res
	}
	if c.Procs >= 1 && c.Procs <= 64 {
		defer runtime.GOMAXPROCS(runtime.GOMAXPROCS(c.Procs))
	}
	// the container in use (a fresh one per round in Fresh cases): written by the rounds' goroutine, read by the
	// controller at quiescence
	var smv atomic.Pointer[semap.SemMapper]
	first := c.build()
	smv.Store(&first)
	sm := first // the rounds' goroutine's own copy
	key := c.Keys[0].value()
	start := func(ctx context.Context, write bool) *massAcq {
		a := &massAcq{write: write}
		a.wg.Add(1)
		go func() {
			defer a.wg.Done()
			defer a.done.Store(true)
			if write {
				a.w, a.err = (*smv.Load()).AcquireWrite(ctx, key)
			} else {
				a.w, a.err = (*smv.Load()).AcquireRead(ctx, key)
			}
		}()
		return a
	}
	release := func(a *massAcq) {
		if a.write {
			(*smv.Load()).ReleaseWrite(key, a.w)
		} else {
			(*smv.Load()).ReleaseRead(key, a.w)
		}
	}
	// queued waits (hook) until the key has n waiters; false if the acquire returned instead of queueing
	queued := func(a *massAcq, n int) bool {
		for {
			if _, waiters, _ := semap.VerifKeyState(sm, key); waiters == n {
				return true
			}
			if a.done.Load() {
				_, waiters, _ := semap.VerifKeyState(sm, key)
				return waiters == n
			}
			runtime.Gosched()
		}
	}
	sched := vkit.NewSched()
	var (
		site, problem string
		stage         atomic.Value
		round         atomic.Int64
		sawGrant      bool
		// cleanup of a failing case: the controller releases the holders (which admits whoever is parked behind
		// them) and tells the rounds' goroutine to stop
		abort   atomic.Bool
		hmu     sync.Mutex
		holding []*massAcq
	)
	hold := func(a *massAcq) {
		hmu.Lock()
		holding = append(holding, a)
		hmu.Unlock()
	}
	stage.Store("start")
	fail := func(s, format string, args ...any) {
		site, problem = s, fmt.Sprintf("round %d: ", round.Load())+fmt.Sprintf(format, args...)
	}
	op := sched.Go("mass-rounds", func() {
		for r := 0; r < c.Rounds; r++ {
			round.Store(int64(r))
			if c.Fresh && r > 0 {
				fresh := c.build()
				smv.Store(&fresh)
				sm = fresh
			}
			stage.Store("holders")
			hmu.Lock()
			holding = nil
			hmu.Unlock()
			for i := 0; i < c.Holders; i++ {
				h := start(context.Background(), false)
				h.wg.Wait()
				if h.err != nil {
					fail("mass-spurious-failure", "a reader's acquire on a key with %d readers (rwRatio %d) failed: %v", i, c.RW, h.err)
					return
				}
				hold(h)
			}
			var (
				sharedCtx context.Context
				end       func()
			)
			if c.Live {
				lc := newLiveDeadline()
				sharedCtx, end = lc, lc.fire
			} else {
				sharedCtx, end = context.WithCancel(context.Background())
			}
			stage.Store("queueing")
			nq := 0
			var shared, followers []*massAcq
			for _, w := range c.Shared {
				a := start(sharedCtx, w)
				nq++
				if !queued(a, nq) {
					end()
					fail("mass-admitted-out-of-turn", "an acquire (%s) behind %d readers holding and %d waiters did not queue: it returned err=%v", rwName(w), c.Holders, nq-1, a.err)
					return
				}
				shared = append(shared, a)
			}
			for i := 0; i < c.Followers; i++ {
				a := start(context.Background(), false)
				nq++
				if !queued(a, nq) {
					end()
					fail("mass-admitted-out-of-turn", "a reader arriving while %d callers wait did not queue behind them: it returned err=%v", nq-1, a.err)
					return
				}
				followers = append(followers, a)
			}
			var tail *massAcq
			tailCancel := func() {}
			if c.Tail {
				var tctx context.Context
				tctx, tailCancel = context.WithCancel(context.Background())
				tail = start(tctx, true)
				nq++
				if !queued(tail, nq) {
					end()
					tailCancel()
					fail("mass-admitted-out-of-turn", "a writer arriving while %d callers wait did not queue behind them: it returned err=%v", nq-1, tail.err)
					return
				}
			}
			// the shared context ends: every shared waiter leaves (or, a reader among them, is admitted on its way out)
			stage.Store("leaving")
			var quiet atomic.Bool
			var noise sync.WaitGroup
			for i := 0; i < c.Noise && i < 16; i++ {
				noise.Add(1)
				go func() {
					defer noise.Done()
					// bounded: a leaver that never returns must not keep the case from getting quiet
					for n := 0; n < 3000 && !quiet.Load(); n++ {
						semap.VerifKeyState(sm, key)
					}
				}()
			}
			stopNoise := func() { quiet.Store(true); noise.Wait() }
			end()
			for _, a := range shared {
				a.wg.Wait()
			}
			stopNoise()
			if abort.Load() {
				tailCancel()
				return
			}
			for i, a := range shared {
				switch {
				case a.err == nil && a.write:
					fail("mass-exclusion", "shared waiter %d, a writer, acquired while %d readers hold the key", i, c.Holders)
					return
				case a.err == nil:
					sawGrant = true
					hold(a)
				case a.err != sharedCtx.Err():
					fail("mass-spurious-failure", "shared waiter %d failed with %v, its context says %v", i, a.err, sharedCtx.Err())
					return
				}
			}
			// every shared waiter is gone; the holders hold on: the followers fit and nothing stands before them
			stage.Store("followers")
			for i, a := range followers {
				a.wg.Wait()
				if abort.Load() {
					tailCancel()
					return
				}
				if a.err != nil {
					fail("mass-spurious-failure", "follower %d (a context that never ends) failed with %v", i, a.err)
					return
				}
				hold(a)
			}
			stage.Store("judging")
			wantWaiters := 0
			if c.Tail {
				wantWaiters = 1
				if tail.done.Load() {
					fail("mass-exclusion", "the writer queued behind the followers returned (err=%v) while %d readers hold the key", tail.err, len(holding))
					return
				}
			}
			if held, waiters, present := semap.VerifKeyState(sm, key); !present || held != len(holding) || waiters != wantWaiters {
				fail("mass-books", "%d readers hold the key and %d callers wait, the key's entry shows present=%v held=%d waiters=%d", len(holding), wantWaiters, present, held, waiters)
				return
			}
			stage.Store("releasing")
			if c.Tail && r%2 == 0 {
				// the tail leaves the head of a queue with nobody behind it
				tailCancel()
				tail.wg.Wait()
				if tail.err == nil {
					fail("mass-exclusion", "the writer queued behind the followers acquired on cancellation while %d readers hold the key", len(holding))
					return
				}
				tail = nil
			}
			for _, a := range holding {
				release(a)
			}
			if tail != nil {
				stage.Store("tail")
				tail.wg.Wait() // the last reader's release admits it
				tailCancel()
				if abort.Load() {
					return
				}
				if tail.err != nil {
					fail("mass-spurious-failure", "the writer at the head was not admitted when the last reader released: %v", tail.err)
					return
				}
				release(tail)
			}
			tailCancel()
			stage.Store("residue")
			if held, waiters, present := semap.VerifKeyState(sm, key); present {
				fail("mass-residue", "every holder has released and nobody waits, but the key keeps an entry (held %d, waiters %d)", held, waiters)
				return
			}
		}
	})
	sched.MustQuiesce()
	if !op.Done() {
		st, _ := stage.Load().(string)
		held, waiters, _ := semap.VerifKeyState(*smv.Load(), key)
		defer func() {
			abort.Store(true)
			hmu.Lock()
			hs := append([]*massAcq(nil), holding...)
			hmu.Unlock()
			for _, a := range hs {
				a := a
				sched.Go("cleanup-release", func() { release(a) })
			}
			sched.Quiesce()
		}()
		switch st {
		case "followers":
			return res.Failf("mass-not-admitted", "round %d: %d waiters on one context left the queue together (context %s), the key is held by readers only (held %d of %d) and the reader(s) queued behind fit, but stay parked for ever (%d still queued)",
				round.Load(), len(c.Shared), map[bool]string{true: "deadline fired", false: "cancelled"}[c.Live], held, c.RW, waiters)
		case "leaving":
			return res.Failf("mass-cancel-ignored", "round %d: the shared context has ended, but a waiter on it stays parked (held %d, %d still queued)", round.Load(), held, waiters)
		case "tail":
			return res.Failf("mass-not-admitted", "round %d: every reader has released, the writer at the head of the queue stays parked", round.Load())
		}
		return res.Failf("mass-deadlock", "round %d, stage %s: a call is parked for ever (held %d, waiters %d)", round.Load(), st, held, waiters)
	}
	if p := op.Panic(); p != nil {
		return res.Failf("mass-panic", "%v", p)
	}
	if problem != "" {
		return res.Failf(site, "%s", problem)
	}
	if n := semap.VerifEntries(*smv.Load()); n != 0 {
		return res.Failf("mass-residue", "after %d rounds the container keeps %d entries", c.Rounds, n)
	}
	if c.Live {
		res.Class("shared-deadline-fires")
	}
	if c.Tail {
		res.Class("writer-behind-followers")
	}
	if sawGrant {
		res.Class("shared-reader-admitted-on-its-way-out")
	}
	res.Class(fmt.Sprintf("shared-waiters-%d", len(c.Shared)))
	res.NonTrivial = true
	return res
}

var massRule = "rapid: same configurations (rwRatio >= 2); per case 150-600 rounds on one key (one container, or a fresh one per round): 1-3 readers hold, 2-8 waiters (the first a writer, the others writers or - where tokens allow - readers) queue ALL ON ONE context, 1-3 readers queue behind them on contexts that never end, sometimes a writer behind those; each confirmed queued (hook); then the shared context ends (cancel, or the harness-owned deadline fires) and all its waiters leave at once while 0/1/2/4 goroutines keep taking the map lock through the hook, which spreads the leavers' lock sections (GOMAXPROCS 2/4/8/16). Oracle: the holders still holding, the followers are admitted (decided at quiescence: a follower parked with nothing left to wake it), a writer never gets in beside the readers, leavers fail with the context's error, the entry's books match, the tail writer is admitted by the last release, no entry afterwards. Non-trivial: every case; distinct = distinct case JSON"

var PartMass = &vkit.Part[CaseMass]{
	Property: Property, Name: "mass-leave",
	Rule:  massRule,
	Quick: 40, Thorough: 300,
	Gen: GenMass, Exec: ExecMass,
}

var PartMassRace = &vkit.Part[CaseMass]{
	Property: Property, Name: "race-mass-leave",
	Rule:  massRule + " (binary built with -race)",
	Quick: 6, Thorough: 60,
	Gen: GenMass, Exec: ExecMass,
}
