package c13wake

import (
	"testing"

	"verifharness/vkit"
)

func TestMain(m *testing.M) { vkit.Main(m) }

func TestProp_Controlled(t *testing.T)    { PartCtl.Run(t) }
func TestProp_Stress(t *testing.T)        { PartStress.Run(t) }
func TestProp_PriSequential(t *testing.T) { PartPriSeq.Run(t) }
func TestProp_PriStress(t *testing.T)     { PartPriStress.Run(t) }
func TestRace_Stress(t *testing.T)        { PartStressRace.Run(t) }
func TestRace_PriStress(t *testing.T)     { PartPriStressRace.Run(t) }
func TestProp_Tie(t *testing.T)           { PartTie.Run(t) }
func TestRace_Tie(t *testing.T)           { PartTieRace.Run(t) }
func TestProp_Anyway(t *testing.T)        { PartAnyway.Run(t) }
func TestRace_Anyway(t *testing.T)        { PartAnywayRace.Run(t) }
func TestProp_Deep(t *testing.T)          { PartDeep.Run(t) }
func TestProp_PriDeep(t *testing.T)       { PartPriDeep.Run(t) }

func TestReplay(t *testing.T) {
	PartCtl.Replay(t, 1)
	PartStress.Replay(t, 50)
	PartStressRace.Replay(t, 50)
	PartPriSeq.Replay(t, 1)
	PartPriStress.Replay(t, 50)
	PartPriStressRace.Replay(t, 50)
	PartTie.Replay(t, 20)
	PartTieRace.Replay(t, 20)
	PartAnyway.Replay(t, 20)
	PartAnywayRace.Replay(t, 20)
	PartDeep.Replay(t, 3)
	PartPriDeep.Replay(t, 1)
}
