// Package c13wake decides property C13: no lost wake-ups - consumers blocked in
// a queue's Pop return as soon as an item they may take is added or the queue is
// closed - and the priority queue's wait channel is readable whenever the queue
// is non-empty at rest.
package c13wake

import (
	"fmt"
	"runtime"
	"sort"
	"strings"
	"sync"
	"sync/atomic"
	"time"

	"pgregory.net/rapid"

	"verifharness/qadapt"
	"verifharness/vkit"
)

const Property = "C13"

var blockingKinds = []string{qadapt.KindQ, qadapt.KindAsync, qadapt.KindMux, qadapt.KindMQ, qadapt.KindSync}

// ---------------------------------------------------------------------------
// controlled mode

type Step struct {
	Op     string `json:"op"` // consume | add | prior | burst | steal | close
	Anyway bool   `json:"anyway,omitempty"`
	Lane   int    `json:"lane,omitempty"`
	N      int    `json:"n,omitempty"` // burst: number of adds issued back to back by one goroutine, no quiescence in between
	// burst: the same goroutine calls Close right after its adds (only owned when every parked consumer drains
	// after close - PopAnyway or the sync queue; otherwise the close is issued as a step of its own)
	ThenClose bool `json:"then_close,omitempty"`
	// close: go through TryClose (mq only), which closes exactly when both lanes are empty and is otherwise a no-op
	Try bool `json:"try,omitempty"`
	// burst: the adds of the burst go to the front (prior adds)
	Prior bool `json:"prior,omitempty"`
}

type CaseCtl struct {
	Kind    string `json:"kind"`
	CapReq  int    `json:"cap_req"`
	CapCtrl int    `json:"cap_ctrl"`
	Steps   []Step `json:"steps"`
}

func GenCtl(t *rapid.T) CaseCtl {
	c := CaseCtl{Kind: rapid.SampledFrom(blockingKinds).Draw(t, "kind")}
	c.CapReq = rapid.SampledFrom([]int{0, 0, 1, 2, 3}).Draw(t, "capreq")
	c.CapCtrl = rapid.SampledFrom([]int{0, 1, 2}).Draw(t, "capctrl")
	pre := rapid.SampledFrom([]int{0, 0, 0, 1, 2}).Draw(t, "preadds")
	for i := 0; i < pre; i++ {
		c.Steps = append(c.Steps, genAdd(t, c.Kind))
	}
	k := rapid.IntRange(1, 5).Draw(t, "consumers")
	for i := 0; i < k; i++ {
		c.Steps = append(c.Steps, Step{Op: "consume", Anyway: rapid.Bool().Draw(t, "anyway")})
	}
	n := rapid.IntRange(1, 10).Draw(t, "nsteps")
	for i := 0; i < n; i++ {
		switch rapid.IntRange(0, 9).Draw(t, "what") {
		case 0, 1, 2:
			c.Steps = append(c.Steps, genAdd(t, c.Kind))
		case 3, 4:
			st := genAdd(t, c.Kind)
			if st.Op == "add" || st.Op == "prior" {
				st.Prior = st.Op == "prior"
				st.Op, st.N = "burst", rapid.IntRange(1, 4).Draw(t, "burst")
				st.ThenClose = rapid.IntRange(0, 2).Draw(t, "thenclose") == 0
				if st.N == 1 && !st.ThenClose {
					st.N = 2
				}
			}
			c.Steps = append(c.Steps, st)
		case 5, 6:
			if c.Kind == qadapt.KindSync && rapid.Bool().Draw(t, "steal") {
				ns := rapid.SampledFrom([]int{0, 2, 63, 64, 65, 100, 300, 129, 1023, 1024, 1025, 1500, 2049, 4097}).Draw(t, "nsteal")
				c.Steps = append(c.Steps, Step{Op: "steal", N: ns})
				if ns >= 1000 {
					// what a queue does with its storage after a drained burst shows at the next items: the consumers that
					// stayed parked through the burst must still be served
					c.Steps = append(c.Steps, Step{Op: "add"}, Step{Op: "add"})
				}
			} else {
				c.Steps = append(c.Steps, Step{Op: "consume", Anyway: rapid.Bool().Draw(t, "anyway")})
			}
		default:
			c.Steps = append(c.Steps, Step{Op: "close", Try: c.Kind == qadapt.KindMQ && rapid.Bool().Draw(t, "tryclose")})
		}
	}
	return c
}

func genAdd(t *rapid.T, kind string) Step {
	st := Step{Op: "add"}
	if kind != qadapt.KindSync && rapid.IntRange(0, 3).Draw(t, "prior") == 0 {
		st.Op = "prior"
	}
	if kind == qadapt.KindMQ && rapid.Bool().Draw(t, "ctrl") {
		st.Lane = qadapt.LaneCtrl
	}
	if st.Op == "add" && kind != qadapt.KindSync && rapid.IntRange(0, 3).Draw(t, "anywayadd") == 0 {
		st.Anyway = true // add through the Add*Anyway entry point (where the lane is not full)
	}
	return st
}

// model of what the statement fixes
type model struct {
	kind    string
	caps    [2]int
	lanes   [2][]int // [req, ctrl]
	closed  bool
	waiting int
	// waitingPop: how many of the waiting consumers use the plain Pop of a pipe queue (which fails after close even
	// if an item is there for it); an upper bound once adds have served unknown members of the waiting set
	waitingPop int
}

func (m *model) empty() bool { return len(m.lanes[0])+len(m.lanes[1]) == 0 }

func (m *model) take() int {
	for _, l := range []int{qadapt.LaneCtrl, qadapt.LaneReq} {
		if len(m.lanes[l]) > 0 {
			v := m.lanes[l][0]
			m.lanes[l] = m.lanes[l][1:]
			return v
		}
	}
	panic("take on empty model")
}

type ret struct {
	closed bool
	v      int
}

type consumer struct {
	op     *vkit.Op
	v      int
	closed bool
	err    error
	seen   bool
}

func ExecCtl(c CaseCtl) *vkit.Result {
	res := &vkit.Result{}
	q := qadapt.New(c.Kind, c.CapReq, c.CapCtrl)
	if q == nil || q.Pop == nil {
		res.Skip("malformed-config")
		return res
	}
	isSync := c.Kind == qadapt.KindSync
	m := &model{kind: c.Kind, caps: [2]int{c.CapReq, c.CapCtrl}}
	if isSync {
		m.caps = [2]int{} // the sync queue is unbounded
	}
	sched := vkit.NewSched()
	var cons []*consumer
	defer func() {
		// leave nothing parked behind: close, and if consumers are still parked
		// (the very defect this check looks for), wake them by feeding items
		if res.Fail != nil {
			q.Close()
		}
	}()
	maxParked := 0
	firstEvent := true
	tryCloseMismatch := ""
	for i, st := range c.Steps {
		var expect []ret
		var mut *vkit.Op
		uniprocStep := false
		var outcome qadapt.Outcome
		wantOutcome := qadapt.Accepted
		switch st.Op {
		case "consume":
			anyway := st.Anyway || isSync
			cn := &consumer{}
			cons = append(cons, cn)
			switch {
			case m.closed && !anyway:
				expect = append(expect, ret{closed: true})
				if !m.empty() {
					res.Class("pop-on-closed-queue-with-items")
				}
			case !m.empty():
				expect = append(expect, ret{v: m.take()})
			case m.closed:
				expect = append(expect, ret{closed: true})
			default:
				m.waiting++
				if !anyway {
					m.waitingPop++
				}
			}
			pop := q.Pop
			if st.Anyway {
				pop = q.PopAnyway
			}
			cn.op = sched.Go(fmt.Sprintf("consumer-%d", len(cons)-1), func() { cn.v, cn.closed, cn.err = pop() })
		case "add", "prior", "burst":
			if firstEvent && m.waiting >= 2 {
				res.NonTrivial = true
			}
			firstEvent = false
			lane := st.Lane
			if c.Kind != qadapt.KindMQ {
				lane = qadapt.LaneReq
			}
			prior := (st.Op == "prior" || (st.Op == "burst" && st.Prior)) && !isSync
			n := 1
			if st.Op == "burst" {
				n = st.N
				if n < 1 || n > 16 {
					res.Skip("bad-burst")
					continue
				}
				if m.caps[lane] > 0 {
					// on a bounded lane the outcome of the 2nd add depends on whether the woken
					// consumer has already taken the 1st: not schedule-owned, so degrade to one add
					res.Skip("burst-on-bounded-lane")
					n = 1
				} else if m.waiting >= 2 {
					res.Class("burst-with-two-or-more-parked")
				}
			}
			if prior && st.Op == "burst" && n > 1 && m.waiting < n {
				// prior adds go to the front: which of them the woken consumers find first is the scheduler's choice
				// unless there is a parked consumer for every item
				n = max(1, m.waiting)
				res.Skip("prior-burst-cut-to-the-number-of-parked-consumers")
			}
			thenClose := st.Op == "burst" && st.ThenClose && !m.closed
			splitClose := false
			uniproc := false
			if thenClose && m.waitingPop > 0 {
				if !isSync && m.waitingPop == m.waiting && m.caps[lane] == 0 {
					// every parked consumer is a plain Pop of a pipe queue. With one P the burst goroutine adds and closes
					// before any woken consumer can run again, so each of them must find the queue closed ("Pop fails
					// after close even if items remain"). A mismatch is confirmed by fresh probes before it counts.
					uniproc = true
				} else {
					// a parked plain Pop may see the item or the close first: not schedule-owned
					thenClose, splitClose = false, true
					res.Skip("burst-then-close-with-plain-pop-waiters")
				}
			}
			var wants []qadapt.Outcome
			for k := 0; k < n; k++ {
				v := 1000 + 100*i + k
				switch {
				case m.closed && isSync:
					wants = append(wants, qadapt.Accepted) // silently dropped
				case m.closed:
					wants = append(wants, qadapt.Closed)
				case !prior && m.caps[lane] > 0 && len(m.lanes[lane]) >= m.caps[lane]:
					wants = append(wants, qadapt.Full)
				default:
					wants = append(wants, qadapt.Accepted)
					if m.waiting > 0 && !uniproc {
						m.waiting--
						expect = append(expect, ret{v: v})
						res.Class("add-wakes-a-parked-consumer")
					} else if prior {
						m.lanes[lane] = append([]int{v}, m.lanes[lane]...)
					} else {
						m.lanes[lane] = append(m.lanes[lane], v)
					}
				}
			}
			add := q.Add
			if prior {
				add = q.AddPrior
			} else if st.Anyway && q.AddAnyway != nil {
				full := false
				for _, w := range wants {
					full = full || w == qadapt.Full
				}
				if !full {
					add = q.AddAnyway
					res.Class("add-through-anyway-entry")
				}
			}
			if m.waiting < m.waitingPop {
				m.waitingPop = m.waiting
			}
			if thenClose {
				m.closed = true
				res.Class(fmt.Sprintf("burst-then-close-with-%d-parked", min(m.waiting, 3)))
				for ; m.waiting > 0; m.waiting-- {
					expect = append(expect, ret{closed: true})
				}
				m.waitingPop = 0
			}
			if uniproc {
				res.Class("plain-pop-parked-then-add-and-close")
				defer runtime.GOMAXPROCS(runtime.GOMAXPROCS(1))
			}
			uniprocStep = uniproc
			mut = sched.Go("add", func() {
				for k := 0; k < n; k++ {
					if o := add(lane, 1000+100*i+k); o != wants[k] {
						outcome, wantOutcome = o, wants[k]
						return
					}
				}
				if thenClose {
					q.Close()
				}
			})
			_ = splitClose // the close is simply dropped then (a later close step may follow)
		case "steal":
			// sync queue only: one goroutine pushes and at once tries to pop. Either it gets its item back and every
			// parked consumer stays parked, or one parked consumer got the item. Whatever the schedule: nobody may be
			// told "closed" on an open queue, and the item exists once.
			if !isSync || q.TryPop == nil || m.closed || !m.empty() {
				res.Skip("steal-not-applicable")
				continue
			}
			// N > 1: a burst of N pushes, then TryPop until nothing comes back (a backlog of more than 64 items is a
			// size at which a ring buffer is typically grown - and released again once drained)
			nSteal := 1
			if st.N > 1 {
				nSteal = st.N
				if nSteal > 5000 {
					res.Skip("bad-steal")
					continue
				}
				res.Class("steal-burst")
				if nSteal > 64 {
					res.Class("steal-burst>64")
				}
				if nSteal >= 1024 {
					res.Class("steal-burst>=1024")
				}
			}
			base := 100000 * (i + 1)
			stolen := map[int]int{}
			var sclosed bool
			op := sched.Go("steal", func() {
				for k := 0; k < nSteal; k++ {
					q.Add(qadapt.LaneReq, base+k)
				}
				for {
					sv, sok, scl := q.TryPop()
					if scl {
						sclosed = true
						return
					}
					if !sok {
						return
					}
					stolen[sv]++
				}
			})
			sched.MustQuiesce()
			if !op.Done() {
				return res.Failf("producer-blocked", "step %d steal on %s: Push+TryPop is parked forever", i, c.Kind)
			}
			if sclosed {
				return res.Failf("closed-on-open-queue", "step %d steal on %s: TryPop reported closed on an open queue", i, c.Kind)
			}
			handed := map[int]int{}
			for v, n := range stolen {
				handed[v] += n
			}
			parked := 0
			for ci, cn := range cons {
				if !cn.op.Done() {
					parked++
					continue
				}
				if cn.seen {
					continue
				}
				cn.seen = true
				if cn.err != nil || cn.closed {
					return res.Failf("closed-on-open-queue", "step %d steal on %s: parked consumer %d returned closed=%v err=%v although the queue is open (items were pushed and taken by someone else)", i, c.Kind, ci, cn.closed, cn.err)
				}
				handed[cn.v]++
			}
			// (TryPop ran until it found nothing, but a consumer woken late may find nothing either and park again:
			// whatever was pushed was handed out exactly once, to the stealer or to a consumer that was parked)
			residue := q.Len()
			for k := 0; k < nSteal; k++ {
				if handed[base+k] > 1 {
					return res.Failf("wake-up", "step %d steal on %s: item %d was handed out %d times", i, c.Kind, base+k, handed[base+k])
				}
			}
			for v := range handed {
				if v < base || v >= base+nSteal {
					return res.Failf("wake-up", "step %d steal on %s: item %d was handed out, which this step did not push (the queue was empty before)", i, c.Kind, v)
				}
			}
			if len(handed)+residue != nSteal {
				return res.Failf("wake-up", "step %d steal on %s: %d items pushed, %d handed out, %d left in the queue", i, c.Kind, nSteal, len(handed), residue)
			}
			if residue > 0 && parked > 0 {
				return res.Failf("wake-up", "step %d steal on %s: %d consumers are parked forever although the queue holds %d items", i, c.Kind, parked, residue)
			}
			for k := 0; k < residue; k++ {
				m.lanes[qadapt.LaneReq] = append(m.lanes[qadapt.LaneReq], -1) // unknown which; drained below
			}
			if residue > 0 {
				// keep the model simple: take the residue out again
				for k := 0; k < residue; k++ {
					q.TryPop()
				}
				m.lanes[qadapt.LaneReq] = nil
			}
			if m.waiting > 0 {
				res.Class("steal-with-parked-consumers")
			}
			m.waiting = parked
			if m.waitingPop > m.waiting {
				m.waitingPop = m.waiting
			}
			continue
		case "close":
			if firstEvent && m.waiting >= 2 {
				res.NonTrivial = true
			}
			firstEvent = false
			try := st.Try && q.TryClose != nil
			if try {
				res.Class("tryclose")
			}
			if !m.closed && (!try || m.empty()) {
				m.closed = true
				if m.waiting > 0 {
					res.Class(fmt.Sprintf("close-with-%d-parked", min(m.waiting, 3)))
					if try {
						res.Class("tryclose-with-parked")
					}
				}
				for ; m.waiting > 0; m.waiting-- {
					expect = append(expect, ret{closed: true})
				}
				m.waitingPop = 0
			}
			if try {
				wantClosed := m.closed
				mut = sched.Go("tryclose", func() {
					if got := q.TryClose(); got != wantClosed {
						tryCloseMismatch = fmt.Sprintf("TryClose returned %v, want %v", got, wantClosed)
					}
				})
			} else {
				mut = sched.Go("close", q.Close)
			}
		default:
			res.Skip("unknown-op")
			continue
		}
		sched.MustQuiesce()
		what := fmt.Sprintf("step %d %+v on %s", i, st, c.Kind)
		if mut != nil {
			if !mut.Done() {
				return res.Failf("producer-blocked", "%s: the call itself is parked forever", what)
			}
			if p := mut.Panic(); p != nil {
				return res.Failf("panic", "%s panicked: %v", what, p)
			}
			if st.Op != "close" && outcome != wantOutcome {
				return res.Failf("add-outcome", "%s: outcome %v, want %v", what, outcome, wantOutcome)
			}
			if tryCloseMismatch != "" {
				return res.Failf("tryclose-result", "%s: %s", what, tryCloseMismatch)
			}
		}
		var got []ret
		parked := 0
		for ci, cn := range cons {
			if !cn.op.Done() {
				parked++
				continue
			}
			if cn.seen {
				continue
			}
			cn.seen = true
			if p := cn.op.Panic(); p != nil {
				return res.Failf("panic", "%s: consumer %d panicked: %v", what, ci, p)
			}
			if cn.err != nil {
				return res.Failf("pop-error", "%s: consumer %d failed with %v", what, ci, cn.err)
			}
			got = append(got, ret{closed: cn.closed, v: cn.v})
		}
		if parked > maxParked {
			maxParked = parked
		}
		if uniprocStep && !sameRets(got, expect) {
			// a consumer got an item although the queue was closed before it could run again - or the scheduler did
			// switch between the add and the close after all. Fresh probes decide: only if every one of them shows an
			// item handed out after close is it a violation.
			confirmed := true
			for k := 0; k < 5 && confirmed; k++ {
				confirmed = probePopAfterClose(c.Kind, len(expect))
			}
			if confirmed {
				return res.Failf("pop-after-close-parked", "%s: consumers parked in Pop returned %v after an add and a Close issued back to back (one P: the close precedes their wake-up), want all closed; confirmed by 5 fresh probes", what, fmtRets(got))
			}
			res.Skip("uniproc-schedule-noise")
			return res
		}
		if !sameRets(got, expect) {
			site := "wake-up"
			if st.Op == "close" {
				site = "close-releases-all"
			}
			return res.Failf(site, "%s: consumers that returned in this step: %v, want %v; %d consumers are parked forever, want %d",
				what, fmtRets(got), fmtRets(expect), parked, m.waiting)
		}
		if parked != m.waiting {
			return res.Failf("parked-count", "%s: %d consumers parked, the model has %d waiting", what, parked, m.waiting)
		}
	}
	// epilogue: whatever is still parked must be released by a close
	if m.waiting > 0 {
		k := m.waiting
		op := sched.Go("final-close", q.Close)
		sched.MustQuiesce()
		if !op.Done() {
			return res.Failf("producer-blocked", "final Close is parked forever")
		}
		still := 0
		for _, cn := range cons {
			if !cn.op.Done() {
				still++
			} else if !cn.seen && !cn.closed {
				return res.Failf("close-releases-all", "final Close with %d parked consumers on %s: a consumer returned item %d instead of closed", k, c.Kind, cn.v)
			}
		}
		if still > 0 {
			return res.Failf("close-releases-all", "final Close on %s with %d parked consumers: %d of them are still parked forever", c.Kind, k, still)
		}
		res.Class(fmt.Sprintf("close-with-%d-parked", min(k, 3)))
	}
	if maxParked >= 2 {
		res.Class("two-or-more-parked")
	}
	return res
}

// probePopAfterClose parks k plain Pop consumers on a fresh queue of the kind, then - with a single P - adds an item and
// closes from one goroutine. It reports whether some consumer was handed the item although the queue was closed before
// it could run again.
func probePopAfterClose(kind string, k int) bool {
	if k < 1 {
		k = 1
	}
	q := qadapt.New(kind, 0, 0)
	sched := vkit.NewSched()
	type out struct {
		closed bool
		err    error
	}
	outs := make([]out, k)
	for i := 0; i < k; i++ {
		i := i
		sched.Go("probe-consumer", func() { _, outs[i].closed, outs[i].err = q.Pop() })
		sched.MustQuiesce()
	}
	old := runtime.GOMAXPROCS(1)
	sched.Go("probe-add-close", func() {
		q.Add(qadapt.LaneReq, 1)
		q.Close()
	})
	sched.MustQuiesce()
	runtime.GOMAXPROCS(old)
	gotItem := false
	for i, op := range sched.Ops() {
		if i < k && op.Done() && !outs[i].closed && outs[i].err == nil {
			gotItem = true
		}
	}
	q.Close()
	return gotItem
}

func sameRets(a, b []ret) bool {
	if len(a) != len(b) {
		return false
	}
	key := func(r ret) int {
		if r.closed {
			return -1
		}
		return r.v
	}
	x, y := make([]int, len(a)), make([]int, len(b))
	for i := range a {
		x[i], y[i] = key(a[i]), key(b[i])
	}
	sort.Ints(x)
	sort.Ints(y)
	for i := range x {
		if x[i] != y[i] {
			return false
		}
	}
	return true
}

func fmtRets(rs []ret) string {
	s := "["
	for i, r := range rs {
		if i > 0 {
			s += " "
		}
		if r.closed {
			s += "closed"
		} else {
			s += fmt.Sprint(r.v)
		}
	}
	return s + "]"
}

// ---------------------------------------------------------------------------
// stress mode for the blocking queues

type CaseStress struct {
	Kind      string `json:"kind"`
	CapReq    int    `json:"cap_req"`
	Procs     int    `json:"procs"`
	Producers []int  `json:"producers"` // items per producer
	Consumers []bool `json:"consumers"` // per consumer: PopAnyway?
	CloseAt   int    `json:"close_at"`  // closer closes after this many accepted adds (or when producers are done)
	// Entries: "" every producer uses the ordinary add; "mixed": per item, by its number, the entry points in turn -
	// ordinary / at the front / Add*Anyway, on the request and (two-lane queue) the control lane. Front adds and a second
	// lane give up the per-producer order, which is then not asked for
	Entries string `json:"entries,omitempty"`
}

func GenStress(t *rapid.T) CaseStress {
	// (the two-lane queue has twice the entry points: weight 3 in 7)
	c := CaseStress{Kind: rapid.SampledFrom(append([]string{qadapt.KindMQ, qadapt.KindMQ}, blockingKinds...)).Draw(t, "kind")}
	c.CapReq = rapid.SampledFrom([]int{0, 0, 1, 2, 5}).Draw(t, "cap")
	c.Procs = rapid.SampledFrom([]int{1, 2, 4, 8}).Draw(t, "procs")
	np := rapid.IntRange(1, 4).Draw(t, "np")
	total := 0
	for i := 0; i < np; i++ {
		n := rapid.IntRange(1, 30).Draw(t, "items")
		c.Producers = append(c.Producers, n)
		total += n
	}
	nc := rapid.IntRange(1, 5).Draw(t, "nc")
	for i := 0; i < nc; i++ {
		c.Consumers = append(c.Consumers, rapid.Bool().Draw(t, "anyway"))
	}
	c.CloseAt = rapid.IntRange(0, total+5).Draw(t, "closeat")
	if rapid.Bool().Draw(t, "mixedentries") {
		c.Entries = "mixed"
	}
	return c
}

// stressAdd is one add of a producer in the stress part: the entry points in turn (cf. tieAdd), with the outcome
func stressAdd(q *qadapt.Q, kind string, turn, v int) qadapt.Outcome {
	lane := qadapt.LaneReq
	if kind == qadapt.KindMQ && turn%6 >= 3 {
		lane = qadapt.LaneCtrl
	}
	switch {
	case kind == qadapt.KindSync:
		return q.Add(lane, v)
	case turn%3 == 1:
		return q.AddPrior(lane, v)
	case turn%3 == 2 && q.AddAnyway != nil:
		return q.AddAnyway(lane, v) // retries by itself while the lane is full; ends when the queue is closed
	}
	return q.Add(lane, v)
}

func ExecStress(c CaseStress) *vkit.Result {
	res := &vkit.Result{}
	q := qadapt.New(c.Kind, c.CapReq, 0)
	if q == nil || q.Pop == nil || len(c.Producers) == 0 || len(c.Consumers) == 0 || len(c.Producers) > 16 || len(c.Consumers) > 32 {
		res.Skip("malformed-config")
		return res
	}
	for _, n := range c.Producers {
		if n < 0 || n > 1000 {
			res.Skip("malformed-config")
			return res
		}
	}
	if c.Procs >= 1 && c.Procs <= 64 {
		defer runtime.GOMAXPROCS(runtime.GOMAXPROCS(c.Procs))
	}
	sched := vkit.NewSched()
	var (
		accepted    atomic.Int64
		prodDone    atomic.Int64
		closeCalled atomic.Bool
		mu          sync.Mutex
		acceptedV   = map[int]bool{}
		consumed    = make([][]int, len(c.Consumers))
		problem     string
	)
	note := func(f string, a ...any) {
		mu.Lock()
		if problem == "" {
			problem = fmt.Sprintf(f, a...)
		}
		mu.Unlock()
	}
	start := make(chan struct{})
	for pi, n := range c.Producers {
		pi, n := pi, n
		sched.Go(fmt.Sprintf("producer-%d", pi), func() {
			<-start
			defer prodDone.Add(1)
			for j := 0; j < n; j++ {
				v := pi*100000 + j
				for {
					var o qadapt.Outcome
					if c.Entries == "mixed" {
						o = stressAdd(q, c.Kind, pi+j, v)
					} else {
						o = q.Add(qadapt.LaneReq, v)
					}
					if o == qadapt.Full {
						runtime.Gosched()
						continue
					}
					if o == qadapt.Closed {
						return
					}
					if o != qadapt.Accepted {
						note("producer %d: add failed with an unexpected error", pi)
						return
					}
					break
				}
				mu.Lock()
				acceptedV[v] = true // for the sync queue "accepted" may mean dropped after close; handled below
				mu.Unlock()
				accepted.Add(1)
			}
		})
	}
	for ci, anyway := range c.Consumers {
		ci, anyway := ci, anyway
		sched.Go(fmt.Sprintf("consumer-%d", ci), func() {
			<-start
			for {
				pop := q.Pop
				if anyway {
					pop = q.PopAnyway
				}
				v, closed, err := pop()
				if err != nil {
					note("consumer %d: pop failed with %v", ci, err)
					return
				}
				if closed {
					// schedule-independent: "closed" may only be reported once Close has been called
					if !closeCalled.Load() {
						note("consumer %d was told the queue is closed although Close had not been called yet", ci)
					}
					return
				}
				consumed[ci] = append(consumed[ci], v)
			}
		})
	}
	sched.Go("closer", func() {
		<-start
		for accepted.Load() < int64(c.CloseAt) && prodDone.Load() < int64(len(c.Producers)) {
			runtime.Gosched()
		}
		closeCalled.Store(true)
		q.Close()
	})
	close(start)
	sched.MustQuiesce()
	if parked := sched.ParkedOps(); len(parked) > 0 {
		var names []string
		for _, p := range parked {
			names = append(names, p.Name)
		}
		q.Close()
		return res.Failf("stress-sleeper", "%s: the queue is closed and every producer finished, yet these goroutines are parked forever: %v", c.Kind, names)
	}
	for _, op := range sched.Ops() {
		if p := op.Panic(); p != nil {
			return res.Failf("stress-panic", "%s panicked: %v", op.Name, p)
		}
	}
	if problem != "" {
		return res.Failf("stress-error", "%s", problem)
	}
	// conservation: consumed + residue == accepted, nothing twice, nothing invented, per-producer order kept per consumer
	seen := map[int]bool{}
	for ci, vs := range consumed {
		last := map[int]int{}
		for _, v := range vs {
			if seen[v] {
				return res.Failf("stress-duplicate", "%s: item %d handed out twice", c.Kind, v)
			}
			seen[v] = true
			p := v / 100000
			if prev, ok := last[p]; ok && prev > v && c.Entries != "mixed" {
				return res.Failf("stress-order", "%s: consumer %d got item %d of producer %d after item %d", c.Kind, ci, v, p, prev)
			}
			last[p] = v
		}
	}
	for {
		v, closed, err := q.PopAnyway()
		if err != nil || closed {
			break
		}
		if seen[v] {
			return res.Failf("stress-duplicate", "%s: residue item %d was already handed out", c.Kind, v)
		}
		seen[v] = true
	}
	for v := range seen {
		if !acceptedV[v] {
			return res.Failf("stress-invented", "%s: item %d was handed out but its add was not accepted", c.Kind, v)
		}
	}
	if c.Kind != qadapt.KindSync { // the sync queue drops silently after close: an "accepted" add may have been dropped
		for v := range acceptedV {
			if !seen[v] {
				return res.Failf("stress-lost", "%s: item %d was accepted but neither handed out nor left in the queue", c.Kind, v)
			}
		}
	}
	res.NonTrivial = len(c.Consumers) >= 2 && len(seen) >= 2
	if c.Procs > 1 {
		res.Class("parallel")
	}
	if c.CapReq > 0 {
		res.Class("bounded")
	}
	if c.Entries == "mixed" {
		res.Class("every-add-entry-point-in-turn")
	}
	return res
}

// ---------------------------------------------------------------------------
// priority queue: sequential invariant and select-then-pop stress

type PriStep struct {
	Op  string `json:"op"` // push | pop | recvpop
	Pri int    `json:"pri,omitempty"`
}

type CasePriSeq struct {
	Cap   int       `json:"cap"`
	Steps []PriStep `json:"steps"`
}

func GenPriSeq(t *rapid.T) CasePriSeq {
	c := CasePriSeq{Cap: rapid.SampledFrom([]int{1, 2, 3, 5, 100}).Draw(t, "cap")}
	n := rapid.IntRange(2, 30).Draw(t, "n")
	for i := 0; i < n; i++ {
		switch rapid.IntRange(0, 9).Draw(t, "what") {
		case 0, 1, 2, 3, 4:
			c.Steps = append(c.Steps, PriStep{Op: "push", Pri: rapid.IntRange(-2, 2).Draw(t, "pri")})
		case 5, 6:
			c.Steps = append(c.Steps, PriStep{Op: "pop"})
		default:
			c.Steps = append(c.Steps, PriStep{Op: "recvpop"})
		}
	}
	return c
}

func ExecPriSeq(c CasePriSeq) *vkit.Result {
	res := &vkit.Result{}
	if c.Cap < 0 || c.Cap > 100000 {
		res.Skip("malformed-config")
		return res
	}
	q := qadapt.New(qadapt.KindPri, c.Cap, 0)
	ch := q.WaitCh()
	size := 0
	for i, st := range c.Steps {
		switch st.Op {
		case "push":
			if q.PushPri(i, st.Pri) == qadapt.Accepted {
				size++
			}
		case "pop":
			if _, _, ok := q.PopPri(); ok {
				size--
				if size > 0 {
					res.Class("pop-leaves-items")
					res.NonTrivial = true
				}
			}
		case "recvpop":
			select {
			case <-ch:
				res.Class("signal-consumed-then-pop")
				_, _, ok := q.PopPri()
				if ok {
					size--
					if size > 0 {
						res.NonTrivial = true
					}
				}
			default:
				if size > 0 {
					return res.Failf("waitch-not-readable", "step %d: the queue holds %d items, no call is in progress, no signal is outstanding, but the wait channel is not readable", i, size)
				}
			}
		default:
			res.Skip("unknown-op")
			continue
		}
		if q.Len() != size {
			return res.Failf("pri-len", "step %d %+v: Len %d, model %d", i, st, q.Len(), size)
		}
		if size > 0 && len(ch) != 1 {
			return res.Failf("waitch-not-readable", "step %d %+v: the queue holds %d items at rest but the wait channel is empty", i, st, size)
		}
	}
	return res
}

type CasePriStress struct {
	Procs     int     `json:"procs"`
	Producers [][]int `json:"producers"` // priorities to push, per producer
	Consumers int     `json:"consumers"`
	Slack     int     `json:"slack"` // capacity = total + slack
	// Observers: goroutines that keep calling Len() while the producers run (and a little longer)
	Observers int `json:"observers,omitempty"`
}

func GenPriStress(t *rapid.T) CasePriStress {
	c := CasePriStress{Procs: rapid.SampledFrom([]int{1, 2, 4, 8}).Draw(t, "procs"), Consumers: rapid.IntRange(1, 5).Draw(t, "nc"), Slack: rapid.IntRange(0, 3).Draw(t, "slack")}
	np := rapid.IntRange(1, 4).Draw(t, "np")
	for i := 0; i < np; i++ {
		c.Producers = append(c.Producers, rapid.SliceOfN(rapid.IntRange(-2, 2), 1, 25).Draw(t, "pris"))
	}
	c.Observers = rapid.SampledFrom([]int{0, 0, 1, 2}).Draw(t, "observers")
	return c
}

func ExecPriStress(c CasePriStress) *vkit.Result {
	res := &vkit.Result{}
	total := 0
	for _, p := range c.Producers {
		total += len(p)
	}
	if total == 0 || total > 5000 || c.Consumers < 1 || c.Consumers > 32 || c.Slack < 0 {
		res.Skip("malformed-config")
		return res
	}
	if c.Procs >= 1 && c.Procs <= 64 {
		defer runtime.GOMAXPROCS(runtime.GOMAXPROCS(c.Procs))
	}
	q := qadapt.New(qadapt.KindPri, total+c.Slack, 0)
	ch := q.WaitCh()
	sched := vkit.NewSched()
	stop := make(chan struct{})
	start := make(chan struct{})
	var (
		mu       sync.Mutex
		consumed = map[int]int{}
		refused  atomic.Int64
	)
	var prodLeft atomic.Int64
	prodLeft.Store(int64(len(c.Producers)))
	for pi, pris := range c.Producers {
		pi, pris := pi, pris
		sched.Go(fmt.Sprintf("producer-%d", pi), func() {
			<-start
			for j, pri := range pris {
				if q.PushPri(pi*100000+j, pri) != qadapt.Accepted {
					refused.Add(1)
				}
			}
			prodLeft.Add(-1)
		})
	}
	for oi := 0; oi < c.Observers && oi < 4 && q.Len != nil; oi++ {
		sched.Go(fmt.Sprintf("observer-%d", oi), func() {
			<-start
			for extra := 0; extra < 3000; {
				_ = q.Len()
				if prodLeft.Load() == 0 {
					extra++
				}
			}
		})
	}
	if c.Observers > 0 {
		res.Class("concurrent-Len-observers")
	}
	var cops []*vkit.Op
	for ci := 0; ci < c.Consumers; ci++ {
		cops = append(cops, sched.Go(fmt.Sprintf("consumer-%d", ci), func() {
			<-start
			for {
				select {
				case <-ch: // the documented protocol: select on the wait channel, then Pop
					if v, _, ok := q.PopPri(); ok {
						mu.Lock()
						consumed[v]++
						mu.Unlock()
					}
				case <-stop:
					return
				}
			}
		}))
	}
	close(start)
	sched.MustQuiesce()
	// producers are done, every consumer sleeps in its select: the queue must be empty
	left := q.Len()
	mu.Lock()
	nc := len(consumed)
	dup := 0
	for _, n := range consumed {
		if n > 1 {
			dup++
		}
	}
	mu.Unlock()
	close(stop)
	sched.MustQuiesce()
	for _, op := range sched.Ops() {
		if p := op.Panic(); p != nil {
			return res.Failf("stress-panic", "%s panicked: %v", op.Name, p)
		}
		if !op.Done() {
			return res.Failf("stress-sleeper", "%s did not finish", op.Name)
		}
	}
	if refused.Load() > 0 {
		return res.Failf("pri-refused", "%d pushes were refused although the capacity %d covers all %d items", refused.Load(), total+c.Slack, total)
	}
	if left > 0 {
		return res.Failf("pri-sleeper-beside-items", "all %d consumers sleep on the wait channel while the queue still holds %d of %d items (consumed %d)", c.Consumers, left, total, nc)
	}
	if dup > 0 || nc != total {
		return res.Failf("pri-conservation", "pushed %d items, consumed %d distinct (%d more than once)", total, nc, dup)
	}
	res.NonTrivial = total >= 2 && c.Consumers >= 2
	if c.Procs > 1 {
		res.Class("parallel")
	}
	return res
}

// ---------------------------------------------------------------------------
// tie stress: the windows inside one call that the controlled mode cannot own.
// (1) consumers *entering* a blocking pop race a Close: whatever the order, every
// consumer must return. (2) priority queue: a Pop that empties the queue races a
// Push: when both have returned and the queue is non-empty, the wait channel must
// be readable.

type CaseTie struct {
	Kind      string `json:"kind"` // a blocking queue kind, or the priority queue
	Procs     int    `json:"procs"`
	Rounds    int    `json:"rounds"`
	Consumers int    `json:"consumers"`
	Anyway    []bool `json:"anyway"`
	// priq: items queued before the round. 1-2: the racing Pop takes the last one; 0: the racing Pop finds the queue EMPTY
	PreItems int `json:"pre_items"`
	// priq, PreItems > 0: the racing consumer polls - it calls Pop without a receive before it (the signal of the queued
	// item stays in the channel); default: the documented receive-then-Pop
	Direct bool `json:"direct,omitempty"`
	// Racer: what races the consumers entering their pop: "" Close; "tryclose" (two-lane queue: TryClose on the empty
	// queue closes it); "adds": one add per consumer (ordinary, prior, Add*Anyway, on the request and - two-lane queue -
	// the control lane, in turn) and no close at all: every consumer must come back with an item; "cycle": all of these
	// in turn, round by round
	Racer string `json:"racer,omitempty"`
	// Barrier: how the parties of a round are released together: "" a closed channel (they are woken through the
	// scheduler, microseconds apart); "spin": they spin on a flag and start within nanoseconds of one another, each after
	// a small delay that sweeps all offsets round by round: consumers round mod SkewA, the racer (round / SkewA) mod SkewB
	// units of SkewUnit atomic loads
	Barrier  string `json:"barrier,omitempty"`
	SkewA    int    `json:"skew_a,omitempty"`
	SkewB    int    `json:"skew_b,omitempty"`
	SkewUnit int    `json:"skew_unit,omitempty"`
}

// weights: the two-lane queue has the most entry points that can race a consumer (TryClose, control lane, front adds)
var tieKinds = []string{qadapt.KindQ, qadapt.KindAsync, qadapt.KindMux, qadapt.KindMux, qadapt.KindMQ, qadapt.KindMQ, qadapt.KindMQ, qadapt.KindSync, qadapt.KindPri, qadapt.KindPri, qadapt.KindPri}

func GenTie(t *rapid.T) CaseTie {
	c := CaseTie{Kind: rapid.SampledFrom(tieKinds).Draw(t, "kind")}
	c.Procs = rapid.SampledFrom([]int{2, 4, 8}).Draw(t, "procs")
	c.Rounds = rapid.SampledFrom([]int{300, 1000, 3000}).Draw(t, "rounds")
	c.Consumers = rapid.IntRange(1, 4).Draw(t, "consumers")
	for i := 0; i < c.Consumers; i++ {
		c.Anyway = append(c.Anyway, rapid.Bool().Draw(t, "anyway"))
	}
	c.PreItems = rapid.SampledFrom([]int{0, 0, 0, 1, 1, 2}).Draw(t, "pre")
	if c.Kind == qadapt.KindPri {
		c.Direct = c.PreItems > 0 && rapid.IntRange(0, 3).Draw(t, "direct") > 0
		// the priority queue's rounds are cheap (no parked consumers to wake) and its windows the narrowest: several times
		// the rounds (fewer under the race detector, where a round costs ten times more)
		c.Rounds = rapid.SampledFrom(map[bool][]int{false: {3000, 10000}, true: {1000, 3000}}[raceEnabled]).Draw(t, "prirounds")
	}
	if c.Kind != qadapt.KindPri {
		c.Racer = rapid.SampledFrom([]string{"cycle", "cycle", "cycle", "", "adds", "tryclose"}).Draw(t, "racer")
		if c.Racer == "tryclose" && c.Kind != qadapt.KindMQ {
			c.Racer = ""
		}
	}
	if rapid.IntRange(0, 7).Draw(t, "barrier") > map[bool]int{false: 1, true: 0}[c.Kind == qadapt.KindPri] {
		c.Barrier = "spin"
		c.SkewA = rapid.SampledFrom([]int{1, 7, 7, 13}).Draw(t, "skewa")
		c.SkewB = rapid.SampledFrom([]int{1, 11, 11, 29}).Draw(t, "skewb")
		c.SkewUnit = rapid.SampledFrom([]int{1, 1, 4, 16}).Draw(t, "skewunit")
	}
	return c
}

// tieBarrier releases the parties of one round together. Spinning is bounded: a party that is not released soon
// yields its processor between looks, so that more parties than processors still meet.
type tieBarrier struct {
	arrived atomic.Int32
	rel     atomic.Bool
}

// (under the race detector an atomic load costs some 50 times more: the bound is lowered accordingly)
var tieSpinBound = map[bool]int{false: 2000, true: 40}[raceEnabled]

func (b *tieBarrier) wait(skew int) {
	b.arrived.Add(1)
	for i := 0; !b.rel.Load(); i++ {
		if i > tieSpinBound {
			runtime.Gosched()
		}
	}
	for i := 0; i < skew; i++ {
		_ = b.rel.Load()
	}
}

func (b *tieBarrier) release(n int) {
	for i := 0; int(b.arrived.Load()) != n; i++ {
		if i > tieSpinBound/10 {
			runtime.Gosched()
		}
	}
	b.rel.Store(true)
}

// tieAdd is the i-th add of the adds racer in a round: the entry points in turn
func tieAdd(q *qadapt.Q, kind string, turn, v int) {
	lane := qadapt.LaneReq
	if kind == qadapt.KindMQ && turn%6 >= 3 {
		lane = qadapt.LaneCtrl
	}
	switch {
	case kind == qadapt.KindSync:
		q.Add(lane, v)
	case turn%3 == 1:
		q.AddPrior(lane, v)
	case turn%3 == 2 && q.AddAnyway != nil:
		q.AddAnyway(lane, v) // the lane is unbounded: never full, never sleeps
	default:
		q.Add(lane, v)
	}
}

func ExecTie(c CaseTie) *vkit.Result {
	res := &vkit.Result{}
	if c.Rounds < 1 || c.Rounds > 100000 || c.Consumers < 1 || c.Consumers > 16 || len(c.Anyway) < c.Consumers || c.PreItems < 0 || c.PreItems > 8 ||
		c.SkewA < 0 || c.SkewA > 1000 || c.SkewB < 0 || c.SkewB > 1000 || c.SkewUnit < 0 || c.SkewUnit > 64 {
		res.Skip("malformed-config")
		return res
	}
	if qadapt.New(c.Kind, 0, 0) == nil {
		res.Skip("malformed-config")
		return res
	}
	if c.Procs >= 1 && c.Procs <= 64 {
		defer runtime.GOMAXPROCS(runtime.GOMAXPROCS(c.Procs))
	}
	spin := c.Barrier == "spin"
	// the parties of a round: wait(delay class) blocks until the round is released
	type gate struct {
		wait    func(skew int)
		release func()
	}
	newGate := func(parties, round int) gate {
		if !spin {
			start := make(chan struct{})
			return gate{wait: func(int) { <-start }, release: func() { close(start) }}
		}
		b := &tieBarrier{}
		return gate{wait: b.wait, release: func() { b.release(parties) }}
	}
	skewOf := func(round int, racer bool) int {
		if !spin {
			return 0
		}
		if racer {
			return max(1, c.SkewUnit) * (round / max(1, c.SkewA) % max(1, c.SkewB))
		}
		return max(1, c.SkewUnit) * (round % max(1, c.SkewA))
	}
	racers := []string{c.Racer}
	if c.Racer == "cycle" {
		racers = []string{"", "adds"}
		if c.Kind == qadapt.KindMQ {
			racers = []string{"", "adds", "tryclose"}
		}
	}
	sched := vkit.NewSched()
	baseline := map[int64]struct{}{} // goroutines that are not part of the case (the controller among them)
	for _, g := range sched.Dump() {
		baseline[g.ID] = struct{}{}
	}
	var problem, site string
	var curRound, curRacerIx atomic.Int64 // read by the controller while the rounds' goroutine may be parked for good
	finished := make(chan struct{})
	op := sched.Go("tie-rounds", func() {
		defer close(finished)
		for round := 0; round < c.Rounds && problem == ""; round++ {
			curRound.Store(int64(round))
			if c.Kind == qadapt.KindPri {
				q := qadapt.New(qadapt.KindPri, 64, 0)
				for i := 0; i < c.PreItems; i++ {
					q.PushPri(i, 0)
				}
				// drain to exactly one queued item with its signal consumed-and-followed, as the protocol wants
				for i := 0; i < c.PreItems-1; i++ {
					select {
					case <-q.WaitCh():
					default:
					}
					q.PopPri()
				}
				g := newGate(2, round)
				sa, sb := skewOf(round, false), skewOf(round, true)
				var wg sync.WaitGroup
				wg.Add(2)
				// the consumer of the documented protocol: receive, then pop: with one item queued its Pop empties the queue.
				// With none queued there is no signal to receive: a Pop of somebody who polls (or was handed a stale signal
				// earlier) finds the queue empty
				go func() {
					defer wg.Done()
					g.wait(sa)
					if c.PreItems > 0 && !c.Direct {
						select {
						case <-q.WaitCh():
						default:
						}
					}
					q.PopPri()
				}()
				go func() { defer wg.Done(); g.wait(sb); q.PushPri(100, 1) }()
				g.release()
				wg.Wait()
				// at rest now: no call in progress, no signal held by anybody
				if n := q.Len(); n > 0 && len(q.WaitCh()) != 1 {
					how := "a Pop that emptied the queue"
					if c.PreItems == 0 {
						how = "a Pop on the empty queue"
					}
					site, problem = "tie-waitch-not-readable", fmt.Sprintf("round %d: %s raced a Push; both have returned, the queue holds %d item(s), but the wait channel is not readable", round, how, n)
					return
				}
				continue
			}
			q := qadapt.New(c.Kind, 0, 0)
			racer := racers[round%len(racers)]
			if racer == "tryclose" && q.TryClose == nil {
				racer = ""
			}
			curRacerIx.Store(int64(round % len(racers)))
			turn := round / len(racers)
			g := newGate(c.Consumers+1, round)
			sa, sb := skewOf(round, false), skewOf(round, true)
			var wg sync.WaitGroup
			for i := 0; i < c.Consumers; i++ {
				pop := q.Pop
				if c.Anyway[i] {
					pop = q.PopAnyway
				}
				wg.Add(1)
				go func() { defer wg.Done(); g.wait(sa + i); _, _, _ = pop() }()
			}
			wg.Add(1)
			switch racer {
			case "tryclose":
				go func() { defer wg.Done(); g.wait(sb); q.TryClose() }()
			case "adds":
				go func() {
					defer wg.Done()
					g.wait(sb)
					for i := 0; i < c.Consumers; i++ {
						tieAdd(q, c.Kind, turn+i, i)
					}
				}()
			default:
				go func() { defer wg.Done(); g.wait(sb); q.Close() }()
			}
			g.release()
			wg.Wait() // a consumer that misses the close parks forever: seen by the quiescence detector below
		}
	})
	// The rounds are left alone while they run (a stop-the-world goroutine dump every few microseconds would smear the
	// very ties they are after). The clock only decides when to LOOK: rounds that have not ended after a while are
	// examined by the quiescence detector, which alone says whether somebody is parked for good.
	for done := false; !done; {
		tm := time.NewTimer(250 * time.Millisecond)
		select {
		case <-finished:
			done = true
		case <-tm.C:
			// one look: has everything that belongs to the case come to rest (somebody parked for good)?
			done = true
			for _, g := range sched.Dump() {
				if _, old := baseline[g.ID]; old {
					continue
				}
				if !vkit.IsParked(g.State) && !(g.State == "semacquire" && strings.Contains(g.Stack, "sync.(*WaitGroup).Wait")) {
					done = false // still running: leave it alone
					break
				}
			}
		}
		tm.Stop()
	}
	sched.MustQuiesce()
	if !op.Done() {
		round, curRacer := int(curRound.Load()), racers[curRacerIx.Load()]
		if curRacer == "adds" {
			return res.Failf("tie-add-missed", "%s: round %d: %d consumers entered their blocking pop while %d items were added (ordinary / prior / Add*Anyway adds, request and control lane in turn); the adds have returned, yet a consumer is parked forever beside its item", c.Kind, round, c.Consumers, c.Consumers)
		}
		return res.Failf("tie-close-missed", "%s: round %d: %d consumers entered their blocking pop while Close ran (%s); it has returned, yet somebody is parked forever", c.Kind, round, c.Consumers, map[bool]string{true: "TryClose", false: "Close"}[curRacer == "tryclose"])
	}
	if p := op.Panic(); p != nil {
		return res.Failf("tie-panic", "%v", p)
	}
	if problem != "" {
		return res.Failf(site, "%s", problem)
	}
	res.NonTrivial = c.Rounds >= 300
	if c.Kind == qadapt.KindPri {
		switch {
		case c.PreItems == 0:
			res.Class("priq-pop-on-empty-vs-push")
		case c.Direct:
			res.Class("priq-emptying-pop-without-receive-vs-push")
		default:
			res.Class("priq-pop-vs-push")
		}
	} else {
		res.Class("pop-entry-vs-" + map[string]string{"": "close", "adds": "adds", "tryclose": "tryclose", "cycle": "all-in-turn"}[c.Racer])
		if c.Kind == qadapt.KindMQ && (c.Racer == "cycle" || c.Racer == "tryclose") {
			res.Class("two-lane-queue-tryclose-rounds")
		}
	}
	if spin {
		res.Class("spin-barrier")
	}
	return res
}

// ---------------------------------------------------------------------------

var PartCtl = &vkit.Part[CaseCtl]{
	Property: Property, Name: "controlled",
	Rule:  "rapid: {pipe/q.Q | pipe/async.Q | pipe/mux.Q | pipe/mq.MQ | syncq.SyncQueue, capacities} x (0-2 initial adds, 1-5 consumers parked one by one in Pop or PopAnyway, then 1-10 of add / prior-add / ctrl-add / burst of 1-4 adds by one goroutine, optionally followed by its Close, without quiescence in between / consume / close); every call on its own goroutine, quiescence after each; per step the consumers that returned (items or closed) and the number still parked must equal the model's: one add wakes exactly one parked consumer with that item, close releases all of them. Non-trivial: >= 2 consumers parked before the first add/close; distinct = distinct case JSON",
	Quick: 2400, Thorough: 15000,
	Gen: GenCtl, Exec: ExecCtl,
}

var stressRule = "rapid: 1-4 producers (1-30 items each, retry on full; half of the cases: per item the entry points in turn - ordinary / at the front / Add*Anyway, request and control lane - and then no order asked), 1-5 consumers looping Pop or PopAnyway until closed, a closer that closes after a drawn number of accepted adds; GOMAXPROCS 1/2/4/8. Oracle: at quiescence nobody is parked, consumed + residue == accepted (no loss, duplicate, invention), per-producer order kept per consumer. Non-trivial: >= 2 consumers and >= 2 items; distinct = distinct case JSON"

var PartStress = &vkit.Part[CaseStress]{
	Property: Property, Name: "stress",
	Rule:  stressRule,
	Quick: 300, Thorough: 3000,
	Gen: GenStress, Exec: ExecStress,
}

var PartStressRace = &vkit.Part[CaseStress]{
	Property: Property, Name: "race-stress",
	Rule:  stressRule + " (binary built with -race)",
	Quick: 300, Thorough: 1500,
	Gen: GenStress, Exec: ExecStress,
}

var PartPriSeq = &vkit.Part[CasePriSeq]{
	Property: Property, Name: "priq-sequential",
	Rule:  "rapid: capacity x 2-30 steps of push(priority -2..2) / pop / receive-from-wait-channel-then-pop; after every step (no call in progress, no unconsumed signal): Len()>0 implies the wait channel holds a signal, and a non-blocking receive succeeds whenever the queue is non-empty. Non-trivial: a pop that leaves items behind; distinct = distinct case JSON",
	Quick: 5000, Thorough: 40000,
	Gen: GenPriSeq, Exec: ExecPriSeq,
}

var priStressRule = "rapid: 1-4 producers push 1-25 prioritised items each (capacity covers all), 1-5 consumers follow the documented protocol (select on WaitCh, then Pop); at quiescence with every consumer asleep the queue must be empty and every item consumed exactly once. Non-trivial: >= 2 items and >= 2 consumers; distinct = distinct case JSON"

var PartPriStress = &vkit.Part[CasePriStress]{
	Property: Property, Name: "priq-stress",
	Rule:  priStressRule,
	Quick: 400, Thorough: 4000,
	Gen: GenPriStress, Exec: ExecPriStress,
}

var PartPriStressRace = &vkit.Part[CasePriStress]{
	Property: Property, Name: "race-priq-stress",
	Rule:  priStressRule + " (binary built with -race)",
	Quick: 100, Thorough: 1000,
	Gen: GenPriStress, Exec: ExecPriStress,
}

var tieRule = "rapid: per case 300-3000 rounds (priority queue: 3000-10000; under -race 1000-3000) on fresh queues, GOMAXPROCS 2/4/8; the parties of a round are released together by a closed channel or (3 of 4 cases; priority queue 7 of 8) by a spin barrier after which each party waits a few atomic loads more - consumers round mod {1,7,13}, the racer (round / that) mod {1,11,29}, in units of 1/4/16 loads - so that the offsets between them sweep a grid of nanoseconds; the rounds run undisturbed (while they run a timer takes one goroutine snapshot every 250 ms; only when that shows everything at rest - or the rounds have ended - does the quiescence detector look, and only it decides). Blocking queues (the two-lane queue weighted 3 in 11): 1-4 consumers enter Pop / PopAnyway while a racer runs: Close; TryClose (two-lane queue); one add per consumer going round the entry points (ordinary / at the front / Add*Anyway, request and control lane); or (half of the cases) all of these in turn, round by round. Whatever the order, every consumer must return (a parked one is seen at quiescence - exact). Priority queue (3 in 11): a Pop that empties the queue - after a receive, as documented, or without one, as a poller does - or (half of the cases) a Pop that finds the queue empty races a Push; when both have returned, a non-empty queue must have a readable wait channel. Non-trivial: >= 300 rounds; distinct = distinct case JSON"

var PartTie = &vkit.Part[CaseTie]{
	Property: Property, Name: "tie-stress",
	Rule:  tieRule,
	Quick: 120, Thorough: 800,
	Gen: GenTie, Exec: ExecTie,
}

var PartTieRace = &vkit.Part[CaseTie]{
	Property: Property, Name: "race-tie-stress",
	Rule:  tieRule + " (binary built with -race)",
	Quick: 30, Thorough: 200,
	Gen: GenTie, Exec: ExecTie,
}
