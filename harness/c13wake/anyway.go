package c13wake

// part "anyway-producers": producers that go through the retrying Add*Anyway entry
// points of the bounded pipe queues (they wait - today by sleeping between attempts -
// until the lane has room) together with consumers blocked in Pop.
//
//	drain: k producers push their items through Add*Anyway into a small bounded queue,
//	       consumers take exactly as many items with the blocking Pop. Everything must
//	       finish: a consumer parked at the final quiescence while items were accepted
//	       and not handed out sleeps beside a non-empty queue.
//	close: the lane is filled to its capacity, one producer is inside Add*Anyway, then
//	       the harness closes the queue and frees slots with PopAnyway: the producer's
//	       add must be refused (closed queues refuse every add) and its item never shows up.
//
// No timing verdicts: the only waits are the library's own retry sleeps; the verdict is taken
// at quiescence (everybody finished, or parked for good).

import (
	"fmt"
	"sort"
	"strings"
	"sync"
	"time"

	"pgregory.net/rapid"

	"verifharness/qadapt"
	"verifharness/vkit"
)

type CaseAnyway struct {
	Kind      string `json:"kind"`
	Mode      string `json:"mode"` // drain | close
	Cap       int    `json:"cap"`
	Ctrl      bool   `json:"ctrl,omitempty"` // mq: use the control lane
	Producers []int  `json:"producers"`      // items per producer (drain)
	Consumers []int  `json:"consumers"`      // drain: items each consumer takes (sums to the number of items)
	SleepUs   int    `json:"sleep_us"`       // retry pause handed to Add*Anyway
	Frees     int    `json:"frees"`          // close: PopAnyway calls after the Close
	// Entries (drain): which add entry points the producers use: "" = Add*Anyway only; "plain" = the ordinary add
	// (unbounded lanes only: Cap 0); "mixed" = per item, by its number: Add*Anyway (plain if unbounded) / prior add /
	// - on the two-lane queue - the other lane
	Entries string `json:"entries,omitempty"`
	// PopAnyway (drain): which blocking pop the consumers use: "" Pop, "all" PopAnyway, "mixed" alternating by consumer
	PopAnyway string `json:"pop_anyway,omitempty"`
}

var anywayKinds = []string{qadapt.KindQ, qadapt.KindAsync, qadapt.KindMux, qadapt.KindMQ}

func GenAnyway(t *rapid.T) CaseAnyway {
	c := CaseAnyway{Kind: rapid.SampledFrom(anywayKinds).Draw(t, "kind")}
	c.Mode = rapid.SampledFrom([]string{"drain", "drain", "close"}).Draw(t, "mode")
	c.Cap = rapid.SampledFrom([]int{1, 1, 2, 3}).Draw(t, "cap")
	c.Ctrl = c.Kind == qadapt.KindMQ && rapid.Bool().Draw(t, "ctrl")
	c.SleepUs = rapid.SampledFrom([]int{1, 50, 300, 2000}).Draw(t, "sleep")
	if c.Mode == "close" {
		c.Frees = rapid.IntRange(1, c.Cap).Draw(t, "frees")
		return c
	}
	c.Entries = rapid.SampledFrom([]string{"", "mixed", "mixed", "plain"}).Draw(t, "entries")
	if c.Entries == "plain" || (c.Entries == "mixed" && rapid.Bool().Draw(t, "unbounded")) {
		c.Cap = 0
	}
	total := 0
	for i, k := 0, rapid.IntRange(1, 5).Draw(t, "np"); i < k; i++ {
		n := rapid.IntRange(1, 4).Draw(t, "items")
		c.Producers = append(c.Producers, n)
		total += n
	}
	nc := rapid.IntRange(1, min(3, total)).Draw(t, "nc")
	left := total
	for i := 0; i < nc; i++ {
		n := left
		if i < nc-1 {
			n = rapid.IntRange(1, left-(nc-1-i)).Draw(t, "quota")
		}
		c.Consumers = append(c.Consumers, n)
		left -= n
	}
	c.PopAnyway = rapid.SampledFrom([]string{"", "all", "mixed"}).Draw(t, "popanyway")
	return c
}

func ExecAnyway(c CaseAnyway) *vkit.Result {
	res := &vkit.Result{}
	if c.Cap < 0 || c.Cap > 16 || (c.Cap == 0 && (c.Mode != "drain" || c.Entries == "")) || (c.Entries == "plain" && c.Cap != 0) || c.SleepUs < 1 || c.SleepUs > 20000 || len(c.Producers) > 8 || len(c.Consumers) > 8 {
		res.Skip("malformed-config")
		return res
	}
	capReq, capCtrl, lane := c.Cap, 0, qadapt.LaneReq
	if c.Ctrl && c.Kind == qadapt.KindMQ {
		capReq, capCtrl, lane = 0, c.Cap, qadapt.LaneCtrl
	}
	q := qadapt.NewWithPause(c.Kind, capReq, capCtrl, time.Duration(c.SleepUs)*time.Microsecond)
	if q == nil || q.AddAnyway == nil {
		res.Skip("malformed-config")
		return res
	}
	sched := vkit.NewSched()
	sched.FullStacks = true
	switch c.Mode {
	case "close":
		if c.Frees < 1 || c.Frees > c.Cap {
			res.Skip("malformed-config")
			return res
		}
		for i := 0; i < c.Cap; i++ {
			if o := q.Add(lane, i); o != qadapt.Accepted {
				return res.Failf("add-outcome", "filling %s to its capacity %d: add %d returned %v", c.Kind, c.Cap, i, o)
			}
		}
		var out qadapt.Outcome
		p := sched.Go("anyway-producer", func() { out = q.AddAnyway(lane, 999) })
		// the lane is full until the close: whenever the producer tries, before or after it, its add cannot be accepted
		q.Close()
		var got []int
		for i := 0; i < c.Frees; i++ {
			v, closed, err := q.PopAnyway()
			if err != nil || closed {
				return res.Failf("pop-after-close", "%s closed with %d items: PopAnyway %d returned (closed %v, err %v)", c.Kind, c.Cap, i, closed, err)
			}
			got = append(got, v)
		}
		sched.MustQuiesce()
		if !p.Done() {
			return res.Failf("anyway-producer-stuck", "%s: the queue is closed, yet the producer inside Add*Anyway is parked forever", c.Kind)
		}
		if pn := p.Panic(); pn != nil {
			return res.Failf("panic", "Add*Anyway panicked: %v", pn)
		}
		if out != qadapt.Closed {
			return res.Failf("add-after-close", "%s (capacity %d, full): a producer was inside Add*Anyway when the queue was closed and %d slots were freed by PopAnyway afterwards: its add returned %v, want closed", c.Kind, c.Cap, c.Frees, out)
		}
		for {
			v, closed, err := q.PopAnyway()
			if err != nil {
				return res.Failf("pop-error", "final drain: %v", err)
			}
			if closed {
				break
			}
			got = append(got, v)
			if len(got) > c.Cap+4 {
				break
			}
		}
		for i, v := range got {
			if i >= c.Cap || v != i {
				return res.Failf("add-after-close", "%s: closed with items 0..%d; the drain handed out %v (an item added after the close, or out of order)", c.Kind, c.Cap-1, got)
			}
		}
		if len(got) != c.Cap {
			return res.Failf("residue", "%s: closed with %d items; PopAnyway handed out only %v before reporting closed", c.Kind, c.Cap, got)
		}
		res.NonTrivial = true
		res.Class("close-while-a-producer-retries")
		return res
	case "drain":
	default:
		res.Skip("unknown-mode")
		return res
	}
	total, quota := 0, 0
	for _, n := range c.Producers {
		if n < 1 || n > 64 {
			res.Skip("malformed-config")
			return res
		}
		total += n
	}
	for _, n := range c.Consumers {
		if n < 1 {
			res.Skip("malformed-config")
			return res
		}
		quota += n
	}
	if total == 0 || quota != total {
		res.Skip("malformed-config")
		return res
	}
	var (
		mu       sync.Mutex
		problem  string
		consumed []int
	)
	note := func(f string, a ...any) {
		mu.Lock()
		if problem == "" {
			problem = fmt.Sprintf(f, a...)
		}
		mu.Unlock()
	}
	start := make(chan struct{})
	for pi, n := range c.Producers {
		sched.Go(fmt.Sprintf("producer-%d", pi), func() {
			<-start
			for j := 0; j < n; j++ {
				add, ln := q.AddAnyway, lane
				if c.Cap == 0 {
					add = q.Add // nothing to wait for on an unbounded lane
				}
				if c.Entries == "mixed" {
					switch (pi + j) % 3 {
					case 1:
						add = q.AddPrior // exempt from the bound
					case 2:
						if c.Kind == qadapt.KindMQ && c.Cap == 0 {
							ln = qadapt.LaneCtrl + qadapt.LaneReq - lane // the other lane (both unbounded)
						}
					}
				}
				if o := add(ln, pi*1000+j); o != qadapt.Accepted {
					note("producer %d: add of item %d returned %v on an open queue", pi, j, o)
					return
				}
			}
		})
	}
	for ci, n := range c.Consumers {
		sched.Go(fmt.Sprintf("consumer-%d", ci), func() {
			<-start
			pop := q.Pop
			if c.PopAnyway == "all" || (c.PopAnyway == "mixed" && ci%2 == 1) {
				pop = q.PopAnyway // the same on an open queue
			}
			for j := 0; j < n; j++ {
				v, closed, err := pop()
				if err != nil || closed {
					note("consumer %d: Pop returned (closed %v, err %v) on an open queue", ci, closed, err)
					return
				}
				mu.Lock()
				consumed = append(consumed, v)
				mu.Unlock()
			}
		})
	}
	close(start)
	// Producers inside Add*Anyway poll with time.Sleep while their lane is full. If every busy goroutine is such a
	// poller and the consumers are parked in Pop, nothing can ever change: the lane stays full because nobody takes,
	// and a failing add wakes nobody. That state is a verdict (consumers asleep beside a full queue), not a wait.
	handedOut := func() int { mu.Lock(); defer mu.Unlock(); return len(consumed) }
	last := -1
	_, stuck, qerr := sched.QuiesceUnless(func(busy, parked []vkit.GState) bool {
		for _, g := range busy {
			if g.State != "sleep" || !strings.Contains(g.Stack, "Anyway") {
				return false
			}
		}
		consumersParked := false
		for _, g := range parked {
			if strings.Contains(g.Stack, ".Pop") {
				consumersParked = true
			}
		}
		n := handedOut()
		same := n == last
		last = n
		return consumersParked && same
	})
	if qerr != nil {
		vkit.Infra("%v", qerr)
	}
	defer q.Close()
	if stuck {
		return res.Failf("wake-up", "%s (capacity %d): %d producers push %d items through Add*Anyway, consumers take them with Pop; %d items were handed out, now every consumer that is left sleeps in Pop while the producers poll a full lane forever (a consumer sleeps beside a non-empty queue)",
			c.Kind, c.Cap, len(c.Producers), total, handedOut())
	}
	for _, op := range sched.Ops() {
		if p := op.Panic(); p != nil {
			return res.Failf("panic", "%s panicked: %v", op.Name, p)
		}
	}
	if problem != "" {
		return res.Failf("anyway-outcome", "%s (capacity %d): %s", c.Kind, c.Cap, problem)
	}
	if parked := sched.ParkedOps(); len(parked) > 0 {
		var names []string
		for _, p := range parked {
			names = append(names, p.Name)
		}
		sort.Strings(names)
		return res.Failf("wake-up", "%s (capacity %d): %d producers push %d items through Add*Anyway, consumers take %d with Pop; at quiescence %d items were handed out and these goroutines are parked forever: %v",
			c.Kind, c.Cap, len(c.Producers), total, total, len(consumed), names)
	}
	sort.Ints(consumed)
	var want []int
	for pi, n := range c.Producers {
		for j := 0; j < n; j++ {
			want = append(want, pi*1000+j)
		}
	}
	sort.Ints(want)
	if fmt.Sprint(consumed) != fmt.Sprint(want) {
		return res.Failf("conservation", "%s: items handed out %v, items accepted %v", c.Kind, consumed, want)
	}
	if len(c.Producers) >= 2 && total > c.Cap {
		res.NonTrivial = true
		res.Class("two-or-more-producers-beyond-capacity")
	}
	res.Class("drain-through-anyway")
	if c.Entries != "" {
		res.Class("drain-entries-" + c.Entries)
	}
	if c.PopAnyway != "" {
		res.Class("drain-by-PopAnyway-consumers")
	}
	return res
}

var PartAnyway = &vkit.Part[CaseAnyway]{
	Property: Property, Name: "anyway-producers",
	Rule:  "rapid: bounded pipe queues (q, async, mux, mq req/ctrl lane; capacity 1-3), retry pause 1 us - 2 ms. drain: 1-5 producers push 1-4 items each through Add*Anyway - or, per item, through the ordinary add (unbounded lanes), the prior add or the other lane of the two-lane queue - and 1-3 consumers take all of them with the blocking Pop (all of them, none or every other one through PopAnyway), nobody closes; at quiescence everybody must have finished and the items handed out equal the items accepted (consumers asleep while every remaining producer polls a full lane is decided as a lost wake-up, not waited for). close: lane filled to capacity, one producer inside Add*Anyway, Close, then 1..cap PopAnyway: the producer's add must come back closed and the drain yields exactly the pre-filled items. Non-trivial: >= 2 producers and more items than capacity, or the close mode; distinct = distinct case JSON",
	Quick: 300, Thorough: 2000,
	Gen: GenAnyway, Exec: ExecAnyway,
}

var PartAnywayRace = &vkit.Part[CaseAnyway]{
	Property: Property, Name: "race-anyway-producers",
	Rule:  PartAnyway.Rule + " (binary built with -race)",
	Quick: 150, Thorough: 1000,
	Gen: GenAnyway, Exec: ExecAnyway,
}
