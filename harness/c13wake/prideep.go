package c13wake

// part "priq-deep": the wait-channel clause of the statement on long-lived and large priority queues, and on several
// live queues at once. 1-3 queues live side by side; run-length coded steps push hundreds to thousands of entries,
// pop, and follow the documented protocol (receive from WaitCh, then Pop) all the way down to the empty queue. After
// EVERY single call the harness is at rest - no call in progress, nobody holds a signal that was not followed by a Pop
// - so for every live queue: non-empty implies the wait channel holds a signal. The harness asks for a queue's wait
// channel for the first time only after the first step on it (so a push may precede the first WaitCh() call), and a
// consumer of one queue must leave the channels of the others alone.

import (
	"fmt"

	"pgregory.net/rapid"

	"verifharness/qadapt"
	"verifharness/vkit"
)

type PriDeepStep struct {
	Q  int    `json:"q,omitempty"`
	Op string `json:"op"`          // push | pop | recvpop | drain (recvpop until the queue is empty)
	N  int    `json:"n,omitempty"` // repetitions (push / pop / recvpop)
	// push: priorities are (Pri + j) mod Span - 2 for the j-th push of the step (Span 1: all equal)
	Pri  int `json:"pri,omitempty"`
	Span int `json:"span,omitempty"`
}

type CasePriDeep struct {
	Caps  []int         `json:"caps"` // one live queue per entry
	Steps []PriDeepStep `json:"steps"`
}

func GenPriDeep(t *rapid.T) CasePriDeep {
	var c CasePriDeep
	nq := rapid.SampledFrom([]int{1, 1, 2, 2, 3}).Draw(t, "queues")
	for i := 0; i < nq; i++ {
		c.Caps = append(c.Caps, rapid.SampledFrom([]int{300, 2000, 2000, 5000}).Draw(t, "cap"))
	}
	n := rapid.IntRange(2, 10).Draw(t, "steps")
	for i := 0; i < n; i++ {
		st := PriDeepStep{Q: rapid.IntRange(0, nq-1).Draw(t, "q")}
		switch rapid.IntRange(0, 9).Draw(t, "what") {
		case 0, 1, 2, 3:
			st.Op, st.N = "push", rapid.SampledFrom([]int{1, 1, 2, 3, 10, 100, 257, 258, 300, 700, 2000}).Draw(t, "npush")
			st.Pri, st.Span = rapid.IntRange(0, 4).Draw(t, "pri"), rapid.SampledFrom([]int{1, 2, 5}).Draw(t, "span")
		case 4:
			st.Op, st.N = "pop", rapid.SampledFrom([]int{1, 2, 5, 50, 300}).Draw(t, "npop")
		case 5, 6, 7:
			st.Op, st.N = "recvpop", rapid.SampledFrom([]int{1, 1, 2, 5, 50, 300, 1000}).Draw(t, "nrecv")
		default:
			st.Op = "drain"
		}
		c.Steps = append(c.Steps, st)
	}
	for q := 0; q < nq; q++ {
		c.Steps = append(c.Steps, PriDeepStep{Q: q, Op: "drain"})
	}
	return c
}

func ExecPriDeep(c CasePriDeep) *vkit.Result {
	res := &vkit.Result{}
	if len(c.Caps) < 1 || len(c.Caps) > 4 || len(c.Steps) > 64 {
		res.Skip("malformed-config")
		return res
	}
	var qs []*qadapt.Q
	for _, cp := range c.Caps {
		if cp < 0 || cp > 100000 {
			res.Skip("malformed-config")
			return res
		}
		qs = append(qs, qadapt.New(qadapt.KindPri, cp, 0))
	}
	sizes := make([]int, len(qs))
	touched := make([]bool, len(qs))
	maxSize, next := 0, 0
	what := func() string { return "" }
	atRest := func() bool {
		for qi, q := range qs {
			if !touched[qi] {
				continue // WaitCh() of a queue is first asked for after the first step on it
			}
			if n := q.Len(); n != sizes[qi] {
				res.Failf("pri-len", "%s: queue %d of %d: Len %d, model %d", what(), qi, len(qs), n, sizes[qi])
				return false
			}
			if sizes[qi] > 0 && len(q.WaitCh()) != 1 {
				res.Failf("waitch-not-readable", "%s: queue %d of %d holds %d entries, no call is in progress and nobody holds a signal, but its wait channel is not readable", what(), qi, len(qs), sizes[qi])
				return false
			}
		}
		return true
	}
	recvpop := func(qi int) bool {
		q := qs[qi]
		select {
		case <-q.WaitCh():
			if _, _, ok := q.PopPri(); ok {
				sizes[qi]--
			}
		default:
			if sizes[qi] > 0 {
				res.Failf("waitch-not-readable", "%s: queue %d of %d holds %d entries at rest but a receive from its wait channel would block", what(), qi, len(qs), sizes[qi])
				return false
			}
		}
		return true
	}
	for i, st := range c.Steps {
		if st.Q < 0 || st.Q >= len(qs) || st.N < 0 || st.N > 20000 {
			res.Skip("malformed-step")
			continue
		}
		qi, q := st.Q, qs[st.Q]
		reps := st.N
		switch st.Op {
		case "drain":
			reps = sizes[qi] + 1
		case "push", "pop", "recvpop":
		default:
			res.Skip("unknown-op")
			continue
		}
		for j := 0; j < reps; j++ {
			what = func() string { return fmt.Sprintf("step %d %+v, repetition %d", i, st, j) }
			switch st.Op {
			case "push":
				if q.PushPri(next, (st.Pri+j)%max(1, st.Span)-2) == qadapt.Accepted {
					sizes[qi]++
				}
				next++
			case "pop":
				if _, _, ok := q.PopPri(); ok {
					sizes[qi]--
				}
			default:
				if sizes[qi] >= 256 {
					res.Class("receive-then-pop-with-256-or-more-entries")
				}
				if !recvpop(qi) {
					return res
				}
			}
			touched[qi] = true
			maxSize = max(maxSize, sizes[qi])
			if !atRest() {
				return res
			}
		}
	}
	res.NonTrivial = maxSize >= 257 || len(qs) >= 2
	if len(qs) >= 2 {
		res.Class("several-live-queues")
	}
	if maxSize >= 257 {
		res.Class("257-or-more-entries")
	}
	return res
}

var PartPriDeep = &vkit.Part[CasePriDeep]{
	Property: Property, Name: "priq-deep",
	Rule:  "rapid: 1-3 live priority queues (capacity 300-5000) x 2-10 run-length coded steps on a drawn queue: 1-2000 pushes (1, 2 or 5 priorities), 1-300 pops, 1-1000 receive-from-wait-channel-then-pop, or receive-then-pop down to the empty queue; at the end every queue is drained that way. The first WaitCh() call on a queue comes after the first step on it. After every single call (at rest): every live queue's Len equals the model and non-empty implies its wait channel holds a signal; a receive that would block beside a non-empty queue is a violation. Non-trivial: a queue held >= 257 entries, or >= 2 live queues; distinct = distinct case JSON",
	Quick: 150, Thorough: 1500,
	Gen: GenPriDeep, Exec: ExecPriDeep,
}
