package c13wake

// part "deep": the statement far from the small numbers of the controlled part. Few cases, each with 17-300
// consumers parked in the blocking pop of ONE or TWO live instances of a queue type, and whole-size events: a burst
// of as many adds as there are parked consumers issued by one goroutine without quiescence in between (every parked
// consumer must come back with its own item), a Close beside all of them (every one must come back), bursts smaller
// and larger than the parked set, on unbounded lanes and on bounded lanes whose capacity is at least the number of
// adds the case issues on them (so that no add can be refused whatever the schedule: the outcome stays owned by the
// model). With two instances the events of one must leave the consumers of the other parked.
//
// Verdicts as in the controlled part: every event runs on its own goroutine, the verdict is taken at quiescence
// (a consumer still parked there can never wake), no clock involved.

import (
	"fmt"
	"runtime"

	"pgregory.net/rapid"

	"verifharness/qadapt"
	"verifharness/vkit"
)

type DeepStep struct {
	Q  int    `json:"q,omitempty"` // instance
	Op string `json:"op"`          // park | burst | close
	N  int    `json:"n,omitempty"` // park: consumers started together; burst: adds issued back to back by one goroutine
	// park: "" all in Pop, "anyway" all in PopAnyway, "mixed" alternating
	Pop string `json:"pop,omitempty"`
	// burst: "" ordinary add, "anyway" the Add*Anyway entry point (the lane is never full), "prior" add at the front
	Entry string `json:"entry,omitempty"`
	// burst (two-lane queue): 0 request lane, 1 control lane, 2 alternating
	Lane int `json:"lane,omitempty"`
	// close through TryClose (two-lane queue)
	Try bool `json:"try,omitempty"`
	// the event's goroutine runs with GOMAXPROCS(1): the whole burst is issued before any woken consumer runs
	OneP bool `json:"one_p,omitempty"`
}

type CaseDeep struct {
	Kind string `json:"kind"`
	// per instance: capacity of the request and of the control lane (0 = unbounded)
	Caps  [][2]int   `json:"caps"`
	Steps []DeepStep `json:"steps"`
}

var deepSizes = []int{17, 20, 24, 33, 40, 64, 100, 150, 300}

func GenDeep(t *rapid.T) CaseDeep {
	c := CaseDeep{Kind: rapid.SampledFrom(blockingKinds).Draw(t, "kind")}
	nq := rapid.SampledFrom([]int{1, 1, 2}).Draw(t, "instances")
	genBurst := func(q, n int) DeepStep {
		st := DeepStep{Q: q, Op: "burst", N: n, OneP: rapid.Bool().Draw(t, "onep")}
		st.Entry = rapid.SampledFrom([]string{"", "", "anyway", "prior"}).Draw(t, "entry")
		if c.Kind == qadapt.KindMQ {
			st.Lane = rapid.IntRange(0, 2).Draw(t, "lane")
		}
		return st
	}
	genClose := func(q int) DeepStep {
		return DeepStep{Q: q, Op: "close", Try: c.Kind == qadapt.KindMQ && rapid.Bool().Draw(t, "try"), OneP: rapid.Bool().Draw(t, "onep")}
	}
	rounds := rapid.IntRange(1, 3).Draw(t, "rounds")
	for r := 0; r < rounds; r++ {
		q := rapid.IntRange(0, nq-1).Draw(t, "q")
		k := rapid.SampledFrom(deepSizes).Draw(t, "parked")
		c.Steps = append(c.Steps, DeepStep{Q: q, Op: "park", N: k, Pop: rapid.SampledFrom([]string{"", "anyway", "mixed"}).Draw(t, "pop")})
		switch rapid.IntRange(0, 5).Draw(t, "event") {
		case 0:
			c.Steps = append(c.Steps, genClose(q))
		case 1, 2:
			c.Steps = append(c.Steps, genBurst(q, k)) // one add per parked consumer
		case 3:
			c.Steps = append(c.Steps, genBurst(q, rapid.IntRange(2, k-1).Draw(t, "fewer")), genClose(q))
		case 4:
			c.Steps = append(c.Steps, genBurst(q, rapid.IntRange(2, k-1).Draw(t, "fewer"))) // the rest stays parked
		default:
			extra := rapid.IntRange(1, 9).Draw(t, "extra")
			c.Steps = append(c.Steps, genBurst(q, k+extra), DeepStep{Q: q, Op: "park", N: extra + 2, Pop: rapid.SampledFrom([]string{"", "anyway", "mixed"}).Draw(t, "pop2")})
		}
	}
	// capacities: unbounded, or exactly the number of adds the case issues on the lane (plus 0-2)
	for q := 0; q < nq; q++ {
		var caps [2]int
		for lane := 0; lane < 2; lane++ {
			if rapid.Bool().Draw(t, "bounded") {
				caps[lane] = max(1, deepAdds(c, q, lane)) + rapid.IntRange(0, 2).Draw(t, "slack")
			}
		}
		c.Caps = append(c.Caps, caps)
	}
	return c
}

// deepAdds: how many adds the case issues on a lane of an instance at most (refused ones and front adds included)
func deepAdds(c CaseDeep, q, lane int) int {
	n := 0
	for _, st := range c.Steps {
		if st.Op != "burst" || st.Q != q {
			continue
		}
		l := st.Lane
		if c.Kind != qadapt.KindMQ {
			l = 0
		}
		if l == lane || l == 2 {
			n += st.N // alternating bursts: an upper bound
		}
	}
	return n
}

type deepInst struct {
	q *qadapt.Q
	m model
}

type deepCons struct {
	inst   int
	op     *vkit.Op
	v      int
	closed bool
	err    error
	seen   bool
}

func ExecDeep(c CaseDeep) *vkit.Result {
	res := &vkit.Result{}
	if len(c.Caps) < 1 || len(c.Caps) > 3 || len(c.Steps) > 40 {
		res.Skip("malformed-config")
		return res
	}
	isSync, isMQ := c.Kind == qadapt.KindSync, c.Kind == qadapt.KindMQ
	total := 0
	for _, st := range c.Steps {
		if st.Q < 0 || st.Q >= len(c.Caps) || st.N < 0 || st.N > 2000 || st.Lane < 0 || st.Lane > 2 {
			res.Skip("malformed-config")
			return res
		}
		if st.Op == "park" {
			total += st.N
		}
	}
	if total > 3000 {
		res.Skip("malformed-config")
		return res
	}
	var insts []*deepInst
	for qi, caps := range c.Caps {
		if caps[0] < 0 || caps[1] < 0 {
			res.Skip("malformed-config")
			return res
		}
		if !isMQ {
			caps[1] = 0
		}
		if isSync {
			caps = [2]int{}
		}
		for lane := 0; lane < 2; lane++ {
			// a bounded lane must have room for every add of the case: otherwise WHICH adds are refused depends on how
			// fast the woken consumers take, which no schedule of API calls owns
			if caps[lane] > 0 && deepAdds(c, qi, lane) > caps[lane] {
				res.Skip("bounded-lane-could-refuse")
				return res
			}
		}
		q := qadapt.New(c.Kind, caps[0], caps[1])
		if q == nil || q.Pop == nil {
			res.Skip("malformed-config")
			return res
		}
		insts = append(insts, &deepInst{q: q, m: model{kind: c.Kind, caps: caps}})
	}
	sched := vkit.NewSched()
	var cons []*deepCons
	defer func() {
		if res.Fail == nil {
			return
		}
		// leave as little parked behind as possible: feed the sleepers of open queues, then close
		for qi, in := range insts {
			n := 0
			for _, cn := range cons {
				if cn.inst == qi && !cn.op.Done() {
					n++
				}
			}
			for i := 0; i < n; i++ {
				if in.q.AddPrior != nil {
					in.q.AddPrior(qadapt.LaneReq, -1)
				} else {
					in.q.Add(qadapt.LaneReq, -1)
				}
			}
			in.q.Close()
		}
	}()
	// collect: what returned since the last look, per instance, and how many are parked
	collect := func(what string) (got [][]ret, parked []int, fail bool) {
		got, parked = make([][]ret, len(insts)), make([]int, len(insts))
		for ci, cn := range cons {
			if !cn.op.Done() {
				parked[cn.inst]++
				continue
			}
			if cn.seen {
				continue
			}
			cn.seen = true
			if p := cn.op.Panic(); p != nil {
				res.Failf("panic", "%s: consumer %d panicked: %v", what, ci, p)
				return nil, nil, true
			}
			if cn.err != nil {
				res.Failf("pop-error", "%s: consumer %d failed with %v", what, ci, cn.err)
				return nil, nil, true
			}
			got[cn.inst] = append(got[cn.inst], ret{closed: cn.closed, v: cn.v})
		}
		return got, parked, false
	}
	maxParked, events := 0, 0
	for i, st := range c.Steps {
		in := insts[st.Q]
		m := &in.m
		var expect []ret
		var mut *vkit.Op
		mismatch := ""
		restore := func() {}
		if st.OneP && st.Op != "park" {
			old := runtime.GOMAXPROCS(1)
			restore = func() { runtime.GOMAXPROCS(old) }
		}
		switch st.Op {
		case "park":
			for j := 0; j < st.N; j++ {
				anyway := st.Pop == "anyway" || (st.Pop == "mixed" && j%2 == 1)
				drains := anyway || isSync
				switch {
				case m.closed && !drains:
					expect = append(expect, ret{closed: true})
				case !m.empty():
					expect = append(expect, ret{v: m.take()})
				case m.closed:
					expect = append(expect, ret{closed: true})
				default:
					m.waiting++
				}
				cn := &deepCons{inst: st.Q}
				cons = append(cons, cn)
				pop := in.q.Pop
				if anyway {
					pop = in.q.PopAnyway
				}
				cn.op = sched.Go("consumer", func() { cn.v, cn.closed, cn.err = pop() })
			}
		case "burst":
			n := st.N
			prior := st.Entry == "prior" && !isSync
			lane := st.Lane
			if !isMQ {
				lane = 0
			}
			if (prior || lane == 2) && m.waiting > 0 && n > m.waiting && !m.closed {
				// front adds and adds on two lanes: which of them the woken consumers find first is the scheduler's choice
				// unless there is a parked consumer for every item
				n = m.waiting
				res.Skip("burst-cut-to-the-number-of-parked-consumers")
			}
			if n < 1 {
				res.Skip("empty-burst")
				restore()
				continue
			}
			laneOf := func(k int) int {
				if lane == 2 {
					return k % 2
				}
				return lane
			}
			wants := make([]qadapt.Outcome, n)
			w0 := m.waiting
			for k := 0; k < n; k++ {
				v := 1000000*(i+1) + k
				switch {
				case m.closed && isSync:
					wants[k] = qadapt.Accepted // dropped silently
				case m.closed:
					wants[k] = qadapt.Closed
				default:
					wants[k] = qadapt.Accepted
					if m.waiting > 0 {
						// ordinary adds: the woken consumers take the head each, i.e. the first items of the burst
						m.waiting--
						expect = append(expect, ret{v: v})
					} else if prior {
						m.lanes[laneOf(k)] = append([]int{v}, m.lanes[laneOf(k)]...)
					} else {
						m.lanes[laneOf(k)] = append(m.lanes[laneOf(k)], v)
					}
				}
			}
			if w0 >= 17 && len(expect) == w0 {
				res.Class("burst-for-every-parked-consumer")
			}
			if w0 >= 17 && m.caps[laneOf(0)] > 0 && len(expect) >= 2 {
				res.Class("burst-on-bounded-lane")
			}
			add := in.q.Add
			if prior {
				add = in.q.AddPrior
			} else if st.Entry == "anyway" && in.q.AddAnyway != nil {
				add = in.q.AddAnyway
			}
			events++
			mut = sched.Go("burst", func() {
				for k := 0; k < n; k++ {
					if o := add(laneOf(k), 1000000*(i+1)+k); o != wants[k] {
						mismatch = fmt.Sprintf("add %d of the burst returned %v, want %v", k, o, wants[k])
						return
					}
				}
			})
		case "close":
			try := st.Try && in.q.TryClose != nil
			if !m.closed && (!try || m.empty()) {
				m.closed = true
				if m.waiting >= 17 {
					res.Class("close-beside-many-parked")
				}
				for ; m.waiting > 0; m.waiting-- {
					expect = append(expect, ret{closed: true})
				}
			}
			events++
			if try {
				want := m.closed
				mut = sched.Go("tryclose", func() {
					if got := in.q.TryClose(); got != want {
						mismatch = fmt.Sprintf("TryClose returned %v, want %v", got, want)
					}
				})
			} else {
				mut = sched.Go("close", in.q.Close)
			}
		default:
			res.Skip("unknown-op")
			restore()
			continue
		}
		sched.MustQuiesce()
		restore()
		what := fmt.Sprintf("step %d %+v on instance %d of %d of %s", i, st, st.Q, len(insts), c.Kind)
		if mut != nil {
			if !mut.Done() {
				return res.Failf("producer-blocked", "%s: the call itself is parked forever", what)
			}
			if p := mut.Panic(); p != nil {
				return res.Failf("panic", "%s panicked: %v", what, p)
			}
			if mismatch != "" {
				site := "add-outcome"
				if st.Op == "close" {
					site = "tryclose-result"
				}
				return res.Failf(site, "%s: %s", what, mismatch)
			}
		}
		got, parked, failed := collect(what)
		if failed {
			return res
		}
		for qi := range insts {
			want := []ret(nil)
			if qi == st.Q {
				want = expect
			}
			if !sameRets(got[qi], want) || parked[qi] != insts[qi].m.waiting {
				site := "wake-up"
				switch {
				case qi != st.Q:
					site = "other-instance-disturbed"
				case st.Op == "close":
					site = "close-releases-all"
				}
				return res.Failf(site, "%s: on instance %d %d consumers returned in this step (%s), want %d (%s); %d consumers are parked forever there, want %d",
					what, qi, len(got[qi]), briefRets(got[qi]), len(want), briefRets(want), parked[qi], insts[qi].m.waiting)
			}
			maxParked = max(maxParked, parked[qi])
		}
	}
	// epilogue: whatever is still parked must be released by a close
	for qi, in := range insts {
		k := in.m.waiting
		if k == 0 {
			continue
		}
		op := sched.Go("final-close", in.q.Close)
		sched.MustQuiesce()
		if !op.Done() {
			return res.Failf("producer-blocked", "final Close is parked forever")
		}
		in.m.closed, in.m.waiting = true, 0
		got, parked, failed := collect("final close")
		if failed {
			return res
		}
		for _, r := range got[qi] {
			if !r.closed {
				return res.Failf("close-releases-all", "final Close with %d parked consumers on instance %d of %s: a consumer returned item %d instead of closed", k, qi, c.Kind, r.v)
			}
		}
		for qj := range insts {
			if parked[qj] != insts[qj].m.waiting || (qj != qi && len(got[qj]) > 0) {
				site := "close-releases-all"
				if qj != qi {
					site = "other-instance-disturbed"
				}
				return res.Failf(site, "final Close on instance %d of %d of %s with %d parked consumers: afterwards %d consumers of instance %d are parked forever, want %d (%d returned)", qi, len(insts), c.Kind, k, parked[qj], qj, insts[qj].m.waiting, len(got[qj]))
			}
		}
		if k >= 17 {
			res.Class("close-beside-many-parked")
		}
	}
	res.NonTrivial = maxParked >= 17 && events > 0
	if len(insts) > 1 {
		res.Class("two-live-instances")
	}
	return res
}

func briefRets(rs []ret) string {
	if len(rs) > 12 {
		return fmtRets(rs[:12]) + fmt.Sprintf(" and %d more", len(rs)-12)
	}
	return fmtRets(rs)
}

var PartDeep = &vkit.Part[CaseDeep]{
	Property: Property, Name: "deep",
	Rule:  "rapid: {pipe/q.Q | pipe/async.Q | pipe/mux.Q | pipe/mq.MQ | syncq.SyncQueue} x 1-2 live instances x 1-3 rounds of (17-300 consumers started together in Pop / PopAnyway / alternating, then one of: Close or TryClose; a burst of exactly as many adds by one goroutine without quiescence in between; a smaller burst, optionally followed by a close; a larger burst followed by more consumers); adds ordinary / through Add*Anyway / at the front, on the request, the control or alternating lanes; lanes unbounded or bounded with room for every add of the case (nothing can be refused); bursts and closes optionally under GOMAXPROCS(1). Oracle at quiescence after every step, per instance: the consumers that returned and their items (or closed) equal the model's, the number parked forever equals the model's, the other instance is untouched. Non-trivial: >= 17 consumers parked at some step and at least one burst or close; distinct = distinct case JSON",
	Quick: 40, Thorough: 300,
	Gen: GenDeep, Exec: ExecDeep,
}
