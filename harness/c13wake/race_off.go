//go:build !race

package c13wake

const raceEnabled = false
