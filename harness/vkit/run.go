// Package vkit is the shared kit of the verification harness: case-as-data
// parts driven by rapid, coverage counters, replay files, known findings and
// the schedule-owning quiescence detector.
package vkit

import (
	"encoding/json"
	"flag"
	"fmt"
	"hash/fnv"
	"os"
	"regexp"
	"runtime/debug"
	"strconv"
	"strings"
	"testing"
	"time"

	"pgregory.net/rapid"
)

// Failure is an oracle verdict against the code under test.
type Failure struct {
	Site string `json:"site"` // which sub-oracle / API: stable identifier used by known findings
	Msg  string `json:"msg"`
}

// Result is what executing one case yields.
type Result struct {
	Fail       *Failure
	NonTrivial bool
	Classes    []string
	Skipped    []string // operations or sub-checks the executor skipped (counted in evidence)
}

// Failf builds a failing result.
func (r *Result) Failf(site, format string, args ...any) *Result {
	if r.Fail == nil {
		r.Fail = &Failure{Site: site, Msg: fmt.Sprintf(format, args...)}
	}
	return r
}

// Class adds a class label (once per case).
func (r *Result) Class(c string) {
	for _, x := range r.Classes {
		if x == c {
			return
		}
	}
	r.Classes = append(r.Classes, c)
}

// Skip counts something the executor refused to run.
func (r *Result) Skip(what string) { r.Skipped = append(r.Skipped, what) }

// Part is one generated check: a generator of cases, an executor with its
// oracle, and the counts to run per tier.
type Part[C any] struct {
	Property string
	Name     string
	Rule     string // how cases are generated and what makes one non-trivial
	Quick    int    // cases in the quick tier
	Thorough int    // cases per shard in the thorough tier
	Gen      func(t *rapid.T) C
	Exec     func(c C) *Result
	// NoPanicGuard leaves panics of Exec to rapid (default: a panic is a failure
	// with site "panic").
	NoPanicGuard bool
}

// FailRecord is the content of a replay file.
type FailRecord struct {
	Property string          `json:"property"`
	Part     string          `json:"part"`
	Site     string          `json:"site"`
	Msg      string          `json:"msg"`
	Case     json.RawMessage `json:"case"`
	Seed     uint64          `json:"seed,omitempty"`
}

var lastFail *FailRecord

// Tier returns "quick" or "thorough".
func Tier() string {
	if os.Getenv("VERIF_TIER") == "thorough" {
		return "thorough"
	}
	return "quick"
}

func envInt(name string, def int64) int64 {
	if v := os.Getenv(name); v != "" {
		if n, err := strconv.ParseInt(v, 10, 64); err == nil {
			return n
		}
	}
	return def
}

// Shard is the index of this process among the shards of a thorough run.
func Shard() int { return int(envInt("VERIF_SHARD", 0)) }

// SeedFor derives the rapid seed of a part from VERIF_SEED, the shard index and
// the part name. Never 0 (rapid treats 0 as "random").
func SeedFor(part string) uint64 {
	h := fnv.New64a()
	fmt.Fprintf(h, "%d/%d/%s", envInt("VERIF_SEED", 1), Shard(), part)
	s := h.Sum64() >> 1
	if s == 0 {
		s = 1
	}
	return s
}

// Count returns the number of cases a part runs in this process.
func (p *Part[C]) count() int {
	n := p.Quick
	if Tier() == "thorough" {
		n = p.Thorough
	}
	if m := envInt("VERIF_COUNT_PCT", 100); m != 100 {
		n = int(int64(n) * m / 100)
	}
	if n < 1 {
		n = 1
	}
	return n
}

func (p *Part[C]) safeExec(c C) (res *Result) {
	if !p.NoPanicGuard {
		defer func() {
			if r := recover(); r != nil {
				res = &Result{Fail: &Failure{Site: "panic", Msg: fmt.Sprintf("panic: %v\n%s", r, trimStack(debug.Stack()))}}
			}
		}()
	}
	curCase.Store(func(f *Failure) { p.saveFail(c, f, SeedFor(p.Name)) })
	res = p.Exec(c)
	if res == nil {
		res = &Result{}
	}
	return res
}

func trimStack(b []byte) string {
	s := string(b)
	if len(s) > 3000 {
		s = s[:3000] + "…"
	}
	return s
}

// Run drives the part with rapid: generate, execute, count, and on a failure
// let rapid shrink; the smallest failing case reached is written as the replay
// file (VERIF_FAIL_OUT) by the last failing execution.
func (p *Part[C]) Run(t *testing.T) {
	t.Helper()
	if replayPath() != "" {
		t.Skip("replay mode")
	}
	if only := os.Getenv("VERIF_ONLY_PART"); only != "" && only != p.Name {
		t.Skip("other part selected")
	}
	n := p.count()
	seed := SeedFor(p.Name)
	ps := partStats(p.Name, p.Rule)
	ps.Requested += n
	ps.Seed = seed
	must(flag.Set("rapid.checks", strconv.Itoa(n)))
	must(flag.Set("rapid.seed", strconv.FormatUint(seed, 10)))
	must(flag.Set("rapid.nofailfile", "true"))
	if os.Getenv("VERIF_SHRINKTIME") != "" {
		must(flag.Set("rapid.shrinktime", os.Getenv("VERIF_SHRINKTIME")))
	}
	start := time.Now()
	failed := false
	defer func() { ps.WallS += time.Since(start).Seconds() }()
	rapid.Check(t, func(rt *rapid.T) {
		c := p.Gen(rt)
		res := p.safeExec(c)
		if !failed {
			ps.record(c, res)
		}
		if res.Fail != nil {
			if p.known(ps, c, res.Fail) {
				return
			}
			failed = true
			p.saveFail(c, res.Fail, seed)
			rt.Fatalf("property %s part %s violated at %s: %s", p.Property, p.Name, res.Fail.Site, res.Fail.Msg)
		}
	})
}

// RunCases executes an explicit finite list of cases (complete enumerations).
func (p *Part[C]) RunCases(t *testing.T, cases []C, exhaustive bool) {
	t.Helper()
	if replayPath() != "" {
		t.Skip("replay mode")
	}
	if only := os.Getenv("VERIF_ONLY_PART"); only != "" && only != p.Name {
		t.Skip("other part selected")
	}
	ps := partStats(p.Name, p.Rule)
	ps.Requested += len(cases)
	ps.Exhaustive = exhaustive
	start := time.Now()
	defer func() { ps.WallS += time.Since(start).Seconds() }()
	for _, c := range cases {
		res := p.safeExec(c)
		ps.record(c, res)
		if res.Fail != nil {
			if p.known(ps, c, res.Fail) {
				continue
			}
			p.saveFail(c, res.Fail, 0)
			t.Fatalf("property %s part %s violated at %s: %s", p.Property, p.Name, res.Fail.Site, res.Fail.Msg)
		}
	}
}

func (p *Part[C]) saveFail(c C, f *Failure, seed uint64) {
	b, err := json.Marshal(c)
	if err != nil {
		b = []byte(strconv.Quote(fmt.Sprintf("%+v", c)))
	}
	msg := f.Msg
	if len(msg) > 4000 {
		msg = msg[:4000] + "…"
	}
	lastFail = &FailRecord{Property: p.Property, Part: p.Name, Site: f.Site, Msg: msg, Case: b, Seed: seed}
	if path := os.Getenv("VERIF_FAIL_OUT"); path != "" {
		out, _ := json.MarshalIndent(lastFail, "", " ")
		_ = os.WriteFile(path, out, 0o644)
	}
}

func replayPath() string { return os.Getenv("VERIF_REPLAY") }

// Replay re-executes the case of the replay file named by VERIF_REPLAY if it
// belongs to this part, without rapid. `times` > 1 is for schedule-dependent
// parts. It reports the failure through t.
func (p *Part[C]) Replay(t *testing.T, times int) {
	t.Helper()
	path := replayPath()
	if path == "" {
		return
	}
	raw, err := os.ReadFile(path)
	if err != nil {
		t.Fatalf("replay: %v", err)
	}
	var fr FailRecord
	if err := json.Unmarshal(raw, &fr); err != nil {
		t.Fatalf("replay: %v", err)
	}
	if fr.Part != p.Name {
		return
	}
	var c C
	if err := json.Unmarshal(fr.Case, &c); err != nil {
		t.Fatalf("replay: case does not decode: %v", err)
	}
	if times < 1 {
		times = 1
	}
	for i := 0; i < times; i++ {
		res := p.safeExec(c)
		if res.Fail != nil {
			p.saveFail(c, res.Fail, 0)
			fmt.Printf("REPLAY-FAIL property=%s part=%s site=%s run=%d: %s\n", p.Property, p.Name, res.Fail.Site, i+1, res.Fail.Msg)
			t.Fatalf("replayed case violates %s at %s: %s", p.Property, res.Fail.Site, res.Fail.Msg)
		}
	}
	fmt.Printf("REPLAY-PASS property=%s part=%s runs=%d\n", p.Property, p.Name, times)
}

// ---- known findings -------------------------------------------------------

type knownEntry struct {
	Status   string `json:"status"`
	Property string `json:"property"`
	Site     string `json:"site"`
	Match    string `json:"match"`
	What     string `json:"what"`
	re       *regexp.Regexp
}

var knownEntries []knownEntry
var knownLoaded bool

func loadKnown() {
	if knownLoaded {
		return
	}
	knownLoaded = true
	path := os.Getenv("VERIF_KNOWN")
	if path == "" {
		return
	}
	raw, err := os.ReadFile(path)
	if err != nil {
		return
	}
	for _, line := range strings.Split(string(raw), "\n") {
		line = strings.TrimSpace(line)
		if line == "" || strings.HasPrefix(line, "#") {
			continue
		}
		var e knownEntry
		if json.Unmarshal([]byte(line), &e) != nil || e.Status != "known" {
			continue
		}
		if e.Match != "" {
			re, err := regexp.Compile(e.Match)
			if err != nil {
				continue
			}
			e.re = re
		}
		knownEntries = append(knownEntries, e)
	}
}

// known reports whether the failure is listed (status "known") in the committed
// known-findings file: same property, same site, and the entry's regular
// expression matches the canonical JSON of the failing case. Such a failure is
// counted, not raised; anything else is a violation.
func (p *Part[C]) known(ps *PartStats, c C, f *Failure) bool {
	loadKnown()
	if len(knownEntries) == 0 {
		return false
	}
	b, _ := json.Marshal(c)
	for _, e := range knownEntries {
		if e.Property != p.Property || e.Site != f.Site {
			continue
		}
		if e.re != nil && !e.re.Match(b) {
			continue
		}
		statsMu.Lock()
		ps.Known[e.Site+" "+e.Match]++
		statsMu.Unlock()
		return true
	}
	return false
}

func must(err error) {
	if err != nil {
		panic(err)
	}
}

// Main is the TestMain body of every property package.
func Main(m *testing.M) {
	flag.Parse()
	startHangWatchdog()
	code := m.Run()
	DumpStats()
	os.Exit(code)
}

// FuzzOne executes one case inside a native fuzz target (or any plain test):
// the oracle is inside the target, a failure writes the replay record.
func (p *Part[C]) FuzzOne(t *testing.T, c C) {
	t.Helper()
	res := p.safeExec(c)
	if res.Fail != nil {
		ps := partStats(p.Name, p.Rule)
		if p.known(ps, c, res.Fail) {
			return
		}
		p.saveFail(c, res.Fail, 0)
		t.Fatalf("property %s part %s violated at %s: %s", p.Property, p.Name, res.Fail.Site, res.Fail.Msg)
	}
}

// FuzzRapid turns the part's own generator into a native fuzz target: the
// fuzzer mutates the bit stream the generator draws from.
func (p *Part[C]) FuzzRapid(f *testing.F) {
	f.Fuzz(rapid.MakeFuzz(func(rt *rapid.T) {
		c := p.Gen(rt)
		res := p.safeExec(c)
		if res.Fail != nil {
			ps := partStats(p.Name, p.Rule)
			if p.known(ps, c, res.Fail) {
				return
			}
			p.saveFail(c, res.Fail, 0)
			rt.Fatalf("property %s part %s violated at %s: %s", p.Property, p.Name, res.Fail.Site, res.Fail.Msg)
		}
	}))
}

// SeedCorpus reports whether a fuzz target should add its hand-made seeds (the
// driver runs every campaign once with and once without them).
func SeedCorpus() bool { return os.Getenv("VERIF_FUZZ_CORPUS") != "empty" }
