package vkit

import (
	"encoding/binary"
	"encoding/json"
	"hash/fnv"
	"os"
	"sort"
	"sync"
)

// PartStats is what one part (one generated check) of a property covered in
// this process. Everything in here is counted while cases are generated, never
// while rapid shrinks a failure.
type PartStats struct {
	Part        string            `json:"part"`
	Rule        string            `json:"rule"`
	Requested   int               `json:"requested"`
	Evaluations int               `json:"evaluations"`
	NonTrivial  int               `json:"nontrivial"`
	Classes     map[string]int    `json:"classes"`
	Skipped     map[string]int    `json:"skipped,omitempty"`
	Known       map[string]int    `json:"known,omitempty"`
	Exhaustive  bool              `json:"exhaustive,omitempty"`
	Samples     []json.RawMessage `json:"samples"`
	Seed        uint64            `json:"seed"`
	WallS       float64           `json:"wall_s"`

	hashes  map[uint64]struct{}
	first   int
	lowHash []hashedSample
}

type hashedSample struct {
	h uint64
	j json.RawMessage
}

const (
	maxFirstSamples = 2
	maxLowSamples   = 3
	maxSampleBytes  = 6000
)

var (
	statsMu  sync.Mutex
	allParts = map[string]*PartStats{}
	order    []string
)

func partStats(name, rule string) *PartStats {
	statsMu.Lock()
	defer statsMu.Unlock()
	ps, ok := allParts[name]
	if !ok {
		ps = &PartStats{Part: name, Rule: rule, Classes: map[string]int{}, Skipped: map[string]int{}, Known: map[string]int{}, hashes: map[uint64]struct{}{}}
		allParts[name] = ps
		order = append(order, name)
	}
	return ps
}

func hashJSON(b []byte) uint64 {
	h := fnv.New64a()
	_, _ = h.Write(b)
	return h.Sum64()
}

// record counts one executed case.
func (ps *PartStats) record(c any, res *Result) {
	statsMu.Lock()
	defer statsMu.Unlock()
	ps.Evaluations++
	for _, cl := range res.Classes {
		ps.Classes[cl]++
	}
	for _, sk := range res.Skipped {
		ps.Skipped[sk]++
	}
	if !res.NonTrivial {
		return
	}
	ps.NonTrivial++
	b, err := json.Marshal(c)
	if err != nil {
		return
	}
	h := hashJSON(b)
	if _, dup := ps.hashes[h]; dup {
		return
	}
	ps.hashes[h] = struct{}{}
	if len(b) > maxSampleBytes {
		return
	}
	if ps.first < maxFirstSamples {
		ps.first++
		ps.Samples = append(ps.Samples, json.RawMessage(b))
		return
	}
	// keep the few samples with the lowest hash: a deterministic "random" pick
	ps.lowHash = append(ps.lowHash, hashedSample{h, json.RawMessage(b)})
	sort.Slice(ps.lowHash, func(i, j int) bool { return ps.lowHash[i].h < ps.lowHash[j].h })
	if len(ps.lowHash) > maxLowSamples {
		ps.lowHash = ps.lowHash[:maxLowSamples]
	}
}

type statsDump struct {
	Parts []*PartStats `json:"parts"`
	Fail  *FailRecord  `json:"fail,omitempty"`
}

// DumpStats writes the counters of this process to VERIF_STATS_OUT (JSON) and the
// hashes of the distinct non-trivial cases to VERIF_STATS_OUT+".hashes" (binary:
// per part, name length, name, count, hashes) so the driver can merge shards.
func DumpStats() {
	path := os.Getenv("VERIF_STATS_OUT")
	if path == "" {
		return
	}
	statsMu.Lock()
	defer statsMu.Unlock()
	var d statsDump
	var hb []byte
	for _, name := range order {
		ps := allParts[name]
		for _, s := range ps.lowHash {
			ps.Samples = append(ps.Samples, s.j)
		}
		ps.lowHash = nil
		d.Parts = append(d.Parts, ps)
		hb = binary.LittleEndian.AppendUint32(hb, uint32(len(name)))
		hb = append(hb, name...)
		hb = binary.LittleEndian.AppendUint64(hb, uint64(len(ps.hashes)))
		for h := range ps.hashes {
			hb = binary.LittleEndian.AppendUint64(hb, h)
		}
	}
	d.Fail = lastFail
	b, _ := json.Marshal(d)
	_ = os.WriteFile(path, b, 0o644)
	_ = os.WriteFile(path+".hashes", hb, 0o644)
}
