package vkit

import (
	"fmt"
	"os"
	"regexp"
	"runtime"
	"strconv"
	"strings"
	"sync/atomic"
	"time"
)

// The hang watchdog. A change to the library can make a call that the harness issues from an ordinary test
// goroutine (not under Sched) block for ever: a lock that is never released, a wake-up that never comes. The process
// then sits until the test deadline and the driver can only answer "inconclusive". The watchdog turns the provable
// case into a verdict: every now and then it takes a stop-the-world dump of all goroutines; if EVERY goroutine of the
// process (itself excepted) is blocked on a synchronisation primitive, has been so for at least hangMinutes minutes
// according to the runtime's own wait clock (which starts at the first garbage collection after the goroutine
// blocked: the watchdog asks for one when it first sees everybody blocked), the goroutine that executes the current case is among them and at least
// one of them is blocked inside the library, then nothing in the process can ever run again (no goroutine is
// runnable, asleep on a timer, in a system call or waiting for I/O): the case is written as the replay file with site
// "hang" and the process exits 1. The clock only decides when to look; a process that is merely slow always has a
// goroutine that is not blocked, or one that was blocked for less than the threshold.

const hangMinutes = 2

// curCase holds a func(*Failure) that saves the case being executed (set by safeExec).
var curCase atomic.Value

var goroutineHeader = regexp.MustCompile(`^goroutine (\d+) \[([^\]]*)\]:$`)

type hangG struct {
	id      int64
	state   string
	minutes int
	stack   string
}

func parseHangDump(b []byte) []hangG {
	var out []hangG
	for _, blk := range strings.Split(string(b), "\n\n") {
		blk = strings.TrimSpace(blk)
		nl := strings.IndexByte(blk, '\n')
		head := blk
		if nl >= 0 {
			head = blk[:nl]
		}
		m := goroutineHeader.FindStringSubmatch(head)
		if m == nil {
			continue
		}
		g := hangG{stack: blk}
		g.id, _ = strconv.ParseInt(m[1], 10, 64)
		parts := strings.Split(m[2], ",")
		g.state = strings.TrimSpace(parts[0])
		for _, p := range parts[1:] {
			p = strings.TrimSpace(p)
			if strings.HasSuffix(p, " minutes") {
				g.minutes, _ = strconv.Atoi(strings.TrimSuffix(p, " minutes"))
			}
		}
		out = append(out, g)
	}
	return out
}

// hangVerdict inspects one dump; self is the watchdog's goroutine id. allBlocked: every other goroutine is blocked
// (for however long); ok: they have all been blocked for hangMinutes or more and the verdict's conditions hold.
func hangVerdict(gs []hangG, self int64) (where string, allBlocked, ok bool) {
	caseBlocked, inLibrary := false, ""
	allBlocked = true
	long := true
	for _, g := range gs {
		if g.id == self {
			continue
		}
		if !(IsParked(g.state) || g.state == "semacquire") {
			return "", false, false
		}
		if g.minutes < hangMinutes {
			long = false
		}
		if strings.Contains(g.stack, "safeExec") {
			caseBlocked = true
		}
		if inLibrary == "" && strings.Contains(g.stack, "github.com/pinealctx/neptune") {
			for _, ln := range strings.Split(g.stack, "\n") {
				if strings.Contains(ln, "github.com/pinealctx/neptune") && !strings.HasPrefix(ln, "\t") {
					inLibrary = fmt.Sprintf("%s [%s, %d minutes]", strings.TrimSpace(ln), g.state, g.minutes)
					break
				}
			}
		}
	}
	if !long || !caseBlocked || inLibrary == "" {
		return "", allBlocked, false
	}
	return inLibrary, allBlocked, true
}

func startHangWatchdog() {
	if os.Getenv("VERIF_NO_HANG_WATCHDOG") != "" {
		return
	}
	go func() {
		self := curGID()
		buf := make([]byte, 1<<20)
		stamped := false
		for {
			time.Sleep(20 * time.Second)
			save, _ := curCase.Load().(func(*Failure))
			if save == nil {
				continue
			}
			n := runtime.Stack(buf, true)
			for n == len(buf) && len(buf) < 64<<20 {
				buf = make([]byte, 2*len(buf))
				n = runtime.Stack(buf, true)
			}
			gs := parseHangDump(buf[:n])
			where, allBlocked, ok := hangVerdict(gs, self)
			if !ok {
				if allBlocked && !stamped {
					// the runtime notes since when a goroutine waits only while it marks: let it mark now
					runtime.GC()
					stamped = true
				} else if !allBlocked {
					stamped = false
				}
				continue
			}
			f := &Failure{Site: "hang", Msg: fmt.Sprintf("the case does not return: every goroutine of the process has been blocked on a synchronisation primitive for %d minutes or more (none runnable, asleep, in a system call or waiting for I/O), so nothing can ever wake them; blocked inside the library: %s", hangMinutes, where)}
			save(f)
			if replayPath() != "" {
				fmt.Printf("REPLAY-FAIL site=hang: %s\n", f.Msg)
			}
			fmt.Printf("--- FAIL: hang: %s\n", f.Msg)
			DumpStats()
			os.Exit(1)
		}
	}()
}
