package vkit

import (
	"bytes"
	"fmt"
	"os"
	"runtime"
	"strconv"
	"strings"
	"sync"
	"sync/atomic"
	"time"
)

// Sched owns the API-level schedule of one case: every potentially blocking
// call runs on its own goroutine (Go), and Quiesce waits until every goroutine
// created since the Sched was made - except the controller - is either gone or
// parked in a state that only another goroutine can end. Controlled cases use no
// timers, so such a cut is stable: an operation still parked there can never
// return unless the controller acts. That turns "admitted at once" and "never
// deadlocks" into exact verdicts, without a timeout.
type Sched struct {
	// goroutines that existed when the case started (test runner, goroutines leaked
	// by an earlier failing case) are not part of it. Goroutine ids are handed out
	// in per-P batches, so they are unique but NOT monotonic in time: the baseline
	// is therefore the explicit id set of a dump, not a watermark.
	base map[int64]struct{}
	ctl  int64
	ops  []*Op
	buf  []byte
	// Snapshots counts goroutine dumps taken (reported in evidence).
	Snapshots int
	// FullStacks: keep the frames of every goroutine in the snapshots (default: only where the state needs them)
	FullStacks bool
}

// Op is one call issued on its own goroutine.
type Op struct {
	Name string
	gid  int64
	done atomic.Bool
	pan  atomic.Value
	wg   sync.WaitGroup
}

// Done reports whether the call has returned. Only meaningful at quiescence.
func (o *Op) Done() bool { return o.done.Load() }

// Panic returns the recovered panic value of the call, if it panicked.
func (o *Op) Panic() any { return o.pan.Load() }

var dumpBufPool = sync.Pool{New: func() any { b := make([]byte, 1<<16); return &b }}

func curGID() int64 {
	var b [64]byte
	n := runtime.Stack(b[:], false)
	return parseGID(b[:n])
}

func parseGID(b []byte) int64 {
	// "goroutine 123 [running]:"
	b = bytes.TrimPrefix(b, []byte("goroutine "))
	i := bytes.IndexByte(b, ' ')
	if i < 0 {
		return -1
	}
	id, err := strconv.ParseInt(string(b[:i]), 10, 64)
	if err != nil {
		return -1
	}
	return id
}

// NewSched must be called by the controller goroutine at the start of a case.
func NewSched() *Sched {
	s := &Sched{ctl: curGID(), base: map[int64]struct{}{}}
	for _, g := range s.Dump() {
		s.base[g.ID] = struct{}{}
	}
	s.Snapshots = 0
	return s
}

// Go runs fn on a new goroutine owned by the schedule.
func (s *Sched) Go(name string, fn func()) *Op {
	op := &Op{Name: name}
	op.wg.Add(1)
	started := make(chan struct{})
	go func() {
		op.gid = curGID()
		close(started)
		defer op.wg.Done()
		defer op.done.Store(true)
		defer func() {
			if r := recover(); r != nil {
				op.pan.Store(fmt.Sprintf("%v", r))
			}
		}()
		fn()
	}()
	<-started
	s.ops = append(s.ops, op)
	return op
}

// GState is the state of one goroutine in a dump.
type GState struct {
	ID    int64
	State string
	Top   string // first function line of its stack
	Stack string // the goroutine's frames as printed
}

var parkedStates = map[string]bool{
	"chan receive":            true,
	"chan send":               true,
	"select":                  true,
	"sync.Mutex.Lock":         true,
	"sync.RWMutex.Lock":       true,
	"sync.RWMutex.RLock":      true,
	"sync.Cond.Wait":          true,
	"sync.WaitGroup.Wait":     true,
	"chan receive (nil chan)": true,
	"chan send (nil chan)":    true,
	"select (no cases)":       true,
}

// IsParked reports whether a dump state can only be ended by another goroutine
// (given that no timers are in play).
//
// "semacquire" is deliberately NOT a parked state by itself: the runtime uses it
// for its own semaphores too. A goroutine whose allocation starts a GC cycle
// while the controller holds the world stopped for the dump waits in
// "semacquire" on the runtime's worldsema - for the controller, not for a peer
// - and runs on as soon as the dump is done (observed: the detector returned
// early about once in a thousand cases). It counts as parked only when the
// stack shows sync.(*WaitGroup).Wait.
func IsParked(state string) bool { return parkedStates[state] }

func (g GState) parked() bool {
	if parkedStates[g.State] {
		return true
	}
	return g.State == "semacquire" && strings.Contains(g.Stack, "sync.(*WaitGroup).Wait")
}

// Dump takes a stop-the-world snapshot of all goroutines.
func (s *Sched) Dump() []GState {
	s.Snapshots++
	if s.buf == nil {
		s.buf = make([]byte, 1<<16)
	}
	for {
		n := runtime.Stack(s.buf, true)
		if n < len(s.buf) {
			return parseDump(s.buf[:n], s.FullStacks)
		}
		s.buf = make([]byte, 2*len(s.buf))
	}
}

func parseDump(b []byte, full bool) []GState {
	var out []GState
	for len(b) > 0 {
		var line []byte
		if i := bytes.IndexByte(b, '\n'); i >= 0 {
			line, b = b[:i], b[i+1:]
		} else {
			line, b = b, nil
		}
		if !bytes.HasPrefix(line, []byte("goroutine ")) {
			continue
		}
		rest := line[len("goroutine "):]
		sp := bytes.IndexByte(rest, ' ')
		if sp < 0 {
			continue
		}
		id, err := strconv.ParseInt(string(rest[:sp]), 10, 64)
		if err != nil {
			continue
		}
		lb := bytes.IndexByte(rest, '[')
		rb := bytes.LastIndexByte(rest, ']')
		if lb < 0 || rb < lb {
			continue
		}
		st := rest[lb+1 : rb]
		if c := bytes.IndexByte(st, ','); c >= 0 {
			st = st[:c]
		}
		g := GState{ID: id, State: string(st)}
		if i := bytes.IndexByte(b, '\n'); i >= 0 {
			g.Top = string(b[:i])
		}
		if g.State == "semacquire" || full {
			if i := bytes.Index(b, []byte("\n\n")); i >= 0 {
				g.Stack = string(b[:i])
			} else {
				g.Stack = string(b)
			}
		}
		out = append(out, g)
	}
	return out
}

// ErrNoQuiescence is returned when the cap expired: an infrastructure outcome
// (exit 2), never a verdict.
type ErrNoQuiescence struct{ Busy []GState }

func (e *ErrNoQuiescence) Error() string {
	return fmt.Sprintf("no quiescence within the cap; busy goroutines: %+v", e.Busy)
}

// QuiesceCap bounds the wait for quiescence.
var QuiesceCap = 30 * time.Second

// Quiesce blocks until the case is quiescent and returns the parked goroutines
// that belong to it.
func (s *Sched) Quiesce() ([]GState, error) {
	deadline := time.Now().Add(QuiesceCap)
	spins := 0
	for {
		gs := s.Dump()
		var parked, busy []GState
		for _, g := range gs {
			if _, old := s.base[g.ID]; old || g.ID == s.ctl {
				continue
			}
			if g.parked() {
				parked = append(parked, g)
			} else {
				busy = append(busy, g)
			}
		}
		if len(busy) == 0 {
			return parked, nil
		}
		if time.Now().After(deadline) {
			return nil, &ErrNoQuiescence{Busy: busy}
		}
		spins++
		if spins < 50 {
			runtime.Gosched()
		} else {
			time.Sleep(50 * time.Microsecond)
		}
	}
}

// QuiesceUnless is Quiesce with a second way out: stuck(busy, parked) is asked on every snapshot that still has busy
// goroutines; once it has answered true on 25 snapshots in a row (at least 1 ms apart) the wait ends with isStuck =
// true. It is for states that are provably permanent although not parked - e.g. library code that polls with
// time.Sleep for something only a parked goroutine could provide. The predicate decides, never the clock.
func (s *Sched) QuiesceUnless(stuck func(busy, parked []GState) bool) (parkedOut []GState, isStuck bool, err error) {
	deadline := time.Now().Add(QuiesceCap)
	spins, streak := 0, 0
	for {
		gs := s.Dump()
		var parked, busy []GState
		for _, g := range gs {
			if _, old := s.base[g.ID]; old || g.ID == s.ctl {
				continue
			}
			if g.parked() {
				parked = append(parked, g)
			} else {
				busy = append(busy, g)
			}
		}
		if len(busy) == 0 {
			return parked, false, nil
		}
		if stuck != nil && stuck(busy, parked) {
			streak++
			if streak >= 25 {
				return parked, true, nil
			}
			time.Sleep(time.Millisecond)
			continue
		}
		streak = 0
		if time.Now().After(deadline) {
			return nil, false, &ErrNoQuiescence{Busy: busy}
		}
		spins++
		if spins < 50 {
			runtime.Gosched()
		} else {
			time.Sleep(50 * time.Microsecond)
		}
	}
}

// MustQuiesce is Quiesce that panics with an *ErrNoQuiescence (turned into exit
// 2 by the test main through InfraPanic).
func (s *Sched) MustQuiesce() []GState {
	p, err := s.Quiesce()
	if err != nil {
		Infra("%v", err)
	}
	return p
}

// ParkedOps lists the ops that have not returned (call at quiescence).
func (s *Sched) ParkedOps() []*Op {
	var out []*Op
	for _, op := range s.ops {
		if !op.Done() {
			out = append(out, op)
		}
	}
	return out
}

// Ops returns all ops in issue order.
func (s *Sched) Ops() []*Op { return s.ops }

// InfraError marks an inconclusive infrastructure outcome.
type InfraError struct{ Msg string }

func (e *InfraError) Error() string { return "INFRA: " + e.Msg }

// Infra aborts the process with exit status 2 semantics: the driver maps the
// marker line to "inconclusive", never to a violation.
func Infra(format string, args ...any) {
	msg := fmt.Sprintf(format, args...)
	fmt.Printf("VERIF-INFRA: %s\n", msg)
	DumpStats()
	os.Exit(2)
}
