package vkit

import (
	"runtime"
	"sync"
	"sync/atomic"
	"testing"
)

// TestQuiesceNeverEarly: after Quiesce every goroutine of the case must have
// finished all the work it could do by itself.
func TestQuiesceNeverEarly(t *testing.T) {
	for iter := 0; iter < 3000; iter++ {
		procs := []int{1, 2, 4, 8}[iter%4]
		old := runtime.GOMAXPROCS(procs)
		s := NewSched()
		var cnt atomic.Int64
		var mu sync.Mutex
		m := map[int]int{}
		start := make(chan struct{})
		ch := make(chan int, 1)
		stop := make(chan struct{})
		const workers, k = 3, 5
		for w := 0; w < workers; w++ {
			w := w
			s.Go("producer", func() {
				<-start
				for i := 0; i < k; i++ {
					select {
					case ch <- w*100 + i:
					default:
					}
					cnt.Add(1)
				}
			})
		}
		for c := 0; c < 4; c++ {
			s.Go("consumer", func() {
				<-start
				for {
					select {
					case v := <-ch:
						mu.Lock()
						m[v]++
						mu.Unlock()
					case <-stop:
						return
					}
				}
			})
		}
		close(start)
		if _, err := s.Quiesce(); err != nil {
			t.Fatal(err)
		}
		if got := cnt.Load(); got != workers*k {
			buf := make([]byte, 1<<20)
			t.Fatalf("iter %d procs %d: Quiesce returned after %d of %d steps\n%s", iter, procs, got, workers*k, buf[:runtime.Stack(buf, true)])
		}
		close(stop)
		s.Quiesce()
		runtime.GOMAXPROCS(old)
	}
}
