package vkit

import (
	_ "github.com/anishathalye/porcupine"
	_ "github.com/pinealctx/neptune/bitmap1024"
	_ "pgregory.net/rapid"
)
