package c16stcp

// part 4: one session, one (or two) terminating events, decided by CAUSE.
//
// The sessions part lets many events meet; a session that swallows its ending event there is often ended by another
// one a little later (in the end by the read timeout) and looks fine. Here every case is built around one ending
// event and the session talks through the logging wrapper (net.Pipe and loopback TCP alike), so the verdict is taken
// at the call that must not happen: a Write after a failed Write, a handler invocation or a Read after the handler
// failed, a loop that returned without ending the session (goroutine dump), an OnExit without a terminating event.
// No case waits for a deadline that is not its own event. Sessions are also created the way the server creates them
// (SessionMgr.Do on an accepted connection, the real *net.TCPConn included) and then send, bulk too, and are closed
// locally: the flush clause holds for them as for NewSession+Start sessions. A manager may be built without a handler
// of its own (nil) when the session brings its handler through UpdateHandler.

import (
	"bytes"
	"fmt"
	"io"
	"net"
	"strings"
	"time"

	"github.com/pinealctx/neptune/stcp"
	"pgregory.net/rapid"

	"verifharness/vkit"
)

type CaseCause struct {
	Transport     string `json:"transport"`                 // pipe | tcp
	Raw           bool   `json:"raw,omitempty"`             // tcp only: the session gets the real *net.TCPConn (no call log)
	ViaDo         bool   `json:"via_do,omitempty"`          // the session is created and started by SessionMgr.Do(conn), as the server does
	NilMgrHandler bool   `json:"nil_mgr_handler,omitempty"` // NewSessionMgr(nil, ...): the session's handler comes through UpdateHandler
	OwnHandler    bool   `json:"own_handler,omitempty"`
	ShortRead     bool   `json:"short_read,omitempty"`
	ShortWrite    bool   `json:"short_write,omitempty"`
	Sends         []int  `json:"sends"`
	Bulk          int    `json:"bulk,omitempty"` // further 64 KiB payloads
	PeerRead      int    `json:"peer_read"`      // -1: reads to the end; 0: never reads; n: reads n bytes, then stops
	PeerDelayMs   int    `json:"peer_delay_ms,omitempty"`
	// PeerPaceMs > 0: a peer that reads to the end pauses that long before every read of up to 64 KiB. With the 30 ms
	// write timeout every single write still completes in time, but draining the backlog takes longer than one write
	// timeout in total.
	PeerPaceMs int      `json:"peer_pace_ms,omitempty"`
	PeerWrites int      `json:"peer_writes,omitempty"`
	FailAt     int      `json:"fail_at,omitempty"`
	FailKind   string   `json:"fail_kind,omitempty"`
	Events     []string `json:"events,omitempty"` // local-close | peer-close, in this order
}

var failKinds = []string{"error", "panic", "panic-error", "panic-int", "panic-runtime"}

func GenCause(t *rapid.T) CaseCause {
	c := CaseCause{Transport: rapid.SampledFrom([]string{"pipe", "pipe", "tcp"}).Draw(t, "transport"), PeerRead: -1}
	smallSends := func(lo, hi int) {
		for j, k := 0, rapid.IntRange(lo, hi).Draw(t, "nsends"); j < k; j++ {
			c.Sends = append(c.Sends, rapid.SampledFrom([]int{1, 7, 300, 1000, 4096, 4097, 16384, 65535}).Draw(t, "size"))
		}
	}
	focus := rapid.SampledFrom([]string{"write-timeout", "write-timeout", "handler-fail", "handler-fail", "local-close", "local-close", "slow-drain", "accepted-flush", "peer-close", "read-timeout", "mix"}).Draw(t, "focus")
	switch focus {
	case "write-timeout":
		c.ShortWrite = true
		if c.Transport == "pipe" {
			c.PeerRead = rapid.SampledFrom([]int{0, 0, 1, 5, 100}).Draw(t, "peerread")
			for j, k := 0, rapid.IntRange(1, 4).Draw(t, "nsends"); j < k; j++ {
				c.Sends = append(c.Sends, rapid.SampledFrom([]int{200, 1000, 4097, 65535}).Draw(t, "size"))
			}
		} else {
			c.PeerRead = rapid.SampledFrom([]int{0, 0, 1000, 70000}).Draw(t, "peerread")
			c.Bulk = 16
			smallSends(0, 2)
		}
		if rapid.IntRange(0, 3).Draw(t, "thenclose") == 0 {
			c.Events = []string{"local-close"}
		}
	case "handler-fail":
		c.FailAt = rapid.IntRange(1, 3).Draw(t, "failat")
		c.FailKind = rapid.SampledFrom(failKinds).Draw(t, "failkind")
		c.PeerWrites = c.FailAt - 1 + rapid.IntRange(0, 2).Draw(t, "extra")
		smallSends(0, 3)
	case "local-close":
		smallSends(0, 6)
		c.Bulk = rapid.SampledFrom([]int{0, 0, 4, 16}).Draw(t, "bulk")
		c.PeerDelayMs = rapid.SampledFrom([]int{0, 0, 20}).Draw(t, "delay")
		c.PeerWrites = rapid.SampledFrom([]int{0, 0, 1, 3}).Draw(t, "peerwrites")
		c.Events = []string{"local-close"}
	case "slow-drain":
		c.ShortWrite = true
		smallSends(0, 3)
		c.Bulk = rapid.SampledFrom([]int{16, 24, 32}).Draw(t, "bulk")
		c.PeerPaceMs = rapid.SampledFrom([]int{3, 4, 6}).Draw(t, "pace")
		c.Events = []string{"local-close"}
	case "accepted-flush":
		c.Transport, c.Raw, c.ViaDo = "tcp", true, true
		smallSends(0, 3)
		c.Bulk = rapid.SampledFrom([]int{16, 32, 64}).Draw(t, "bulk")
		c.PeerDelayMs = rapid.SampledFrom([]int{20, 60}).Draw(t, "delay")
		c.Events = []string{"local-close"}
	case "peer-close":
		smallSends(0, 3)
		c.PeerRead = rapid.SampledFrom([]int{-1, 0, 1}).Draw(t, "peerread")
		c.PeerWrites = rapid.SampledFrom([]int{0, 1, 3}).Draw(t, "peerwrites")
		c.Events = []string{"peer-close"}
	case "read-timeout":
		c.ShortRead = true
		smallSends(0, 3)
		c.PeerWrites = rapid.SampledFrom([]int{0, 1, 3}).Draw(t, "peerwrites")
	case "mix":
		c.ShortRead = rapid.IntRange(0, 3).Draw(t, "shortread") == 0
		c.ShortWrite = rapid.IntRange(0, 3).Draw(t, "shortwrite") == 0
		smallSends(0, 4)
		c.PeerRead = rapid.SampledFrom([]int{-1, -1, 0, 3}).Draw(t, "peerread")
		c.PeerWrites = rapid.SampledFrom([]int{0, 1, 3}).Draw(t, "peerwrites")
		if rapid.Bool().Draw(t, "fails") {
			c.FailAt = rapid.IntRange(1, 3).Draw(t, "failat")
			c.FailKind = rapid.SampledFrom(failKinds).Draw(t, "failkind")
		}
		c.Events = rapid.SampledFrom([][]string{{"local-close"}, {"peer-close"}, {"local-close", "peer-close"}, {"peer-close", "local-close"}, {}}).Draw(t, "events")
		if !c.guaranteed() {
			c.Events = append(c.Events, "peer-close")
		}
	}
	if focus != "accepted-flush" {
		c.Raw = c.Transport == "tcp" && focus != "write-timeout" && focus != "slow-drain" && rapid.IntRange(0, 2).Draw(t, "raw") == 0
		c.ViaDo = rapid.IntRange(0, 2).Draw(t, "viado") == 0
		if !c.ViaDo {
			c.OwnHandler = rapid.IntRange(0, 3).Draw(t, "own") == 0
			c.NilMgrHandler = rapid.IntRange(0, 3).Draw(t, "nilmgr") == 0
		}
	}
	return c
}

func (c CaseCause) total() int {
	n := c.Bulk * (64 << 10)
	for _, sz := range c.Sends {
		n += sz
	}
	return n
}

// guaranteed: the case's own events end the session without a deadline that "never fires" being involved.
func (c CaseCause) guaranteed() bool {
	local, peer := false, false
	for _, ev := range c.Events {
		local = local || ev == "local-close"
		peer = peer || ev == "peer-close"
	}
	// a write that cannot complete: the peer stops reading before everything is read (a pipe has no buffer; the TCP
	// connection gets 16 KiB socket buffers, half a MiB more than fills them)
	stuck := c.PeerRead >= 0 && ((c.Transport == "pipe" && c.total() > c.PeerRead) || (c.Transport == "tcp" && c.total()-c.PeerRead > 512<<10))
	mayStick := c.PeerRead >= 0 && c.total() > c.PeerRead
	switch {
	case peer, c.ShortRead:
		return true
	case c.FailAt > 0 && c.PeerWrites >= c.FailAt-1:
		return true
	case c.ShortWrite && stuck:
		return true
	case local && (!mayStick || (c.ShortWrite && stuck)):
		return true
	}
	return false
}

func ExecCause(c CaseCause) *vkit.Result {
	res := &vkit.Result{}
	if (c.Transport != "pipe" && c.Transport != "tcp") || len(c.Sends) > 64 || c.Bulk < 0 || c.Bulk > 128 || c.PeerRead < -1 || c.PeerWrites < 0 || c.PeerWrites > 64 ||
		c.PeerDelayMs < 0 || c.PeerDelayMs > 1000 || c.PeerPaceMs < 0 || c.PeerPaceMs > 100 || c.FailAt < 0 || len(c.Events) > 4 || (c.Raw && c.Transport != "tcp") || (c.ViaDo && (c.OwnHandler || c.NilMgrHandler)) {
		res.Skip("malformed-config")
		return res
	}
	for _, sz := range c.Sends {
		if sz < 1 || sz > 1<<16 {
			res.Skip("malformed-config")
			return res
		}
	}
	if !c.guaranteed() {
		res.Skip("no-guaranteed-end")
		return res
	}
	rt, wt := longTO, longTO
	if c.ShortRead {
		rt = shortTO
	}
	if c.ShortWrite {
		wt = shortTO
	}
	if left := sessionGoroutines(); len(left) > 0 {
		vkit.Infra("session goroutines of an earlier case are still alive: %d\n%s", len(left), strings.Join(left, "\n\n"))
	}
	fl := newFlags()
	h := &handler{state: map[*stcp.Session]*sessRun{}, known: make(chan struct{})}
	var mgr *stcp.SessionMgr
	if c.NilMgrHandler {
		mgr = stcp.NewSessionMgr(nil, stcp.WithReadTimeout(rt), stcp.WithWriteTimeout(wt))
		res.Class("manager-without-handler")
	} else {
		mgr = stcp.NewSessionMgr(h, stcp.WithReadTimeout(rt), stcp.WithWriteTimeout(wt))
	}
	before := mgr.ConnCount()
	srv, cli, err := connPair(c.Transport, c.Transport == "tcp")
	if err != nil {
		vkit.Infra("cannot create a %s connection pair: %v", c.Transport, err)
	}
	if tc, ok := srv.(*net.TCPConn); ok && c.ShortWrite {
		_ = tc.SetWriteBuffer(16 << 10) // so that a write really waits for the reader
	}
	own := c.OwnHandler || c.NilMgrHandler
	r := &sessRun{spec: SessionSpec{Sends: c.Sends, PeerReads: c.PeerRead == -1, PeerWrites: c.PeerWrites, FailAt: c.FailAt, FailKind: c.FailKind, Events: c.Events, OwnHandler: own, Bulk: c.Bulk, PeerDelayMs: c.PeerDelayMs},
		conn: newConn(srv, false, !c.Raw, fl, 0), peer: cli, exited: make(chan struct{}), peerDone: make(chan struct{}), ownErr: fmt.Errorf("handler error of the session")}
	h.only = r
	runs := []*sessRun{r}
	defer func() {
		h.mu.Lock()
		isKnown := r.sess != nil
		h.mu.Unlock()
		if isKnown {
			r.localClose(200 * time.Millisecond)
		}
		r.peer.Close()
		r.conn.Conn.Close()
		waitFor(func() bool { return len(sessionGoroutines()) == 0 }, time.Second)
		afterCase(res)
	}()
	var conn net.Conn = r.conn
	if c.Raw {
		conn = srv
		res.Class("real-TCPConn")
	} else if c.Transport == "tcp" {
		res.Class("tcp-with-call-log")
	}
	if c.ViaDo {
		res.Class("created-by-SessionMgr.Do")
		mgr.Do(conn)
		r.started.Store(true)
		// the session is known once the read loop has invoked the handler for the first time
		if f, ok := waitIntact(res, fl, nil, h.known, patience); f != nil {
			return f
		} else if !ok {
			vkit.Infra("the session created by Do never invoked the read handler within %v", patience)
		}
	} else {
		s := stcp.NewSession(mgr, conn)
		if own {
			s.UpdateHandler(&ownHandler{h})
		}
		h.mu.Lock()
		r.sess = s
		h.mu.Unlock()
		s.Start()
		r.started.Store(true)
	}
	// sends
	for j, sz := range c.Sends {
		p := payload(0, j, sz)
		if r.sess.Send(p) == nil {
			r.accepted = append(r.accepted, p)
		}
	}
	for j := 0; j < c.Bulk; j++ {
		p := payload(0, 1000+j, 64<<10)
		if r.sess.Send(p) == nil {
			r.accepted = append(r.accepted, p)
		}
	}
	if len(r.accepted) > 0 {
		res.Class("queued-sends-at-the-event")
	}
	// the peer
	go func() {
		defer close(r.peerDone)
		for k := 0; k < c.PeerWrites; k++ {
			if _, err := r.peer.Write([]byte{byte(k)}); err != nil {
				r.peerWriteErr = err
				break
			}
		}
		if c.PeerRead == 0 {
			return
		}
		if c.PeerDelayMs > 0 {
			time.Sleep(time.Duration(c.PeerDelayMs) * time.Millisecond)
		}
		if c.PeerRead > 0 {
			_, r.peerErr = io.CopyN(&r.peerGot, r.peer, int64(c.PeerRead))
			return
		}
		if c.PeerPaceMs > 0 {
			piece := make([]byte, 64<<10)
			for {
				time.Sleep(time.Duration(c.PeerPaceMs) * time.Millisecond)
				n, err := r.peer.Read(piece)
				r.peerGot.Write(piece[:n])
				if err != nil {
					if err != io.EOF {
						r.peerErr = err
					}
					return
				}
			}
		}
		_, r.peerErr = io.Copy(&r.peerGot, r.peer)
	}()
	local, peerCloses := false, false
	for _, ev := range c.Events {
		local = local || ev == "local-close"
		peerCloses = peerCloses || ev == "peer-close"
	}
	handlerFails := c.FailAt > 0 && c.PeerWrites >= c.FailAt-1
	// Before a local Close the handler has consumed what the peer wrote (a TCP close with unread inbound data resets
	// the connection: known finding F20 of the sessions part, not looked for here).
	consumed := true
	if len(c.Events) > 0 && !handlerFails {
		need := int32(c.PeerWrites + 1)
		if f, ok := waitIntact(res, fl, runs, waitCh(func() bool { return r.invoked.Load() >= need || r.exits.Load() > 0 }), patience); f != nil {
			return f
		} else if !ok {
			consumed = false
		}
	}
	for _, ev := range c.Events {
		switch ev {
		case "local-close":
			r.localClose(patience)
			res.Class("event:local-close")
		case "peer-close":
			r.peer.Close()
			res.Class("event:peer-close")
		default:
			res.Skip("unknown-event")
		}
	}
	if handlerFails {
		res.Class("event:handler-fail-" + c.FailKind)
	}
	if c.ShortRead {
		res.Class("event:read-timeout")
	}
	if c.ShortWrite && c.PeerRead >= 0 && c.total() > c.PeerRead {
		res.Class("event:write-timeout")
	}
	res.NonTrivial = true
	// --- oracle -------------------------------------------------------------
	if f := awaitExit(res, fl, runs, r); f != nil {
		return f
	}
	if !waitFor(func() bool { return len(sessionGoroutines()) == 0 }, patience) {
		if !connClosedCause(c, r) {
			return res.Failf("conn-not-closed", "the session called OnExit but never closed its connection (event log: %s); goroutines still in the session loops:\n%s", r.conn.history(), strings.Join(sessionGoroutines(), "\n\n"))
		}
		if !timerFree(sessionGoroutines()) {
			waitFor(func() bool { return len(sessionGoroutines()) == 0 }, allTimersFired)
		}
		if blocks := sessionGoroutines(); len(blocks) > 0 {
			return res.Failf("loops-not-stopped", "the session exited and closed its connection, but goroutines stay in the session loops although every deadline has fired:\n%s", strings.Join(blocks, "\n\n"))
		}
	}
	if f := fl.failed(res); f != nil {
		return f
	}
	if n := r.exits.Load(); n != 1 {
		return res.Failf("exit-callback-count", "OnExit ran %d times (event log: %s)", n, r.conn.history())
	}
	if ownN, mgrN := r.exitsViaOwn.Load(), r.exitsViaMgr.Load(); (own && (ownN != 1 || mgrN != 0)) || (!own && (ownN != 0 || mgrN != 1)) {
		return res.Failf("exit-callback-count", "the exit was reported %d times to the session's own handler and %d times to the manager's handler (own handler installed: %v)", ownN, mgrN, own)
	}
	if c.Raw && !descriptorClosed(r) {
		return res.Failf("conn-not-closed", "the session ended, both its loops have returned, but its TCP connection is not closed (the descriptor is still usable)")
	}
	if !waitFor(func() bool { return connClosedCause(c, r) }, patience) {
		return res.Failf("conn-not-closed", "the session ended but never closed its connection (event log: %s)", r.conn.history())
	}
	if got := mgr.ConnCount(); got != before {
		return res.Failf("count-not-restored", "ConnCount is %d after the session ended, was %d before", got, before)
	}
	if c.PeerRead != -1 {
		return res
	}
	select {
	case <-r.peerDone:
	case <-time.After(allTimersFired):
		return res.Failf("peer-sees-no-end", "the session ended and closed its connection but the reading peer never saw EOF or an error")
	}
	got, want := r.peerGot.Bytes(), bytes.Join(r.accepted, nil)
	if !bytes.HasPrefix(want, got) {
		return res.Failf("bytes-corrupted", "the peer received %d bytes that are not a prefix of the %d accepted bytes", len(got), len(want))
	}
	// A short write timeout is an event only if it fires: the call log tells (no failed Write = no write timeout).
	noWriteEvent := !c.ShortWrite
	if c.ShortWrite && !c.Raw {
		r.conn.mu.Lock()
		noWriteEvent = r.conn.wFailed == ""
		r.conn.mu.Unlock()
		if !noWriteEvent {
			res.Class("write-failed-during-the-flush")
		}
	}
	if local && !peerCloses && c.FailAt == 0 && !c.ShortRead && noWriteEvent && consumed {
		res.Class("flush-clause-applies")
		if c.ShortWrite {
			res.Class("flush-clause-applies/short-write-timeout-that-never-fired")
		}
		if c.PeerPaceMs > 0 {
			res.Class("flush-clause-applies/backlog-drained-slower-than-one-write-timeout")
		}
		if c.ViaDo && c.Transport == "tcp" {
			res.Class("flush-clause-applies/accepted-tcp-session")
		}
		if !bytes.Equal(got, want) {
			return res.Failf("flush-before-close", "only a local Close ended the session (created by Do: %v, transport %s, real TCPConn: %v) and the peer read to the end, but it received %d of the %d bytes accepted by Send (the peer's read ended with: %v, its writes with: %v)",
				c.ViaDo, c.Transport, c.Raw, len(got), len(want), r.peerErr, r.peerWriteErr)
		}
	}
	return res
}

// waitCh turns a condition into a channel that is closed once it holds (polled; given up after a while).
func waitCh(cond func() bool) <-chan struct{} {
	ch := make(chan struct{})
	go func() {
		if waitFor(cond, patience+time.Second) {
			close(ch)
		}
	}()
	return ch
}

// connClosedCause: closed = Close was called on the wrapper; for a real TCPConn as in the sessions part.
func connClosedCause(c CaseCause, r *sessRun) bool {
	if !c.Raw {
		return r.conn.closes.Load() > 0
	}
	return connClosed("tcp", r)
}

var PartCause = &vkit.Part[CaseCause]{
	Property: Property, Name: "ending-cause",
	Rule:  "rapid: one session on {net.Pipe | loopback TCP behind the call-logging wrapper | the real *net.TCPConn}, created by NewSession+Start or by SessionMgr.Do (as the server does), manager handler or own handler (manager possibly built with a nil handler), built around ONE ending event: write timeout (30 ms, peer stops reading after 0..n bytes), handler error / panic at invocation 1-3, local Close (0-6 sends, 0-64 bulk payloads, late reader), peer close, read timeout (30 ms), or a mix. Oracle by cause on the call log: no Write / SetWriteDeadline after one failed, no SetReadDeadline / Read / handler invocation after a Read or the handler failed, no loop goroutine gone while OnExit has not run (goroutine dump), OnExit only after a terminating event; then as in the sessions part: OnExit once at the right handler, connection closed, loops stopped, count restored, prefix, and exactly the accepted bytes if only a local Close ended it. Every case is non-trivial; distinct = distinct case JSON",
	Quick: 160, Thorough: 1200,
	Gen: GenCause, Exec: ExecCause,
}

var PartCauseRace = &vkit.Part[CaseCause]{
	Property: Property, Name: "race-ending-cause",
	Rule:  PartCause.Rule + " (binary built with -race)",
	Quick: 40, Thorough: 400,
	Gen: GenCause, Exec: ExecCause,
}
