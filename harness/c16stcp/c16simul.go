package c16stcp

// part 5: many sessions of ONE long-lived manager end at the same instant, round after round.
//
// "The manager's connection count returns to its previous value" is quantified over any number of simultaneous
// sessions. A count that is kept with a read-modify-write that is not atomic loses a decrement only when two sessions
// do their bookkeeping within nanoseconds of each other; in the sessions part that needs a quiet machine. Here it is
// made deliberate: per round N sessions of one manager are ended by one event - N parked goroutines, released by one
// flag, close the N peers (or call Close on the N sessions) - and, in gated cases, the N exit callbacks (for echo
// sessions: the N handlers just before ReleaseRef) meet at a barrier that the harness opens once all have arrived, so
// that all N reach the count bookkeeping together. After every round the count must be back at the manager's base
// value; the manager lives on for the next round. Nothing is decided by a clock: a round is complete when every
// session has closed its connection (quit closes it after it has given the slot back) resp. every echo handler has
// returned from ReleaseRef.

import (
	"runtime"
	"strings"
	"sync/atomic"
	"time"

	"github.com/pinealctx/neptune/stcp"
	"pgregory.net/rapid"

	"verifharness/vkit"
)

type CaseSimul struct {
	Kind     string `json:"kind"`     // session | echo
	Sessions int    `json:"sessions"` // sessions per round, all on one manager
	Rounds   int    `json:"rounds"`
	End      string `json:"end"`              // peer-close | local-close | mixed (echo sessions: peer-close)
	Gate     bool   `json:"gate"`             // the exit callbacks / echo handlers wait for each other before the slot is given back
	ViaDo    bool   `json:"via_do,omitempty"` // created by the manager's Do (sessions: with peer-close only)
}

func GenSimul(t *rapid.T) CaseSimul {
	c := CaseSimul{
		Kind:     rapid.SampledFrom([]string{"session", "session", "echo"}).Draw(t, "kind"),
		Sessions: rapid.SampledFrom([]int{2, 3, 4, 8, 8, 12, 16}).Draw(t, "sessions"),
		Rounds:   rapid.SampledFrom([]int{60, 120, 200}).Draw(t, "rounds"),
		End:      "peer-close",
		Gate:     rapid.IntRange(0, 3).Draw(t, "gate") != 0,
	}
	if c.Kind == "session" {
		c.End = rapid.SampledFrom([]string{"peer-close", "peer-close", "local-close", "mixed"}).Draw(t, "end")
	}
	if c.Kind == "echo" || c.End == "peer-close" {
		c.ViaDo = rapid.Bool().Draw(t, "viado")
	}
	return c
}

// simGate is the barrier of one round.
type simGate struct {
	arrived atomic.Int32
	open    atomic.Bool
}

func (g *simGate) wait() {
	g.arrived.Add(1)
	start := time.Now()
	for i := 0; !g.open.Load(); i++ {
		runtime.Gosched()
		if i%4096 == 4095 && time.Since(start) > 30*time.Second {
			return // (safety net of the harness: the executor opens the gate on every path)
		}
	}
}

type simHandler struct {
	gate  atomic.Pointer[simGate] // nil: no barrier
	exits atomic.Int32
}

func (h *simHandler) Read(s *stcp.Session) error {
	var b [1]byte
	return s.Read(b[:])
}

func (h *simHandler) OnExit(s *stcp.Session) {
	h.exits.Add(1)
	if g := h.gate.Load(); g != nil {
		g.wait() // the last thing the callback does: the count bookkeeping follows at once
	}
}

type echoSim struct {
	gate atomic.Pointer[simGate]
	done atomic.Int32
}

func (h *echoSim) RunEcho(s *stcp.Echo) {
	var b [1]byte
	for s.Read(b[:]) == nil {
	}
	s.Close()
	if g := h.gate.Load(); g != nil {
		g.wait()
	}
	s.ReleaseRef()
	h.done.Add(1)
}

func ExecSimul(c CaseSimul) *vkit.Result {
	res := &vkit.Result{}
	if (c.Kind != "session" && c.Kind != "echo") || c.Sessions < 1 || c.Sessions > 64 || c.Rounds < 1 || c.Rounds > 5000 ||
		(c.End != "peer-close" && c.End != "local-close" && c.End != "mixed") || (c.Kind == "echo" && c.End != "peer-close") || (c.ViaDo && c.End != "peer-close") {
		res.Skip("malformed-config")
		return res
	}
	if left := sessionGoroutines(); len(left) > 0 {
		vkit.Infra("session goroutines of an earlier case are still alive: %d\n%s", len(left), strings.Join(left, "\n\n"))
	}
	sh, eh := &simHandler{}, &echoSim{}
	smgr := stcp.NewSessionMgr(sh, stcp.WithReadTimeout(longTO), stcp.WithWriteTimeout(longTO))
	emgr := stcp.NewEchoMgr(eh, stcp.WithReadTimeout(longTO), stcp.WithWriteTimeout(longTO))
	count := smgr.ConnCount
	if c.Kind == "echo" {
		count = emgr.ConnCount
	}
	base := count()
	n := c.Sessions
	fl := newFlags()
	res.NonTrivial = n >= 2
	res.Class(c.Kind + "-sessions")
	if c.Gate {
		res.Class("exit-callbacks-meet-at-a-barrier")
	}
	defer func() {
		waitFor(func() bool { return len(sessionGoroutines()) == 0 }, time.Second)
		afterCase(res)
	}()
	for round := 0; round < c.Rounds; round++ {
		var gate *simGate
		if c.Gate {
			gate = &simGate{}
		}
		sh.gate.Store(gate)
		eh.gate.Store(gate)
		exits0, done0 := sh.exits.Load(), eh.done.Load()
		conns := make([]*countingConn, n)
		peers := make([]interface{ Close() error }, n)
		sess := make([]*stcp.Session, n)
		openGate := func() {
			if gate != nil {
				gate.open.Store(true)
			}
		}
		cleanup := func() {
			openGate()
			for i := range conns {
				if peers[i] != nil {
					peers[i].Close()
					conns[i].Conn.Close()
				}
			}
		}
		for i := 0; i < n; i++ {
			a, b, err := connPair("pipe", false)
			if err != nil {
				vkit.Infra("cannot create a connection pair: %v", err)
			}
			conns[i], peers[i] = newConn(a, false, true, fl, i), b
			switch {
			case c.Kind == "echo" && c.ViaDo:
				emgr.Do(conns[i])
			case c.Kind == "echo":
				stcp.NewEcho(emgr, conns[i]).Start()
			case c.ViaDo:
				smgr.Do(conns[i])
			default:
				sess[i] = stcp.NewSession(smgr, conns[i])
				sess[i].Start()
			}
		}
		if got := count(); got != base+int32(n) {
			cleanup()
			return res.Failf("count-after-start", "round %d: ConnCount %d after starting %d sessions on a manager with base count %d (nothing has ended a session yet)", round, got, n, base)
		}
		// one event ends them all: parked goroutines, released by one flag
		// (a Close may return only when its session has ended: the closers are not waited for before the barrier opens)
		var goFlag atomic.Bool
		var ready, closersDone atomic.Int32
		for i := 0; i < n; i++ {
			i := i
			go func() {
				defer closersDone.Add(1)
				ready.Add(1)
				for !goFlag.Load() {
					runtime.Gosched()
				}
				if c.End == "local-close" || (c.End == "mixed" && i%2 == 0) {
					sess[i].Close()
				} else {
					peers[i].Close()
				}
			}()
		}
		waitFor(func() bool { return int(ready.Load()) == n }, patience)
		goFlag.Store(true)
		perSession := 2 // goroutines of a session that has not finished
		if c.Kind == "echo" {
			perSession = 1
		}
		if gate != nil {
			// a session that has not arrived at the barrier has not completed its exit callback: its goroutines exist
			site, blocks := settle(func() bool { return int(gate.arrived.Load()) == n }, func() int { return n - int(gate.arrived.Load()) }, perSession)
			if site != "" {
				arrived := gate.arrived.Load()
				cleanup()
				if site == "infra" {
					vkit.Infra("round %d: only %d of %d sessions reached the exit callback within %v", round, arrived, n, patience)
				}
				return res.Failf(site, "round %d: %d sessions were ended at the same instant, only %d reached their exit callback (echo: the point before ReleaseRef); %d goroutines are left in the session loops:\n%s", round, n, arrived, len(blocks), strings.Join(blocks, "\n\n"))
			}
			openGate()
		}
		// a session that has not closed its connection (echo: not returned from ReleaseRef) has not finished quit: both
		// its loops exist (the second one waits for the first one's quit)
		lag := func() int {
			if c.Kind == "echo" {
				return n - int(eh.done.Load()-done0)
			}
			k := 0
			for _, cn := range conns {
				if cn.closes.Load() == 0 {
					k++
				}
			}
			return k
		}
		if site, blocks := settle(func() bool { return lag() == 0 }, lag, perSession); site != "" {
			left := lag()
			cleanup()
			if site == "infra" {
				vkit.Infra("round %d: the sessions did not all end within %v", round, patience)
			}
			return res.Failf(site, "round %d: %d sessions were ended at the same instant, %d of them have not ended and closed their connection (exit callbacks so far: %d); %d goroutines are left in the session loops:\n%s", round, n, left, sh.exits.Load()-exits0, len(blocks), strings.Join(blocks, "\n\n"))
		}
		if got := count(); got != base {
			// (the order inside quit is the library's business: look again once every session goroutine is gone)
			waitFor(func() bool { return len(sessionGoroutines()) == 0 }, patience)
			if got2 := count(); got2 != base {
				cleanup()
				return res.Failf("count-not-restored", "round %d: %d %s sessions of one manager ended at the same instant (%s, barrier before the bookkeeping: %v); every one of them has ended, but ConnCount is %d, the manager's base value %d", round, n, c.Kind, c.End, c.Gate, got2, base)
			}
		}
		if c.Kind == "session" {
			if got := int(sh.exits.Load() - exits0); got != n {
				cleanup()
				return res.Failf("exit-callback-count", "round %d: %d sessions ended, OnExit ran %d times", round, n, got)
			}
		}
		cleanup()
		if !waitFor(func() bool { return int(closersDone.Load()) == n }, patience) {
			// every session of the round has ended and closed its connection; a call that ended one has not returned:
			// not judged here (the statement is about the session), the case stops
			res.Skip("closing-call-did-not-return")
			return res
		}
	}
	if f := fl.failed(res); f != nil {
		return f
	}
	if !waitFor(func() bool { return len(sessionGoroutines()) == 0 }, patience) {
		if blocks := sessionGoroutines(); timerFree(blocks) {
			return res.Failf("loops-not-stopped", "all sessions of %d rounds ended, but goroutines stay in the session loops:\n%s", c.Rounds, strings.Join(blocks, "\n\n"))
		}
		vkit.Infra("session goroutines still alive %v after the last round", patience)
	}
	return res
}

// settle waits until done() holds. lag() is the number of sessions that have not reached the milestone waited for; it
// is read after each goroutine dump (the dump is a consistent cut, and a session that has not reached the milestone
// after it had not reached it at it): each such session still has all its goroutines. The clock only decides when to
// look. site "": done; "infra": the bounded patience passed without a verdict.
func settle(done func() bool, lag func() int, perSession int) (site string, blocks []string) {
	start := time.Now()
	step := 2 * time.Millisecond
	for {
		if waitFor(done, step) {
			return "", nil
		}
		blocks = sessionGoroutines()
		l := lag()
		if l == 0 {
			continue
		}
		noteLoopShape(len(blocks), l)
		if loopShapeSeen.Load() && len(blocks) < perSession*l {
			return "loop-left-without-exit", blocks
		}
		if time.Since(start) >= patience {
			if timerFree(blocks) {
				return "session-never-ends", blocks
			}
			return "infra", blocks
		}
		if step < 250*time.Millisecond {
			step *= 2
		}
	}
}

var PartSimul = &vkit.Part[CaseSimul]{
	Property: Property, Name: "simultaneous-exits",
	Rule:  "rapid: ONE SessionMgr / EchoMgr for the whole case; 60-200 rounds; per round 2-16 sessions over net.Pipe (NewSession+Start / NewEcho+Start or the manager's Do) are ended by one event: parked goroutines released by one flag close all peers (or call Close on all sessions, or half and half); in 3 of 4 cases the exit callbacks (echo: the handlers before ReleaseRef) wait at a barrier that is opened once all have arrived. Oracle per round: ConnCount == base + n after the starts, == base once every session has closed its connection (echo: returned from ReleaseRef), OnExit once per session. Non-trivial: >= 2 sessions per round; distinct = distinct case JSON",
	Quick: 10, Thorough: 40,
	Gen: GenSimul, Exec: ExecSimul,
}

var PartSimulRace = &vkit.Part[CaseSimul]{
	Property: Property, Name: "race-simultaneous-exits",
	Rule:  PartSimul.Rule + " (binary built with -race)",
	Quick: 3, Thorough: 12,
	Gen: GenSimul, Exec: ExecSimul,
}
