package c16stcp

import (
	"testing"

	"verifharness/vkit"
)

func TestMain(m *testing.M) { vkit.Main(m) }

func TestProp_Sessions(t *testing.T) { PartSess.Run(t) }
func TestProp_Server(t *testing.T)   { PartSrv.Run(t) }
func TestProp_Paced(t *testing.T)    { PartPaced.Run(t) }
func TestProp_Cause(t *testing.T)    { PartCause.Run(t) }
func TestProp_Simul(t *testing.T)    { PartSimul.Run(t) }
func TestRace_Sessions(t *testing.T) { PartSessRace.Run(t) }
func TestRace_Cause(t *testing.T)    { PartCauseRace.Run(t) }
func TestRace_Simul(t *testing.T)    { PartSimulRace.Run(t) }

// thorough tier only: a failing accept-limit case is expensive to minimise (every attempt waits the bounded patience
// before the accept loop's state decides), and under -race the sampling goroutine makes it slower still
func TestRace_Server(t *testing.T) {
	if vkit.Tier() != "thorough" {
		t.Skip("thorough tier only")
	}
	PartSrvRace.Run(t)
}

func TestReplay(t *testing.T) {
	PartSess.Replay(t, 10)
	PartSrv.Replay(t, 5)
	PartPaced.Replay(t, 3)
	PartCause.Replay(t, 10)
	PartSimul.Replay(t, 3)
	PartSessRace.Replay(t, 10)
	PartCauseRace.Replay(t, 10)
	PartSimulRace.Replay(t, 3)
	PartSrvRace.Replay(t, 5)
}
