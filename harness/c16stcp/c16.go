// Package c16stcp decides property C16: every stcp session ends exactly once
// whatever ends it (exit callback once, connection closed, both goroutines
// stopped, manager count restored), the count never exceeds the maximum, and
// bytes accepted before a local Close reach a reading peer completely and in
// order.
package c16stcp

import (
	"bytes"
	"errors"
	"fmt"
	"io"
	"net"
	"os"
	"reflect"
	"runtime"
	"runtime/debug"
	"strconv"
	"strings"
	"sync"
	"sync/atomic"
	"syscall"
	"time"
	"unsafe"

	"github.com/pinealctx/neptune/stcp"
	"github.com/pinealctx/neptune/ulog"
	"go.uber.org/zap/zapcore"
	"pgregory.net/rapid"

	"verifharness/vkit"
)

const Property = "C16"

func init() { ulog.SetLogLevel(zapcore.FatalLevel + 1) }

// timeouts: "short" ones are events of a case, the long ones must never fire
const (
	shortTO = 30 * time.Millisecond
	longTO  = 10 * time.Second
	// how long the harness waits for something the property promises before it
	// consults the goroutine dump for a verdict (never a verdict by itself)
	patience = 4 * time.Second
	// after this long every deadline a session can have armed has fired: what is
	// still stuck then is stuck for good
	allTimersFired = longTO + 3*time.Second
)

// ---------------------------------------------------------------------------
// part 1: sessions

type SessionSpec struct {
	Sends      []int    `json:"sends"`       // payload sizes queued by Send before the events; 0 = an empty slice (invalid item)
	PeerReads  bool     `json:"peer_reads"`  // the peer reads everything until EOF / error
	PeerWrites int      `json:"peer_writes"` // bytes the peer writes (the handler consumes one per invocation)
	FailAt     int      `json:"fail_at"`     // handler invocation (1-based) that fails; 0 = never
	FailKind   string   `json:"fail_kind"`   // error | panic
	Events     []string `json:"events"`      // local-close | peer-close, issued in this order
	Concurrent bool     `json:"concurrent"`  // issue the events from separate goroutines at once
	LateSends  []int    `json:"late_sends"`  // sends attempted after the events (must be refused or ignored, never corrupt)
	OwnHandler bool     `json:"own_handler"` // the session gets its own handler through UpdateHandler
	// Bulk > 0: that many further 64 KiB payloads are queued (more than socket buffers take at once), and the
	// reading peer uses a small receive buffer and starts reading PeerDelayMs late
	Bulk        int `json:"bulk,omitempty"`
	PeerDelayMs int `json:"peer_delay_ms,omitempty"`
	// BulkSize: size of each bulk payload (0 = 64 KiB); larger ones are single frames above 64 KiB
	BulkSize int `json:"bulk_size,omitempty"`
	// CloseErr: the connection's Close() closes it but returns an error (net.Pipe transport only)
	CloseErr bool `json:"close_err,omitempty"`
	// ExitCloses: the handler's OnExit calls s.Close() itself (a harmless, common way to make sure the session is closed)
	ExitCloses bool `json:"exit_closes,omitempty"`
	// ManySmall: that many further sends of 1-3 bytes are queued (the number of queued items, not their volume)
	ManySmall int `json:"many_small,omitempty"`
	// StartTwice: Start() is called a second time
	StartTwice bool `json:"start_twice,omitempty"`
}

type CaseSess struct {
	Transport  string        `json:"transport"` // pipe | tcp
	ShortRead  bool          `json:"short_read"`
	ShortWrite bool          `json:"short_write"`
	Sessions   []SessionSpec `json:"sessions"`
}

func GenSess(t *rapid.T) CaseSess {
	c := CaseSess{
		Transport:  rapid.SampledFrom([]string{"pipe", "pipe", "tcp"}).Draw(t, "transport"),
		ShortRead:  rapid.IntRange(0, 3).Draw(t, "shortread") == 0,
		ShortWrite: rapid.IntRange(0, 3).Draw(t, "shortwrite") == 0,
	}
	n := rapid.SampledFrom([]int{1, 1, 1, 2, 3, 4}).Draw(t, "sessions")
	for i := 0; i < n; i++ {
		var s SessionSpec
		for j, k := 0, rapid.SampledFrom([]int{0, 0, 1, 2, 3, 6, 8}).Draw(t, "nsends"); j < k; j++ {
			sz := rapid.SampledFrom([]int{1, 1, 2, 7, 64, 1000, 4096, 4097, 8191, 8192, 8193, 12000, 16383, 16384, 16385, 32768, 65535}).Draw(t, "size")
			if rapid.IntRange(0, 14).Draw(t, "invalid") == 0 {
				sz = 0
			}
			s.Sends = append(s.Sends, sz)
		}
		s.PeerReads = rapid.IntRange(0, 4).Draw(t, "peerreads") != 0
		s.PeerWrites = rapid.SampledFrom([]int{0, 0, 1, 2, 5}).Draw(t, "peerwrites")
		if rapid.IntRange(0, 2).Draw(t, "fails") == 0 {
			s.FailAt = rapid.IntRange(1, 3).Draw(t, "failat")
			s.FailKind = rapid.SampledFrom([]string{"error", "panic", "panic", "panic-error", "panic-int", "panic-runtime"}).Draw(t, "failkind")
		}
		s.Events = rapid.SampledFrom([][]string{{"local-close"}, {"local-close"}, {"peer-close"}, {"local-close", "peer-close"}, {"peer-close", "local-close"}, {"local-close", "local-close"}, {}}).Draw(t, "events")
		s.Concurrent = rapid.Bool().Draw(t, "concurrent")
		s.OwnHandler = rapid.IntRange(0, 3).Draw(t, "ownhandler") == 0
		s.CloseErr = rapid.IntRange(0, 4).Draw(t, "closeerr") == 0
		s.ExitCloses = rapid.IntRange(0, 3).Draw(t, "exitcloses") == 0
		if rapid.IntRange(0, 7).Draw(t, "manysmall") == 0 {
			s.ManySmall = rapid.SampledFrom([]int{100, 129, 300, 1000, 2000}).Draw(t, "nmanysmall")
		}
		s.StartTwice = rapid.IntRange(0, 5).Draw(t, "starttwice") == 0
		if rapid.IntRange(0, 5).Draw(t, "bulk") == 0 {
			s.Bulk = rapid.SampledFrom([]int{16, 64}).Draw(t, "nbulk")
			s.PeerDelayMs = rapid.SampledFrom([]int{0, 20, 60}).Draw(t, "peerdelay")
			s.BulkSize = genBulkSize(t, &s)
		}
		for j, k := 0, rapid.SampledFrom([]int{0, 0, 1, 2}).Draw(t, "nlate"); j < k; j++ {
			s.LateSends = append(s.LateSends, rapid.SampledFrom([]int{1, 64}).Draw(t, "latesize"))
		}
		c.Sessions = append(c.Sessions, s)
	}
	// one case in six is built around the flush clause: no timeouts, mostly TCP, and the first session ends by a
	// local Close only, with a reading peer and bulk data still queued
	if rapid.IntRange(0, 5).Draw(t, "flushfocus") == 0 {
		c.ShortRead, c.ShortWrite = false, false
		c.Transport = rapid.SampledFrom([]string{"tcp", "tcp", "pipe"}).Draw(t, "focustransport")
		s := &c.Sessions[0]
		s.Events, s.PeerReads, s.FailAt, s.FailKind = []string{"local-close"}, true, 0, ""
		for i := range s.Sends {
			if s.Sends[i] == 0 {
				s.Sends[i] = 1
			}
		}
		s.Bulk = rapid.SampledFrom([]int{4, 16, 64}).Draw(t, "focusbulk")
		s.BulkSize = genBulkSize(t, s)
		s.PeerDelayMs = rapid.SampledFrom([]int{0, 20, 60}).Draw(t, "focusdelay")
		s.PeerWrites = rapid.SampledFrom([]int{0, 0, 0, 1}).Draw(t, "focuspeerwrites")
		if rapid.IntRange(0, 3).Draw(t, "focusmany") == 0 {
			s.ManySmall = rapid.SampledFrom([]int{129, 300, 1000, 2000}).Draw(t, "focusnmany")
		}
	}
	return c
}

// genBulkSize: mostly 64 KiB payloads; sometimes fewer, larger frames (the total stays within 4 MiB).
func genBulkSize(t *rapid.T, s *SessionSpec) int {
	sz := rapid.SampledFrom([]int{0, 0, 64<<10 + 1, 200000, 1 << 20, 3 << 20}).Draw(t, "bulksize")
	for sz > 0 && s.Bulk > 1 && s.Bulk*sz > 4<<20 {
		s.Bulk /= 2
	}
	return sz
}

// countingConn wraps the connection handed to the session: it counts Close calls and keeps the session's event
// log - every Read / Write / Set*Deadline / Close call with the kind of its result, in order, together with the
// harness-side events (handler invoked / failed, local Close called, OnExit started). The ending-event oracles are
// decided on that log by cause, at the moment a forbidden call is issued (no clock involved):
//   - the write side (loopSend) issues no further Write / SetWriteDeadline once one of them returned an error - a
//     write error or timeout ends the session, it is not retried;
//   - the read side (loopReceive) issues no further SetReadDeadline / Read and does not invoke the handler again once
//     a Read or SetReadDeadline returned an error, or the handler returned an error or panicked;
//   - OnExit starts only after a terminating event is in the log.
//
// The first forbidden call is kept in the flags of the case; waits of the executors end as soon as one is there.
type countingConn struct {
	net.Conn
	closes  atomic.Int32
	failing bool // Close closes the connection but reports an error (as a TLS connection does after a peer reset)
	wired   bool // the session really talks through this wrapper (false: a TCP session that got the real *net.TCPConn)
	fl      *caseFlags
	idx     int

	mu      sync.Mutex
	head    []string // the first events
	tail    []string // the latest events
	nEvents int
	wFailed string // the failed call after which the write side must issue no further call
	rFailed string // the same for the read side (incl. the handler's own failure)
	cause   string // the first terminating event that happened
}

// caseFlags holds the first forbidden call seen in a case.
type caseFlags struct {
	mu    sync.Mutex
	first *vkit.Failure
	ch    chan struct{}
}

func newFlags() *caseFlags { return &caseFlags{ch: make(chan struct{})} }

func (f *caseFlags) flag(site, format string, args ...any) {
	f.mu.Lock()
	defer f.mu.Unlock()
	if f.first == nil {
		f.first = &vkit.Failure{Site: site, Msg: fmt.Sprintf(format, args...)}
		close(f.ch)
	}
}

func (f *caseFlags) get() *vkit.Failure {
	f.mu.Lock()
	defer f.mu.Unlock()
	return f.first
}

// failed turns the first forbidden call of the case, if any, into the verdict.
func (f *caseFlags) failed(res *vkit.Result) *vkit.Result {
	if v := f.get(); v != nil {
		return res.Failf(v.Site, "%s", v.Msg)
	}
	return nil
}

func newConn(inner net.Conn, failing, wired bool, fl *caseFlags, idx int) *countingConn {
	return &countingConn{Conn: inner, failing: failing, wired: wired, fl: fl, idx: idx}
}

func resKind(err error) string {
	var ne net.Error
	switch {
	case err == nil:
		return "ok"
	case errors.As(err, &ne) && ne.Timeout():
		return "timeout"
	case err == io.EOF:
		return "eof"
	case errors.Is(err, net.ErrClosed) || errors.Is(err, io.ErrClosedPipe):
		return "closed"
	}
	return "error"
}

func (c *countingConn) noteLocked(ev string) {
	c.nEvents++
	if len(c.head) < 24 {
		c.head = append(c.head, ev)
		return
	}
	if len(c.tail) >= 40 {
		c.tail = append(c.tail[:0], c.tail[1:]...)
	}
	c.tail = append(c.tail, ev)
}

// history renders the event log (first and latest events).
func (c *countingConn) history() string {
	c.mu.Lock()
	defer c.mu.Unlock()
	return c.historyLocked()
}

func (c *countingConn) historyLocked() string {
	s := strings.Join(c.head, ", ")
	if skipped := c.nEvents - len(c.head) - len(c.tail); skipped > 0 {
		s += fmt.Sprintf(", ... %d events ...", skipped)
	}
	if len(c.tail) > 0 {
		s += ", " + strings.Join(c.tail, ", ")
	}
	return s
}

func (c *countingConn) causeLocked(what string) {
	if c.cause == "" {
		c.cause = what
	}
}

// noteCause records a terminating event the harness itself issues (local Close called, an invalid item queued).
func (c *countingConn) noteCause(what string) {
	c.mu.Lock()
	c.noteLocked(what)
	c.causeLocked(what)
	c.mu.Unlock()
}

// before a call of the read side (read=true) or the write side
func (c *countingConn) enter(read bool, call string) {
	c.mu.Lock()
	defer c.mu.Unlock()
	if read && c.rFailed != "" {
		c.fl.flag("read-after-read-failure", "session %d: %s is issued on the connection after %s - that event ends the session, the read loop must not go on; event log: %s", c.idx, call, c.rFailed, c.historyLocked())
	}
	if !read && c.wFailed != "" {
		c.fl.flag("write-after-write-error", "session %d: %s is issued on the connection after %s - a write error or timeout ends the session, it is not retried; event log: %s", c.idx, call, c.wFailed, c.historyLocked())
	}
}

func (c *countingConn) leave(read bool, call string, n int, err error) {
	c.mu.Lock()
	defer c.mu.Unlock()
	k := resKind(err)
	if n >= 0 {
		c.noteLocked(fmt.Sprintf("%s %s %d", call, k, n))
	} else {
		c.noteLocked(call + " " + k)
	}
	if err == nil {
		return
	}
	what := fmt.Sprintf("%s returned %s (%v)", call, k, err)
	if read && c.rFailed == "" {
		c.rFailed = what
	}
	if !read && c.wFailed == "" {
		c.wFailed = what
	}
	c.causeLocked(what)
}

func (c *countingConn) Read(b []byte) (int, error) {
	c.enter(true, "Read")
	n, err := c.Conn.Read(b)
	c.leave(true, "Read", n, err)
	return n, err
}

func (c *countingConn) Write(b []byte) (int, error) {
	c.enter(false, "Write")
	n, err := c.Conn.Write(b)
	c.leave(false, "Write", n, err)
	return n, err
}

func (c *countingConn) SetReadDeadline(t time.Time) error {
	c.enter(true, "SetReadDeadline")
	err := c.Conn.SetReadDeadline(t)
	c.leave(true, "SetReadDeadline", -1, err)
	return err
}

func (c *countingConn) SetWriteDeadline(t time.Time) error {
	c.enter(false, "SetWriteDeadline")
	err := c.Conn.SetWriteDeadline(t)
	c.leave(false, "SetWriteDeadline", -1, err)
	return err
}

func (c *countingConn) SetDeadline(t time.Time) error {
	c.enter(true, "SetDeadline")
	c.enter(false, "SetDeadline")
	err := c.Conn.SetDeadline(t)
	c.leave(true, "SetDeadline", -1, err)
	if err != nil {
		c.leave(false, "SetDeadline", -1, err)
	}
	return err
}

func (c *countingConn) Close() error {
	c.closes.Add(1)
	err := c.Conn.Close()
	c.mu.Lock()
	c.noteLocked("Close " + resKind(err))
	c.mu.Unlock()
	if c.failing {
		return errors.New("close: broken pipe (injected)")
	}
	return err
}

// handlerInvoked: the read loop invoked the handler for the n-th time.
func (c *countingConn) handlerInvoked(n int) {
	c.mu.Lock()
	defer c.mu.Unlock()
	if c.rFailed != "" {
		c.fl.flag("handler-invoked-after-failure", "session %d: the read handler is invoked again (invocation %d) after %s - that event ends the session; event log: %s", c.idx, n, c.rFailed, c.historyLocked())
	}
	c.noteLocked(fmt.Sprintf("handler#%d", n))
}

// handlerFails: the handler is about to return an error of its own / to panic.
func (c *countingConn) handlerFails(how string) {
	c.mu.Lock()
	defer c.mu.Unlock()
	c.noteLocked("handler " + how)
	if c.rFailed == "" {
		c.rFailed = "the read handler " + how
	}
	c.causeLocked("the read handler " + how)
}

// exitStarts: OnExit was called.
func (c *countingConn) exitStarts() {
	c.mu.Lock()
	defer c.mu.Unlock()
	if c.wired && c.cause == "" {
		c.fl.flag("ended-without-cause", "session %d: OnExit is called although none of the terminating events has happened (no local Close, no failed Read or Write, no handler failure); event log: %s", c.idx, c.historyLocked())
	}
	c.noteLocked("OnExit")
}

type handler struct {
	mu    sync.Mutex
	state map[*stcp.Session]*sessRun
	// only: the single session of the case (ending-cause part); a session created by SessionMgr.Do becomes known
	// to the harness at the first invocation of the handler
	only  *sessRun
	known chan struct{}
}

type sessRun struct {
	spec         SessionSpec
	idx          int
	sess         *stcp.Session
	conn         *countingConn
	peer         net.Conn
	exits        atomic.Int32
	started      atomic.Bool  // Start has returned (both loop goroutines exist from here until OnExit has completed)
	exitsViaMgr  atomic.Int32 // OnExit calls that arrived at the manager-wide handler
	exitsViaOwn  atomic.Int32 // OnExit calls that arrived at the session's own handler
	exited       chan struct{}
	invoked      atomic.Int32
	accepted     [][]byte // payloads whose Send returned nil before the events
	peerGot      bytes.Buffer
	peerErr      error
	peerWriteErr error
	peerDone     chan struct{}
	ownErr       error
}

func (h *handler) get(s *stcp.Session) *sessRun {
	h.mu.Lock()
	defer h.mu.Unlock()
	if h.only != nil {
		if h.only.sess == nil {
			h.only.sess = s
			close(h.known)
		}
		return h.only
	}
	return h.state[s]
}

func (h *handler) Read(s *stcp.Session) error {
	r := h.get(s)
	if r == nil {
		return errors.New("unknown session")
	}
	n := int(r.invoked.Add(1))
	r.conn.handlerInvoked(n)
	if r.spec.FailAt > 0 && n == r.spec.FailAt {
		if strings.HasPrefix(r.spec.FailKind, "panic") {
			r.conn.handlerFails("panicked")
		} else {
			r.conn.handlerFails("returned an error of its own")
		}
		switch r.spec.FailKind {
		case "panic":
			panic(fmt.Sprintf("handler panic of session %d", r.idx))
		case "panic-error":
			panic(r.ownErr)
		case "panic-int":
			panic(r.idx + 42)
		case "panic-runtime":
			var m map[string]int
			m["x"] = r.idx // a runtime.Error (assignment to entry in nil map)
		}
		return r.ownErr
	}
	var b [1]byte
	return s.Read(b[:])
}

func (h *handler) OnExit(s *stcp.Session) { h.onExit(s, false) }

func (h *handler) onExit(s *stcp.Session, own bool) {
	r := h.get(s)
	if r == nil {
		return
	}
	r.conn.exitStarts()
	if own {
		r.exitsViaOwn.Add(1)
	} else {
		r.exitsViaMgr.Add(1)
	}
	if r.spec.ExitCloses {
		s.Close()
	}
	if r.exits.Add(1) == 1 {
		close(r.exited)
	}
}

// ownHandler is a per-session handler installed through UpdateHandler; it shares
// the bookkeeping of the manager-wide one.
type ownHandler struct{ h *handler }

func (o *ownHandler) Read(s *stcp.Session) error { return o.h.Read(s) }
func (o *ownHandler) OnExit(s *stcp.Session)     { o.h.onExit(s, true) }

// connClosed reports whether the session closed its connection: counted on the wrapper for net.Pipe; for TCP
// seen from the peer (its reads end with EOF or an error once the server side is closed).
func connClosed(transport string, r *sessRun) bool {
	if transport != "tcp" {
		return r.conn.closes.Load() > 0
	}
	// the session has the real *net.TCPConn: closed means its descriptor is gone (any further call reports
	// net.ErrClosed) - a mere shutdown also shows the peer an end of stream, but keeps the descriptor
	if err := r.conn.Conn.SetReadDeadline(time.Time{}); err == nil || !errors.Is(err, net.ErrClosed) {
		return false
	}
	if r.spec.PeerReads {
		select {
		case <-r.peerDone:
			return true
		default:
			return false
		}
	}
	// a peer that never reads: drain now, with a short deadline per attempt
	_ = r.peer.SetReadDeadline(time.Now().Add(20 * time.Millisecond))
	_, err := io.Copy(io.Discard, r.peer)
	var ne net.Error
	if errors.As(err, &ne) && ne.Timeout() {
		return false
	}
	return true // EOF (nil from io.Copy), reset, or closed
}

// descriptorClosed: the real TCP connection of the run reports net.ErrClosed.
func descriptorClosed(r *sessRun) bool {
	err := r.conn.Conn.SetReadDeadline(time.Time{})
	return err != nil && errors.Is(err, net.ErrClosed)
}

func payload(sess, i, size int) []byte {
	b := make([]byte, size)
	for k := range b {
		b[k] = byte(17*sess + 31*i + k)
	}
	return b
}

func connPair(transport string, smallRcvBuf bool) (server, client net.Conn, err error) {
	if transport == "pipe" {
		a, b := net.Pipe()
		return a, b, nil
	}
	ln, err := net.Listen("tcp", "127.0.0.1:0")
	if err != nil {
		return nil, nil, err
	}
	defer ln.Close()
	type acc struct {
		c   net.Conn
		err error
	}
	ch := make(chan acc, 1)
	go func() { c, err := ln.Accept(); ch <- acc{c, err} }()
	d := net.Dialer{Timeout: 5 * time.Second}
	if smallRcvBuf {
		// a small receive buffer set before the handshake keeps the advertised window small, so that
		// bulk data really waits in the sender's socket buffer
		d.Control = func(network, address string, rc syscall.RawConn) error {
			return rc.Control(func(fd uintptr) { _ = syscall.SetsockoptInt(int(fd), syscall.SOL_SOCKET, syscall.SO_RCVBUF, 16<<10) })
		}
	}
	client, err = d.Dial("tcp", ln.Addr().String())
	if err != nil {
		return nil, nil, err
	}
	a := <-ch
	if a.err != nil {
		client.Close()
		return nil, nil, a.err
	}
	return a.c, client, nil
}

// sessionGoroutines returns the dump blocks of goroutines inside a session loop.
func sessionGoroutines() []string {
	buf := make([]byte, 1<<18)
	for {
		n := runtime.Stack(buf, true)
		if n < len(buf) {
			buf = buf[:n]
			break
		}
		buf = make([]byte, 2*len(buf))
	}
	var out []string
	ignoredMu.Lock()
	defer ignoredMu.Unlock()
	for _, blk := range strings.Split(string(buf), "\n\n") {
		if ignoredG[gid(blk)] {
			continue
		}
		// a goroutine that was created by Start but has not run yet shows only the
		// compiler's wrapper (Start.func1.gowrapN), not the loop function
		if strings.Contains(blk, "stcp.(*Session).loopSend") || strings.Contains(blk, "stcp.(*Session).loopReceive") || strings.Contains(blk, "stcp.(*Session).Start.func") ||
			strings.Contains(blk, "c16stcp.echoHandler.RunEcho") || strings.Contains(blk, "c16stcp.(*echoSim).RunEcho") || strings.Contains(blk, "stcp.(*Echo).Start.func") {
			out = append(out, blk)
		}
	}
	return out
}

// Goroutines a FAILED case left stuck in the session loops (that they are stuck was the failure) are remembered,
// so that the re-runs of shrinking and the following cases are not judged by them.
var (
	ignoredMu sync.Mutex
	ignoredG  = map[string]bool{}
)

func gid(blk string) string {
	if i := strings.Index(blk, " ["); i > 0 {
		return blk[:i]
	}
	return blk
}

// afterCase: a failed case may leave session goroutines behind for good.
func afterCase(res *vkit.Result) {
	if res == nil || res.Fail == nil {
		return
	}
	waitFor(func() bool { return len(sessionGoroutines()) == 0 }, time.Second)
	left := sessionGoroutines()
	ignoredMu.Lock()
	for _, b := range left {
		ignoredG[gid(b)] = true
	}
	ignoredMu.Unlock()
}

// closeNoWait calls Close but does not wait for it for more than a moment (a Close that blocks is a finding of
// the case, not a reason to hang the harness).
func closeNoWait(s *stcp.Session) { closeBounded(s, 200*time.Millisecond) }

// localClose is the local Close of a run as an event: noted in the event log before it is issued.
func (r *sessRun) localClose(d time.Duration) {
	r.conn.noteCause("local Close called")
	closeBounded(r.sess, d)
}

// closeBounded is Close as an event of a case: the harness goes on after d even if the call has not returned
// (the oracles then judge what became of the session).
func closeBounded(s *stcp.Session, d time.Duration) {
	done := make(chan struct{})
	go func() { defer close(done); defer func() { _ = recover() }(); s.Close() }()
	select {
	case <-done:
	case <-time.After(d):
	}
}

func waitFor(cond func() bool, d time.Duration) bool {
	deadline := time.Now().Add(d)
	for i := 0; ; i++ {
		if cond() {
			return true
		}
		if time.Now().After(deadline) {
			return false
		}
		if i < 100 {
			runtime.Gosched()
		} else {
			time.Sleep(200 * time.Microsecond)
		}
	}
}

// timerFree reports whether every given goroutine block is parked in a state no
// timer or network event can end (then "still there" is a verdict, not slowness).
func timerFree(blocks []string) bool {
	for _, b := range blocks {
		first := b
		if i := strings.IndexByte(b, '\n'); i >= 0 {
			first = b[:i]
		}
		ok := false
		for _, st := range []string{"[chan receive", "[chan send", "[select", "[sync.Mutex.Lock", "[sync.Cond.Wait", "[sync.RWMutex"} {
			if strings.Contains(first, st) {
				ok = true
			}
		}
		if !ok || strings.Contains(b, "net.(*pipe)") || strings.Contains(b, "time.Sleep") || strings.Contains(b, "internal/poll") {
			return false
		}
	}
	return true
}

func ExecSess(c CaseSess) *vkit.Result {
	res := &vkit.Result{}
	if (c.Transport != "pipe" && c.Transport != "tcp") || len(c.Sessions) == 0 || len(c.Sessions) > 8 {
		res.Skip("malformed-config")
		return res
	}
	rt, wt := longTO, longTO
	if c.ShortRead {
		rt = shortTO
	}
	if c.ShortWrite {
		wt = shortTO
	}
	h := &handler{state: map[*stcp.Session]*sessRun{}}
	mgr := stcp.NewSessionMgr(h, stcp.WithReadTimeout(rt), stcp.WithWriteTimeout(wt))
	if left := sessionGoroutines(); len(left) > 0 {
		// leftovers of an earlier failing case would blur the goroutine oracle
		vkit.Infra("session goroutines of an earlier case are still alive: %d\n%s", len(left), strings.Join(left, "\n\n"))
	}
	before := mgr.ConnCount()
	var runs []*sessRun
	fl := newFlags()
	cleanup := func() {
		for _, r := range runs {
			r.localClose(200 * time.Millisecond)
			r.peer.Close()
			r.conn.Conn.Close()
		}
		afterCase(res)
	}
	defer cleanup()
	for i, spec := range c.Sessions {
		if spec.PeerWrites < 0 || spec.PeerWrites > 64 || len(spec.Sends) > 64 {
			res.Skip("malformed-session")
			return res
		}
		srv, cli, err := connPair(c.Transport, spec.Bulk > 0)
		if err != nil {
			vkit.Infra("cannot create a %s connection pair: %v", c.Transport, err)
		}
		if spec.CloseErr && c.Transport != "tcp" {
			res.Class("close-returns-error")
		}
		r := &sessRun{spec: spec, idx: i, conn: newConn(srv, spec.CloseErr, c.Transport != "tcp", fl, i), peer: cli, exited: make(chan struct{}), peerDone: make(chan struct{}),
			ownErr: fmt.Errorf("handler error of session %d", i)}
		if c.Transport == "tcp" {
			// the session gets the real *net.TCPConn (code that type-asserts the connection must see it);
			// that it was closed is then observed from the peer's side
			r.sess = stcp.NewSession(mgr, srv)
		} else {
			r.sess = stcp.NewSession(mgr, r.conn)
		}
		if spec.OwnHandler {
			r.sess.UpdateHandler(&ownHandler{h})
			res.Class("own-handler")
		}
		h.mu.Lock()
		h.state[r.sess] = r
		h.mu.Unlock()
		runs = append(runs, r)
	}
	// queue the sends first (the send queue accepts before Start), then start
	for _, r := range runs {
		for j, sz := range r.spec.Sends {
			if sz < 0 || sz > 1<<16 {
				continue
			}
			p := payload(r.idx, j, sz)
			if sz == 0 {
				r.conn.noteCause("an empty slice (invalid item) queued")
			}
			if err := r.sess.Send(p); err == nil {
				r.accepted = append(r.accepted, p)
			} else {
				return res.Failf("send-refused", "session %d: Send of %d bytes on a fresh session failed: %v", r.idx, sz, err)
			}
		}
	}
	for _, r := range runs {
		if r.spec.Bulk < 0 || r.spec.Bulk > 256 || r.spec.PeerDelayMs < 0 || r.spec.PeerDelayMs > 1000 || r.spec.BulkSize < 0 || r.spec.BulkSize > 8<<20 {
			continue
		}
		bsz := 64 << 10
		if r.spec.BulkSize > 0 {
			bsz = r.spec.BulkSize
			res.Class("bulk-frames-above-64KiB")
		}
		for j := 0; j < r.spec.Bulk; j++ {
			p := payload(r.idx, 1000+j, bsz)
			if err := r.sess.Send(p); err == nil {
				r.accepted = append(r.accepted, p)
			}
		}
		if r.spec.Bulk > 0 {
			res.Class("bulk-sends")
		}
		if r.spec.ManySmall > 0 && r.spec.ManySmall <= 5000 {
			for j := 0; j < r.spec.ManySmall; j++ {
				p := payload(r.idx, 5000+j, 1+j%3)
				if err := r.sess.Send(p); err == nil {
					r.accepted = append(r.accepted, p)
				}
			}
			res.Class("many-small-sends")
		}
	}
	for _, r := range runs {
		r.sess.Start()
		r.started.Store(true)
		if r.spec.StartTwice {
			r.sess.Start()
			res.Class("start-called-twice")
		}
	}
	// (a session may already have ended by now, e.g. a handler failing at once: only the upper bound is certain)
	if got := mgr.ConnCount(); got > before+int32(len(runs)) || got < before {
		return res.Failf("count-after-start", "ConnCount %d after starting %d sessions (was %d)", got, len(runs), before)
	}
	// peers
	for _, r := range runs {
		r := r
		go func() {
			defer close(r.peerDone)
			for k := 0; k < r.spec.PeerWrites; k++ {
				if _, err := r.peer.Write([]byte{byte(k)}); err != nil {
					r.peerWriteErr = err // (a reset reported to a write is not reported to the next read again)
					break
				}
			}
			if r.spec.PeerReads {
				if r.spec.PeerDelayMs > 0 && r.spec.PeerDelayMs <= 1000 {
					time.Sleep(time.Duration(r.spec.PeerDelayMs) * time.Millisecond)
				}
				_, r.peerErr = io.Copy(&r.peerGot, r.peer)
			}
		}()
	}
	// events
	var ewg sync.WaitGroup
	for _, r := range runs {
		for _, ev := range r.spec.Events {
			r, ev := r, ev
			do := func() {
				switch ev {
				case "local-close":
					r.localClose(patience)
				case "peer-close":
					if !r.spec.PeerReads {
						r.peer.Close()
					} else {
						// a reading peer closes its end after it has seen everything or after a moment
						r.peer.Close()
					}
				}
			}
			if r.spec.Concurrent {
				ewg.Add(1)
				go func() { defer ewg.Done(); do() }()
			} else {
				do()
			}
		}
	}
	ewg.Wait()
	for _, r := range runs {
		for j, sz := range r.spec.LateSends {
			if sz <= 0 || sz > 1<<16 {
				continue
			}
			// a late send may still be accepted if nothing has closed the session yet
			p := payload(r.idx, 100+j, sz)
			if err := r.sess.Send(p); err == nil {
				r.accepted = append(r.accepted, p)
				res.Class("late-send-accepted")
			} else {
				res.Class("late-send-refused")
			}
		}
	}
	// what ends each session, as far as the case determines it
	type ends struct {
		localClose, peerClose, handlerFail, invalid, readTO, writeTO bool
		sendBlocked                                                  bool // loopSend sits in a pipe write nobody reads, for the long timeout
		guaranteed                                                   bool // the case's own events end the session promptly
		flush                                                        bool // the flush clause applies
	}
	classify := func(r *sessRun) ends {
		var e ends
		for _, ev := range r.spec.Events {
			if ev == "local-close" {
				e.localClose = true
			}
			if ev == "peer-close" {
				e.peerClose = true
			}
		}
		e.handlerFail = r.spec.FailAt > 0 && r.spec.PeerWrites >= r.spec.FailAt-1
		validBeforeInvalid, validSends := 0, r.spec.Bulk
		for _, sz := range r.spec.Sends {
			if sz == 0 {
				if !e.invalid {
					validBeforeInvalid = validSends
				}
				e.invalid = true
			} else {
				validSends++
			}
		}
		unread := c.Transport == "pipe" && !r.spec.PeerReads
		e.readTO = c.ShortRead
		e.writeTO = c.ShortWrite && validSends > 0 // may fire whenever the peer is slow; certainly if it never reads a pipe
		e.sendBlocked = unread && validSends > 0 && !c.ShortWrite
		invalidReached := e.invalid && !(unread && validBeforeInvalid > 0 && !c.ShortWrite)
		e.guaranteed = e.peerClose || e.handlerFail || e.readTO || (e.localClose && !e.sendBlocked) || invalidReached || (unread && c.ShortWrite && validSends > 0)
		e.flush = e.localClose && !e.peerClose && r.spec.FailAt == 0 && !e.invalid && !c.ShortRead && !c.ShortWrite && r.spec.PeerReads
		return e
	}
	// sessions the case's own events do not end are ended by an epilogue of legal
	// terminating events: local Close plus peer close (which also unblocks a pipe write)
	for _, r := range runs {
		if e := classify(r); !e.guaranteed {
			r.localClose(patience)
			r.peer.Close()
			res.Class("ended-by-epilogue-close")
		}
	}
	// --- oracle -------------------------------------------------------------
	for _, r := range runs {
		e := classify(r)
		nEvents := 0
		for _, b := range []bool{e.localClose, e.peerClose, e.handlerFail, e.invalid, e.readTO, e.writeTO} {
			if b {
				nEvents++
			}
		}
		if nEvents >= 2 {
			res.NonTrivial = true
			res.Class("two-or-more-terminating-events")
		}
		if len(r.accepted) > 0 {
			res.NonTrivial = true
			res.Class("queued-sends-at-the-event")
		}
		for name, b := range map[string]bool{"local-close": e.localClose, "peer-close": e.peerClose, "handler-fail-" + r.spec.FailKind: e.handlerFail, "invalid-item": e.invalid, "read-timeout": e.readTO, "write-timeout": e.writeTO} {
			if b {
				res.Class("event:" + name)
			}
		}
		if f := awaitExit(res, fl, runs, r); f != nil {
			return f
		}
	}
	if f := fl.failed(res); f != nil {
		return f
	}
	// both goroutines of every session stop
	if !waitFor(func() bool { return len(sessionGoroutines()) == 0 }, patience) {
		closed := true
		for _, r := range runs {
			if !connClosed(c.Transport, r) {
				closed = false
			}
		}
		if !closed {
			return res.Failf("conn-not-closed", "a session called OnExit but never closed its connection; goroutines still in the session loops:\n%s", strings.Join(sessionGoroutines(), "\n\n"))
		}
		if !timerFree(sessionGoroutines()) {
			waitFor(func() bool { return len(sessionGoroutines()) == 0 }, allTimersFired)
		}
		if blocks := sessionGoroutines(); len(blocks) > 0 {
			return res.Failf("loops-not-stopped", "all sessions exited and closed their connections, but goroutines stay in the session loops although every deadline has fired:\n%s", strings.Join(blocks, "\n\n"))
		}
	}
	for _, r := range runs {
		if n := r.exits.Load(); n != 1 {
			return res.Failf("exit-callback-count", "session %d (%+v): OnExit ran %d times", r.idx, r.spec, n)
		}
		// a session that was given its own handler reports its end to that handler, the others to the manager's
		if own, mgrN := r.exitsViaOwn.Load(), r.exitsViaMgr.Load(); (r.spec.OwnHandler && (own != 1 || mgrN != 0)) || (!r.spec.OwnHandler && (own != 0 || mgrN != 1)) {
			return res.Failf("exit-callback-count", "session %d (%+v): the exit was reported %d times to the session's own handler and %d times to the manager's handler", r.idx, r.spec, own, mgrN)
		}
		// (every session goroutine is gone, so every quit has completed: a descriptor that is still open now was not closed)
		if c.Transport == "tcp" && !descriptorClosed(r) {
			return res.Failf("conn-not-closed", "session %d (%+v): the session ended, both its loops have returned, but its TCP connection is not closed (the descriptor is still usable)", r.idx, r.spec)
		}
		if !waitFor(func() bool { return connClosed(c.Transport, r) }, patience) {
			return res.Failf("conn-not-closed", "session %d (%+v): the session ended but never closed its connection", r.idx, r.spec)
		}
	}
	if got := mgr.ConnCount(); got != before {
		return res.Failf("count-not-restored", "ConnCount is %d after all %d sessions ended, was %d before", got, len(runs), before)
	}
	// the peer observes the end of the connection
	for _, r := range runs {
		if !r.spec.PeerReads {
			continue
		}
		select {
		case <-r.peerDone:
		case <-time.After(allTimersFired):
			return res.Failf("peer-sees-no-end", "session %d (%+v): the session ended and closed its connection but the reading peer never saw EOF or an error", r.idx, r.spec)
		}
		e := classify(r)
		got := r.peerGot.Bytes()
		want := bytes.Join(r.accepted, nil)
		// whatever ended the session: the peer never sees bytes that were not sent, out of order or duplicated
		if !bytes.HasPrefix(want, got) {
			return res.Failf("bytes-corrupted", "session %d (%+v): the peer received %d bytes that are not a prefix of the %d accepted bytes", r.idx, r.spec, len(got), len(want))
		}
		if e.flush {
			res.Class("flush-clause-applies")
			if c.Transport == "tcp" && r.spec.Bulk > 0 {
				res.Class("flush-clause-applies/tcp-bulk")
			}
			if !bytes.Equal(got, want) && c.Transport == "tcp" && r.spec.PeerWrites > 0 && (r.peerErr != nil || r.peerWriteErr != nil) {
				// finding F20 (known_findings.jsonl): the peer had written bytes the handler had not consumed when the
				// session closed the socket; the kernel then resets the connection and the flushed tail is lost
				return res.Failf("flush-before-close/tcp-reset-with-unread-inbound", "session %d (%+v): only a local Close ended the session, but the peer had sent %d bytes of its own: the connection was reset (peer's read: %v, peer's write: %v) and the peer received %d of the %d bytes accepted by Send", r.idx, r.spec, r.spec.PeerWrites, r.peerErr, r.peerWriteErr, len(got), len(want))
			}
			if !bytes.Equal(got, want) {
				return res.Failf("flush-before-close", "session %d (%+v): only a local Close ended the session and the peer read to the end, but it received %d of the %d bytes accepted by Send (the peer's read ended with: %v, its writes with: %v)", r.idx, r.spec, len(got), len(want), r.peerErr, r.peerWriteErr)
			}
		}
	}
	if len(runs) > 1 {
		res.Class("several-sessions-on-one-manager")
	}
	if f := fl.failed(res); f != nil {
		return f
	}
	return res
}

// loopShapeSeen: the loop invariant ("a session that has not run its exit callback still has its two loop
// goroutines") rests on how the session is built today - a reading and a sending loop, recognised in a dump by their
// function names. It is applied only once this process has SEEN that shape: some dump in which the live sessions had
// two recognised goroutines each. A session built another way (one goroutine, other names) never switches it on, and
// the verdicts then rest on the call log and the end-of-case oracles alone.
var loopShapeSeen atomic.Bool

func noteLoopShape(goroutines, alive int) {
	if alive > 0 && goroutines >= 2*alive {
		loopShapeSeen.Store(true)
	}
}

// loopsIntact takes a goroutine dump and checks the loop invariant (see awaitExit); nil = holds.
func loopsIntact(res *vkit.Result, runs []*sessRun) *vkit.Result {
	blocks := sessionGoroutines() // a consistent cut; the exit counters are read after it
	alive := 0
	var one *sessRun
	for _, x := range runs {
		if x.started.Load() && x.exits.Load() == 0 {
			alive++
			one = x
		}
	}
	noteLoopShape(len(blocks), alive)
	if loopShapeSeen.Load() && len(blocks) < 2*alive {
		return res.Failf("loop-left-without-exit", "%d started sessions have not run OnExit (one of them: session %d, %+v), but only %d goroutines are inside the session loops - a loop has returned without ending its session (exit callback, count, connection close); event log of that session: %s; the goroutines:\n%s",
			alive, one.idx, one.spec, len(blocks), one.conn.history(), strings.Join(blocks, "\n\n"))
	}
	return nil
}

// waitIntact waits for done, at most limit; meanwhile a flagged forbidden call or a broken loop invariant ends the
// wait with that verdict. ok=false: the limit passed.
func waitIntact(res *vkit.Result, fl *caseFlags, runs []*sessRun, done <-chan struct{}, limit time.Duration) (fail *vkit.Result, ok bool) {
	start := time.Now()
	step := 2 * time.Millisecond
	timer := time.NewTimer(step)
	defer timer.Stop()
	for {
		select {
		case <-done:
			return nil, true
		case <-fl.ch:
			return fl.failed(res), false
		case <-timer.C:
		}
		if f := loopsIntact(res, runs); f != nil {
			return f, false
		}
		if time.Since(start) >= limit {
			return nil, false
		}
		if step < 250*time.Millisecond {
			step *= 2
		}
		timer.Reset(step)
	}
}

// awaitExit waits for the exit callback of r. The wait ends at once when a forbidden call was flagged in the case.
// While it waits it looks at the goroutine dump now and then (the clock only decides when to look): both loops of a
// session call quit before they return, so as long as a started session's OnExit has not completed both its loop
// goroutines exist - fewer loop goroutines than twice the number of such sessions means a loop has left without
// ending the session (whatever ends it later is another event). After the bounded patience the verdict is taken
// from the dump as before: parked where no timer can help, or every deadline has fired = the session never ends.
func awaitExit(res *vkit.Result, fl *caseFlags, runs []*sessRun, r *sessRun) *vkit.Result {
	start := time.Now()
	step := 2 * time.Millisecond
	timer := time.NewTimer(step)
	defer timer.Stop()
	for {
		select {
		case <-r.exited:
			return nil
		case <-fl.ch:
			return fl.failed(res)
		case <-timer.C:
		}
		if f := loopsIntact(res, runs); f != nil {
			return f
		}
		select {
		case <-r.exited:
			return nil
		default:
		}
		if el := time.Since(start); el >= patience {
			blocks := sessionGoroutines()
			// (the dump first, the exit channel after it: a session that ended meanwhile is not judged by this dump;
			// goroutines that are gone without OnExit are the loop invariant's business at the next look)
			select {
			case <-r.exited:
				return nil
			default:
			}
			// some goroutine may still be woken by a deadline: then wait until every deadline has fired
			if len(blocks) > 0 && (timerFree(blocks) || el >= patience+allTimersFired) {
				return res.Failf("session-never-ends", "session %d (%+v): no OnExit although every deadline has fired; event log: %s; the session goroutines:\n%s", r.idx, r.spec, r.conn.history(), strings.Join(blocks, "\n\n"))
			}
		}
		if step < 250*time.Millisecond {
			step *= 2
		}
		timer.Reset(step)
	}
}

// ---------------------------------------------------------------------------
// part 2: the accept limit of a real server

type CaseSrv struct {
	MaxConn    int  `json:"max_conn"`
	Dials      int  `json:"dials"`
	Concurrent bool `json:"concurrent"`
	Release    int  `json:"release"` // after the dials: number of live sessions whose client closes
	Redials    int  `json:"redials"` // then: further sequential dials
	// Echo: the server's connection manager is an EchoMgr (request/response sessions: the handler's RunEcho owns the
	// connection and gives the slot back with ReleaseRef) instead of a SessionMgr. Srvx: built through NewTCPSrvX.
	Echo bool `json:"echo,omitempty"`
	SrvX bool `json:"srvx,omitempty"`
	// Before / After: further start options passed before and after WithMaxConn (none of them is about the maximum).
	// MaxConn may be 0 or negative: then every connection is surplus.
	Before []SrvOpt `json:"before,omitempty"`
	After  []SrvOpt `json:"after,omitempty"`
}

// SrvOpt is a server start option other than WithMaxConn.
type SrvOpt struct {
	Kind string `json:"kind"` // acc-max-retry | acc-delay-us | acc-max-delay-ms | logger
	Val  int    `json:"val"`
}

func genSrvOpts(t *rapid.T, label string) []SrvOpt {
	var out []SrvOpt
	for i, n := 0, rapid.SampledFrom([]int{0, 0, 1, 1, 2, 4}).Draw(t, label+"-n"); i < n; i++ {
		o := SrvOpt{Kind: rapid.SampledFrom([]string{"acc-max-retry", "acc-max-retry", "acc-delay-us", "acc-max-delay-ms", "logger"}).Draw(t, label+"-kind")}
		switch o.Kind {
		case "acc-max-retry":
			o.Val = rapid.SampledFrom([]int{1, 2, 3, 5, 8, 100, 1000}).Draw(t, label+"-retry")
		case "acc-delay-us":
			o.Val = rapid.SampledFrom([]int{1, 5, 1000}).Draw(t, label+"-delay")
		case "acc-max-delay-ms":
			o.Val = rapid.SampledFrom([]int{1, 200, 1000}).Draw(t, label+"-maxdelay")
		}
		out = append(out, o)
	}
	return out
}

func (o SrvOpt) option() (stcp.Option, bool) {
	switch o.Kind {
	case "acc-max-retry":
		return stcp.WithAccMaxRetry(o.Val), o.Val >= 1 && o.Val <= 1<<20
	case "acc-delay-us":
		return stcp.WithAccDelay(time.Duration(o.Val) * time.Microsecond), o.Val >= 0 && o.Val <= 1e6
	case "acc-max-delay-ms":
		return stcp.WithAccMaxDelay(time.Duration(o.Val) * time.Millisecond), o.Val >= 0 && o.Val <= 1e4
	case "logger":
		return stcp.WithLogger(ulog.GetDefaultLogger()), true
	}
	return nil, false
}

func GenSrv(t *rapid.T) CaseSrv {
	c := CaseSrv{MaxConn: rapid.SampledFrom([]int{1, 2, 3, 4, 1, 2, 3, 4, 2, 3, 0, 0, -1}).Draw(t, "max")}
	c.Dials = rapid.IntRange(1, max(3*c.MaxConn, 3)).Draw(t, "dials")
	c.Concurrent = rapid.Bool().Draw(t, "concurrent")
	c.Release = rapid.IntRange(0, max(c.MaxConn, 0)).Draw(t, "release")
	c.Redials = rapid.IntRange(0, 3).Draw(t, "redials")
	switch rapid.IntRange(0, 3).Draw(t, "mgr") {
	case 0:
		c.Echo = true
	case 1:
		c.SrvX = true
	}
	if rapid.IntRange(0, 2).Draw(t, "options") > 0 {
		c.Before = genSrvOpts(t, "before")
		c.After = genSrvOpts(t, "after")
	}
	return c
}

// echoHandler holds an echo session open until the client closes, then disposes of it the documented way.
type echoHandler struct{}

func (echoHandler) RunEcho(s *stcp.Echo) {
	var b [1]byte
	for s.Read(b[:]) == nil {
		if s.Send(b[:]) != nil {
			break
		}
	}
	s.Close()
	s.ReleaseRef()
}

type holdHandler struct {
	exits atomic.Int32
}

func (h *holdHandler) Read(s *stcp.Session) error {
	var b [1]byte
	return s.Read(b[:]) // holds the session open until the client closes
}
func (h *holdHandler) OnExit(s *stcp.Session) { h.exits.Add(1) }

// ownListenPorts returns the TCP ports this process is listening on (IPv4),
// from /proc/self/net/tcp joined with the socket inodes of /proc/self/fd.
func ownListenPorts() map[int]bool {
	out := map[int]bool{}
	inodes := map[string]bool{}
	fds, err := os.ReadDir("/proc/self/fd")
	if err != nil {
		return out
	}
	for _, fd := range fds {
		if l, err := os.Readlink("/proc/self/fd/" + fd.Name()); err == nil && strings.HasPrefix(l, "socket:[") {
			inodes[strings.TrimSuffix(strings.TrimPrefix(l, "socket:["), "]")] = true
		}
	}
	raw, err := os.ReadFile("/proc/self/net/tcp")
	if err != nil {
		return out
	}
	for i, line := range strings.Split(string(raw), "\n") {
		f := strings.Fields(line)
		if i == 0 || len(f) < 10 || f[3] != "0A" || !inodes[f[9]] {
			continue
		}
		if j := strings.IndexByte(f[1], ':'); j >= 0 {
			if p, err := strconv.ParseInt(f[1][j+1:], 16, 32); err == nil {
				out[int(p)] = true
			}
		}
	}
	return out
}

// socketFDs counts the socket descriptors of this process.
func socketFDs() int {
	fds, err := os.ReadDir("/proc/self/fd")
	if err != nil {
		return -1
	}
	n := 0
	for _, fd := range fds {
		if l, err := os.Readlink("/proc/self/fd/" + fd.Name()); err == nil && strings.HasPrefix(l, "socket:[") {
			n++
		}
	}
	return n
}

type dialled struct {
	conn           net.Conn
	closedByServer atomic.Bool // the client observed EOF / an error without having closed itself
	clientClosed   atomic.Bool
}

func watch(d *dialled) {
	go func() {
		var b [1]byte
		_, err := d.conn.Read(b[:])
		if err != nil && !d.clientClosed.Load() {
			d.closedByServer.Store(true)
		}
	}()
}

func ExecSrv(c CaseSrv) *vkit.Result {
	res := &vkit.Result{}
	if c.MaxConn < -16 || c.MaxConn > 16 || len(c.Before) > 8 || len(c.After) > 8 || c.Dials < 1 || c.Dials > 64 || c.Release < 0 || c.Redials < 0 || c.Redials > 16 {
		res.Skip("malformed-config")
		return res
	}
	if left := sessionGoroutines(); len(left) > 0 {
		vkit.Infra("session goroutines of an earlier case are still alive: %d", len(left))
	}
	// The server listens on port 0 itself (no probe-then-reuse window in which another
	// process could take the port, or dial ours); the port it got is read back from the
	// process's own listening sockets in /proc.
	// no garbage collection during the case: a leaked connection must not be closed behind our back by a finalizer
	defer debug.SetGCPercent(debug.SetGCPercent(-1))
	fdBase := socketFDs()
	h := &holdHandler{}
	var mgr stcp.IConnMgr
	var srv *stcp.Server
	perSession := 2 // goroutines per live session
	switch {
	case c.Echo:
		mgr = stcp.NewEchoMgr(echoHandler{}, stcp.WithReadTimeout(longTO), stcp.WithWriteTimeout(longTO))
		srv = stcp.NewTCPSrv("127.0.0.1:0", mgr)
		perSession = 1
		res.Class("echo-manager")
	case c.SrvX:
		srv = stcp.NewTCPSrvX("127.0.0.1:0", h, stcp.WithReadTimeout(longTO), stcp.WithWriteTimeout(longTO))
		mgr = srvMgr(srv)
		if mgr == nil {
			res.Skip("srvx-manager-not-reachable")
			return res
		}
		res.Class("srvx")
	default:
		mgr = stcp.NewSessionMgr(h, stcp.WithReadTimeout(longTO), stcp.WithWriteTimeout(longTO))
		srv = stcp.NewTCPSrv("127.0.0.1:0", mgr)
	}
	beforePorts := ownListenPorts()
	limit := max(c.MaxConn, 0) // a maximum of 0 or below: no session at all, every connection is surplus
	if limit == 0 && os.Getenv("VERIF_RACE") != "" {
		// Server.Start sets the listener on its own goroutine and Close reads it without synchronisation; with a
		// session the count's atomic orders them, without any session nothing the race detector can see does
		// (the order through the kernel - the server answered a dial - is invisible to it)
		res.Skip("race-binary: no session orders Start and Close")
		return res
	}
	var opts []stcp.Option
	for _, o := range c.Before {
		f, ok := o.option()
		if !ok {
			res.Skip("malformed-option")
			return res
		}
		opts = append(opts, f)
	}
	opts = append(opts, stcp.WithMaxConn(int32(c.MaxConn)))
	for _, o := range c.After {
		f, ok := o.option()
		if !ok {
			res.Skip("malformed-option")
			return res
		}
		opts = append(opts, f)
	}
	if len(opts) > 1 {
		res.Class("further-start-options")
		if len(c.After) > 0 {
			res.Class("start-options-after-the-maximum")
		}
	}
	if c.MaxConn <= 0 {
		res.Class("maximum-zero-or-negative")
	}
	errCh := srv.Start(opts...)
	addr := ""
	if !waitFor(func() bool {
		select {
		case e := <-errCh:
			vkit.Infra("server did not start: %v", e)
		default:
		}
		for p := range ownListenPorts() {
			if !beforePorts[p] {
				addr = fmt.Sprintf("127.0.0.1:%d", p)
				return true
			}
		}
		return false
	}, patience) {
		vkit.Infra("the server's listening socket did not show up in /proc/self/net/tcp within %v", patience)
	}
	probe, derr := net.DialTimeout("tcp", addr, 5*time.Second)
	if derr != nil {
		vkit.Infra("cannot dial the server at %s: %v", addr, derr)
	}
	if limit == 0 {
		// the probe only shows that the server answers (it is surplus itself); the dials below are judged
		pd := &dialled{conn: probe}
		watch(pd)
		waitFor(func() bool { return pd.closedByServer.Load() || mgr.ConnCount() > 0 }, patience)
		pd.clientClosed.Store(true)
	} else if !waitFor(func() bool { return mgr.ConnCount() == 1 }, patience) {
		vkit.Infra("probe connection to %s was not turned into a session within %v", addr, patience)
	}
	// the probe occupies a session until we close it; wait until it is gone again
	probe.Close()
	if !waitFor(func() bool { return mgr.ConnCount() == 0 }, patience) {
		_ = srv.Close()
		if len(sessionGoroutines()) == 0 {
			return res.Failf("count-not-restored", "the probe session ended but ConnCount stays at %d", mgr.ConnCount())
		}
		vkit.Infra("probe session did not end within %v", patience)
	}
	var maxSeen atomic.Int32
	stopSample := make(chan struct{})
	var swg sync.WaitGroup
	swg.Add(1)
	go func() {
		defer swg.Done()
		for {
			select {
			case <-stopSample:
				return
			default:
			}
			if n := mgr.ConnCount(); n > maxSeen.Load() {
				maxSeen.Store(n)
			}
			runtime.Gosched()
		}
	}()
	var all []*dialled
	defer func() {
		close(stopSample)
		swg.Wait()
		for _, d := range all {
			d.clientClosed.Store(true)
			d.conn.Close()
		}
		_ = srv.Close()
		waitFor(func() bool { return len(sessionGoroutines()) == 0 }, patience)
	}()
	dial := func() *dialled {
		cn, err := net.DialTimeout("tcp", addr, 5*time.Second)
		if err != nil {
			vkit.Infra("dial failed: %v", err)
		}
		d := &dialled{conn: cn}
		all = append(all, d)
		watch(d)
		return d
	}
	open := 0 // sessions the model has open
	seqDial := func(what string) *vkit.Result {
		before := int(mgr.ConnCount())
		d := dial()
		if !waitFor(func() bool { return d.closedByServer.Load() || int(mgr.ConnCount()) == before+1 }, patience) {
			// the dial completed, so the connection sat in the accept queue; an accept loop that is
			// parked in Accept again has taken it out - and then it must be a session or closed
			if acceptLoopIdle() {
				return res.Failf("surplus-not-closed", "%s: the server accepted the connection but neither made it a session nor closed it (ConnCount %d, max %d)", what, mgr.ConnCount(), c.MaxConn)
			}
			vkit.Infra("%s: neither accepted nor closed by the server within %v", what, patience)
		}
		if open < limit {
			if d.closedByServer.Load() {
				return res.Failf("refused-below-max", "%s: the server closed the connection although only %d of %d sessions were open", what, open, c.MaxConn)
			}
			open++
		} else {
			res.Class("surplus-dial")
			res.NonTrivial = true
			if !d.closedByServer.Load() {
				return res.Failf("accepted-above-max", "%s: the connection became a session although %d sessions (the maximum) were open", what, c.MaxConn)
			}
		}
		return nil
	}
	if c.Concurrent {
		var wg sync.WaitGroup
		var mu sync.Mutex
		var ds []*dialled
		for i := 0; i < c.Dials; i++ {
			wg.Add(1)
			go func() {
				defer wg.Done()
				cn, err := net.DialTimeout("tcp", addr, 5*time.Second)
				if err != nil {
					return
				}
				d := &dialled{conn: cn}
				watch(d)
				mu.Lock()
				ds = append(ds, d)
				mu.Unlock()
			}()
		}
		wg.Wait()
		all = append(all, ds...)
		if len(ds) != c.Dials {
			vkit.Infra("only %d of %d dials succeeded", len(ds), c.Dials)
		}
		closed := func() int {
			n := 0
			for _, d := range ds {
				if d.closedByServer.Load() {
					n++
				}
			}
			return n
		}
		if !waitFor(func() bool { return int(mgr.ConnCount())+closed() == c.Dials }, patience) {
			if acceptLoopIdle() {
				return res.Failf("surplus-not-closed", "%d concurrent dials against max %d: the accept loop is idle, yet only %d connections are sessions and %d were closed by the server", c.Dials, c.MaxConn, mgr.ConnCount(), closed())
			}
			vkit.Infra("concurrent dials did not settle within %v: ConnCount %d, closed by the server %d, dialled %d", patience, mgr.ConnCount(), closed(), c.Dials)
		}
		open = min(c.Dials, limit)
		res.Class("concurrent-dials")
	} else {
		for i := 0; i < c.Dials; i++ {
			if r := seqDial(fmt.Sprintf("dial %d", i)); r != nil {
				return r
			}
		}
	}
	if got := int(mgr.ConnCount()); got != open {
		return res.Failf("count-after-dials", "%d dials against max %d: ConnCount %d, want %d", c.Dials, c.MaxConn, got, open)
	}
	if c.Dials > c.MaxConn {
		res.NonTrivial = true
		res.Class("dials-exceed-max")
	}
	// clients of live sessions close: the count must follow
	released := 0
	for _, d := range all {
		if released >= c.Release {
			break
		}
		if d.closedByServer.Load() || d.clientClosed.Load() {
			continue
		}
		d.clientClosed.Store(true)
		d.conn.Close()
		released++
		open--
		if !waitFor(func() bool { return int(mgr.ConnCount()) == open }, patience) {
			if len(sessionGoroutines()) <= perSession*open {
				return res.Failf("count-not-restored", "a client closed its connection and its session goroutines are gone, but ConnCount stays at %d (want %d)", mgr.ConnCount(), open)
			}
			vkit.Infra("session did not end within %v after the client closed", patience)
		}
	}
	if released > 0 {
		res.Class("slots-released")
	}
	for i := 0; i < c.Redials; i++ {
		if r := seqDial(fmt.Sprintf("re-dial %d after %d releases", i, released)); r != nil {
			return r
		}
	}
	if got := int(mgr.ConnCount()); got != open {
		return res.Failf("count-after-dials", "after releases and re-dials: ConnCount %d, want %d", got, open)
	}
	if m := int(maxSeen.Load()); m > limit {
		return res.Failf("count-exceeds-max", "ConnCount was seen at %d, above the configured maximum %d", m, c.MaxConn)
	}
	// every connection the server took - kept or refused - is closed in the end: once all clients have closed and the
	// server is shut, the process has as many socket descriptors as before the case
	if fdBase >= 0 {
		// all clients close at the same instant (parked goroutines released by one flag): the sessions that are
		// still open end together; once their goroutines are gone every one of them has given its slot back
		var goFlag atomic.Bool
		var cwg sync.WaitGroup
		var ready atomic.Int32
		for _, d := range all {
			d := d
			d.clientClosed.Store(true)
			cwg.Add(1)
			go func() {
				defer cwg.Done()
				ready.Add(1)
				for !goFlag.Load() {
					runtime.Gosched()
				}
				d.conn.Close()
			}()
		}
		waitFor(func() bool { return int(ready.Load()) == len(all) }, patience)
		goFlag.Store(true)
		cwg.Wait()
		if open >= 2 {
			res.Class("open-sessions-end-at-the-same-instant")
		}
		if waitFor(func() bool { return len(sessionGoroutines()) == 0 }, patience) {
			if first := mgr.ConnCount(); first != 0 {
				// a lost decrement is permanent: the verdict is taken from a count that stays wrong while no session
				// goroutine exists and the accept loop has nothing left to hand over
				if os.Getenv("VERIF_C16_DEBUG") != "" {
					fmt.Fprintf(os.Stderr, "C16-DEBUG: count %d with no session goroutine (case %+v)\n", first, c)
				}
				settled := waitFor(func() bool { return mgr.ConnCount() == 0 }, patience)
				if got := mgr.ConnCount(); !settled && got != 0 && len(sessionGoroutines()) == 0 && acceptLoopIdle() {
					return res.Failf("count-not-restored", "all %d clients closed at the same instant (%d sessions were open), every session goroutine is gone and the accept loop is idle, but ConnCount stays at %d", len(all), open, got)
				}
				res.Class("count-settled-late")
			}
		}
		_ = srv.Close()
		if !waitFor(func() bool { return socketFDs() <= fdBase }, patience) {
			return res.Failf("surplus-not-closed/descriptor-leak", "%d dials against max %d, all clients closed, server closed: the process holds %d socket descriptors, %d before the case - connections the server took were never closed", c.Dials+c.Redials, c.MaxConn, socketFDs(), fdBase)
		}
	}
	return res
}

// ---------------------------------------------------------------------------

var sessRule = "rapid: {net.Pipe | loopback TCP} x read/write timeouts {30 ms (an event), 20 s (never fires)} x 1-4 sessions on one manager, each with 0-8 queued sends (1..4096 bytes, occasionally an empty slice = invalid item), a peer that reads to the end or never reads and writes 0-5 bytes, a handler that fails (error or panic) at its 1st-3rd invocation or never, and the events local Close / peer close / both / twice, sequential or concurrent, plus late sends. Oracle per session: OnExit exactly once, wrapped connection closed, no goroutine left in loopSend/loopReceive, ConnCount restored, reading peer sees the end and only a prefix of the accepted bytes; if a local Close is the only terminating event the peer receives exactly the accepted bytes in order. Waiting is bounded; on expiry the verdict comes from the goroutine dump (parked where no timer can help = violation, otherwise inconclusive). By cause (call log of the net.Pipe wrapper, handler bookkeeping, goroutine dumps during the wait): no Write after a failed Write, no Read / handler invocation after a failed Read or a handler failure, no loop goroutine gone while OnExit has not run, OnExit only after a terminating event. Non-trivial: >= 2 terminating events or >= 1 queued send; distinct = distinct case JSON"

var PartSess = &vkit.Part[CaseSess]{
	Property: Property, Name: "sessions",
	Rule:  sessRule,
	Quick: 500, Thorough: 4000,
	Gen: GenSess, Exec: ExecSess,
}

var PartSessRace = &vkit.Part[CaseSess]{
	Property: Property, Name: "race-sessions",
	Rule:  sessRule + " (binary built with -race)",
	Quick: 150, Thorough: 1500,
	Gen: GenSess, Exec: ExecSess,
}

var PartSrv = &vkit.Part[CaseSrv]{
	Property: Property, Name: "server-accept-limit",
	Rule:  "rapid: a real stcp.Server on 127.0.0.1 with maxConn 1-4 (sometimes 0 or -1: every connection is surplus), WithMaxConn passed alone or among 0-4 other start options before and after it (WithAccMaxRetry / WithAccDelay / WithAccMaxDelay / WithLogger), 1..3*maxConn dials (sequential: each settled before the next; or all at once), then up to 3 client-side closes each followed by a re-dial. Oracle: sequential dial i is kept iff fewer than maxConn sessions are open, otherwise the client sees the server close it; ConnCount == min(dials, maxConn) after settling, follows releases, and a continuously sampled ConnCount never exceeds maxConn; at the end all clients close at the same instant and ConnCount is 0 once every session goroutine is gone. Non-trivial: more dials than maxConn; distinct = distinct case JSON",
	Quick: 40, Thorough: 300,
	Gen: GenSrv, Exec: ExecSrv,
}

var PartSrvRace = &vkit.Part[CaseSrv]{
	Property: Property, Name: "race-server-accept-limit",
	Rule:  PartSrv.Rule + " (binary built with -race; thorough tier only)",
	Quick: 1, Thorough: 60,
	Gen: GenSrv, Exec: ExecSrv,
}

// acceptLoopIdle reports whether the server's accept loop is parked in Accept
// (its accept queue is then empty: everything dialled so far has been taken).
func acceptLoopIdle() bool {
	buf := make([]byte, 1<<18)
	for {
		n := runtime.Stack(buf, true)
		if n < len(buf) {
			buf = buf[:n]
			break
		}
		buf = make([]byte, 2*len(buf))
	}
	for _, blk := range strings.Split(string(buf), "\n\n") {
		if strings.Contains(blk, "stcp.(*Server).loopAccept") && strings.Contains(blk, ".Accept(") {
			first := blk
			if i := strings.IndexByte(blk, '\n'); i >= 0 {
				first = blk[:i]
			}
			return strings.Contains(first, "[IO wait")
		}
	}
	return false
}

// srvMgr reads the connection manager a server was built with (NewTCPSrvX creates it internally and offers no
// accessor); nil if the field is not there any more.
func srvMgr(srv *stcp.Server) stcp.IConnMgr {
	f := reflect.ValueOf(srv).Elem().FieldByName("ch")
	if !f.IsValid() || !f.CanAddr() {
		return nil
	}
	m, _ := reflect.NewAt(f.Type(), unsafe.Pointer(f.UnsafeAddr())).Elem().Interface().(stcp.IConnMgr)
	return m
}
