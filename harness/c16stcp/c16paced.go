package c16stcp

// part 3: the flush clause with sends spread over time.
//
// The write timeout is a bound on one write: a peer that reads on after a pause
// shorter than the timeout is a reading peer, whatever was written earlier. The
// sends of a case are issued in waves; between two waves the harness lets a
// generated share of the write timeout pass, and the peer resumes reading a
// generated share of it after a wave was handed to Send - so a write can be
// blocked across the moment at which the deadline of an earlier write expires.
// Real time is used as an event only: every pause is well below the timeout, and a
// case whose measured stall came near the timeout (a starved machine) is counted
// as inconclusive, never as a violation.

import (
	"bytes"
	"fmt"
	"io"
	"net"
	"strings"
	"sync/atomic"
	"time"

	"github.com/pinealctx/neptune/stcp"
	"pgregory.net/rapid"

	"verifharness/vkit"
)

type Wave struct {
	GapPct   int   `json:"gap_pct"`   // share of the write timeout that passes before this wave is sent (after the peer has read the previous one)
	Sizes    []int `json:"sizes"`     // payloads of this wave
	PausePct int   `json:"pause_pct"` // share of the write timeout the peer waits, after the wave was handed to Send, before it reads on
}

type CasePaced struct {
	Transport string `json:"transport"` // pipe | tcp
	WriteTOms int    `json:"write_to_ms"`
	Waves     []Wave `json:"waves"`
	// DripMs > 0: the peer reads the LAST wave (after the local Close) in 16 KiB pieces with that pause in between, so
	// that draining the backlog takes longer than one write timeout although every single write makes progress
	DripMs int `json:"drip_ms,omitempty"`
}

func GenPaced(t *rapid.T) CasePaced {
	c := CasePaced{
		Transport: rapid.SampledFrom([]string{"pipe", "tcp"}).Draw(t, "transport"),
		WriteTOms: rapid.SampledFrom([]int{1200, 1600}).Draw(t, "writeto"),
	}
	n := rapid.SampledFrom([]int{2, 2, 3}).Draw(t, "waves")
	for i := 0; i < n; i++ {
		w := Wave{}
		if i > 0 {
			w.GapPct = rapid.SampledFrom([]int{10, 60, 75, 80, 80}).Draw(t, "gap")
			w.PausePct = rapid.SampledFrom([]int{0, 30, 40, 45, 45}).Draw(t, "pause")
		}
		small := i == 0 || rapid.IntRange(0, 3).Draw(t, "small") == 0
		if small {
			for j, k := 0, rapid.IntRange(1, 3).Draw(t, "nsends"); j < k; j++ {
				w.Sizes = append(w.Sizes, rapid.SampledFrom([]int{1, 7, 64, 1000}).Draw(t, "size"))
			}
		} else {
			sz := rapid.SampledFrom([]int{64 << 10, 64 << 10, 64<<10 + 1, 300000}).Draw(t, "bulksize")
			for j, k := 0, rapid.SampledFrom([]int{4, 8, 16}).Draw(t, "nbulk"); j < k && (j+1)*sz <= 1<<20+1<<16; j++ {
				w.Sizes = append(w.Sizes, sz)
			}
		}
		c.Waves = append(c.Waves, w)
	}
	if last := c.Waves[len(c.Waves)-1]; len(last.Sizes) >= 4 && last.Sizes[0] >= 64<<10 {
		c.DripMs = rapid.SampledFrom([]int{0, 0, 40, 60}).Draw(t, "drip")
	}
	return c
}

func ExecPaced(c CasePaced) *vkit.Result {
	res := &vkit.Result{}
	if (c.Transport != "pipe" && c.Transport != "tcp") || c.WriteTOms < 400 || c.WriteTOms > 5000 || len(c.Waves) == 0 || len(c.Waves) > 6 {
		res.Skip("malformed-config")
		return res
	}
	total := 0
	for _, w := range c.Waves {
		if w.GapPct < 0 || w.GapPct > 90 || w.PausePct < 0 || w.PausePct > 50 || len(w.Sizes) == 0 || len(w.Sizes) > 64 {
			res.Skip("malformed-wave")
			return res
		}
		for _, sz := range w.Sizes {
			if sz <= 0 || sz > 1<<20 {
				res.Skip("malformed-wave")
				return res
			}
			total += sz
		}
	}
	W := time.Duration(c.WriteTOms) * time.Millisecond
	share := func(pct int) time.Duration { return W * time.Duration(pct) / 100 }
	if left := sessionGoroutines(); len(left) > 0 {
		vkit.Infra("session goroutines of an earlier case are still alive: %d\n%s", len(left), strings.Join(left, "\n\n"))
	}
	h := &handler{state: map[*stcp.Session]*sessRun{}}
	mgr := stcp.NewSessionMgr(h, stcp.WithReadTimeout(longTO), stcp.WithWriteTimeout(W))
	before := mgr.ConnCount()
	srv, cli, err := connPair(c.Transport, true)
	if err != nil {
		vkit.Infra("cannot create a %s connection pair: %v", c.Transport, err)
	}
	if tc, ok := srv.(*net.TCPConn); ok {
		// a small send buffer too: a wave of 64 KiB payloads then really waits for the reader
		_ = tc.SetWriteBuffer(16 << 10)
	}
	fl := newFlags()
	r := &sessRun{conn: newConn(srv, false, c.Transport != "tcp", fl, 0), peer: cli, exited: make(chan struct{}), peerDone: make(chan struct{})}
	r.spec.PeerReads = true
	if c.Transport == "tcp" {
		r.sess = stcp.NewSession(mgr, srv)
	} else {
		r.sess = stcp.NewSession(mgr, r.conn)
	}
	h.mu.Lock()
	h.state[r.sess] = r
	h.mu.Unlock()
	defer func() {
		r.localClose(200 * time.Millisecond)
		r.peer.Close()
		r.conn.Conn.Close()
		waitFor(func() bool { return len(sessionGoroutines()) == 0 }, patience)
		afterCase(res)
	}()
	r.sess.Start()
	r.started.Store(true)

	// the peer reads wave by wave, each time when the harness says so; the last wave is read to the end
	resume := make(chan int)        // number of bytes to read; -1: to the end
	waveRead := make(chan error, 8) // a wave was read completely
	var firstByteNs atomic.Int64    // when the first read after a resume returned
	var maxDripStallNs atomic.Int64 // drip mode: the longest single pause+read of the peer
	go func() {
		defer close(r.peerDone)
		for n := range resume {
			var one [1]byte
			k, err := io.ReadFull(r.peer, one[:])
			firstByteNs.Store(time.Now().UnixNano())
			r.peerGot.Write(one[:k])
			if err == nil && n > 0 {
				_, err = io.CopyN(&r.peerGot, r.peer, int64(n-1))
			} else if err == nil && c.DripMs > 0 && c.DripMs <= 200 {
				piece := make([]byte, 16<<10)
				for err == nil {
					t0 := time.Now()
					time.Sleep(time.Duration(c.DripMs) * time.Millisecond)
					var m int
					m, err = r.peer.Read(piece)
					r.peerGot.Write(piece[:m])
					if d := time.Since(t0); d > time.Duration(maxDripStallNs.Load()) {
						maxDripStallNs.Store(int64(d))
					}
				}
				if err == io.EOF {
					err = nil
				}
			} else if err == nil {
				_, err = io.Copy(&r.peerGot, r.peer)
			}
			if n < 0 {
				r.peerErr = err
				return
			}
			waveRead <- err
			if err != nil {
				r.peerErr = err
				return
			}
		}
	}()
	defer close(resume)

	straddle, noisy := false, false
	var lastWrite time.Time // when the previous wave was handed to Send (its writes start then, a deadline is armed then)
	idx := 0
	for wi, w := range c.Waves {
		last := wi == len(c.Waves)-1
		if wi > 0 {
			time.Sleep(share(w.GapPct))
		}
		n := 0
		sent := time.Now()
		for _, sz := range w.Sizes {
			p := payload(0, idx, sz)
			idx++
			if err := r.sess.Send(p); err != nil {
				// nothing but the session itself can have ended it: its write failed although the peer reads within the timeout
				return res.Failf("flush-before-close/paced", "wave %d: Send of %d bytes was refused (%v) although nothing ended the session; the peer has %d of %d bytes", wi, sz, err, r.peerGot.Len(), total)
			}
			r.accepted = append(r.accepted, p)
			n += sz
		}
		if last {
			r.localClose(patience)
		}
		time.Sleep(share(w.PausePct))
		if wi > 0 && sent.Sub(lastWrite) < W && time.Since(lastWrite) > W && w.PausePct > 0 {
			// this wave's writes were blocked while a deadline armed W after the previous wave's writes passed
			straddle = true
		}
		lastWrite = sent
		if last {
			resume <- -1
			if f, ok := waitIntact(res, fl, []*sessRun{r}, r.peerDone, allTimersFired); f != nil {
				return f
			} else if !ok {
				return res.Failf("peer-sees-no-end", "the session was closed locally after the last wave but the reading peer never saw EOF or an error")
			}
		} else {
			resume <- n
			select {
			case err := <-waveRead:
				if err != nil {
					if stall := time.Duration(firstByteNs.Load() - sent.UnixNano()); stall > W*8/10 {
						noisy = true
						break
					}
					return res.Failf("flush-before-close/paced", "wave %d (%d bytes, sent %v after the previous one, peer paused %v, write timeout %v): the peer's read ended with %v after %d of the %d bytes accepted so far - the session gave up on a peer that reads within the write timeout",
						wi, n, share(w.GapPct), share(w.PausePct), W, err, r.peerGot.Len(), accLen(r))
				}
			case <-time.After(allTimersFired):
				return res.Failf("flush-before-close/paced", "wave %d: the peer reads, yet %d of the %d accepted bytes never arrive and the connection stays open", wi, accLen(r)-r.peerGot.Len(), accLen(r))
			}
		}
		if stall := time.Duration(firstByteNs.Load() - sent.UnixNano()); stall > W*8/10 {
			noisy = true
		}
		if noisy {
			break
		}
	}
	if d := time.Duration(maxDripStallNs.Load()); d > W/2 {
		noisy = true // one single piece took the peer more than half a write timeout: a starved machine
	}
	if c.DripMs > 0 {
		res.Class("backlog-drained-slower-than-one-write-timeout")
	}
	if noisy {
		// the machine stalled the harness for nearly a whole write timeout: the write timeout may legitimately have fired
		res.Skip("timing-noise")
		return res
	}
	res.NonTrivial = straddle
	if straddle {
		res.Class("blocked-write-straddles-an-earlier-deadline")
	}
	res.Class(fmt.Sprintf("waves-%d", len(c.Waves)))
	select {
	case <-r.exited:
	case <-time.After(allTimersFired):
		return res.Failf("session-never-ends", "local Close after the last wave, the peer read to the end, every deadline has fired, yet no OnExit; session goroutines:\n%s", strings.Join(sessionGoroutines(), "\n\n"))
	}
	if !waitFor(func() bool { return len(sessionGoroutines()) == 0 }, allTimersFired) {
		return res.Failf("loops-not-stopped", "the session exited but goroutines stay in the session loops:\n%s", strings.Join(sessionGoroutines(), "\n\n"))
	}
	if n := r.exits.Load(); n != 1 {
		return res.Failf("exit-callback-count", "OnExit ran %d times", n)
	}
	if got := mgr.ConnCount(); got != before {
		return res.Failf("count-not-restored", "ConnCount is %d after the session ended, was %d before", got, before)
	}
	got, want := r.peerGot.Bytes(), bytes.Join(r.accepted, nil)
	if !bytes.HasPrefix(want, got) {
		return res.Failf("bytes-corrupted", "the peer received %d bytes that are not a prefix of the %d accepted bytes", len(got), len(want))
	}
	if f := fl.failed(res); f != nil {
		return f
	}
	if !bytes.Equal(got, want) {
		return res.Failf("flush-before-close/paced", "only a local Close ended the session and the peer read on within the write timeout (%v) after every wave, but it received %d of the %d bytes accepted by Send (its read ended with: %v)", W, len(got), len(want), r.peerErr)
	}
	return res
}

func accLen(r *sessRun) int {
	n := 0
	for _, p := range r.accepted {
		n += len(p)
	}
	return n
}

var PartPaced = &vkit.Part[CasePaced]{
	Property: Property, Name: "paced-sends",
	Rule:  "rapid: {net.Pipe | loopback TCP with 16 KiB socket buffers} x write timeout W {1.2 s, 1.6 s} x 2-3 waves of sends (1-3 small payloads or 4-16 payloads of 64 KiB); before a wave 10-80% of W passes, after it was handed to Send the peer pauses 0-45% of W and then reads the wave completely; local Close right after the last wave, the peer reads to the end. Oracle: every Send is accepted, the peer receives exactly the accepted bytes in order, OnExit once, loops stopped, ConnCount restored. A case in which the peer's first read after a wave came later than 80% of W (starved machine) is inconclusive and skipped. Non-trivial: some wave's writes were blocked across the moment W after the previous wave's writes; distinct = distinct case JSON",
	Quick: 8, Thorough: 24,
	Gen: GenPaced, Exec: ExecPaced,
}
